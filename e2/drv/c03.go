package drv

import (
	"encoding/json"
	"fmt"
	"net/http"
	"reflect"
	"sort"
	"strings"

	"verif/e2/spec"
)

func init() { RegisterMode("C03", runC03) }

// ResponseLayout computes where each result attribute travels for the given response.
func ResponseLayout(sp *spec.Spec, m *spec.Method, resp *spec.Resp) *Layout {
	l := &Layout{BodyKind: "none"}
	if m.Result == nil {
		return l
	}
	e := sp.Eff(m.Result)
	if e.K != spec.KObject {
		l.Whole = true
		p := &Place{Attr: "", T: m.Result, Req: "required", Loc: spec.LocBody}
		if resp != nil && len(resp.Headers) == 1 {
			p.Loc, p.Wire = spec.LocHeader, resp.Headers[0].Wire
		} else {
			l.BodyKind = "attr"
		}
		l.Places = []*Place{p}
		return l
	}
	for _, a := range e.Attrs {
		p := &Place{Attr: a.Name, T: a.T, A: a, Req: reqClass(e, a), Loc: spec.LocBody, Wire: a.Name}
		if resp != nil {
			for _, h := range resp.Headers {
				if h.Attr == a.Name {
					p.Loc, p.Wire = spec.LocHeader, h.Wire
				}
			}
			for _, h := range resp.Cookies {
				if h.Attr == a.Name {
					p.Loc, p.Wire = spec.LocCookie, h.Wire
				}
			}
		}
		if p.Wire == "" {
			p.Wire = a.Name
		}
		if p.Loc == spec.LocBody {
			switch {
			case resp != nil && resp.Body == "empty":
				p.Loc = "dropped"
			case resp != nil && resp.Body == "attr:"+a.Name:
				l.BodyKind = "attr"
			case resp != nil && strings.HasPrefix(resp.Body, "attr:"):
				p.Loc = "dropped"
			default:
				if l.BodyKind == "none" {
					l.BodyKind = "object"
				}
			}
		}
		l.Places = append(l.Places, p)
	}
	return l
}

// successResponses returns the designed success responses (default: one 200, or 204 when
// there is no result).
func successResponses(m *spec.Method) []spec.Resp {
	var out []spec.Resp
	for _, r := range m.HTTP.Responses {
		if r.Error == "" {
			out = append(out, r)
		}
	}
	if len(out) == 0 {
		st := 200
		if m.Result == nil {
			st = 204
		}
		out = []spec.Resp{{Status: st}}
	}
	return out
}

// selectResponse is the reference for tag-based response selection: the first response whose
// tag attribute holds the tag value, otherwise the response without tag.
func selectResponse(m *spec.Method, result any) *spec.Resp {
	rs := successResponses(m)
	o, _ := result.(spec.Obj)
	for i := range rs {
		if t := rs[i].Tag; t != nil {
			if s, ok := o[t.Attr].(string); ok && s == t.Value {
				return &rs[i]
			}
		}
	}
	for i := range rs {
		if rs[i].Tag == nil {
			return &rs[i]
		}
	}
	return &rs[len(rs)-1]
}

func resultValues(s *Svc, m *spec.Method, l *Layout) []any {
	sp := s.Spec
	if l.Whole {
		return sp.Candidates(m.Result, l.Places[0].Loc, 0)
	}
	e := sp.Eff(m.Result)
	return sp.ObjectCandidates(e, func(attr string) string {
		if p := l.ByAttr(attr); p != nil && p.Loc != "dropped" {
			return p.Loc
		}
		return spec.LocBody
	}, 0)
}

// replyWith builds the stub reply returning result value v (and optionally a view / error).
func replyWith(s *Svc, m *spec.Method, v any, view string, err error, herr *error) func(string, []any) []any {
	return func(method string, args []any) []any {
		n := s.NumResults(m.Name)
		out := make([]any, n)
		if err != nil {
			out[n-1] = err
			return out
		}
		if rt := s.ResultType(m.Name); rt != nil && m.Result != nil && n >= 2 {
			rv, e := s.V.New(rt, m.Result, v)
			if e != nil {
				*herr = e
				return out
			}
			out[0] = rv.Interface()
		}
		if n == 3 {
			out[1] = view
		}
		return out
	}
}

func runC03(s *Svc, m *spec.Method, tier string) *MethodResult {
	r := &MethodResult{}
	if m.HTTP == nil || m.Result == nil {
		r.Skipped = "no HTTP result"
		return r
	}
	if m.StreamPayload != nil || m.StreamResult != nil || m.HTTP.SkipResp {
		r.Skipped = "streaming/skip-encode endpoints are not driven by C03 in this revision"
		return r
	}
	if s.NumResults(m.Name) == 3 {
		r.Skipped = "viewed results are covered by C08"
		return r
	}
	sp := s.Spec
	first := successResponses(m)[0]
	l := ResponseLayout(sp, m, &first)
	for _, v := range resultValues(s, m, l) {
		if v == nil || len(sp.Check(m.Result, v, "result")) > 0 {
			continue
		}
		if emptyRequiredOutsideBody(l, v) {
			r.note("excluded_required_empty_collection_outside_body", 1)
			continue
		}
		r.Cases++
		r.Nontrivial++
		c03One(s, m, v, r, true)
	}
	return r
}

// minimalResult returns a plain valid result value for the method (nil when it has none).
func minimalResult(s *Svc, m *spec.Method) any {
	if m.Result == nil {
		return nil
	}
	sp := s.Spec
	first := successResponses(m)[0]
	l := ResponseLayout(sp, m, &first)
	var fallback any
	for _, v := range resultValues(s, m, l) {
		if v == nil || len(sp.Check(m.Result, v, "")) > 0 || emptyRequiredOutsideBody(l, v) {
			continue
		}
		if fallback == nil {
			fallback = v
		}
		plain := true
		if o, ok := v.(spec.Obj); ok {
			for _, p := range l.Places {
				if o[p.Attr] == nil {
					plain = false
				}
				if sv, ok := o[p.Attr].(string); ok && stringClass(sv) != "plain" {
					plain = false
				}
			}
		}
		if plain {
			return v
		}
	}
	return fallback
}

func minimalPayload(s *Svc, m *spec.Method) any {
	if m.Payload == nil {
		return nil
	}
	sp := s.Spec
	l := RequestLayout(sp, s.Service, m)
	for _, v := range payloadValues(s, m, l) {
		if v != nil && len(sp.Check(m.Payload, v, "")) == 0 && sendable(l, v) && !emptyRequiredOutsideBody(l, v) {
			plain := true
			if o, ok := v.(spec.Obj); ok {
				for _, x := range o {
					if sv, ok := x.(string); ok && stringClass(sv) != "plain" {
						plain = false
					}
				}
			}
			if plain {
				return v
			}
		}
	}
	return nil
}

func c03One(s *Svc, m *spec.Method, v any, r *MethodResult, report bool) []string {
	sp := s.Spec
	var herr error
	call, _, res, err, herr2 := exchange(s, m, minimalPayload(s, m), replyWith(s, m, v, "", nil, &herr))
	if report {
		r.Execs++
	}
	if herr == nil {
		herr = herr2
	}
	if herr != nil {
		if report {
			r.HarnessErr = append(r.HarnessErr, "c03: "+herr.Error())
		}
		return nil
	}
	var sigs []string
	resp := selectResponse(m, v)
	l := ResponseLayout(sp, m, resp)
	fail := func(sig, what string) {
		sigs = append(sigs, sig)
		if report {
			cs := map[string]any{"design": s.Design, "service": s.Service.Name, "method": m.Name, "result": spec.JSONable(v)}
			if call.Rec != nil {
				cs["status"] = call.Rec.Code
				cs["response_headers"] = call.Rec.Header()
				cs["response_body"] = truncate(call.Rec.Body.String(), 400)
			}
			r.violation(sig, what, cs, func() []string { return c03One(s, m, v, r, false) })
		}
	}
	feat := func(p *Place, val any) string {
		if p == nil {
			return "attr=none"
		}
		ct := ""
		if c := m.Feat["content-type"]; c != "" {
			ct = " ct=" + c
		}
		if f := m.Feat["feature"]; f != "" && ct == "" {
			ct = " feature=" + f
		}
		return fmt.Sprintf("loc=%s type=%s req=%s value=%s%s", p.Loc, typeClass(sp, p.T), p.Req, valueClass(val), ct)
	}
	if call.ServerPanic != "" {
		sh := ""
		if f := m.Feat["shapes"]; f != "" {
			sh = "shapes=" + f + " "
		}
		fail("C03 server-panic "+sh+panicSite(call.ServerPanic), "server handler panicked: "+call.ServerPanic)
		return sigs
	}
	if call.Invoked != 1 {
		if report {
			r.outcome("request-not-delivered")
			r.note("request_not_delivered_cases_(C02_matter)", 1)
		}
		return sigs
	}
	if call.WriteHeaders != 1 {
		fail(fmt.Sprintf("C03 write-header-count n=%d", call.WriteHeaders), fmt.Sprintf("%d WriteHeader calls for one response", call.WriteHeaders))
	}
	status := call.Rec.Code
	if status != resp.Status {
		tagc := "untagged"
		if resp.Tag != nil {
			tagc = "tagged"
		}
		fail(fmt.Sprintf("C03 status expected=%d-%s observed=%d", resp.Status, tagc, status),
			fmt.Sprintf("result %s must be sent with status %d, got %d", spec.Canon(v), resp.Status, status))
		return sigs
	}
	sentN := v
	if rt := s.ResultType(m.Name); rt != nil {
		if rv, e := s.V.New(rt, m.Result, v); e == nil {
			sentN = s.V.Get(rv, m.Result)
		}
	}
	if err != nil {
		p, pv := blameWith(s, l, v, sentN, func(alt any) bool { return resultArrives(s, m, alt) })
		if _, ok := pv.(compound); ok {
			if report {
				r.outcome("client-error compound-of-single-failures")
				r.note("compound_failures_not_reported_twice", 1)
			}
			return sigs
		}
		if report {
			r.outcome("client-error")
		}
		fail(fmt.Sprintf("C03 client-error %s error=%s", feat(p, pv), errClass(err)),
			fmt.Sprintf("client returned an error for valid result %s: %v (status %d, body %s)", spec.Canon(sentN), err, status, truncate(call.Rec.Body.String(), 200)))
		return sigs
	}
	// expected value: attributes the response does not carry are dropped
	expect := sentN
	if o, ok := sentN.(spec.Obj); ok {
		e2 := spec.Obj{}
		for k, x := range o {
			if p := l.ByAttr(k); p != nil && p.Loc == "dropped" {
				continue
			}
			e2[k] = x
		}
		expect = e2
	}
	gotN := s.V.Get(reflect.ValueOf(res), m.Result)
	if d := resultDiff(sp, m.Result, l, expect, gotN); d != nil {
		var p *Place
		if l.Whole {
			p = l.Places[0]
		} else {
			top := strings.SplitN(strings.TrimPrefix(d.Path, "result."), ".", 2)[0]
			top = strings.SplitN(top, "[", 2)[0]
			p = l.ByAttr(top)
		}
		if report {
			r.outcome("result-different")
		}
		fail(fmt.Sprintf("C03 value-changed %s observed=%s", feat(p, d.Sent), valueClass(d.Recv)),
			fmt.Sprintf("%s: %s (service returned %s, client got %s)", d.Path, d.Why, spec.Canon(sentN), spec.Canon(gotN)))
		return sigs
	}
	if report {
		r.outcome(fmt.Sprintf("result-equal status=%d", status))
	}
	for _, lf := range checkResponseLocations(s, m, l, sentN, call) {
		var pv any
		if lf.place != nil {
			if o, ok := sentN.(spec.Obj); ok {
				pv = o[lf.place.Attr]
			} else {
				pv = sentN
			}
		}
		fail(fmt.Sprintf("C03 location %s observed=%s", feat(lf.place, pv), lf.kind), lf.what)
	}
	if report && r.Cases%7 == 1 {
		r.sample(map[string]any{"result": spec.JSONable(sentN), "status": status, "headers": call.Rec.Header(), "body": truncate(call.Rec.Body.String(), 120)})
	}
	return sigs
}

// resultArrives reports whether result v returned by the service reaches the client intact.
func resultArrives(s *Svc, m *spec.Method, v any) bool {
	var herr error
	call, _, res, err, herr2 := exchange(s, m, minimalPayload(s, m), replyWith(s, m, v, "", nil, &herr))
	if herr != nil || herr2 != nil || err != nil || call.ServerPanic != "" || call.Invoked != 1 {
		return false
	}
	resp := selectResponse(m, v)
	l := ResponseLayout(s.Spec, m, resp)
	sentN := v
	if rt := s.ResultType(m.Name); rt != nil {
		if rv, e := s.V.New(rt, m.Result, v); e == nil {
			sentN = s.V.Get(rv, m.Result)
		}
	}
	return resultDiff(s.Spec, m.Result, l, sentN, s.V.Get(reflect.ValueOf(res), m.Result)) == nil
}

// resultDiff compares with the dropped attributes removed on both sides.
func resultDiff(sp *spec.Spec, t *spec.Type, l *Layout, expect, got any) *Diff {
	if o, ok := got.(spec.Obj); ok && !l.Whole {
		g2 := spec.Obj{}
		for k, x := range o {
			g2[k] = x
		}
		got = g2
	}
	d := EqualBody(sp, t, nil, expect, got, "result", bodyAttrOf(l))
	if d != nil && !l.Whole {
		// an attribute the response does not carry is unset on the client; its default (if
		// any) may be injected: both are accepted
		top := strings.SplitN(strings.TrimPrefix(d.Path, "result."), ".", 2)[0]
		if p := l.ByAttr(top); p != nil && p.Loc == "dropped" {
			return nil
		}
	}
	return d
}

func errClass(err error) string {
	s := err.Error()
	for _, k := range []string{"missing_field", "invalid_field_type", "invalid_format", "invalid_length", "invalid_range", "invalid_pattern", "invalid_enum_value", "invalid response code", "decode", "unmarshal", "parse"} {
		if strings.Contains(s, k) {
			return strings.ReplaceAll(k, " ", "-")
		}
	}
	switch {
	case strings.Contains(s, "is missing from"):
		return "missing_field"
	case strings.Contains(s, "invalid value"):
		return "invalid_field_type"
	}
	if n, ok := err.(interface{ GoaErrorName() string }); ok {
		return "named-" + n.GoaErrorName()
	}
	return "other"
}

func checkResponseLocations(s *Svc, m *spec.Method, l *Layout, sent any, call *Call) []locFail {
	var out []locFail
	sp := s.Spec
	hdr := call.Rec.Header()
	resp := &http.Response{Header: hdr}
	cookies := resp.Cookies()
	var bodyAny any
	var bodyObj map[string]any
	bodyIsJSON := strings.Contains(hdr.Get("Content-Type"), "json") || hdr.Get("Content-Type") == ""
	if call.Rec.Body.Len() > 0 && bodyIsJSON {
		dec := json.NewDecoder(strings.NewReader(call.Rec.Body.String()))
		dec.UseNumber()
		if err := dec.Decode(&bodyAny); err == nil {
			bodyObj, _ = bodyAny.(map[string]any)
		}
	}
	get := func(p *Place) any {
		if l.Whole {
			return sent
		}
		if o, ok := sent.(spec.Obj); ok {
			return o[p.Attr]
		}
		return nil
	}
	bodyAttrs := map[string]bool{}
	for _, p := range l.Places {
		v := get(p)
		e := sp.Eff(p.T)
		switch p.Loc {
		case spec.LocHeader:
			vals := hdr.Values(p.Wire)
			if unsetLike(v) {
				if len(vals) > 0 && strings.Join(vals, "") != "" && !p.A.HasDefaultSafe() {
					out = append(out, locFail{p, "header-present-for-unset", fmt.Sprintf("header %s=%v for an unset attribute", p.Wire, vals)})
				}
				continue
			}
			if len(vals) == 0 {
				if sv, ok := v.(string); ok && sv == "" {
					continue
				}
				out = append(out, locFail{p, "header-missing", fmt.Sprintf("response lacks header %s", p.Wire)})
				continue
			}
			if f := cmpWireResp(sp, p, e, v, vals); f != "" {
				out = append(out, locFail{p, "header-value-" + f, fmt.Sprintf("header %s=%v does not carry %s", p.Wire, vals, spec.Canon(v))})
			}
		case spec.LocCookie:
			var ck *http.Cookie
			for _, c := range cookies {
				if c.Name == p.Wire {
					ck = c
				}
			}
			if unsetLike(v) {
				if ck != nil && ck.Value != "" && !p.A.HasDefaultSafe() {
					out = append(out, locFail{p, "cookie-present-for-unset", "cookie set for an unset attribute"})
				}
				continue
			}
			if ck == nil {
				if sv, ok := v.(string); ok && sv == "" {
					continue
				}
				out = append(out, locFail{p, "cookie-missing", fmt.Sprintf("response lacks cookie %s (Set-Cookie: %v)", p.Wire, hdr.Values("Set-Cookie"))})
				continue
			}
			if f := cmpWire(sp, p, e, v, []string{ck.Value}, true); f != "" {
				out = append(out, locFail{p, "cookie-value-" + f, fmt.Sprintf("cookie %s=%q does not carry %s", p.Wire, ck.Value, spec.Canon(v))})
			}
		case spec.LocBody:
			bodyAttrs[p.Wire] = true
			if !bodyIsJSON {
				continue // XML / gob / text bodies: the value equality oracle decides
			}
			if l.BodyKind == "attr" {
				if !unsetLike(v) && !jsonCarries(sp, p.T, v, bodyAny) {
					out = append(out, locFail{p, "body-value-mismatch", fmt.Sprintf("body %s does not carry %s", truncate(call.Rec.Body.String(), 200), spec.Canon(v))})
				}
				continue
			}
			bv, present := bodyObj[p.Wire]
			if unsetLike(v) {
				if present && bv != nil && !isEmptyJSON(bv) && !p.A.HasDefaultSafe() {
					out = append(out, locFail{p, "body-present-for-unset", fmt.Sprintf("body has key %s for an unset attribute", p.Wire)})
				}
				continue
			}
			if !present {
				out = append(out, locFail{p, "body-key-missing", fmt.Sprintf("body %s lacks key %s", truncate(call.Rec.Body.String(), 200), p.Wire)})
				continue
			}
			if !jsonCarries(sp, p.T, v, bv) && !(p.A.HasDefaultSafe() && isZeroPrim(v) && jsonCarries(sp, p.T, DefaultNeutral(sp, p.T, p.A.Default), bv)) {
				out = append(out, locFail{p, "body-value-mismatch", fmt.Sprintf("body key %s=%v does not carry %s", p.Wire, bv, spec.Canon(v))})
			}
		}
	}
	if l.BodyKind == "object" || l.BodyKind == "none" {
		var extra []string
		for k := range bodyObj {
			if !bodyAttrs[k] {
				extra = append(extra, k)
			}
		}
		sort.Strings(extra)
		if len(extra) > 0 {
			out = append(out, locFail{nil, "body-undesigned-key", fmt.Sprintf("response body carries undesigned keys %v", extra)})
		}
	}
	return out
}

// cmpWireResp: response headers carry arrays joined with ", ".
func cmpWireResp(sp *spec.Spec, p *Place, e spec.Eff, v any, texts []string) string {
	if e.K == spec.KArray && len(texts) == 1 {
		parts := strings.Split(texts[0], ",")
		for i := range parts {
			parts[i] = strings.TrimPrefix(parts[i], " ")
		}
		return cmpWire(sp, p, e, v, parts, false)
	}
	return cmpWire(sp, p, e, v, texts, true)
}

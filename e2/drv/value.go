// Package drv is the generic driver of engine E2. It is linked, together with the packages
// goa generated for a family of designs, into one binary; it builds payloads/results in the
// generated struct types by reflection from neutral values, drives the generated client
// against the generated server over an in-memory HTTP wire, and applies the oracles.
package drv

import (
	"fmt"
	"reflect"
	"strings"

	"verif/e2/spec"
)

func norm(s string) string {
	s = strings.ToLower(s)
	s = strings.ReplaceAll(s, "_", "")
	s = strings.ReplaceAll(s, "-", "")
	return s
}

// fieldByAttr finds the struct field generated for a design attribute name. Attribute names
// of executed families are chosen so that the normalised names are unambiguous.
func fieldByAttr(rv reflect.Value, attr string) (reflect.Value, bool) {
	t := rv.Type()
	want := norm(attr)
	for i := 0; i < t.NumField(); i++ {
		if norm(t.Field(i).Name) == want && t.Field(i).IsExported() {
			return rv.Field(i), true
		}
	}
	return reflect.Value{}, false
}

// V converts between neutral values and generated Go types for one Spec. Types (optional) looks
// up a generated service-package type by normalised name; it is needed for OneOf unions, whose
// Go form is an interface-typed field holding one of the generated alternative types.
type V struct {
	S     *spec.Spec
	Types func(name string) reflect.Type
}

// Set stores neutral value v (of design type t) into the settable rv.
func (c V) Set(rv reflect.Value, t *spec.Type, v any) error {
	if v == nil {
		return nil
	}
	switch rv.Kind() {
	case reflect.Ptr:
		p := reflect.New(rv.Type().Elem())
		if err := c.Set(p.Elem(), t, v); err != nil {
			return err
		}
		rv.Set(p)
		return nil
	case reflect.Interface:
		rv.Set(reflect.ValueOf(native(v)))
		return nil
	}
	e := c.S.Eff(t)
	switch x := v.(type) {
	case bool:
		if rv.Kind() != reflect.Bool {
			return fmt.Errorf("cannot set bool into %s", rv.Type())
		}
		rv.SetBool(x)
	case int64:
		switch rv.Kind() {
		case reflect.Int, reflect.Int8, reflect.Int16, reflect.Int32, reflect.Int64:
			rv.SetInt(x)
		case reflect.Uint, reflect.Uint8, reflect.Uint16, reflect.Uint32, reflect.Uint64:
			rv.SetUint(uint64(x))
		case reflect.Float32, reflect.Float64:
			rv.SetFloat(float64(x))
		default:
			return fmt.Errorf("cannot set int into %s", rv.Type())
		}
	case uint64:
		switch rv.Kind() {
		case reflect.Uint, reflect.Uint8, reflect.Uint16, reflect.Uint32, reflect.Uint64:
			rv.SetUint(x)
		case reflect.Int, reflect.Int8, reflect.Int16, reflect.Int32, reflect.Int64:
			rv.SetInt(int64(x))
		default:
			return fmt.Errorf("cannot set uint into %s", rv.Type())
		}
	case float64:
		switch rv.Kind() {
		case reflect.Float32, reflect.Float64:
			rv.SetFloat(x)
		default:
			return fmt.Errorf("cannot set float into %s", rv.Type())
		}
	case string:
		if rv.Kind() != reflect.String {
			return fmt.Errorf("cannot set string into %s", rv.Type())
		}
		rv.SetString(x)
	case []byte:
		if rv.Kind() != reflect.Slice || rv.Type().Elem().Kind() != reflect.Uint8 {
			return fmt.Errorf("cannot set bytes into %s", rv.Type())
		}
		rv.SetBytes(append([]byte{}, x...))
	case spec.Arr:
		if rv.Kind() != reflect.Slice {
			return fmt.Errorf("cannot set array into %s", rv.Type())
		}
		sl := reflect.MakeSlice(rv.Type(), len(x), len(x))
		for i, el := range x {
			if err := c.Set(sl.Index(i), e.Elem, el); err != nil {
				return err
			}
		}
		rv.Set(sl)
	case spec.MapV:
		if rv.Kind() != reflect.Map {
			return fmt.Errorf("cannot set map into %s", rv.Type())
		}
		m := reflect.MakeMapWithSize(rv.Type(), len(x))
		for _, kv := range x {
			k := reflect.New(rv.Type().Key()).Elem()
			if err := c.Set(k, e.Key, kv.K); err != nil {
				return err
			}
			el := reflect.New(rv.Type().Elem()).Elem()
			if err := c.Set(el, e.Elem, kv.V); err != nil {
				return err
			}
			m.SetMapIndex(k, el)
		}
		rv.Set(m)
	case spec.Obj:
		if rv.Kind() != reflect.Struct {
			return fmt.Errorf("cannot set object into %s", rv.Type())
		}
		for _, a := range e.Attrs {
			av, ok := x[a.Name]
			if !ok || av == nil {
				continue
			}
			f, ok := fieldByAttr(rv, a.Name)
			if !ok {
				return fmt.Errorf("no field for attribute %q in %s", a.Name, rv.Type())
			}
			if a.T.K == spec.KUnion {
				if err := c.setUnion(f, a.Name, a.T, av); err != nil {
					return err
				}
				continue
			}
			if err := c.Set(f, a.T, av); err != nil {
				return fmt.Errorf("%s: %w", a.Name, err)
			}
		}
	default:
		return fmt.Errorf("unsupported neutral value %T", v)
	}
	return nil
}

// New allocates a value of type rt (pointer types get a fresh pointee) holding v.
func (c V) New(rt reflect.Type, t *spec.Type, v any) (reflect.Value, error) {
	rv := reflect.New(rt).Elem()
	if v == nil {
		return rv, nil
	}
	err := c.Set(rv, t, v)
	return rv, err
}

// Get reads rv (of design type t) back into a neutral value.
func (c V) Get(rv reflect.Value, t *spec.Type) any {
	if !rv.IsValid() {
		return nil
	}
	switch rv.Kind() {
	case reflect.Ptr:
		if rv.IsNil() {
			return nil
		}
		return c.Get(rv.Elem(), t)
	case reflect.Interface:
		if rv.IsNil() {
			return nil
		}
		if t != nil && t.K != spec.KAny {
			return c.Get(rv.Elem(), t)
		}
		return fromNative(rv.Interface())
	case reflect.Bool:
		return rv.Bool()
	case reflect.Int, reflect.Int8, reflect.Int16, reflect.Int32, reflect.Int64:
		return rv.Int()
	case reflect.Uint, reflect.Uint8, reflect.Uint16, reflect.Uint32, reflect.Uint64:
		return rv.Uint()
	case reflect.Float32, reflect.Float64:
		return rv.Float()
	case reflect.String:
		return rv.String()
	}
	var e spec.Eff
	if t != nil {
		e = c.S.Eff(t)
	}
	switch rv.Kind() {
	case reflect.Slice:
		if rv.IsNil() {
			return nil
		}
		if rv.Type().Elem().Kind() == reflect.Uint8 {
			return append([]byte{}, rv.Bytes()...)
		}
		out := spec.Arr{}
		for i := 0; i < rv.Len(); i++ {
			out = append(out, c.Get(rv.Index(i), e.Elem))
		}
		return out
	case reflect.Map:
		if rv.IsNil() {
			return nil
		}
		out := spec.MapV{}
		it := rv.MapRange()
		for it.Next() {
			out = append(out, spec.KV{K: c.Get(it.Key(), e.Key), V: c.Get(it.Value(), e.Elem)})
		}
		return out
	case reflect.Struct:
		out := spec.Obj{}
		if t == nil {
			for i := 0; i < rv.NumField(); i++ {
				if rv.Type().Field(i).IsExported() {
					if v := c.Get(rv.Field(i), nil); v != nil {
						out[rv.Type().Field(i).Name] = v
					}
				}
			}
			return out
		}
		for _, a := range e.Attrs {
			f, ok := fieldByAttr(rv, a.Name)
			if !ok {
				continue
			}
			if a.T.K == spec.KUnion {
				if v := c.getUnion(f, a.Name, a.T); v != nil {
					out[a.Name] = v
				}
				continue
			}
			if v := c.Get(f, a.T); v != nil {
				out[a.Name] = v
			}
		}
		return out
	}
	return fmt.Sprintf("?%s", rv.Type())
}

func native(v any) any {
	switch x := v.(type) {
	case spec.Arr:
		out := make([]any, len(x))
		for i, e := range x {
			out[i] = native(e)
		}
		return out
	case spec.MapV:
		out := map[string]any{}
		for _, kv := range x {
			out[fmt.Sprint(native(kv.K))] = native(kv.V)
		}
		return out
	case spec.Obj:
		out := map[string]any{}
		for k, e := range x {
			out[k] = native(e)
		}
		return out
	case int64:
		return float64(x)
	case uint64:
		return float64(x)
	}
	return v
}

func fromNative(v any) any {
	switch x := v.(type) {
	case nil:
		return nil
	case []any:
		out := spec.Arr{}
		for _, e := range x {
			out = append(out, fromNative(e))
		}
		return out
	case map[string]any:
		out := spec.Obj{}
		for k, e := range x {
			out[k] = fromNative(e)
		}
		return out
	case int:
		return float64(x)
	case int64:
		return float64(x)
	case float32:
		return float64(x)
	case bool, string, float64, []byte:
		return x
	}
	return fmt.Sprintf("?%T", v)
}

package drv

import (
	"fmt"
	"reflect"
	"strings"

	"google.golang.org/grpc/codes"
	"google.golang.org/grpc/status"

	"verif/e2/spec"
)

// C10 — gRPC messages round-trip payloads and results; invalid messages are rejected before
// user code. Oracle (from the statement only): a payload that satisfies the design, given to
// the generated gRPC client, arrives at the service method as an equal value (normalisations of
// equal.go); a result that satisfies the design, returned by the service method, arrives at the
// caller of the generated client as an equal value; a payload that violates a constraint of the
// design never reaches the service method and the client gets an error.
//
// Everything runs end to end: generated client -> grpc.ClientConn -> bufconn -> grpc.Server ->
// generated server -> generated endpoints -> stub.

func init() { RegisterMode("C10", runC10) }

// GPlace is the designed location of one attribute of a gRPC payload or result.
type GPlace struct {
	Attr  string
	Where string // spec.GMessage, GMetadata, GHeader, GTrailer
	Wire  string
	T     *spec.Type
	A     *spec.Attr
	Req   string
}

// GLayout is the designed partition of a payload (or result) over message and metadata.
type GLayout struct {
	Whole  bool
	Places []*GPlace
}

func (l *GLayout) byAttr(a string) *GPlace {
	for _, p := range l.Places {
		if p.Attr == a {
			return p
		}
	}
	return nil
}

func grpcLayout(sp *spec.Spec, t *spec.Type, streamed bool, maps map[string][]spec.Map) *GLayout {
	l := &GLayout{}
	if t == nil {
		return l
	}
	e := sp.Eff(t)
	if e.K != spec.KObject {
		l.Whole = true
		l.Places = []*GPlace{{Where: spec.GMessage, T: t, Req: "required"}}
		return l
	}
	for _, a := range e.Attrs {
		p := &GPlace{Attr: a.Name, Where: spec.GMessage, Wire: a.Name, T: a.T, A: a, Req: reqClass(e, a)}
		for where, ms := range maps {
			for _, mp := range ms {
				if mp.Attr == a.Name {
					p.Where = where
					if mp.Wire != "" {
						p.Wire = mp.Wire
					}
				}
			}
		}
		if streamed && p.Where == spec.GMessage {
			// with a streaming payload the (non-streamed) payload attributes travel as metadata
			p.Where = spec.GMetadata
		}
		if a.Sec != "" && a.Tag == 0 && p.Where == spec.GMessage {
			// a credential attribute without a field number: goa sends it as request metadata under
			// a key of its choice (Wire "": the key is not asserted)
			p.Where, p.Wire = spec.GMetadata, ""
		}
		l.Places = append(l.Places, p)
	}
	return l
}

func payloadGLayout(sp *spec.Spec, m *spec.Method) *GLayout {
	return grpcLayout(sp, m.Payload, m.StreamPayload != nil, map[string][]spec.Map{spec.GMetadata: m.GRPC.Metadata})
}

func resultGLayout(sp *spec.Spec, m *spec.Method) *GLayout {
	return grpcLayout(sp, m.Result, false, map[string][]spec.Map{spec.GHeader: m.GRPC.Headers, spec.GTrailer: m.GRPC.Trailers})
}

// metaCarriable reports whether gRPC metadata can carry the value: metadata values of keys
// without the "-bin" suffix are restricted to printable ASCII by the gRPC protocol.
func metaCarriable(v any) bool {
	switch x := v.(type) {
	case string:
		for i := 0; i < len(x); i++ {
			if x[i] < 0x20 || x[i] > 0x7e {
				return false
			}
		}
	case []byte:
		return metaCarriable(string(x))
	case spec.Arr:
		for _, e := range x {
			if !metaCarriable(e) {
				return false
			}
		}
	case spec.MapV:
		for _, kv := range x {
			if !metaCarriable(kv.K) || !metaCarriable(kv.V) {
				return false
			}
		}
	case spec.Obj:
		for _, e := range x {
			if !metaCarriable(e) {
				return false
			}
		}
	}
	return true
}

func carriable(l *GLayout, v any) bool {
	for _, p := range l.Places {
		if p.Where == spec.GMessage {
			continue
		}
		var pv any
		if l.Whole {
			pv = v
		} else if o, ok := v.(spec.Obj); ok {
			pv = o[p.Attr]
		}
		if !metaCarriable(pv) {
			return false
		}
		// a credential of the form "<scheme> <credentials>" loses its scheme prefix by design
		// (C06's subject): credential values containing white space are outside this alphabet
		if sv, ok := pv.(string); ok && p.A != nil && p.A.Sec != "" && strings.ContainsAny(sv, " \t") {
			return false
		}
	}
	return true
}

// unionValues enumerates the values of a union: every candidate of every alternative.
func unionValues(sp *spec.Spec, t *spec.Type, depth int) []any {
	var out []any
	for _, alt := range t.Attrs {
		for _, v := range sp.Candidates(alt.T, spec.LocBody, depth+1) {
			if v != nil {
				out = append(out, spec.Obj{alt.Name: v})
			}
		}
	}
	return out
}

// gCandidates is spec.Candidates plus, for arrays and maps, every candidate of the element type
// (and of the key type) once as a one-element collection: the shared menu builds collections from
// the first two valid elements only, so an element value such as a float with many significant
// digits, an extreme number or a string with special characters would otherwise never travel
// inside a collection.
func gCandidates(sp *spec.Spec, t *spec.Type, loc string, depth int) []any {
	out := sp.Candidates(t, loc, depth)
	e := sp.Eff(t)
	if e.K != spec.KArray && e.K != spec.KMap {
		return out
	}
	seen := map[string]bool{}
	for _, v := range out {
		seen[spec.Canon(v)] = true
	}
	add := func(v any) {
		if c := spec.Canon(v); !seen[c] {
			seen[c] = true
			out = append(out, v)
		}
	}
	firstValid := func(t *spec.Type, vals []any) (any, bool) {
		for _, v := range vals {
			if v != nil && len(sp.Check(t, v, "")) == 0 {
				return v, true
			}
		}
		return nil, false
	}
	switch e.K {
	case spec.KArray:
		for _, el := range sp.Candidates(e.Elem, loc, depth+1) {
			if el != nil {
				add(spec.Arr{el})
			}
		}
	case spec.KMap:
		keys := sp.Candidates(e.Key, spec.LocBody, depth+1)
		elems := sp.Candidates(e.Elem, spec.LocBody, depth+1)
		k0, okK := firstValid(e.Key, keys)
		e0, okE := firstValid(e.Elem, elems)
		if okK {
			for _, el := range elems {
				if el != nil {
					add(spec.MapV{{K: k0, V: el}})
				}
			}
		}
		if okE {
			for _, k := range keys {
				if k != nil {
					add(spec.MapV{{K: k, V: e0}})
				}
			}
		}
	}
	return out
}

// gValues enumerates candidate values of a payload/result type: the complete product over the
// attributes when it has at most spec.ProductCap elements, otherwise the star around the
// first valid value of every attribute.
func gValues(sp *spec.Spec, t *spec.Type, l *GLayout) []any {
	if t == nil {
		return []any{nil}
	}
	e := sp.Eff(t)
	if e.K != spec.KObject {
		return gCandidates(sp, t, spec.LocBody, 0)
	}
	type dom struct {
		name string
		t    *spec.Type
		vals []any
	}
	var doms []dom
	total := 1
	for _, a := range e.Attrs {
		var vals []any
		if a.T.K == spec.KUnion {
			vals = unionValues(sp, a.T, 0)
		} else {
			loc := spec.LocBody
			if p := l.byAttr(a.Name); p != nil && p.Where != spec.GMessage {
				loc = spec.LocHeader
			}
			vals = gCandidates(sp, a.T, loc, 1)
		}
		vals = append([]any{nil}, vals...)
		doms = append(doms, dom{a.Name, a.T, vals})
		if total <= spec.ProductCap {
			total *= len(vals)
		}
	}
	var out []any
	if total <= spec.ProductCap {
		idx := make([]int, len(doms))
		for {
			o := spec.Obj{}
			for i, d := range doms {
				if v := d.vals[idx[i]]; v != nil {
					o[d.name] = v
				}
			}
			out = append(out, o)
			i := len(idx) - 1
			for ; i >= 0; i-- {
				idx[i]++
				if idx[i] < len(doms[i].vals) {
					break
				}
				idx[i] = 0
			}
			if i < 0 {
				break
			}
		}
		return out
	}
	base := spec.Obj{}
	for _, d := range doms {
		for _, v := range d.vals {
			if v != nil && len(sp.Check(d.t, v, "")) == 0 && !unsetLike(v) {
				base[d.name] = v
				break
			}
		}
	}
	out = append(out, base)
	for _, d := range doms {
		for _, v := range d.vals {
			o := spec.Obj{}
			for k, bv := range base {
				o[k] = bv
			}
			if v == nil {
				delete(o, d.name)
			} else {
				o[d.name] = v
			}
			out = append(out, o)
		}
	}
	return out
}

// Signature features. Value-level signatures are built from the attribute-level features
// (placeFeat: location, type, requiredness, value class) plus the streaming kind, so that one
// root cause yields the same signature in every family; validation signatures add the keyword
// and position of the family (valid=, pos=).
func featOf(m *spec.Method, keys ...string) string {
	var parts []string
	for _, k := range keys {
		if v, ok := m.Feat[k]; ok {
			parts = append(parts, k+"="+v)
		}
	}
	return strings.Join(parts, " ")
}

func c10Feat(m *spec.Method) string {
	if f := featOf(m, "stream", "payload"); f != "" {
		return f
	}
	return "stream=unary"
}

func c10ValidFeat(m *spec.Method) string {
	if f := featOf(m, "valid", "pos"); f != "" {
		return c10Feat(m) + " " + f
	}
	return c10Feat(m)
}

// wideInt reports whether v holds, in an attribute of type Int (UInt), a number outside the
// 32-bit range. goa maps Int and UInt to 32-bit protocol buffer scalars; the G-types family
// exercises those values, the other families leave them out of their alphabet (counted in a
// note) so that this one mapping is not reported under every other feature.
func wideInt(sp *spec.Spec, t *spec.Type, v any) bool {
	if t == nil || v == nil {
		return false
	}
	if t.K == spec.KUnion {
		if o, ok := v.(spec.Obj); ok {
			for _, alt := range t.Attrs {
				if wideInt(sp, alt.T, o[alt.Name]) {
					return true
				}
			}
		}
		return false
	}
	e := sp.Eff(t)
	switch x := v.(type) {
	case int64:
		return e.K == spec.KInt && (x > 2147483647 || x < -2147483648)
	case uint64:
		return e.K == spec.KUInt && x > 4294967295
	case spec.Arr:
		for _, el := range x {
			if wideInt(sp, e.Elem, el) {
				return true
			}
		}
	case spec.MapV:
		for _, kv := range x {
			if wideInt(sp, e.Key, kv.K) || wideInt(sp, e.Elem, kv.V) {
				return true
			}
		}
	case spec.Obj:
		for _, a := range e.Attrs {
			if wideInt(sp, a.T, x[a.Name]) {
				return true
			}
		}
	}
	return false
}

func skipWide(m *spec.Method, sp *spec.Spec, t *spec.Type, v any) bool {
	return m.Feat["family"] != "G-types" && wideInt(sp, t, v)
}

func grpcCode(err error) string {
	if err == nil {
		return "none"
	}
	if st, ok := status.FromError(err); ok && st.Code() != codes.OK {
		return st.Code().String()
	}
	// goa's client wraps transport errors into goa.Fault / ServiceError: look for the code text
	s := err.Error()
	for c := codes.Canceled; c <= codes.Unauthenticated; c++ {
		if strings.Contains(s, "code = "+c.String()) {
			return c.String()
		}
	}
	if n, ok := err.(interface{ GoaErrorName() string }); ok {
		return "goa-" + n.GoaErrorName()
	}
	return "other"
}

// gExchange performs one unary call with payload value v; reply is what the stub answers.
func gExchange(g *GRPCSvc, m *spec.Method, v any, reply func(method string, args []any) []any) (call *Call, obs *GRPCObs, sentN any, res any, err error, herr error) {
	s := g.S
	call = &Call{Reply: reply}
	obs = &GRPCObs{}
	var payload any
	if pt := s.PayloadType(m.Name); pt != nil && m.Payload != nil {
		rv, e := g.NewValue(pt, m.Payload, v)
		if e != nil {
			return call, obs, nil, nil, nil, fmt.Errorf("cannot build payload: %w", e)
		}
		sentN = g.GetValue(rv, m.Payload)
		payload = rv.Interface()
	}
	res, err = g.Invoke(call, obs, m.Name, payload, nil)
	return call, obs, sentN, res, err, nil
}

func gReceivedPayload(g *GRPCSvc, m *spec.Method, call *Call) any {
	if m.Payload == nil || len(call.Args) < 2 {
		return nil
	}
	return g.GetValue(reflect.ValueOf(call.Args[1]), m.Payload)
}

// gReplyWith builds the stub reply returning result value v.
func gReplyWith(g *GRPCSvc, m *spec.Method, v any, herr *error) func(string, []any) []any {
	s := g.S
	return func(method string, args []any) []any {
		n := s.NumResults(m.Name)
		out := make([]any, n)
		if rt := s.ResultType(m.Name); rt != nil && m.Result != nil && n >= 2 {
			rv, e := g.NewValue(rt, m.Result, v)
			if e != nil {
				*herr = e
				return out
			}
			out[0] = rv.Interface()
		}
		return out
	}
}

// plainOf picks the plainest valid value among the candidates of t (for the side that is not
// being varied).
func plainOf(sp *spec.Spec, t *spec.Type, l *GLayout, vals []any) any {
	var fallback any
	for _, v := range vals {
		if v == nil || len(sp.Check(t, v, "")) > 0 || !carriable(l, v) || wideInt(sp, t, v) {
			continue
		}
		plain, complete := true, true
		if o, ok := v.(spec.Obj); ok {
			for _, p := range l.Places {
				x := o[p.Attr]
				if x == nil && p.T.K != spec.KUnion {
					complete = false
				}
				if sv, ok := x.(string); ok && stringClass(sv) != "plain" {
					plain = false
				}
				if unsetLike(x) && x != nil {
					plain = false
				}
			}
		} else if sv, ok := v.(string); ok && stringClass(sv) != "plain" {
			plain = false
		} else if unsetLike(v) {
			plain = false
		}
		if plain && complete {
			return v
		}
		if fallback == nil && complete {
			fallback = v
		}
	}
	return fallback
}

// variedPlace names the attribute a violation is attributed to: the attribute on the path of
// the difference when known, otherwise the attribute the family varies ("hh" next to a fixed
// "aa", else "aa", else the first).
func variedPlace(l *GLayout, path string) *GPlace {
	if l.Whole || len(l.Places) == 0 {
		if len(l.Places) > 0 {
			return l.Places[0]
		}
		return nil
	}
	if path != "" {
		top := path
		if i := strings.IndexByte(top, '.'); i >= 0 {
			top = top[i+1:]
		}
		top = strings.SplitN(top, ".", 2)[0]
		top = strings.SplitN(top, "[", 2)[0]
		if p := l.byAttr(top); p != nil {
			return p
		}
	}
	for _, n := range []string{"hh", "tt", "aa"} {
		if p := l.byAttr(n); p != nil {
			return p
		}
	}
	return l.Places[0]
}

func placeFeat(sp *spec.Spec, p *GPlace, val any) string {
	if p == nil {
		return "attr=none"
	}
	return fmt.Sprintf("at=%s attr-type=%s attr-req=%s value=%s", p.Where, typeClass(sp, p.T), p.Req, gValueClass(val))
}

// gValueClass is valueClass with one more class: a collection that contains an empty
// collection (protocol buffers cannot tell an empty inner list / map from an absent one).
func gValueClass(v any) string {
	inner := func(x any) bool {
		switch y := x.(type) {
		case spec.Arr:
			return len(y) == 0
		case spec.MapV:
			return len(y) == 0
		}
		return false
	}
	switch x := v.(type) {
	case spec.Arr:
		for _, e := range x {
			if inner(e) {
				return "nested-empty-collection"
			}
		}
	case spec.MapV:
		for _, kv := range x {
			if inner(kv.V) {
				return "nested-empty-collection"
			}
		}
	}
	return valueClass(v)
}

func attrOf(l *GLayout, p *GPlace, whole any) any {
	if p == nil {
		return nil
	}
	if l.Whole {
		return whole
	}
	if o, ok := whole.(spec.Obj); ok {
		return o[p.Attr]
	}
	return nil
}

// gAmbiguous extends ambiguousEmpty to payloads that are not objects: a required-by-position
// collection (the whole payload) that is empty, and validated collections that are unset.
func gAmbiguous(sp *spec.Spec, t *spec.Type, v any) bool {
	e := sp.Eff(t)
	coll := func(k string) bool { return k == spec.KArray || k == spec.KMap || k == spec.KBytes }
	if e.K == spec.KObject {
		if ambiguousEmpty(sp, t, v) {
			return true
		}
		// an unset (nil) collection with length / element validations is the same value as the
		// empty one, which the validations may reject: neither verdict is asserted
		if o, ok := v.(spec.Obj); ok {
			for _, a := range e.Attrs {
				ae := sp.Eff(a.T)
				if coll(ae.K) && unsetLike(o[a.Name]) && len(ae.Vs) > 0 {
					return true
				}
			}
		}
		return false
	}
	return coll(e.K) && unsetLike(v) && len(e.Vs) > 0
}

func issueRule(issues []spec.Issue) string {
	r := issueRules(issues)
	if len(r) == 0 {
		return "none"
	}
	return r[0]
}

func runC10(s *Svc, m *spec.Method, tier string) *MethodResult {
	r := &MethodResult{}
	if m.GRPC == nil {
		r.Skipped = "no gRPC mapping"
		return r
	}
	g, err := GRPCOf(s)
	if err != nil {
		r.HarnessErr = append(r.HarnessErr, "mount gRPC: "+err.Error())
		return r
	}
	switch m.Feat["family"] {
	case "G-streamval": // validated streamed messages (c10streamval.go)
		runC10StreamVal(g, m, tier, r)
		return r
	case "G-reuse": // one generated client, many calls (c10reuse.go)
		runC10Reuse(g, m, tier, r)
		return r
	}
	if m.StreamPayload != nil || m.StreamResult != nil {
		runC10Stream(g, m, tier, r)
		return r
	}
	sp := s.Spec
	pl := payloadGLayout(sp, m)
	rl := resultGLayout(sp, m)
	pvals := gValues(sp, m.Payload, pl)
	rvals := gValues(sp, m.Result, rl)
	plainP := plainOf(sp, m.Payload, pl, pvals)
	plainR := plainOf(sp, m.Result, rl, rvals)
	if m.Payload != nil {
		seen := map[string]bool{}
		for _, v := range pvals {
			if !carriable(pl, v) {
				r.note("values_outside_the_metadata_alphabet", 1)
				continue
			}
			if skipWide(m, sp, m.Payload, v) {
				r.note("int_values_beyond_32_bits_left_to_G-types", 1)
				continue
			}
			ev, err := gExpressed(g, s.PayloadType(m.Name), m.Payload, v)
			if err != nil {
				r.HarnessErr = append(r.HarnessErr, "c10: "+err.Error())
				continue
			}
			key := spec.Canon(ev)
			if seen[key] {
				continue
			}
			seen[key] = true
			if gAmbiguous(sp, m.Payload, ev) {
				r.note("values_ambiguous_nil_vs_empty_collection", 1)
				continue
			}
			issues := sp.Check(m.Payload, ev, "payload")
			r.Cases++
			if ev != nil {
				r.Nontrivial++
			}
			c10Request(g, m, pl, v, issues, plainR, r, true)
		}
	}
	if m.Result != nil && s.NumResults(m.Name) == 2 {
		seen := map[string]bool{}
		for _, v := range rvals {
			if v == nil || !carriable(rl, v) {
				if v != nil {
					r.note("values_outside_the_metadata_alphabet", 1)
				}
				continue
			}
			if skipWide(m, sp, m.Result, v) {
				r.note("int_values_beyond_32_bits_left_to_G-types", 1)
				continue
			}
			ev, err := gExpressed(g, s.ResultType(m.Name), m.Result, v)
			if err != nil {
				r.HarnessErr = append(r.HarnessErr, "c10 result: "+err.Error())
				continue
			}
			if seen[spec.Canon(ev)] {
				continue
			}
			seen[spec.Canon(ev)] = true
			if gAmbiguous(sp, m.Result, ev) {
				continue
			}
			if issues := sp.Check(m.Result, ev, "result"); len(issues) > 0 {
				// the round-trip clause quantifies over results that satisfy the design; in the
				// result-side validation cases a response that violates the design must not reach
				// the caller of the generated client as a result
				if m.Feat["side"] == "result" && m.Feat["valid"] != "" {
					r.Cases++
					r.Nontrivial++
					c10ResultInvalid(g, m, rl, v, issues, plainP, r, true)
				}
				continue
			}
			r.Cases++
			r.Nontrivial++
			c10Result(g, m, rl, v, plainP, r, true)
		}
	}
	return r
}

func gExpressed(g *GRPCSvc, rt reflect.Type, t *spec.Type, v any) (any, error) {
	if rt == nil || t == nil {
		return v, nil
	}
	rv, err := g.NewValue(rt, t, v)
	if err != nil {
		return nil, err
	}
	return g.GetValue(rv, t), nil
}

func c10Case(g *GRPCSvc, m *spec.Method, kind string, v any, call *Call, obs *GRPCObs, err error) map[string]any {
	cs := map[string]any{"design": g.S.Design, "service": g.S.Service.Name, "method": m.Name, kind: spec.JSONable(v)}
	if obs != nil {
		cs["request_message"] = truncate(obs.ReqMsg, 300)
		cs["request_metadata"] = mdView(obs.ReqMD)
		cs["response_message"] = truncate(obs.RespMsg, 300)
		cs["response_header"] = mdView(obs.Header)
		cs["response_trailer"] = mdView(obs.Trailer)
	}
	if err != nil {
		cs["client_error"] = truncate(err.Error(), 300)
	}
	return cs
}

func mdView(md map[string][]string) map[string][]string {
	out := map[string][]string{}
	for k, v := range md {
		switch k {
		case "content-type", "user-agent", ":authority", "grpc-accept-encoding":
			continue
		}
		out[k] = v
	}
	return out
}

// c10Request runs one payload value through the unary round trip.
func c10Request(g *GRPCSvc, m *spec.Method, l *GLayout, v any, issues []spec.Issue, plainR any, r *MethodResult, report bool) []string {
	sp := g.S.Spec
	var herr error
	call, obs, sentN, _, err, herr2 := gExchange(g, m, v, gReplyWith(g, m, plainR, &herr))
	if report {
		r.Execs++
	}
	if herr == nil {
		herr = herr2
	}
	if herr != nil {
		if report {
			r.HarnessErr = append(r.HarnessErr, "c10: "+herr.Error())
		}
		return nil
	}
	var sigs []string
	fail := func(sig, what string) {
		sigs = append(sigs, sig)
		if report {
			cs := c10Case(g, m, "payload", v, call, obs, err)
			cs["expected_issues"] = fmt.Sprint(issues)
			r.violation(sig, what, cs, func() []string { return c10Request(g, m, l, v, issues, plainR, r, false) })
		}
	}
	feat := c10Feat(m)
	vfeat := c10ValidFeat(m)
	if call.ServerPanic != "" {
		p := variedPlace(l, "")
		fail(fmt.Sprintf("C10 panic %s %s %s", feat, placeFeat(sp, p, attrOf(l, p, sentN)), panicSite(call.ServerPanic)), "generated code panicked: "+call.ServerPanic)
		return sigs
	}
	if len(issues) > 0 {
		// (c) constraint violations are rejected before user code runs
		p := variedPlace(l, issues[0].Path)
		pf := placeFeat(sp, p, attrOf(l, p, sentN))
		if call.Invoked != 0 {
			if report {
				r.outcome("invalid-invoked")
			}
			fail(fmt.Sprintf("C10 invalid-accepted %s %s rule=%s", vfeat, pf, issueRule(issues)),
				fmt.Sprintf("payload %s violates %v but the service method was invoked", spec.Canon(sentN), issues))
			return sigs
		}
		if err == nil {
			fail(fmt.Sprintf("C10 invalid-no-error %s %s rule=%s", vfeat, pf, issueRule(issues)),
				fmt.Sprintf("payload %s violates %v: the service method was not invoked but the client got no error", spec.Canon(sentN), issues))
			return sigs
		}
		if report {
			r.outcome("invalid-rejected code=" + grpcCode(err))
			if r.Cases%11 == 1 {
				r.sample(map[string]any{"payload": spec.JSONable(sentN), "issues": fmt.Sprint(issues), "code": grpcCode(err)})
			}
		}
		return sigs
	}
	// (b) round trip
	if call.Invoked != 1 {
		p, pv := c10Blame(g, m, l, v, sentN)
		if report {
			r.outcome("not-invoked code=" + grpcCode(err))
		}
		if p == nil && pv != nil {
			return sigs // superposition of independently reported failures
		}
		fail(fmt.Sprintf("C10 not-delivered %s %s observed=%s", feat, placeFeat(sp, p, pv), grpcCode(err)),
			fmt.Sprintf("valid payload %s did not reach the service method (invoked=%d, client error=%v)", spec.Canon(sentN), call.Invoked, err))
		return sigs
	}
	recvN := gReceivedPayload(g, m, call)
	if d := Equal(sp, m.Payload, nil, sentN, recvN, "payload"); d != nil {
		p := variedPlace(l, d.Path)
		if report {
			r.outcome("delivered-different")
		}
		fail(fmt.Sprintf("C10 value-changed %s %s observed=%s", feat, placeFeat(sp, p, d.Sent), valueClass(d.Recv)),
			fmt.Sprintf("%s: %s (sent payload %s, arrived %s)", d.Path, d.Why, spec.Canon(sentN), spec.Canon(recvN)))
		return sigs
	}
	// the designed partition: metadata attributes travel as metadata under the designed key
	for _, p := range l.Places {
		if p.Where != spec.GMetadata || obs.ReqMD == nil || p.Wire == "" {
			continue
		}
		pv := attrOf(l, p, sentN)
		vals := obs.ReqMD.Get(p.Wire)
		if !unsetLike(pv) && len(vals) == 0 {
			fail(fmt.Sprintf("C10 location %s %s observed=metadata-key-missing", feat, placeFeat(sp, p, pv)),
				fmt.Sprintf("attribute %s is mapped to request metadata key %q but the request carries %v", p.Attr, p.Wire, mdView(obs.ReqMD)))
		}
	}
	if report {
		r.outcome("delivered-equal")
		if m.Result != nil && err != nil {
			r.outcome("delivered-equal-but-client-error")
		}
		if r.Cases%7 == 1 {
			r.sample(map[string]any{"payload": spec.JSONable(sentN), "request_message": truncate(obs.ReqMsg, 120), "request_metadata": mdView(obs.ReqMD)})
		}
	}
	return sigs
}

// gDelivered reports whether payload v reaches the service method unchanged.
func gDelivered(g *GRPCSvc, m *spec.Method, v any) bool {
	var herr error
	call, _, sentN, _, _, herr2 := gExchange(g, m, v, gReplyWith(g, m, nil, &herr))
	if herr2 != nil || call.ServerPanic != "" || call.Invoked != 1 {
		return false
	}
	return Equal(g.S.Spec, m.Payload, nil, sentN, gReceivedPayload(g, m, call), "payload") == nil
}

// c10Blame finds the attribute responsible for a delivery failure by substitution (see blame
// in c02.go). It returns (nil, compound{}) when the case is a superposition of failures that
// are reported on their own.
func c10Blame(g *GRPCSvc, m *spec.Method, l *GLayout, v any, sentN any) (*GPlace, any) {
	return gBlameWith(g, l, v, sentN, func(alt any) bool { return gDelivered(g, m, alt) })
}

func gPlainValue(g *GRPCSvc, p *GPlace) any {
	loc := spec.LocBody
	if p.Where != spec.GMessage {
		loc = spec.LocHeader
	}
	var cands []any
	if p.T.K == spec.KUnion {
		cands = unionValues(g.S.Spec, p.T, 0)
	} else {
		cands = g.S.Spec.Candidates(p.T, loc, 1)
	}
	var fallback any
	for _, c := range cands {
		if c == nil || len(g.S.Spec.Check(p.T, c, "")) > 0 || unsetLike(c) || !metaCarriable(c) {
			continue
		}
		if fallback == nil {
			fallback = c
		}
		switch vc := valueClass(c); {
		case strings.HasSuffix(vc, "-plain"), strings.HasSuffix(vc, "-positive"), vc == "bool-true", vc == "float-fraction", vc == "bytes-text", vc == "map-nonempty", vc == "object":
			return c
		}
	}
	return fallback
}

func gBlameWith(g *GRPCSvc, l *GLayout, v any, sentN any, works func(alt any) bool) (*GPlace, any) {
	o, ok := v.(spec.Obj)
	def := variedPlace(l, "")
	if l.Whole || !ok || len(l.Places) < 2 {
		return def, attrOf(l, def, sentN)
	}
	var culprits []*GPlace
	for _, p := range l.Places {
		pv := gPlainValue(g, p)
		if pv == nil || spec.Canon(pv) == spec.Canon(o[p.Attr]) {
			continue
		}
		alt := spec.Obj{}
		for k, x := range o {
			alt[k] = x
		}
		alt[p.Attr] = pv
		if works(alt) {
			culprits = append(culprits, p)
		}
	}
	if len(culprits) == 1 {
		return culprits[0], attrOf(l, culprits[0], sentN)
	}
	if len(culprits) == 0 {
		alone := 0
		for _, p := range l.Places {
			alt := spec.Obj{}
			for _, q := range l.Places {
				if q == p {
					alt[q.Attr] = o[q.Attr]
				} else if pv := gPlainValue(g, q); pv != nil {
					alt[q.Attr] = pv
				}
			}
			if o[p.Attr] != nil && spec.Canon(alt[p.Attr]) != spec.Canon(gPlainValue(g, p)) && !works(alt) {
				alone++
			}
		}
		if alone >= 2 {
			return nil, compound{}
		}
	}
	return def, attrOf(l, def, sentN)
}

// c10Result runs one result value through the unary round trip.
func c10Result(g *GRPCSvc, m *spec.Method, l *GLayout, v any, plainP any, r *MethodResult, report bool) []string {
	sp := g.S.Spec
	var herr error
	call, obs, _, res, err, herr2 := gExchange(g, m, plainP, gReplyWith(g, m, v, &herr))
	if report {
		r.Execs++
	}
	if herr == nil {
		herr = herr2
	}
	if herr != nil {
		if report {
			r.HarnessErr = append(r.HarnessErr, "c10 result: "+herr.Error())
		}
		return nil
	}
	var sigs []string
	fail := func(sig, what string) {
		sigs = append(sigs, sig)
		if report {
			r.violation(sig, what, c10Case(g, m, "result", v, call, obs, err), func() []string { return c10Result(g, m, l, v, plainP, r, false) })
		}
	}
	feat := c10Feat(m)
	sentN, _ := gExpressed(g, g.S.ResultType(m.Name), m.Result, v)
	if call.ServerPanic != "" {
		p := variedPlace(l, "")
		fail(fmt.Sprintf("C10 panic %s %s %s", feat, placeFeat(sp, p, attrOf(l, p, sentN)), panicSite(call.ServerPanic)), "generated code panicked: "+call.ServerPanic)
		return sigs
	}
	if call.Invoked != 1 {
		if report {
			r.outcome("request-not-delivered")
			r.note("result_cases_whose_request_was_not_delivered", 1)
		}
		return sigs
	}
	if err != nil {
		p, pv := gBlameWith(g, l, v, sentN, func(alt any) bool { return gResultArrives(g, m, alt, plainP) })
		if report {
			r.outcome("result-client-error code=" + grpcCode(err))
		}
		if p == nil && pv != nil {
			return sigs
		}
		fail(fmt.Sprintf("C10 result-not-delivered %s %s observed=%s", feat, placeFeat(sp, p, pv), grpcCode(err)),
			fmt.Sprintf("valid result %s did not reach the caller: client error %v", spec.Canon(sentN), err))
		return sigs
	}
	gotN := g.GetValue(reflect.ValueOf(res), m.Result)
	if d := Equal(sp, m.Result, nil, sentN, gotN, "result"); d != nil {
		p := variedPlace(l, d.Path)
		if report {
			r.outcome("result-different")
		}
		fail(fmt.Sprintf("C10 result-changed %s %s observed=%s", feat, placeFeat(sp, p, d.Sent), valueClass(d.Recv)),
			fmt.Sprintf("%s: %s (service returned %s, client got %s)", d.Path, d.Why, spec.Canon(sentN), spec.Canon(gotN)))
		return sigs
	}
	for _, p := range l.Places {
		if p.Where == spec.GMessage {
			continue
		}
		md := obs.Header
		if p.Where == spec.GTrailer {
			md = obs.Trailer
		}
		pv := attrOf(l, p, sentN)
		if !unsetLike(pv) && len(md[strings.ToLower(p.Wire)]) == 0 {
			fail(fmt.Sprintf("C10 location %s %s observed=%s-key-missing", feat, placeFeat(sp, p, pv), p.Where),
				fmt.Sprintf("attribute %s is mapped to response %s key %q but the response carries header=%v trailer=%v", p.Attr, p.Where, p.Wire, mdView(obs.Header), mdView(obs.Trailer)))
		}
	}
	if report {
		r.outcome("result-equal")
		if r.Cases%7 == 1 {
			r.sample(map[string]any{"result": spec.JSONable(sentN), "response_message": truncate(obs.RespMsg, 120), "header": mdView(obs.Header), "trailer": mdView(obs.Trailer)})
		}
	}
	return sigs
}

// c10ResultInvalid: the service method returns a result that violates the design (the generated
// server does not validate results); the generated client must reject the response before its
// caller sees a result.
func c10ResultInvalid(g *GRPCSvc, m *spec.Method, l *GLayout, v any, issues []spec.Issue, plainP any, r *MethodResult, report bool) []string {
	sp := g.S.Spec
	var herr error
	call, obs, _, res, err, herr2 := gExchange(g, m, plainP, gReplyWith(g, m, v, &herr))
	if report {
		r.Execs++
	}
	if herr == nil {
		herr = herr2
	}
	if herr != nil {
		if report {
			r.HarnessErr = append(r.HarnessErr, "c10 invalid result: "+herr.Error())
		}
		return nil
	}
	var sigs []string
	fail := func(sig, what string) {
		sigs = append(sigs, sig)
		if report {
			cs := c10Case(g, m, "result", v, call, obs, err)
			cs["expected_issues"] = fmt.Sprint(issues)
			r.violation(sig, what, cs, func() []string { return c10ResultInvalid(g, m, l, v, issues, plainP, r, false) })
		}
	}
	sentN, _ := gExpressed(g, g.S.ResultType(m.Name), m.Result, v)
	p := variedPlace(l, issues[0].Path)
	pf := placeFeat(sp, p, attrOf(l, p, sentN))
	if call.ServerPanic != "" {
		fail(fmt.Sprintf("C10 panic %s %s %s", c10ValidFeat(m), pf, panicSite(call.ServerPanic)), "generated code panicked: "+call.ServerPanic)
		return sigs
	}
	if call.Invoked != 1 {
		if report {
			r.outcome("request-not-delivered")
		}
		return sigs
	}
	if err == nil {
		if report {
			r.outcome("invalid-result-accepted")
		}
		got := "nil"
		if res != nil {
			got = spec.Canon(g.GetValue(reflect.ValueOf(res), m.Result))
		}
		fail(fmt.Sprintf("C10 invalid-result-accepted %s %s rule=%s", c10ValidFeat(m), pf, issueRule(issues)),
			fmt.Sprintf("the service returned %s, which violates %v; the generated client handed its caller the result %s without an error", spec.Canon(sentN), issues, got))
		return sigs
	}
	if report {
		r.outcome("invalid-result-rejected code=" + grpcCode(err))
	}
	return sigs
}

func gResultArrives(g *GRPCSvc, m *spec.Method, v any, plainP any) bool {
	var herr error
	call, _, _, res, err, herr2 := gExchange(g, m, plainP, gReplyWith(g, m, v, &herr))
	if herr != nil || herr2 != nil || err != nil || call.ServerPanic != "" || call.Invoked != 1 {
		return false
	}
	sentN, _ := gExpressed(g, g.S.ResultType(m.Name), m.Result, v)
	return Equal(g.S.Spec, m.Result, nil, sentN, g.GetValue(reflect.ValueOf(res), m.Result), "result") == nil
}

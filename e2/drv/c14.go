package drv

import (
	"bytes"
	"context"
	"encoding/json"
	"errors"
	"fmt"
	"io"
	"net/http"
	"net/url"
	"reflect"
	"sort"
	"strings"
	"sync"
	"sync/atomic"

	"github.com/getkin/kin-openapi/openapi3"
	"github.com/getkin/kin-openapi/openapi3filter"
	"github.com/getkin/kin-openapi/routers"

	goa "goa.design/goa/v3/pkg"

	"verif/e2/spec"
)

// C14 — OpenAPI schemas accept exactly what the generated server accepts.
//
// Alphabet: the request-side exchanges of C04 (payloadValues: both sides of every validation
// boundary, type menus, unset; plus the hand-built malformed encodings) and the response-side
// exchanges of C03 (every valid result value) and C05 (every declared error), JSON bodies.
// Bound: the families' bounds. Oracle (statement only): for the http.Request exactly as the
// server saw it, the verdict of an independent OpenAPI 3 validator (kin-openapi
// openapi3filter.ValidateRequest on the operation of openapi3.json matched by verb and path
// template, security excluded) equals the server's decision (user code invoked exactly once
// <=> accepted); every success / declared-error response passes ValidateResponse for its
// status code (an undocumented status fails).
func init() { RegisterMode("C14", runC14) }

// c14Op is the documented operation of a method's first route, ready for validation.
type c14Op struct {
	doc     *openapi3.T
	lenient bool
	tmpl    string
	item    *openapi3.PathItem
	op      *openapi3.Operation
	route   *routers.Route
	// mediaDiff counts responses whose JSON media type is not the documented one
	mediaDiff int64
}

func c14FindOp(s *Svc, m *spec.Method, l *Layout) (*c14Op, string, error) {
	d := loadDocs(s.Design)
	doc, lenient, err := d.lenientV3()
	if err != nil {
		return nil, "unloadable", err
	}
	tmpl := starRe.ReplaceAllString(l.FullPath, "{$1}")
	var item *openapi3.PathItem
	if doc.Paths != nil {
		item = doc.Paths.Value(tmpl)
	}
	if item == nil {
		return nil, "undocumented", fmt.Errorf("path %s is not documented", tmpl)
	}
	op := item.GetOperation(m.HTTP.Verb)
	if op == nil {
		return nil, "undocumented", fmt.Errorf("%s %s is not documented", m.HTTP.Verb, tmpl)
	}
	o := &c14Op{doc: doc, lenient: lenient, tmpl: tmpl, item: item, op: op}
	o.route = &routers.Route{Spec: doc, Path: tmpl, PathItem: item, Method: m.HTTP.Verb, Operation: op}
	return o, "", nil
}

// pathParamsOf extracts the path parameter texts of the request by position in the template.
func pathParamsOf(tmpl string, req *http.Request) map[string]string {
	out := map[string]string{}
	tsegs := strings.Split(strings.Trim(tmpl, "/"), "/")
	rsegs := strings.Split(strings.Trim(req.URL.EscapedPath(), "/"), "/")
	for i, seg := range tsegs {
		mm := pathTmplRe.FindStringSubmatch(seg)
		if mm == nil || i >= len(rsegs) {
			continue
		}
		text := rsegs[i]
		if i == len(tsegs)-1 && len(rsegs) > len(tsegs) {
			text = strings.Join(rsegs[i:], "/")
		}
		if u, err := url.PathUnescape(text); err == nil {
			text = u
		}
		out[mm[1]] = text
	}
	return out
}

// rebuildRequest returns the request exactly as the server saw it (fresh body reader).
func rebuildRequest(sreq *http.Request, body []byte) *http.Request {
	req := sreq.Clone(context.Background())
	u := *sreq.URL
	req.URL = &u
	req.Body = io.NopCloser(bytes.NewReader(body))
	req.ContentLength = int64(len(body))
	req.GetBody = func() (io.ReadCloser, error) { return io.NopCloser(bytes.NewReader(body)), nil }
	return req
}

func c14Options() *openapi3filter.Options {
	return &openapi3filter.Options{MultiError: true, AuthenticationFunc: openapi3filter.NoopAuthenticationFunc, IncludeResponseStatus: true, SkipSettingDefaults: true}
}

// docVerdictRequest asks the independent validator; reasons are the schema keywords (or
// decoding stages) that reject the request.
func docVerdictRequest(o *c14Op, sreq *http.Request, body []byte) (ok bool, reasons []string, detail string) {
	ok, reasons, detail, _ = docVerdictRequestErr(o, sreq, body)
	return
}

func docVerdictRequestErr(o *c14Op, sreq *http.Request, body []byte) (ok bool, reasons []string, detail string, verr error) {
	req := rebuildRequest(sreq, body)
	in := &openapi3filter.RequestValidationInput{Request: req, PathParams: pathParamsOf(o.tmpl, req), Route: o.route, Options: c14Options()}
	var err error
	func() {
		defer func() {
			if r := recover(); r != nil {
				err = fmt.Errorf("validator panicked: %v", r)
			}
		}()
		err = openapi3filter.ValidateRequest(context.Background(), in)
	}()
	if err == nil {
		return true, nil, "", nil
	}
	return false, oaReasons(err), truncate(strings.ReplaceAll(err.Error(), "\n", " | "), 500), err
}

// blamePlace finds the designed place a validator error points at: the parameter of a request
// error, the header named by a response error, the first element of the JSON pointer of a
// schema error inside a body.
func blamePlace(err error, l *Layout) *Place {
	var found *Place
	byLoc := func(loc, wire string) *Place {
		for _, p := range l.Places {
			if p.Loc == loc && strings.EqualFold(p.Wire, wire) {
				return p
			}
		}
		return nil
	}
	var walk func(e error, inBody bool)
	walk = func(e error, inBody bool) {
		if e == nil || found != nil {
			return
		}
		switch x := e.(type) {
		case openapi3.MultiError:
			for _, c := range x {
				walk(c, inBody)
			}
		case *openapi3filter.RequestError:
			if x.Parameter != nil {
				found = byLoc(x.Parameter.In, x.Parameter.Name)
				return
			}
			walk(x.Err, true)
		case *openapi3filter.ResponseError:
			if i := strings.Index(x.Reason, `header "`); i >= 0 {
				name := x.Reason[i+8:]
				if j := strings.Index(name, `"`); j >= 0 {
					name = name[:j]
				}
				if strings.EqualFold(name, "Set-Cookie") {
					for _, p := range l.Places {
						if p.Loc == spec.LocCookie {
							found = p
							return
						}
					}
				}
				found = byLoc(spec.LocHeader, name)
				return
			}
			walk(x.Err, true)
		case *openapi3.SchemaError:
			if inBody {
				if ptr := x.JSONPointer(); len(ptr) > 0 {
					if l.Whole && len(l.Places) == 1 {
						found = l.Places[0]
						return
					}
					if p := l.ByAttr(ptr[0]); p != nil {
						found = p
						return
					}
				}
				if l.BodyKind == "attr" || l.Whole {
					for _, p := range l.Places {
						if p.Loc == spec.LocBody {
							found = p
							return
						}
					}
				}
			}
			walk(x.Origin, inBody)
		default:
			walk(errors.Unwrap(e), inBody)
		}
	}
	walk(err, false)
	return found
}

// oaReasons walks a kin-openapi error tree and returns the sorted set of rejecting keywords.
func oaReasons(err error) []string {
	set := map[string]bool{}
	var walk func(e error)
	walk = func(e error) {
		if e == nil {
			return
		}
		switch x := e.(type) {
		case openapi3.MultiError:
			for _, c := range x {
				walk(c)
			}
			return
		case *openapi3.SchemaError:
			f := x.SchemaField
			if f == "" {
				f = "schema"
			}
			set[f] = true
			if x.Origin != nil {
				var inner *openapi3.SchemaError
				if errors.As(x.Origin, &inner) && inner != x {
					walk(inner)
				}
			}
			return
		case *openapi3filter.RequestError:
			where := "body"
			if x.Parameter != nil {
				where = x.Parameter.In
			}
			switch {
			case errors.Is(x.Err, openapi3filter.ErrInvalidRequired):
				set[where+"-required-missing"] = true
			case errors.Is(x.Err, openapi3filter.ErrInvalidEmptyValue):
				set[where+"-empty-value"] = true
			case x.Err == nil:
				if strings.Contains(x.Reason, "Content-Type") {
					set["content-type"] = true
				} else {
					set["request-error"] = true
				}
			default:
				if _, ok := x.Err.(*openapi3filter.ParseError); ok {
					set[where+"-unparsable"] = true
					return
				}
				walk(x.Err)
			}
			return
		case *openapi3filter.ResponseError:
			switch {
			case strings.Contains(x.Reason, "status is not supported"):
				set["status-undocumented"] = true
			case strings.Contains(x.Reason, "Content-Type"):
				set["content-type"] = true
			case strings.Contains(x.Reason, "header") && strings.Contains(x.Reason, "missing"):
				set["header-required-missing"] = true
			case strings.Contains(x.Reason, "unable to decode header"):
				set["header-unparsable"] = true
			case strings.Contains(x.Reason, "failed to decode response body"):
				set["body-unparsable"] = true
			case strings.Contains(x.Reason, "header"):
				set["in-header"] = true
				walk(x.Err)
			default:
				set["in-body"] = true
				walk(x.Err)
			}
			return
		case *openapi3filter.SecurityRequirementsError:
			set["security"] = true
			return
		}
		if u := errors.Unwrap(e); u != nil {
			walk(u)
			return
		}
		set["other"] = true
	}
	walk(err)
	return sortedKeys(set)
}

// ---------------------------------------------------------------------------------------------
// schemas shared between operations

// c14Shared records, per design, the operations whose request (or response) body schema is a
// $ref that another operation with different designed body constraints also uses. goa names
// one schema per structural hash; when two bodies with the same attribute names and types but
// different validations share a hash, one of them is documented with the other's constraints
// (differing defaults do not matter for acceptance and are not counted). The sharing itself is reported once per method (static finding); value-level
// comparison on that side is skipped for the methods involved because its verdicts would be
// attributed to the wrong keyword (the isolated one-method-per-design corpora carry the
// keyword-level comparison).
type c14Shared struct {
	req, resp map[string]string // "service/method" -> description of the conflict
}

var c14SharedCache = map[string]*c14Shared{}
var c14SharedMu sync.Mutex

// effCanon renders the effective constraints of a type occurrence: aliases resolved, the
// validations of every level gathered (so an inline uint with Minimum 2 and an alias of uint
// carrying Minimum 2 are the same), recursively.
func effCanon(sp *spec.Spec, t *spec.Type, depth int) string {
	if t == nil || depth > 6 {
		return "-"
	}
	e := sp.Eff(t)
	var vs []string
	for _, v := range e.Vs {
		b, _ := json.Marshal(v)
		vs = append(vs, string(b))
	}
	sort.Strings(vs)
	out := e.K + strings.Join(vs, "&")
	switch e.K {
	case spec.KArray:
		out += "[" + effCanon(sp, e.Elem, depth+1) + "]"
	case spec.KMap:
		out += "{" + effCanon(sp, e.Key, depth+1) + ":" + effCanon(sp, e.Elem, depth+1) + "}"
	case spec.KObject:
		var parts []string
		for _, a := range e.Attrs {
			req := "optional"
			if spec.IsRequired(e.Required, a.Name) && !a.HasDefault {
				req = "required"
			}
			parts = append(parts, a.Name+":"+req+":"+effCanon(sp, a.T, depth+1))
		}
		sort.Strings(parts) // a JSON object schema does not order its properties
		out += "(" + strings.Join(parts, ",") + ")"
	}
	return out
}

// bodyCanon renders the designed constraints of the body places of a layout (what decides
// acceptance: types, validations, requiredness; defaults do not).
func bodyCanon(sp *spec.Spec, l *Layout) string {
	var parts []string
	for _, p := range l.Places {
		if p.Loc != spec.LocBody {
			continue
		}
		req := p.Req
		if req == "default" {
			req = "optional"
		}
		parts = append(parts, p.Attr+":"+req+":"+effCanon(sp, p.T, 0))
	}
	return strings.Join(parts, ";")
}

func sharedSchemas(s *Svc) *c14Shared {
	dir := designDir(s.Design)
	c14SharedMu.Lock()
	defer c14SharedMu.Unlock()
	if sh, ok := c14SharedCache[dir]; ok {
		return sh
	}
	sh := &c14Shared{req: map[string]string{}, resp: map[string]string{}}
	c14SharedCache[dir] = sh
	d := loadDocs(s.Design)
	if d.gen3 == nil {
		return sh
	}
	ops := map[string]docOp{}
	for _, o := range docOps(d.gen3, false) {
		ops[routeKey(o.Verb, o.Path)] = o
	}
	type member struct{ key, canon string }
	reqGroups, respGroups := map[string][]member{}, map[string][]member{}
	refOf := func(content any) string {
		c := asMap(asMap(content)["application/json"])
		if len(c) == 0 {
			for _, v := range asMap(content) {
				c = asMap(v)
			}
		}
		r, _ := asMap(c["schema"])["$ref"].(string)
		return r
	}
	for _, svc := range s.Spec.Services {
		for _, m := range svc.Methods {
			if m.HTTP == nil {
				continue
			}
			o, ok := ops[routeKey(m.HTTP.Verb, starRe.ReplaceAllString(fullPathOf(s.Spec, svc, m.HTTP.Path), "{$1}"))]
			if !ok {
				continue
			}
			key := svc.Name + "/" + m.Name
			if m.Payload != nil {
				if ref := refOf(asMap(o.Op["requestBody"])["content"]); ref != "" {
					l := RequestLayout(s.Spec, svc, m)
					reqGroups[ref] = append(reqGroups[ref], member{key, bodyCanon(s.Spec, l)})
				}
			}
			if m.Result != nil {
				for _, rs := range successResponses(m) {
					rs := rs
					if ref := refOf(asMap(asMap(o.Op["responses"])[fmt.Sprint(rs.Status)])["content"]); ref != "" {
						l := ResponseLayout(s.Spec, m, &rs)
						respGroups[ref] = append(respGroups[ref], member{key, bodyCanon(s.Spec, l)})
					}
				}
			}
		}
	}
	mark := func(groups map[string][]member, into map[string]string) {
		for ref, ms := range groups {
			diffV := false
			for _, m := range ms[1:] {
				if m.canon != ms[0].canon {
					diffV = true
				}
			}
			if !diffV {
				continue
			}
			what := "validations"
			var names []string
			for _, m := range ms {
				names = append(names, m.key)
			}
			for _, m := range ms {
				into[m.key] = fmt.Sprintf("%s|schema %s is used by %v whose designed body %s differ", what, ref, names, what)
			}
		}
	}
	mark(reqGroups, sh.req)
	mark(respGroups, sh.resp)
	return sh
}

// c14Feat is the feature part of a signature.
func c14Feat(s *Svc, m *spec.Method, p *Place) string {
	f := m.Feat
	loc, req, tc := f["loc"], f["req"], "none"
	if p != nil {
		loc, req, tc = p.Loc, reqLabel(s.Spec, m, p), typeClass(s.Spec, p.T)
	}
	if f["valid"] != "" {
		return fmt.Sprintf("valid=%s pos=%s loc=%s req=%s type=%s", f["valid"], f["pos"], loc, req, tc)
	}
	return fmt.Sprintf("valid=none loc=%s req=%s type=%s", loc, req, tc)
}

// c14Value is the value-class part of a request-side signature: in the validation families the
// keyword under test identifies the class of the failure, in the type families the value does.
func c14Value(m *spec.Method, pv any) string {
	if m.Feat["valid"] != "" {
		return ""
	}
	return " value=" + valueClass(pv)
}

// c14FeatResp is the feature part of a response-side signature (the value class and the
// requiredness do not matter there).
func c14FeatResp(s *Svc, m *spec.Method, p *Place) string {
	f := m.Feat
	loc, tc := f["loc"], "none"
	if p != nil {
		loc, tc = p.Loc, typeClass(s.Spec, p.T)
	}
	if f["valid"] != "" {
		return fmt.Sprintf("valid=%s pos=%s loc=%s type=%s", f["valid"], f["pos"], loc, tc)
	}
	return fmt.Sprintf("valid=none loc=%s type=%s", loc, tc)
}

func runC14(s *Svc, m *spec.Method, tier string) *MethodResult {
	r := &MethodResult{}
	if m.HTTP == nil {
		r.Skipped = "no HTTP mapping"
		return r
	}
	if m.StreamPayload != nil || m.StreamResult != nil || m.HTTP.Multipart || m.HTTP.SkipReq || m.HTTP.SkipResp || m.HTTP.MapParams != "" {
		r.Skipped = "streaming/multipart/skip-encode/map-params endpoints are not driven by C14 in this revision"
		return r
	}
	sp := s.Spec
	l := RequestLayout(sp, s.Service, m)
	o, why, err := c14FindOp(s, m, l)
	if err != nil {
		if why == "unloadable" {
			r.Cases++
			r.Nontrivial++
			r.outcome("document-unloadable")
			r.violation("C14 document-unusable reason="+errClassOA(err), "openapi3.json cannot be loaded, so no request or response of this design can be checked against it: "+truncate(err.Error(), 300),
				map[string]any{"design": s.Design, "dir": designDir(s.Design)}, nil)
		} else {
			r.note("methods_without_documented_operation_(C07_subject)", 1)
			r.outcome("operation-undocumented")
		}
		return r
	}
	if o.lenient {
		r.note("methods_checked_against_leniently_read_document_(numeric_exclusive_bounds)", 1)
	}
	sh := sharedSchemas(s)
	mkey := s.Service.Name + "/" + m.Name
	reqShared, respShared := sh.req[mkey] != "", sh.resp[mkey] != ""
	for side, desc := range map[string]string{"request": sh.req[mkey], "response": sh.resp[mkey]} {
		if desc == "" {
			continue
		}
		what, detail, _ := strings.Cut(desc, "|")
		r.Cases++
		r.Nontrivial++
		r.outcome("schema-shared-with-differently-constrained-operation side=" + side)
		r.violation(fmt.Sprintf("C14 schema-shared side=%s differ=%s", side, what),
			fmt.Sprintf("the %s body of %s %s is documented by a schema that another operation with different designed %s also references: %s", side, m.HTTP.Verb, o.tmpl, what, detail),
			map[string]any{"design": s.Design, "service": s.Service.Name, "method": m.Name, "side": side, "detail": detail, "dir": designDir(s.Design)},
			func() []string {
				c14SharedMu.Lock()
				delete(c14SharedCache, designDir(s.Design))
				c14SharedMu.Unlock()
				oaCache.Delete(designDir(s.Design))
				sh2 := sharedSchemas(s)
				var sigs []string
				for sd, ds := range map[string]string{"request": sh2.req[mkey], "response": sh2.resp[mkey]} {
					if ds != "" {
						w, _, _ := strings.Cut(ds, "|")
						sigs = append(sigs, fmt.Sprintf("C14 schema-shared side=%s differ=%s", sd, w))
					}
				}
				return sigs
			})
	}
	if reqShared {
		r.note("methods_whose_request_body_values_are_not_compared_(schema_shared,_see_isolated_corpora)", 1)
	}
	if respShared {
		r.note("methods_whose_response_body_values_are_not_compared_(schema_shared,_see_isolated_corpora)", 1)
	}
	if m.Payload != nil && !reqShared {
		seen := map[string]bool{}
		for _, v := range payloadValues(s, m, l) {
			if !sendable(l, v) {
				continue
			}
			ev, err := expressed(s, s.PayloadType(m.Name), m.Payload, v)
			if err != nil {
				r.HarnessErr = append(r.HarnessErr, "c14: "+err.Error())
				continue
			}
			key := spec.Canon(ev)
			if seen[key] {
				continue
			}
			seen[key] = true
			if c02DeliveryClass(sp, l, ev) || emptyRequiredOutsideBody(l, ev) {
				r.note("values_left_to_C02_delivery_classes", 1)
				continue
			}
			if ambiguousEmpty(sp, m.Payload, ev) {
				r.note("values_ambiguous_nil_vs_empty_collection", 1)
				continue
			}
			if beyondFloat(ev) {
				r.note("values_with_integers_beyond_2^53_(validator_computes_in_float64)", 1)
				continue
			}
			r.Cases++
			if len(sp.Check(m.Payload, ev, "payload")) > 0 {
				r.Nontrivial++
			}
			c14Request(s, m, l, o, v, r, true)
		}
		c14Malformed(s, m, l, o, r)
	}
	if m.Result != nil && s.NumResults(m.Name) == 2 && !respShared {
		first := successResponses(m)[0]
		rl := ResponseLayout(sp, m, &first)
		seen := map[string]bool{}
		for _, v := range resultValues(s, m, rl) {
			if v == nil || len(sp.Check(m.Result, v, "result")) > 0 {
				continue // the server's duty covers results that satisfy the design
			}
			ev, err := expressed(s, s.ResultType(m.Name), m.Result, v)
			if err != nil {
				r.HarnessErr = append(r.HarnessErr, "c14 result: "+err.Error())
				continue
			}
			if seen[spec.Canon(ev)] {
				continue
			}
			seen[spec.Canon(ev)] = true
			if c02DeliveryClass(sp, rl, ev) || emptyCollOutsideBody(rl, ev) {
				r.note("values_left_to_C03_delivery_classes", 1)
				continue
			}
			if emptyRequiredOutsideBody(rl, ev) || ambiguousEmpty(sp, m.Result, ev) {
				r.note("values_ambiguous_nil_vs_empty_collection", 1)
				continue
			}
			if beyondFloat(ev) {
				r.note("values_with_integers_beyond_2^53_(validator_computes_in_float64)", 1)
				continue
			}
			r.Cases++
			r.Nontrivial++
			c14Result(s, m, o, v, r, true)
		}
		// a required collection attribute the service leaves nil: by normalisation 1 the value is
		// the empty collection; whatever the server writes for it must be what the document
		// describes (only the response is judged here, C03/C04 leave these values out)
		// (driven on the status family, whose dedicated design holds a required collection of
		// every kind; the validation families would only repeat it per keyword)
		if base := minimalResult(s, m); base != nil && !rl.Whole && m.Feat["family"] == "L2-status" {
			if bo, ok := base.(spec.Obj); ok {
				e := sp.Eff(m.Result)
				for _, a := range e.Attrs {
					ae := sp.Eff(a.T)
					p := rl.ByAttr(a.Name)
					if (ae.K != spec.KArray && ae.K != spec.KMap) || !spec.IsRequired(e.Required, a.Name) || p == nil || p.Loc != spec.LocBody {
						continue
					}
					var empty any = spec.Arr{}
					if ae.K == spec.KMap {
						empty = spec.MapV{}
					}
					if len(sp.Check(a.T, empty, "")) > 0 {
						continue // the empty collection violates the attribute's own rules: not a valid result
					}
					v2 := spec.Obj{}
					for k, x := range bo {
						if k != a.Name {
							v2[k] = x
						}
					}
					r.Cases++
					r.Nontrivial++
					r.note("results_with_a_required_collection_left_nil", 1)
					c14Result(s, m, o, v2, r, true)
				}
			}
		}
	} else if m.Result != nil && !respShared {
		r.note("viewed_results_not_checked_against_response_schemas", 1)
	}
	if m.Feat["family"] == "L2-errors" {
		c14Errors(s, m, o, r)
	}
	if n := o.mediaDiff; n > 0 {
		r.note("responses_whose_json_media_type_is_not_the_documented_one_(validated_against_the_status_code's_schema)", n)
	}
	if n := atomic.SwapInt64(&formatOutsideTables, 0); n > 0 {
		r.HarnessErr = append(r.HarnessErr, fmt.Sprintf("c14: %d format verdicts were asked for strings outside the constructive tables", n))
	}
	return r
}

// emptyCollOutsideBody: an empty array / bytes value in a header or cookie travels as an empty
// header value, which equals an absent one (normalisation 1); left to C03.
func emptyCollOutsideBody(l *Layout, v any) bool {
	for _, p := range l.Places {
		if p.Loc == spec.LocBody || p.Loc == "dropped" {
			continue
		}
		if pv := placeValue(l, p, v); pv != nil && spec.IsEmptyColl(pv) {
			return true
		}
	}
	return false
}

func placeValue(l *Layout, p *Place, whole any) any {
	if p == nil {
		return nil
	}
	if l.Whole {
		return whole
	}
	if ob, ok := whole.(spec.Obj); ok {
		return ob[p.Attr]
	}
	return nil
}

func c14Request(s *Svc, m *spec.Method, l *Layout, o *c14Op, v any, r *MethodResult, report bool) []string {
	call, sentN, _, cerr, herr := exchange(s, m, v, nil)
	if report {
		r.Execs++
	}
	if herr != nil {
		if report {
			r.HarnessErr = append(r.HarnessErr, "c14: "+herr.Error())
		}
		return nil
	}
	if call.ServerPanic != "" {
		if report {
			r.outcome("server-panic-(C04_subject)")
		}
		return nil
	}
	if call.ServerReq == nil {
		if report {
			r.outcome("client-refused-to-send")
		}
		return nil
	}
	accepted := call.Invoked == 1
	docOK, reasons, detail, verr := docVerdictRequestErr(o, call.ServerReq, call.ReqBody)
	p, pv := suspect(l, sentN)
	if bp := blamePlace(verr, l); bp != nil {
		p, pv = bp, placeValue(l, bp, sentN)
	}
	var sigs []string
	fail := func(sig, what string) {
		sigs = append(sigs, sig)
		if report {
			cs := map[string]any{"design": s.Design, "service": s.Service.Name, "method": m.Name, "payload": spec.JSONable(v),
				"request": call.ServerReq.Method + " " + call.ServerReq.RequestURI, "request_headers": call.ServerReq.Header, "request_body": string(call.ReqBody),
				"server_invoked": call.Invoked, "document_verdict": detail, "operation": m.HTTP.Verb + " " + o.tmpl, "dir": designDir(s.Design), "client_error": fmt.Sprint(cerr)}
			if call.Rec != nil {
				cs["status"] = call.Rec.Code
				cs["response_body"] = truncate(call.Rec.Body.String(), 300)
			}
			r.violation(sig, what, cs, func() []string { return c14Request(s, m, l, o, v, r, false) })
		}
	}
	switch {
	case accepted && docOK:
		if report {
			r.outcome("both-accept")
		}
	case !accepted && !docOK:
		if report {
			r.outcome("both-reject server=" + errorName(call))
			if r.Cases%11 == 1 {
				r.sample(map[string]any{"payload": spec.JSONable(sentN), "server": errorName(call), "document": reasons})
			}
		}
	case accepted && !docOK:
		if report {
			r.outcome("doc-stricter")
		}
		fail(fmt.Sprintf("C14 request doc-stricter %s%s why=%s", c14Feat(s, m, p), c14Value(m, pv), strings.Join(reasons, "+")),
			fmt.Sprintf("the server accepted %s %s (payload %s reached user code) but the request does not conform to the documented operation: %s", call.ServerReq.Method, call.ServerReq.RequestURI, spec.Canon(sentN), detail))
	default:
		if report {
			r.outcome("doc-laxer")
		}
		fail(fmt.Sprintf("C14 request doc-laxer %s%s why=%s", c14Feat(s, m, p), c14Value(m, pv), errorName(call)),
			fmt.Sprintf("the request %s %s (payload %s, body %s) conforms to the documented operation but the server rejected it with %d %s", call.ServerReq.Method, call.ServerReq.RequestURI, spec.Canon(sentN), truncate(string(call.ReqBody), 160), call.Rec.Code, truncate(call.Rec.Body.String(), 200)))
	}
	return sigs
}

// c14Malformed replays C04's hand-built malformed encodings (non-numeric text, 64/32-bit
// overflow, negative for unsigned, wrong JSON type, invalid JSON, wrong top-level type, empty
// body, null for required) and compares the two verdicts on each.
func c14Malformed(s *Svc, m *spec.Method, l *Layout, o *c14Op, r *MethodResult) {
	sp := s.Spec
	var tmpl *Call
	for _, v := range payloadValues(s, m, l) {
		if v == nil || len(sp.Check(m.Payload, v, "")) > 0 || !sendable(l, v) || c02DeliveryClass(sp, l, v) || emptyRequiredOutsideBody(l, v) || beyondFloat(v) {
			continue
		}
		allSet := true
		if ob, ok := v.(spec.Obj); ok {
			for _, p := range l.Places {
				if ob[p.Attr] == nil {
					allSet = false
				}
			}
		}
		if !allSet {
			continue
		}
		call, _, _, _, herr := exchange(s, m, v, nil)
		if herr == nil && call.Invoked == 1 {
			tmpl = call
			break
		}
	}
	if tmpl == nil || len(l.Places) == 0 {
		return
	}
	type variant struct {
		kind string
		mut  func(req *http.Request, body *[]byte)
	}
	for _, p := range l.Places {
		p := p
		e := sp.Eff(p.T)
		k := e.K
		if k == spec.KArray {
			k = sp.Eff(e.Elem).K
		}
		numeric := k != spec.KString && k != spec.KBytes && k != spec.KAny && spec.IsPrimitive(k)
		var vs []variant
		var bad []string
		if numeric {
			bad = append(bad, "zz")
			if k != spec.KBool && k != spec.KFloat32 && k != spec.KFloat64 {
				bad = append(bad, "99999999999999999999999")
			}
			if strings.HasPrefix(k, "uint") {
				bad = append(bad, "-1")
			}
			if k == spec.KInt32 || k == spec.KUInt32 {
				bad = append(bad, "4294967296")
			}
			if k == spec.KInt || k == spec.KInt32 || k == spec.KInt64 || strings.HasPrefix(k, "uint") {
				bad = append(bad, "1.5")
			}
		}
		for _, b := range bad {
			b := b
			switch p.Loc {
			case spec.LocPath:
				vs = append(vs, variant{"path-text-" + textClass14(b), func(req *http.Request, _ *[]byte) {
					tsegs := strings.Split(strings.Trim(l.FullPath, "/"), "/")
					rsegs := strings.Split(strings.Trim(req.URL.EscapedPath(), "/"), "/")
					for i, seg := range tsegs {
						if mm := wildcardRe.FindStringSubmatch(seg); mm != nil && mm[1] == p.Wire && i < len(rsegs) {
							rsegs[i] = url.PathEscape(b)
						}
					}
					req.URL.Path = "/" + strings.Join(rsegs, "/")
					req.URL.RawPath = ""
				}})
			case spec.LocQuery:
				vs = append(vs, variant{"query-text-" + textClass14(b), func(req *http.Request, _ *[]byte) {
					q := req.URL.Query()
					q.Set(p.Wire, b)
					req.URL.RawQuery = q.Encode()
				}})
			case spec.LocHeader:
				vs = append(vs, variant{"header-text-" + textClass14(b), func(req *http.Request, _ *[]byte) { req.Header.Set(p.Wire, b) }})
			case spec.LocCookie:
				vs = append(vs, variant{"cookie-text-" + textClass14(b), func(req *http.Request, _ *[]byte) {
					req.Header.Del("Cookie")
					req.AddCookie(&http.Cookie{Name: p.Wire, Value: b})
				}})
			case spec.LocBody:
				if l.BodyKind == "object" && e.K != spec.KArray && len(b) <= 15 { // beyond 2^53 the validator is not exact
					vs = append(vs, variant{"body-number-" + textClass14(b), func(_ *http.Request, body *[]byte) {
						if b == "zz" {
							return
						}
						*body = []byte(`{"` + p.Wire + `":` + b + `}`)
					}})
				}
			}
		}
		// "absent": the parameter is dropped from the otherwise valid request (the typed client
		// cannot omit a required parameter). The server's decision (missing_field for a required
		// one) must equal the document's (required: true rejects).
		switch p.Loc {
		case spec.LocQuery:
			vs = append(vs, variant{"query-absent", func(req *http.Request, _ *[]byte) {
				q := req.URL.Query()
				q.Del(p.Wire)
				req.URL.RawQuery = q.Encode()
			}})
		case spec.LocHeader:
			vs = append(vs, variant{"header-absent", func(req *http.Request, _ *[]byte) { req.Header.Del(p.Wire) }})
		case spec.LocCookie:
			vs = append(vs, variant{"cookie-absent", func(req *http.Request, _ *[]byte) {
				old := req.Cookies()
				req.Header.Del("Cookie")
				for _, ck := range old {
					if ck.Name != p.Wire {
						req.AddCookie(&http.Cookie{Name: ck.Name, Value: ck.Value})
					}
				}
			}})
		}
		if p.Loc == spec.LocBody && l.BodyKind == "object" {
			if e.K != spec.KString && e.K != spec.KAny && e.K != spec.KBytes {
				vs = append(vs, variant{"body-wrong-json-type", func(_ *http.Request, body *[]byte) { *body = []byte(`{"` + p.Wire + `":"zz"}`) }})
			}
			if e.K == spec.KString || e.K == spec.KBytes {
				vs = append(vs, variant{"body-wrong-json-type", func(_ *http.Request, body *[]byte) { *body = []byte(`{"` + p.Wire + `":12}`) }})
			}
			vs = append(vs, variant{"body-invalid-json", func(_ *http.Request, body *[]byte) { *body = []byte(`{"` + p.Wire + `":`) }})
			vs = append(vs, variant{"body-wrong-top-level-type", func(_ *http.Request, body *[]byte) { *body = []byte(`[1]`) }})
			vs = append(vs, variant{"body-undesigned-key", func(_ *http.Request, body *[]byte) {
				b := bytes.TrimRight(*body, " \r\n\t")
				if bytes.HasSuffix(b, []byte("}")) && len(b) > 2 {
					*body = append(append([]byte{}, b[:len(b)-1]...), []byte(`,"zzextra":1}`)...)
				}
			}})
			if p.Req == "required" {
				vs = append(vs, variant{"body-empty", func(_ *http.Request, body *[]byte) { *body = nil }})
				vs = append(vs, variant{"body-null-for-required", func(_ *http.Request, body *[]byte) { *body = []byte(`{"` + p.Wire + `":null}`) }})
			}
		}
		for _, vr := range vs {
			vr := vr
			if vr.kind == "body-number-letters" {
				continue
			}
			r.Cases++
			r.Nontrivial++
			var one func(report bool) []string
			one = func(report bool) []string {
				body := append([]byte{}, tmpl.ReqBody...)
				u := *tmpl.ServerReq.URL
				u.Scheme, u.Host = "http", "verif.test"
				req, _ := http.NewRequest(tmpl.ServerReq.Method, u.String(), nil)
				req.URL.RawPath = tmpl.ServerReq.URL.RawPath
				for hk, hv := range tmpl.ServerReq.Header {
					req.Header[hk] = append([]string{}, hv...)
				}
				vr.mut(req, &body)
				req.Body = io.NopCloser(bytes.NewReader(body))
				req.ContentLength = int64(len(body))
				call := &Call{}
				_, err := s.RawDo(call, req)
				if report {
					r.Execs++
				}
				if call.ServerPanic != "" || err != nil || call.Rec == nil || call.ServerReq == nil {
					if report {
						r.outcome("malformed-not-answered-(C04_subject)")
					}
					return nil
				}
				accepted := call.Invoked == 1
				docOK, reasons, detail := docVerdictRequest(o, call.ServerReq, call.ReqBody)
				var others []string
				for _, q := range l.Places {
					if q != p {
						others = append(others, q.Loc)
					}
				}
				sort.Strings(others)
				oth := "none"
				if len(others) > 0 {
					oth = strings.Join(others, "+")
				}
				ts := fmt.Sprintf("variant=%s type=%s loc=%s req=%s others=%s", vr.kind, typeClass(sp, p.T), p.Loc, reqLabel(sp, m, p), oth)
				var sigs []string
				fail := func(sig, what string) {
					sigs = append(sigs, sig)
					if report {
						cs := map[string]any{"design": s.Design, "service": s.Service.Name, "method": m.Name, "variant": vr.kind, "request": call.ServerReq.Method + " " + call.ServerReq.RequestURI,
							"request_headers": call.ServerReq.Header, "request_body": string(call.ReqBody), "server_invoked": call.Invoked, "status": call.Rec.Code,
							"response_body": truncate(call.Rec.Body.String(), 300), "document_verdict": detail, "dir": designDir(s.Design)}
						r.violation(sig, what, cs, func() []string { return one(false) })
					}
				}
				switch {
				case accepted && !docOK:
					if report {
						r.outcome("malformed doc-stricter")
					}
					fail(fmt.Sprintf("C14 request-malformed doc-stricter %s why=%s", ts, strings.Join(reasons, "+")),
						fmt.Sprintf("the server accepted the hand-built request (%s: %s %s body %s) which does not conform to the documented operation: %s", vr.kind, call.ServerReq.Method, call.ServerReq.RequestURI, truncate(string(call.ReqBody), 120), detail))
				case !accepted && docOK:
					if report {
						r.outcome("malformed doc-laxer")
					}
					fail(fmt.Sprintf("C14 request-malformed doc-laxer %s why=%s", ts, errorName(call)),
						fmt.Sprintf("the hand-built request (%s: %s %s body %s) conforms to the documented operation but the server rejected it with %d %s", vr.kind, call.ServerReq.Method, call.ServerReq.RequestURI, truncate(string(call.ReqBody), 120), call.Rec.Code, truncate(call.Rec.Body.String(), 200)))
				case accepted:
					if report {
						r.outcome("malformed both-accept")
					}
				default:
					if report {
						r.outcome("malformed both-reject server=" + errorName(call))
					}
				}
				return sigs
			}
			one(true)
		}
	}
}

func textClass14(s string) string {
	switch {
	case s == "zz":
		return "letters"
	case s == "1.5":
		return "fraction"
	case strings.HasPrefix(s, "-"):
		return "negative"
	case len(s) > 15:
		return "overflow-64"
	}
	return "overflow-32"
}

// docVerdictResponse validates the recorded response against the documented response of its
// status code.
func docVerdictResponse(o *c14Op, call *Call) (ok bool, reasons []string, detail string, verr error) {
	req := rebuildRequest(call.ServerReq, call.ReqBody)
	rin := &openapi3filter.RequestValidationInput{Request: req, PathParams: pathParamsOf(o.tmpl, req), Route: o.route, Options: c14Options()}
	hdr := call.Rec.Header().Clone()
	opts := c14Options()
	// The statement speaks of "the documented response schema for its status code": when the
	// response's JSON media type is not the (single) documented one, the body is still validated
	// against that schema (the media type difference itself is counted, not asserted).
	var direct *openapi3.SchemaRef
	if rr := o.op.Responses.Status(call.Rec.Code); rr != nil && rr.Value != nil && len(rr.Value.Content) == 1 && call.Rec.Body.Len() > 0 {
		if rr.Value.Content.Get(hdr.Get("Content-Type")) == nil {
			mt, _, _ := strings.Cut(hdr.Get("Content-Type"), ";")
			if mt = strings.TrimSpace(mt); mt == "application/json" || strings.HasSuffix(mt, "+json") {
				for _, c := range rr.Value.Content {
					direct = c.Schema
				}
				opts.ExcludeResponseBody = true
				o.mediaDiff++
			}
		}
	}
	// HTTP allows optional whitespace around the elements of a comma-separated header value;
	// kin-openapi splits documented array headers on "," without trimming.
	if rr := o.op.Responses.Status(call.Rec.Code); rr != nil && rr.Value != nil {
		for name, h := range rr.Value.Headers {
			if h.Value != nil && h.Value.Schema != nil && h.Value.Schema.Value != nil && h.Value.Schema.Value.Type.Is("array") {
				if vals := hdr.Values(name); len(vals) > 0 {
					for i := range vals {
						vals[i] = strings.ReplaceAll(vals[i], ", ", ",")
					}
				}
			}
		}
	}
	in := &openapi3filter.ResponseValidationInput{RequestValidationInput: rin, Status: call.Rec.Code, Header: hdr, Options: opts}
	in.SetBodyBytes(call.Rec.Body.Bytes())
	var err error
	func() {
		defer func() {
			if r := recover(); r != nil {
				err = fmt.Errorf("validator panicked: %v", r)
			}
		}()
		err = openapi3filter.ValidateResponse(context.Background(), in)
		if err == nil && direct != nil && direct.Value != nil {
			var val any
			dec := json.NewDecoder(bytes.NewReader(call.Rec.Body.Bytes()))
			dec.UseNumber()
			if derr := dec.Decode(&val); derr != nil {
				err = &openapi3filter.ResponseError{Input: in, Reason: "failed to decode response body", Err: derr}
			} else if verr := direct.Value.VisitJSON(val, openapi3.MultiErrors(), openapi3.VisitAsResponse()); verr != nil {
				err = &openapi3filter.ResponseError{Input: in, Reason: "response body doesn't match schema " + direct.Ref, Err: verr}
			}
		}
	}()
	if err == nil {
		return true, nil, "", nil
	}
	return false, oaReasons(err), truncate(strings.ReplaceAll(err.Error(), "\n", " | "), 500), err
}

func c14Result(s *Svc, m *spec.Method, o *c14Op, v any, r *MethodResult, report bool) []string {
	sp := s.Spec
	var herr error
	call, _, _, _, herr2 := exchange(s, m, minimalPayload(s, m), replyWith(s, m, v, "", nil, &herr))
	if report {
		r.Execs++
	}
	if herr == nil {
		herr = herr2
	}
	if herr != nil {
		if report {
			r.HarnessErr = append(r.HarnessErr, "c14 result: "+herr.Error())
		}
		return nil
	}
	if call.ServerPanic != "" || call.Invoked != 1 || call.Rec == nil || call.ServerReq == nil {
		if report {
			r.outcome("response-not-produced-(C02/C03_subject)")
		}
		return nil
	}
	resp := selectResponse(m, v)
	rl := ResponseLayout(sp, m, resp)
	if call.Rec.Code != resp.Status {
		if report {
			r.outcome("response-status-not-designed-(C03_subject)")
		}
		return nil
	}
	ok, reasons, detail, verr := docVerdictResponse(o, call)
	if ok {
		if report {
			r.outcome(fmt.Sprintf("response-conforms status=%d", call.Rec.Code))
			if r.Cases%13 == 1 {
				r.sample(map[string]any{"result": spec.JSONable(v), "status": call.Rec.Code, "body": truncate(call.Rec.Body.String(), 120)})
			}
		}
		return nil
	}
	p, _ := suspect(rl, v)
	if bp := blamePlace(verr, rl); bp != nil {
		p = bp
	}
	sig := fmt.Sprintf("C14 response-nonconforming kind=success status=%d %s why=%s", call.Rec.Code, c14FeatResp(s, m, p), strings.Join(reasons, "+"))
	if report {
		r.outcome("response-nonconforming")
		cs := map[string]any{"design": s.Design, "service": s.Service.Name, "method": m.Name, "result": spec.JSONable(v), "status": call.Rec.Code, "response_headers": call.Rec.Header(),
			"response_body": truncate(call.Rec.Body.String(), 400), "document_verdict": detail, "operation": m.HTTP.Verb + " " + o.tmpl, "dir": designDir(s.Design)}
		r.violation(sig, fmt.Sprintf("the server answered %d with headers %v and body %s for the valid result %s; the response does not conform to the documented response: %s",
			call.Rec.Code, call.Rec.Header(), truncate(call.Rec.Body.String(), 200), spec.Canon(v), detail), cs,
			func() []string { return c14Result(s, m, o, v, r, false) })
	}
	return []string{sig}
}

// c14Errors returns every declared error of an error-family method from the stub and validates
// the response the server produces against the documented response of its status.
func c14Errors(s *Svc, m *spec.Method, o *c14Op, r *MethodResult) {
	sp := s.Spec
	syms := s.serviceSyms()
	defs, resps := declaredErrors(sp, s.Service, m)
	type ecase struct {
		label string
		name  string
		build func() (error, error)
	}
	var cases []ecase
	for _, d := range defs {
		d := d
		if _, ok := resps[d.Name]; !ok {
			continue
		}
		switch {
		case d.Type == nil:
			mk, _ := symByNorm(syms, "Make"+d.Name).(func(error) *goa.ServiceError)
			if mk == nil {
				r.HarnessErr = append(r.HarnessErr, "c14: no Make function for "+d.Name)
				continue
			}
			cases = append(cases, ecase{"default-make", d.Name, func() (error, error) { return mk(errors.New("msg " + d.Name)), nil }})
			cases = append(cases, ecase{"default-all-flags", d.Name, func() (error, error) {
				return &goa.ServiceError{Name: d.Name, ID: "id", Message: "m", Timeout: true, Temporary: true, Fault: true}, nil
			}})
			cases = append(cases, ecase{"default-empty-fields", d.Name, func() (error, error) { return &goa.ServiceError{Name: d.Name}, nil }})
		case d.Type.K == spec.KUser:
			rt, _ := symByNorm(syms, "type:"+d.Type.Ref).(reflect.Type)
			if rt == nil {
				r.HarnessErr = append(r.HarnessErr, "c14: no type for "+d.Type.Ref)
				continue
			}
			for i, val := range []spec.Obj{{"name": d.Name, "msg": "m1", "code": int64(7)}, {"name": d.Name}, {"name": d.Name, "code": int64(0)}} {
				val := val
				cases = append(cases, ecase{fmt.Sprintf("custom-%d", i), d.Name, func() (error, error) {
					pv := reflect.New(rt)
					if err := s.V.Set(pv.Elem(), d.Type, val); err != nil {
						return nil, err
					}
					e, ok := pv.Interface().(error)
					if !ok {
						return nil, fmt.Errorf("%s is not an error", rt)
					}
					return e, nil
				}})
			}
		case spec.IsPrimitive(d.Type.K):
			rt, _ := symByNorm(syms, "type:"+d.Name).(reflect.Type)
			if rt == nil {
				r.HarnessErr = append(r.HarnessErr, "c14: no type for primitive error "+d.Name)
				continue
			}
			for _, txt := range []string{"primitive message", ""} {
				txt := txt
				cases = append(cases, ecase{"primitive-" + stringClass(txt), d.Name, func() (error, error) {
					pv := reflect.New(rt).Elem()
					pv.SetString(txt)
					e, ok := pv.Interface().(error)
					if !ok {
						return nil, fmt.Errorf("%s is not an error", rt)
					}
					return e, nil
				}})
			}
		}
	}
	for _, ec := range cases {
		ec := ec
		r.Cases++
		r.Nontrivial++
		var one func(report bool) []string
		one = func(report bool) []string {
			serr, berr := ec.build()
			if berr != nil {
				if report {
					r.HarnessErr = append(r.HarnessErr, "c14 error build: "+berr.Error())
				}
				return nil
			}
			var herr error
			call, _, _, _, herr2 := exchange(s, m, spec.Obj{"sel": "x"}, replyWith(s, m, nil, "", serr, &herr))
			if report {
				r.Execs++
			}
			if herr != nil || herr2 != nil {
				if report {
					r.HarnessErr = append(r.HarnessErr, fmt.Sprintf("c14 error: %v %v", herr, herr2))
				}
				return nil
			}
			if call.ServerPanic != "" || call.Invoked != 1 || call.Rec == nil || call.ServerReq == nil || call.Rec.Code != resps[ec.name].Status {
				if report {
					r.outcome("error-response-not-as-designed-(C05_subject)")
				}
				return nil
			}
			ok, reasons, detail, _ := docVerdictResponse(o, call)
			if ok {
				if report {
					r.outcome(fmt.Sprintf("error-response-conforms status=%d", call.Rec.Code))
				}
				return nil
			}
			sig := fmt.Sprintf("C14 response-nonconforming kind=declared-error level=%s type=%s status-assignment=%s case=%s why=%s", m.Feat["level"], m.Feat["type"], m.Feat["status"], ec.label, strings.Join(reasons, "+"))
			if report {
				r.outcome("error-response-nonconforming")
				cs := map[string]any{"design": s.Design, "service": s.Service.Name, "method": m.Name, "error": ec.name, "case": ec.label, "status": call.Rec.Code, "response_headers": call.Rec.Header(),
					"response_body": truncate(call.Rec.Body.String(), 400), "document_verdict": detail, "operation": m.HTTP.Verb + " " + o.tmpl, "dir": designDir(s.Design)}
				r.violation(sig, fmt.Sprintf("the server answered the declared error %s with %d %s; the response does not conform to the documented response: %s", ec.name, call.Rec.Code, truncate(call.Rec.Body.String(), 200), detail), cs,
					func() []string { return one(false) })
			}
			return []string{sig}
		}
		one(true)
	}
}

var _ = sort.Strings

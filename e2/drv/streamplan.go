package drv

import (
	"fmt"
	"os"
	"reflect"
	"strconv"
	"sync"
	"time"

	"verif/e2/spec"
)

// streamEnv holds the value menus of one streaming method.
//
//	alphabet  per direction: every candidate value of the element type that satisfies the design
//	          (spec.Candidates at the body location: messages are JSON text frames), as the
//	          generated Go type expresses it; the sequence alphabet is the first, middle and last of
//	          them (menu3); the initial payload ranges over spec.ObjectCandidates at its designed
//	          locations exactly as in C02; the final result of a client stream over spec.Candidates.
//	bound     sequences of length 0..3 over the 3-value alphabet, complete (40 per direction), plus
//	          every candidate value as a one-message sequence; bidirectional endpoints: the complete
//	          product requests x replies x schedule (RS, SC, ALT).
type streamEnv struct {
	s    *Svc
	m    *spec.Method
	kind string

	reqT, resT, finT reflect.Type
	reqVals, reqMenu []any
	resVals, resMenu []any
	results          []any
	plainResult      any
	layout           *Layout
	payloads         []any
	plainPayload     any
}

func newStreamEnv(s *Svc, m *spec.Method) *streamEnv {
	e := &streamEnv{s: s, m: m, kind: streamKind(m)}
	e.reqT, e.resT, e.finT = streamGoTypes(s, m)
	e.reqVals = messageValues(s, e.reqT, m.StreamPayload)
	e.reqMenu = menu3(e.reqVals)
	e.resVals = messageValues(s, e.resT, m.StreamResult)
	e.resMenu = menu3(e.resVals)
	if m.StreamResult == nil && m.Result != nil {
		e.results = messageValues(s, e.finT, m.Result)
		e.plainResult = plainOfValues(e.results)
	}
	if m.Payload != nil {
		sp := s.Spec
		e.layout = RequestLayout(sp, s.Service, m)
		seen := map[string]bool{}
		for _, v := range payloadValues(s, m, e.layout) {
			if len(sp.Check(m.Payload, v, "payload")) > 0 || emptyRequiredOutsideBody(e.layout, v) || emptyEntryInMapParams(e.layout, v) || !sendable(e.layout, v) {
				continue
			}
			ev, err := expressed(s, s.PayloadType(m.Name), m.Payload, v)
			if err != nil || seen[spec.Canon(ev)] {
				continue
			}
			seen[spec.Canon(ev)] = true
			e.payloads = append(e.payloads, v)
		}
		e.plainPayload = minimalPayload(s, m)
		if e.plainPayload == nil && len(e.payloads) > 0 {
			e.plainPayload = e.payloads[0]
		}
	}
	return e
}

// plainOfValues prefers a value without unset parts and without special characters.
func plainOfValues(vals []any) any {
	for _, v := range vals {
		plain := !unsetLike(v)
		switch x := v.(type) {
		case spec.Obj:
			plain = len(x) > 0
			for _, a := range x {
				if sv, ok := a.(string); ok && stringClass(sv) != "plain" {
					plain = false
				}
			}
		case string:
			plain = stringClass(x) == "plain"
		}
		if plain {
			return v
		}
	}
	if len(vals) > 0 {
		return vals[0]
	}
	return nil
}

// seqsOver returns the complete set of sequences of length 0..3 over menu followed by every
// value of all as a one-message sequence (without repeating a sequence).
func seqsOver(menu, all []any) [][]any {
	out := sequences(menu, 3)
	seen := map[string]bool{}
	for _, s := range out {
		seen[spec.Canon(spec.Arr(s))] = true
	}
	for _, v := range all {
		s := []any{v}
		if k := spec.Canon(spec.Arr(s)); !seen[k] {
			seen[k] = true
			out = append(out, s)
		}
	}
	return out
}

func head(vals []any, n int) []any {
	if len(vals) > n {
		return vals[:n]
	}
	return vals
}

// fixedSeqs are the companion sequences used for the direction a mode does not vary: empty, one
// message, three messages.
func fixedSeqs(menu []any) [][]any {
	if len(menu) == 0 {
		return [][]any{{}}
	}
	three := []any{menu[0], menu[len(menu)-1], menu[0]}
	return [][]any{{}, {menu[0]}, three}
}

func (e *streamEnv) scheds() []string {
	if e.m.StreamPayload != nil && e.m.StreamResult != nil {
		return bidiSchedules
	}
	return []string{""}
}

// plans enumerates the cases of one mode. vary is "requests" (C02S) or "replies" (C03S): that
// direction runs over its complete sequence set; for a bidirectional endpoint the other direction
// runs over its complete 0..3 product too, otherwise over the fixed companions.
func (e *streamEnv) plans(vary string) []streamPlan {
	m := e.m
	var out []streamPlan
	base := streamPlan{Payload: e.plainPayload, Result: e.plainResult}
	bidi := m.StreamPayload != nil && m.StreamResult != nil
	switch {
	case bidi:
		var reqs, reps [][]any
		if vary == "requests" {
			reqs, reps = seqsOver(e.reqMenu, e.reqVals), sequences(e.resMenu, 3)
		} else {
			reqs, reps = sequences(e.reqMenu, 3), seqsOver(e.resMenu, e.resVals)
		}
		for _, sc := range e.scheds() {
			for _, rq := range reqs {
				for _, rp := range reps {
					p := base
					p.Sched, p.Requests, p.Replies = sc, rq, rp
					out = append(out, p)
				}
			}
		}
	case m.StreamPayload != nil: // client streaming
		if vary == "requests" {
			for _, rq := range seqsOver(e.reqMenu, e.reqVals) {
				p := base
				p.Requests = rq
				out = append(out, p)
			}
		} else if m.Result != nil {
			for _, res := range e.results {
				for _, rq := range fixedSeqs(e.reqMenu) {
					p := base
					p.Requests, p.Result = rq, res
					out = append(out, p)
				}
			}
		}
	default: // server streaming
		if vary == "replies" {
			for _, rp := range seqsOver(e.resMenu, e.resVals) {
				p := base
				p.Replies = rp
				out = append(out, p)
			}
		}
	}
	// the initial payload (C02S only): every candidate payload with the fixed companions
	if vary == "requests" && m.Payload != nil {
		for _, pv := range e.payloads {
			for _, sc := range e.scheds() {
				var comps []streamPlan
				if bidi {
					comps = []streamPlan{{Requests: head(e.reqMenu, 1), Replies: head(e.resMenu, 1)}}
				} else if m.StreamPayload != nil {
					comps = []streamPlan{{Requests: head(e.reqMenu, 1)}}
				} else {
					for _, rp := range fixedSeqs(e.resMenu) {
						comps = append(comps, streamPlan{Replies: rp})
					}
				}
				for _, c := range comps {
					p := base
					p.Sched, p.Payload, p.Requests, p.Replies = sc, pv, c.Requests, c.Replies
					out = append(out, p)
				}
			}
		}
	}
	return out
}

// expressedSeq converts a sequence to the values the generated element type expresses.
func expressedSeq(s *Svc, rt reflect.Type, t *spec.Type, seq []any) []any {
	out := make([]any, len(seq))
	for i, v := range seq {
		out[i] = v
		if ev, err := expressed(s, rt, t, v); err == nil {
			out[i] = ev
		}
	}
	return out
}

// firstFailure says which side of an exchange stopped following its script first ("" none).
func (ex *streamEx) firstFailure() string {
	c, s := ex.Cli.Ticket, ex.Srv.Ticket
	switch {
	case c == 0 && s == 0:
		return ""
	case s == 0 || (c != 0 && c < s):
		return "client"
	}
	return "server"
}

// failedObs returns the observation on which a side aborted (nil: it did not abort on an
// observed operation).
func (sd *streamSide) failedObs() *wsObs {
	if !sd.Aborted || len(sd.Obs) == 0 {
		return nil
	}
	return &sd.Obs[len(sd.Obs)-1]
}

// posClass abstracts the position of a message in a sequence of n.
func posClass(i, n int) string {
	switch {
	case n <= 1:
		return "only"
	case i <= 0:
		return "first"
	case i >= n-1:
		return "last"
	}
	return "middle"
}

func schedFeat(p streamPlan) string {
	if p.Sched == "" {
		return ""
	}
	return " sched=" + p.Sched
}

// ---- budget --------------------------------------------------------------------------------

// The check binary passes its internal deadline in VERIF_STREAM_DEADLINE (unix seconds) and a
// file in VERIF_STREAM_INCOMPLETE: a mode that runs out of budget stops enumerating and appends
// the frontier it reached to that file; the check then calls Ctx.Incomplete (exit 0,
// exhaustive:false).
var (
	streamDeadlineOnce sync.Once
	streamDeadline     time.Time
	incompleteMu       sync.Mutex
)

func streamExpired() bool {
	streamDeadlineOnce.Do(func() {
		if n, err := strconv.ParseInt(os.Getenv("VERIF_STREAM_DEADLINE"), 10, 64); err == nil && n > 0 {
			streamDeadline = time.Unix(n, 0)
		}
	})
	return !streamDeadline.IsZero() && time.Now().After(streamDeadline)
}

func streamIncomplete(s *Svc, m *spec.Method, mode string, done, total int) {
	path := os.Getenv("VERIF_STREAM_INCOMPLETE")
	if path == "" {
		return
	}
	incompleteMu.Lock()
	defer incompleteMu.Unlock()
	f, err := os.OpenFile(path, os.O_CREATE|os.O_APPEND|os.O_WRONLY, 0o644)
	if err != nil {
		return
	}
	defer f.Close()
	fmt.Fprintf(f, "%s %s/%s kind=%s: budget exhausted after %d of %d cases\n", mode, s.Design, m.Name, streamKind(m), done, total)
}

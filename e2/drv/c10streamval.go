package drv

import (
	"fmt"
	"reflect"
	"regexp"
	"sort"
	"strings"

	"verif/e2/spec"
)

// C10, validated streamed messages (family G-streamval, spec.GRPCStreamValidation): every message
// of a gRPC stream is validated by the generated stream that receives it before user code sees it.
//
//	direction  side=payload: the StreamingPayload of a client-streaming or bidirectional method; the
//	           receiver is the generated SERVER stream (user code = the service method calling Recv).
//	           side=result: the StreamingResult of a server-streaming or bidirectional method; the
//	           receiver is the generated CLIENT stream (user code = the caller of Recv).
//	alphabet   V = a message satisfying every constraint of the streamed type, I = one violating at
//	           least one (reference validator over the candidate values, as the generated Go type
//	           expresses them). V is instantiated by the first three distinct valid candidates in turn,
//	           I by one candidate per distinct set of violated rules (at most three per method).
//	           Result types are streamed under every view the type defines (the service method
//	           selects it with SetView): validity is that of the projection under the view.
//	bound      every sequence of length 0..3 over {V, I} (15 patterns), each pattern that contains I
//	           once per instance of I; the other direction carries one plain message (bidirectional:
//	           all requests, then all replies); a multi-view result next to a validated payload
//	           stream is returned under every view.
//	oracle     the receiver's Recv delivers exactly the messages before the first I, in order and
//	           equal under Equal's normalisations; the Recv that meets the first I returns a goa error
//	           named after one of the violated rules; nothing after it is delivered. A sender whose
//	           Send refuses I (nothing reaches the receiver) is accepted. Without I every message is
//	           delivered and the receiver meets no error.
//	not asserted: what the sending side observes after the receiver has stopped; the non-streamed
//	           result of a client-streaming call (round trips are the business of the other families).

// digitsRE abstracts the design's method and type numbers out of generated identifiers.
var digitsRE = regexp.MustCompile(`[0-9]+`)

type svDir struct {
	side    string // "payload" or "result"
	t       *spec.Type
	rt      reflect.Type
	view    string     // view under which a streamed result type is rendered ("": not a multi-view type)
	vt      *spec.Type // the type of the projection under the view (t itself without views)
	valid   []any
	invalid []any
}

// viewsOf lists the views of t when it is a result type with at least two views.
func viewsOf(sp *spec.Spec, t *spec.Type) []string {
	if t == nil || t.K != spec.KUser {
		return nil
	}
	td := sp.TypeDefByName(t.Ref)
	if td == nil || td.Kind != "result" || len(td.Views) < 2 {
		return nil
	}
	var out []string
	for _, v := range td.Views {
		out = append(out, v.Name)
	}
	return out
}

// projType is the object type holding the attributes of view `view` of result type t.
func projType(sp *spec.Spec, t *spec.Type, view string) *spec.Type {
	attrs, _, ok := sp.ViewAttrs(t.Ref, view)
	if !ok {
		return t
	}
	in := map[string]bool{}
	for _, a := range attrs {
		in[a] = true
	}
	e := sp.Eff(t)
	out := &spec.Type{K: spec.KObject}
	for _, a := range e.Attrs {
		if in[a.Name] {
			out.Attrs = append(out.Attrs, a)
		}
	}
	for _, r := range e.Required {
		if in[r] {
			out.Required = append(out.Required, r)
		}
	}
	return out
}

func projValue(vt *spec.Type, v any) any {
	o, ok := v.(spec.Obj)
	if !ok || vt == nil || vt.K != spec.KObject {
		return v
	}
	out := spec.Obj{}
	for _, a := range vt.Attrs {
		if x, ok := o[a.Name]; ok {
			out[a.Name] = x
		}
	}
	return out
}

// svMessages splits the candidate messages into the first three distinct valid ones and one
// invalid one per distinct set of violated rules (at most three), judged on the projection.
func svMessages(g *GRPCSvc, m *spec.Method, d *svDir) {
	sp := g.S.Spec
	seen := map[string]bool{}
	rules := map[string]bool{}
	for _, v := range gValues(sp, d.t, grpcLayout(sp, d.t, false, nil)) {
		// Int / UInt values beyond 32 bits are the business of G-types (goa maps Int to a 32-bit
		// scalar): here they are replaced by the 32-bit extremes, which keeps "a large number" in
		// the alphabet of every range validation
		v = narrowInts(sp, d.t, v)
		if v == nil {
			continue
		}
		ev, err := gExpressed(g, d.rt, d.t, v)
		if err != nil || unsetLike(ev) || gAmbiguous(sp, d.t, ev) {
			continue
		}
		pv := projValue(d.vt, ev)
		if seen[spec.Canon(pv)] || (d.view != "" && (unsetLike(pv) || gAmbiguous(sp, d.vt, pv))) {
			continue
		}
		seen[spec.Canon(pv)] = true
		issues := sp.Check(d.vt, pv, "message")
		if len(issues) == 0 {
			if len(d.valid) < 3 {
				d.valid = append(d.valid, v)
			}
			continue
		}
		rs := issueRules(issues)
		sort.Strings(rs)
		if k := strings.Join(rs, "+"); !rules[k] && len(d.invalid) < 3 {
			rules[k] = true
			d.invalid = append(d.invalid, v)
		}
	}
}

func runC10StreamVal(g *GRPCSvc, m *spec.Method, tier string, r *MethodResult) {
	sp := g.S.Spec
	reqT, resT := streamElemTypes(g, m)
	side := m.Feat["side"]
	var dirs []*svDir
	switch side {
	case "payload":
		dirs = []*svDir{{side: side, t: m.StreamPayload, rt: reqT, vt: m.StreamPayload}}
	case "result":
		vs := viewsOf(sp, m.StreamResult)
		if len(vs) == 0 {
			dirs = []*svDir{{side: side, t: m.StreamResult, rt: resT, vt: m.StreamResult}}
		}
		for _, v := range vs {
			dirs = append(dirs, &svDir{side: side, t: m.StreamResult, rt: resT, view: v, vt: projType(sp, m.StreamResult, v)})
		}
	}
	if len(dirs) == 0 || dirs[0].t == nil || dirs[0].rt == nil {
		r.HarnessErr = append(r.HarnessErr, fmt.Sprintf("c10 streamval: method has no streamed %s (Go type %v)", side, dirs))
		return
	}
	// the part of the exchange that is not under test
	base := streamRun{}
	if m.Payload != nil {
		pl := payloadGLayout(sp, m)
		base.payload = plainOf(sp, m.Payload, pl, gValues(sp, m.Payload, pl))
	}
	otherViews := []string{""}
	if side == "payload" {
		if m.StreamResult != nil {
			if vals, _ := validElems(g, m, resT, m.StreamResult); len(vals) > 0 {
				base.replies = []any{firstSet(vals)}
			}
			if vs := viewsOf(sp, m.StreamResult); len(vs) > 0 {
				otherViews = vs
			}
		} else if m.Result != nil {
			rl := resultGLayout(sp, m)
			base.result = plainOf(sp, m.Result, rl, gValues(sp, m.Result, rl))
			if vs := viewsOf(sp, m.Result); len(vs) > 0 {
				otherViews = vs
			}
		}
	} else if m.StreamPayload != nil {
		if vals, _ := validElems(g, m, reqT, m.StreamPayload); len(vals) > 0 {
			base.requests = []any{firstSet(vals)}
		}
	}
	for _, d := range dirs {
		svMessages(g, m, d)
		r.note("streamval_"+d.side+"_valid_values", int64(len(d.valid)))
		r.note("streamval_"+d.side+"_invalid_values", int64(len(d.invalid)))
		if len(d.invalid) == 0 {
			r.note("streamval_directions_without_invalid_message", 1)
		}
		for _, ov := range otherViews {
			for _, pat := range c04sPatterns(len(d.valid) > 0) {
				ivs := d.invalid
				if !strings.Contains(pat, "I") {
					ivs = []any{nil}
				}
				for _, iv := range ivs {
					seq := make([]any, len(pat))
					nv := 0
					for i, c := range pat {
						if c == 'I' {
							seq[i] = iv
						} else {
							seq[i] = d.valid[nv%len(d.valid)]
							nv++
						}
					}
					run := base
					if d.side == "payload" {
						run.requests = seq
						run.view = ov
					} else {
						run.replies = seq
						run.view = d.view
					}
					r.Cases++
					if strings.Contains(pat, "I") {
						r.Nontrivial++
					}
					c10StreamValOne(g, m, d, pat, run, r, true)
				}
			}
		}
	}
}

// narrowInts returns v with every Int (UInt) number outside the 32-bit range replaced by the
// nearest 32-bit number.
func narrowInts(sp *spec.Spec, t *spec.Type, v any) any {
	if t == nil || v == nil || t.K == spec.KUnion {
		return v
	}
	e := sp.Eff(t)
	switch x := v.(type) {
	case int64:
		if e.K == spec.KInt && x > 2147483647 {
			return int64(2147483647)
		}
		if e.K == spec.KInt && x < -2147483648 {
			return int64(-2147483648)
		}
	case uint64:
		if e.K == spec.KUInt && x > 4294967295 {
			return uint64(4294967295)
		}
	case spec.Arr:
		out := make(spec.Arr, len(x))
		for i, el := range x {
			out[i] = narrowInts(sp, e.Elem, el)
		}
		return out
	case spec.MapV:
		out := make(spec.MapV, len(x))
		for i, kv := range x {
			out[i] = kv
			out[i].K = narrowInts(sp, e.Key, kv.K)
			out[i].V = narrowInts(sp, e.Elem, kv.V)
		}
		return out
	case spec.Obj:
		out := spec.Obj{}
		for k, el := range x {
			out[k] = el
		}
		for _, a := range e.Attrs {
			if el, ok := x[a.Name]; ok {
				out[a.Name] = narrowInts(sp, a.T, el)
			}
		}
		return out
	}
	return v
}

// firstSet picks the first value that is not nil / an empty collection (else the first).
func firstSet(vals []any) any {
	for _, v := range vals {
		if !unsetLike(v) {
			return v
		}
	}
	return vals[0]
}

func (d *svDir) receiverName() string {
	if d.side == "result" {
		return "the generated client stream's"
	}
	return "the generated server stream's"
}

func c10StreamValOne(g *GRPCSvc, m *spec.Method, d *svDir, pat string, run streamRun, r *MethodResult, report bool) []string {
	sp := g.S.Spec
	so := streamExchange(g, m, run)
	if report {
		r.Execs++
	}
	if so.herr != nil {
		if report {
			r.HarnessErr = append(r.HarnessErr, "c10 streamval: "+so.herr.Error())
		}
		return nil
	}
	seq := run.requests
	got := so.srvRecv
	rerr := so.srvRecvErr
	nsent := so.cliSent
	if d.side == "result" {
		seq, got, rerr = run.replies, so.cliRecv, so.cliRecvErr
		nsent = len(seq)
		if so.srvSendFail >= 0 {
			nsent = so.srvSendFail
		}
	}
	var sigs []string
	fail := func(sig, what string) {
		sigs = append(sigs, sig)
		if report {
			cs := map[string]any{"design": g.S.Design, "service": g.S.Service.Name, "method": m.Name, "pattern": pat, "side": d.side, "view": run.view,
				"requests": seqJSON(run.requests), "replies": seqJSON(run.replies), "result": spec.JSONable(run.result),
				"server_received": seqJSON(so.srvRecv), "client_received": seqJSON(so.cliRecv),
				"client_error": fmt.Sprint(so.cliErr), "client_send_error": fmt.Sprint(so.cliSendErr), "client_recv_error": fmt.Sprint(so.cliRecvErr),
				"server_recv_error": fmt.Sprint(so.srvRecvErr), "server_send_error": fmt.Sprint(so.srvSendErr)}
			r.violation(sig, what, cs, func() []string { return c10StreamValOne(g, m, d, pat, run, r, false) })
		}
	}
	outcome := func(o string) {
		if report {
			r.outcome(o)
		}
	}
	feat := fmt.Sprintf("side=%s stream=%s shape=%s valid=%s result=%s", d.side, m.Feat["stream"], m.Feat["shape"], m.Feat["valid"], m.Feat["result"])
	if d.view != "" {
		feat += " view=" + d.view
	}
	if so.call.ServerPanic != "" {
		// the validation keyword is left out: a panic in a conversion does not depend on it
		pfeat := fmt.Sprintf("side=%s stream=%s shape=%s result=%s", d.side, m.Feat["stream"], m.Feat["shape"], m.Feat["result"])
		if d.view != "" {
			pfeat += " view=" + d.view
		}
		fail(fmt.Sprintf("C10 stream-panic %s %s", pfeat, digitsRE.ReplaceAllString(panicSite(so.call.ServerPanic), "N")), "generated code panicked: "+so.call.ServerPanic)
		return sigs
	}
	if so.invoked != 1 {
		outcome("streamval not-invoked code=" + grpcCode(so.cliErr))
		fail(fmt.Sprintf("C10 stream-not-opened %s observed=invoked-%d-%s", feat, so.invoked, grpcCode(so.cliErr)),
			fmt.Sprintf("the streaming call did not reach the service method once (invoked=%d, client error=%v)", so.invoked, so.cliErr))
		return sigs
	}
	// what was sent and what arrived, as the generated type expresses it, projected on the view
	sent := make([]any, len(seq))
	for i, v := range seq {
		ev, _ := gExpressed(g, d.rt, d.t, v)
		sent[i] = projValue(d.vt, ev)
	}
	gotP := make([]any, len(got))
	for i, v := range got {
		gotP[i] = projValue(d.vt, v)
	}
	got = gotP
	k := len(sent)
	var issues []spec.Issue
	for i, v := range sent {
		if is := sp.Check(d.vt, v, "message"); len(is) > 0 {
			k, issues = i, is
			break
		}
	}
	n := len(got)
	if n > k {
		n = k
	}
	if !seqEqual(sp, d.vt, sent[:n], got[:n]) {
		v := compareSeq(sp, d.vt, sent[:k], got[:n])
		outcome("streamval valid-prefix-changed")
		fail(fmt.Sprintf("C10 stream-valid-prefix-%s %s pos=%s", v.Class, feat, posClass(v.Pos, k)),
			fmt.Sprintf("the messages before the first invalid one are %v, %s Recv delivered %v: %s", seqJSON(sent[:k]), d.receiverName(), seqJSON(got), v.What))
		return sigs
	}
	if len(got) < k {
		if nsent < k && len(got) == nsent {
			serr := so.cliSendErr
			if d.side == "result" {
				serr = so.srvSendErr
			}
			outcome("streamval valid-refused-by-sender")
			fail(fmt.Sprintf("C10 stream-valid-refused-by-sender %s pos=%s value=%s observed=%s", feat, posClass(nsent, len(sent)), valueClass(sent[nsent]), c10sErrClass(serr)),
				fmt.Sprintf("message %d of %v satisfies the design but the sending side's Send returned %v", nsent+1, seqJSON(sent), serr))
			return sigs
		}
		outcome("streamval valid-rejected")
		fail(fmt.Sprintf("C10 stream-valid-rejected %s pos=%s value=%s observed=%s", feat, posClass(len(got), len(sent)), valueClass(sent[len(got)]), c10sErrClass(rerr)),
			fmt.Sprintf("message %d of %v satisfies the design but %s Recv returned %v instead of delivering it (delivered before: %v)", len(got)+1, seqJSON(sent), d.receiverName(), rerr, seqJSON(got)))
		return sigs
	}
	if k == len(sent) {
		if len(got) > k {
			outcome("streamval extra-message")
			fail(fmt.Sprintf("C10 stream-extra-message %s sent=%d observed=%d", feat, len(sent), len(got)),
				fmt.Sprintf("%d valid messages sent, %s Recv delivered %v", len(sent), d.receiverName(), seqJSON(got)))
			return sigs
		}
		if rerr != nil {
			outcome("streamval valid-sequence-error")
			fail(fmt.Sprintf("C10 stream-valid-sequence-error %s len=%s observed=%s", feat, seqLenClass(len(sent)), c10sErrClass(rerr)),
				fmt.Sprintf("every message of %v satisfies the design and was delivered, then %s Recv returned %v instead of the end of the stream", seqJSON(sent), d.receiverName(), rerr))
			return sigs
		}
		outcome(fmt.Sprintf("streamval all-valid-delivered side=%s n=%s", d.side, seqLenClass(len(sent))))
		return sigs
	}
	rules := issueRules(issues)
	if len(got) > k {
		outcome("streamval invalid-delivered")
		what := fmt.Sprintf("message %d of %v violates %v but %s Recv delivered it to user code (delivered: %v)", k+1, seqJSON(sent), issues, d.receiverName(), seqJSON(got))
		if !sameMsg(sp, d.vt, sent[k], got[k]) {
			what += "; what was delivered differs from what was sent"
		}
		fail(fmt.Sprintf("C10 stream-invalid-delivered %s rule=%s value=%s", feat, rules[0], valueClass(sent[k])), what)
		return sigs
	}
	if nsent <= k {
		outcome("streamval invalid-refused-by-sender side=" + d.side)
		return sigs
	}
	name := goaErrorName(rerr)
	named := false
	for _, ru := range rules {
		if ru == name {
			named = true
		}
	}
	if !named {
		outcome("streamval invalid-wrong-error")
		fail(fmt.Sprintf("C10 stream-wrong-error %s rule=%s pos=%s observed=%s", feat, rules[0], posClass(k, len(sent)), c10sErrClass(rerr)),
			fmt.Sprintf("message %d of %v violates %v: %s Recv did not deliver it but returned %v, which does not name the violated rule", k+1, seqJSON(sent), issues, d.receiverName(), rerr))
		return sigs
	}
	outcome(fmt.Sprintf("streamval invalid-rejected-%s side=%s prefix=%s", name, d.side, seqLenClass(k)))
	if report && r.Cases%13 == 1 {
		r.sample(map[string]any{"side": d.side, "stream": m.Feat["stream"], "pattern": pat, "view": run.view, "sent": seqJSON(sent), "delivered": seqJSON(got), "error": rerr.Error(), "error_name": name})
	}
	return sigs
}

// c10sErrClass abstracts the error a stream operation returned.
func c10sErrClass(err error) string {
	if err == nil {
		return "none"
	}
	if n := goaErrorName(err); n != "" {
		return "named-" + n
	}
	return "code-" + grpcCode(err)
}

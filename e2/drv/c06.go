package drv

import (
	"errors"
	"fmt"
	"reflect"
	"sort"
	"strings"

	"verif/e2/spec"
)

func init() { RegisterMode("C06", runC06) }

// effectiveSecurity is the reference for requirement inheritance: the method's own
// declaration, else the service's, else the API's; NoSecurity empties it.
func effectiveSecurity(sp *spec.Spec, svc *spec.Service, m *spec.Method) []spec.Requirement {
	for _, s := range []*spec.Security{m.Security, svc.Security, sp.Security} {
		if s == nil {
			continue
		}
		if s.None {
			return nil
		}
		if len(s.Reqs) > 0 {
			return s.Reqs
		}
	}
	return nil
}

func schemeByName(sp *spec.Spec, n string) *spec.Scheme {
	for i := range sp.Schemes {
		if sp.Schemes[i].Name == n {
			return &sp.Schemes[i]
		}
	}
	return nil
}

type credSet struct {
	label                  string
	usr, pwd, key, tok, at string
}

func credMenu(thorough bool) []credSet {
	m := []credSet{
		{"plain", "user", "pass", "key1", "tok", "atok"},
		{"unicode-and-symbols", "üser", "p:ss w", "k&y=1", "t.o-k_é", "a+tok"},
		{"token-with-bearer-prefix", "user", "pass", "key1", "Bearer tok", "Bearer atok"},
		{"prefixed-token-with-inner-whitespace", "user", "pass", "key1", "Bearer t ok  x", "Bearer a\ttok y"},
	}
	if thorough {
		m = append(m, credSet{"token-with-spaces", "u s e r", "", "a b c", "a b c", "x y"},
			credSet{"token-looks-basic", "user", "pass", "Basic dXNlcjpwYXNz", "Basic dXNlcjpwYXNz", "Basic x"})
	}
	return m
}

func runC06(s *Svc, m *spec.Method, tier string) *MethodResult {
	r := &MethodResult{}
	if m.HTTP == nil || m.Feat["family"] != "L2-security" {
		r.Skipped = "not a security-family method"
		return r
	}
	sp := s.Spec
	reqs := effectiveSecurity(sp, s.Service, m)
	var names []string
	seen := map[string]bool{}
	for _, rq := range reqs {
		for _, u := range rq {
			if !seen[u.Scheme] {
				seen[u.Scheme] = true
				names = append(names, u.Scheme)
			}
		}
	}
	sort.Strings(names)
	k := len(names)
	for vec := 0; vec < 1<<k; vec++ {
		accept := map[string]bool{}
		for i, n := range names {
			accept[n] = vec&(1<<i) != 0
		}
		for _, cs := range credMenu(tier == "thorough") {
			r.Cases++
			if k > 0 {
				r.Nontrivial++
			}
			c06One(s, m, reqs, accept, cs, r, true)
		}
	}
	return r
}

func c06One(s *Svc, m *spec.Method, reqs []spec.Requirement, accept map[string]bool, cs credSet, r *MethodResult, report bool) []string {
	sp := s.Spec
	payload := spec.Obj{"data": "d"}
	e := sp.Eff(m.Payload)
	credOf := map[string]string{} // attribute -> credential
	for _, a := range e.Attrs {
		switch {
		case a.Sec == "username":
			payload[a.Name], credOf[a.Name] = cs.usr, cs.usr
		case a.Sec == "password":
			payload[a.Name], credOf[a.Name] = cs.pwd, cs.pwd
		case strings.HasPrefix(a.Sec, "apikey:"):
			payload[a.Name], credOf[a.Name] = cs.key, cs.key
		case a.Sec == "token":
			payload[a.Name], credOf[a.Name] = cs.tok, cs.tok
		case a.Sec == "accesstoken":
			payload[a.Name], credOf[a.Name] = cs.at, cs.at
		}
	}
	var rerr error
	call := &Call{Reply: replyWith(s, m, spec.Obj{"ok": "y"}, "", nil, &rerr)}
	call.AuthReply = func(ac AuthCall) error {
		name := schemeName(ac.Scheme)
		if !accept[name] {
			return errors.New("reject " + name)
		}
		return nil
	}
	var payloadV any
	pt := s.PayloadType(m.Name)
	rv, err := s.V.New(pt, m.Payload, payload)
	if err != nil {
		if report {
			r.HarnessErr = append(r.HarnessErr, "c06 payload: "+err.Error())
		}
		return nil
	}
	payloadV = rv.Interface()
	_, cerr := s.Invoke(call, m.Name, payloadV)
	if report {
		r.Execs++
	}
	var sigs []string
	vecs := ""
	var ks []string
	for n := range accept {
		ks = append(ks, n)
	}
	sort.Strings(ks)
	for _, n := range ks {
		if accept[n] {
			vecs += "+" + n
		} else {
			vecs += "-" + n
		}
	}
	feat := fmt.Sprintf("level=%s override=%s reqs=%s", m.Feat["level"], m.Feat["override"], m.Feat["reqs"])
	fail := func(sig, what string) {
		sigs = append(sigs, sig)
		if report {
			c := map[string]any{"design": s.Design, "service": s.Service.Name, "method": m.Name, "feat": m.Feat, "accept_vector": vecs, "credentials": cs.label,
				"auth_calls": describeAuth(call.AuthCalls), "invoked": call.Invoked, "client_error": fmt.Sprint(cerr)}
			if call.ServerReq != nil {
				c["request"] = call.ServerReq.Method + " " + call.ServerReq.RequestURI
				c["request_headers"] = call.ServerReq.Header
			}
			r.violation(sig, what, c, func() []string { return c06One(s, m, reqs, accept, cs, r, false) })
		}
	}
	if call.ServerPanic != "" {
		fail("C06 server-panic "+feat+" "+panicSite(call.ServerPanic), "server panicked: "+call.ServerPanic)
		return sigs
	}
	if call.ServerReq == nil || (call.Rec != nil && call.Invoked == 0 && len(call.AuthCalls) == 0 && len(reqs) > 0 && call.Rec.Code != 0 && call.Rec.Code/100 == 4 && errorName(call) == "missing_field") {
		// credentials did not reach the decoder (e.g. empty values): delivery is C02's subject
		if report {
			r.outcome("request-rejected-before-security")
			r.note("requests_rejected_before_security_(C02_delivery_classes)", 1)
		}
		return sigs
	}
	// reference verdict: OR over requirements of AND over schemes
	want := len(reqs) == 0
	for _, rq := range reqs {
		all := true
		for _, u := range rq {
			if !accept[u.Scheme] {
				all = false
			}
		}
		if all {
			want = true
		}
	}
	if len(reqs) == 0 && len(call.AuthCalls) > 0 {
		fail("C06 callback-on-unsecured "+feat, fmt.Sprintf("method without effective requirement invoked %d authorization callbacks", len(call.AuthCalls)))
	}
	if want && call.Invoked != 1 {
		fail(fmt.Sprintf("C06 satisfied-but-not-invoked %s creds=%s", feat, cs.label), fmt.Sprintf("vector %s satisfies a requirement but user code was not invoked (client error: %v)", vecs, cerr))
		return sigs
	}
	if !want && call.Invoked != 0 {
		fail(fmt.Sprintf("C06 unsatisfied-but-invoked %s", feat), fmt.Sprintf("vector %s satisfies no requirement but user code was invoked", vecs))
		return sigs
	}
	if !want {
		if cerr == nil {
			fail("C06 unsatisfied-no-client-error "+feat, "every requirement failed but the client received no error")
		} else if !strings.Contains(cerr.Error(), "reject ") && (call.Rec == nil || !strings.Contains(call.Rec.Body.String(), "reject ")) {
			fail("C06 unsatisfied-error-not-callbacks "+feat, fmt.Sprintf("the caller did not receive the callback's error: %v / %s", cerr, truncate(call.Rec.Body.String(), 200)))
		}
	}
	// every callback that ran: designed credential, scheme name, declared and required scopes
	for _, ac := range call.AuthCalls {
		name := schemeName(ac.Scheme)
		sc := schemeByName(sp, name)
		if sc == nil {
			fail("C06 callback-unknown-scheme "+feat, fmt.Sprintf("callback %s received scheme %q which the design does not define", ac.Func, name))
			continue
		}
		wantFunc := map[string]string{"basic": "BasicAuth", "apikey": "APIKeyAuth", "jwt": "JWTAuth", "oauth2": "OAuth2Auth"}[sc.Kind]
		if ac.Func != wantFunc {
			fail(fmt.Sprintf("C06 callback-kind scheme=%s", sc.Kind), fmt.Sprintf("scheme %s (%s) was checked through %s", name, sc.Kind, ac.Func))
		}
		if got := schemeStrings(ac.Scheme, "Scopes"); !sameSet(got, sc.Scopes) {
			fail(fmt.Sprintf("C06 callback-declared-scopes scheme=%s", sc.Kind), fmt.Sprintf("scheme %s declared scopes %v, callback got %v", name, sc.Scopes, got))
		}
		// required scopes must be those of one of the effective requirements naming the scheme
		got := schemeStrings(ac.Scheme, "RequiredScopes")
		okReq := false
		for _, rq := range reqs {
			for _, u := range rq {
				if u.Scheme == name && sameSet(got, reqScopes(rq)) {
					okReq = true
				}
			}
		}
		if !okReq {
			fail(fmt.Sprintf("C06 callback-required-scopes scheme=%s %s", sc.Kind, feat), fmt.Sprintf("scheme %s: callback got required scopes %v which no effective requirement asks for", name, got))
		}
		// credentials
		var wantCred []string
		switch sc.Kind {
		case "basic":
			wantCred = []string{cs.usr, cs.pwd}
		case "apikey":
			wantCred = []string{cs.key}
		case "jwt":
			wantCred = []string{stripScheme(cs.tok)}
		case "oauth2":
			wantCred = []string{stripScheme(cs.at)}
		}
		var gotCred []string
		for _, a := range ac.Args[1 : len(ac.Args)-1] {
			gotCred = append(gotCred, fmt.Sprint(a))
		}
		if strings.Join(gotCred, "\x00") != strings.Join(wantCred, "\x00") {
			fail(fmt.Sprintf("C06 callback-credential scheme=%s creds=%s mapping=%s", sc.Kind, cs.label, mappingOf(m, sc.Kind)),
				fmt.Sprintf("scheme %s: callback received credential %q, the caller provided %q", name, gotCred, wantCred))
		}
	}
	if report {
		r.outcome(fmt.Sprintf("invoked=%d callbacks=%d", call.Invoked, len(call.AuthCalls)))
		if r.Cases%13 == 1 {
			r.sample(map[string]any{"reqs": m.Feat["reqs"], "level": m.Feat["level"], "override": m.Feat["override"], "vector": vecs, "creds": cs.label, "invoked": call.Invoked, "callbacks": describeAuth(call.AuthCalls)})
		}
	}
	return sigs
}

func mappingOf(m *spec.Method, kind string) string {
	if m.Feat["mapping"] != "" {
		return m.Feat["mapping"]
	}
	return "explicit"
}

// reqScopes is the union of scopes required by a requirement (goa attaches the scopes of a
// Security call to every scheme of that call).
func reqScopes(rq spec.Requirement) []string {
	var out []string
	for _, u := range rq {
		out = append(out, u.Scopes...)
	}
	return out
}

func sameSet(a, b []string) bool {
	x := append([]string{}, a...)
	y := append([]string{}, b...)
	sort.Strings(x)
	sort.Strings(y)
	return strings.Join(x, ",") == strings.Join(y, ",")
}

func schemeName(sc any) string {
	rv := reflect.ValueOf(sc)
	if rv.Kind() == reflect.Ptr && !rv.IsNil() {
		rv = rv.Elem()
	}
	if rv.Kind() == reflect.Struct {
		if f := rv.FieldByName("Name"); f.IsValid() {
			return f.String()
		}
	}
	return ""
}

func schemeStrings(sc any, field string) []string {
	rv := reflect.ValueOf(sc)
	if rv.Kind() == reflect.Ptr && !rv.IsNil() {
		rv = rv.Elem()
	}
	var out []string
	if rv.Kind() == reflect.Struct {
		if f := rv.FieldByName(field); f.IsValid() && f.Kind() == reflect.Slice {
			for i := 0; i < f.Len(); i++ {
				out = append(out, f.Index(i).String())
			}
		}
	}
	return out
}

func describeAuth(calls []AuthCall) []string {
	var out []string
	for _, ac := range calls {
		var creds []string
		if len(ac.Args) > 2 {
			for _, a := range ac.Args[1 : len(ac.Args)-1] {
				creds = append(creds, fmt.Sprintf("%q", a))
			}
		}
		out = append(out, fmt.Sprintf("%s(%s, scheme=%s, scopes=%v, required=%v)", ac.Func, strings.Join(creds, ","), schemeName(ac.Scheme), schemeStrings(ac.Scheme, "Scopes"), schemeStrings(ac.Scheme, "RequiredScopes")))
	}
	return out
}

// stripScheme: a token the caller provides as "<scheme> <credentials>" (e.g. "Bearer tok")
// reaches the callback with the scheme prefix removed, as the statement says; a token without
// a space is sent with the Bearer prefix by the client and arrives as provided.
func stripScheme(tok string) string {
	if i := strings.Index(tok, " "); i >= 0 {
		return tok[i+1:]
	}
	return tok
}

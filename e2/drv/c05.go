package drv

import (
	"encoding/json"
	"errors"
	"fmt"
	"reflect"
	"strings"

	goa "goa.design/goa/v3/pkg"

	"verif/e2/spec"
	"verif/e2/vreg"
)

func init() { RegisterMode("C05", runC05) }

// declaredErrors returns the errors a method can declare-return with their designed response:
// method-level, then service-level (inheritance by name); HTTP responses are looked up at API, service and method level.
func declaredErrors(sp *spec.Spec, svc *spec.Service, m *spec.Method) (defs []spec.ErrorDef, resp map[string]spec.Resp) {
	resp = map[string]spec.Resp{}
	seen := map[string]bool{}
	for _, lvl := range [][]spec.ErrorDef{m.Errors, svc.Errors} { // API-level errors are reusable definitions: they apply only where referenced
		for _, e := range lvl {
			if !seen[e.Name] {
				seen[e.Name] = true
				defs = append(defs, e)
			}
		}
	}
	for _, lvl := range [][]spec.Resp{sp.HTTPErrs, svc.HTTPErrs, m.HTTP.Responses} {
		for _, r := range lvl {
			if r.Error != "" {
				resp[r.Error] = r // later (more specific) levels override
			}
		}
	}
	return defs, resp
}

func (s *Svc) serviceSyms() map[string]any {
	for _, e := range vreg.All() {
		if e.Design == s.Design && norm(e.Service) == norm(s.Service.Name) && e.Role == "service" {
			return e.Syms
		}
	}
	return nil
}

func symByNorm(syms map[string]any, want string) any {
	for k, v := range syms {
		if norm(k) == norm(want) {
			return v
		}
	}
	return nil
}

// errCase is one thing the stub service returns as its error.
type errCase struct {
	label    string
	declared string // name of the declared error it is an instance of ("" = undeclared)
	build    func() (error, error)
	// reference expectations
	refStatus int // for undeclared errors
	refFault  bool
	se        *goa.ServiceError // the service error involved, when any
	custom    any               // neutral value of a custom error
}

func refStatusOf(name string, timeout, temp, fault bool) int {
	switch {
	case name == "unsupported_media_type":
		return 415
	case fault:
		return 500
	case timeout && temp:
		return 504
	case timeout:
		return 408
	case temp:
		return 503
	}
	return 400
}

func runC05(s *Svc, m *spec.Method, tier string) *MethodResult {
	r := &MethodResult{}
	if m.HTTP == nil || m.Feat["family"] != "L2-errors" {
		r.Skipped = "not an error-family method"
		return r
	}
	sp := s.Spec
	syms := s.serviceSyms()
	defs, resps := declaredErrors(sp, s.Service, m)
	var cases []errCase
	for _, d := range defs {
		d := d
		if _, ok := resps[d.Name]; !ok {
			continue
		}
		switch {
		case d.Type == nil:
			mk, _ := symByNorm(syms, "Make"+d.Name).(func(error) *goa.ServiceError)
			if mk == nil {
				r.HarnessErr = append(r.HarnessErr, "no Make function for "+d.Name)
				continue
			}
			cases = append(cases, errCase{label: "declared-default-make", declared: d.Name, build: func() (error, error) { return mk(errors.New("msg " + d.Name)), nil }})
			for fl := 0; fl < 8; fl++ {
				fl := fl
				cases = append(cases, errCase{label: fmt.Sprintf("declared-default-flags-%03b", fl), declared: d.Name, build: func() (error, error) {
					return &goa.ServiceError{Name: d.Name, ID: "id" + d.Name, Message: "m " + d.Name, Timeout: fl&4 != 0, Temporary: fl&2 != 0, Fault: fl&1 != 0}, nil
				}})
			}
			cases = append(cases, errCase{label: "declared-default-wrapped", declared: d.Name, build: func() (error, error) {
				return fmt.Errorf("ctx: %w", mk(errors.New("msg "+d.Name))), nil
			}})
		case d.Type.K == spec.KUser:
			rt, _ := symByNorm(syms, "type:"+d.Type.Ref).(reflect.Type)
			if rt == nil {
				r.HarnessErr = append(r.HarnessErr, "no type for "+d.Type.Ref)
				continue
			}
			for _, val := range []spec.Obj{
				{"name": d.Name, "msg": "m1", "code": int64(7)},
				{"name": d.Name},
				{"name": d.Name, "msg": "", "code": int64(0)},
				{"name": d.Name, "msg": "é \"q\"", "code": int64(-1)},
			} {
				val := val
				// an empty string carried in a header is seen as absent (C03 known class): not this property's subject
				for _, h := range resps[d.Name].Headers {
					if sv, ok := val[h.Attr].(string); ok && sv == "" {
						c2 := spec.Obj{}
						for k, x := range val {
							c2[k] = x
						}
						c2[h.Attr] = "z"
						val = c2
					}
				}
				cases = append(cases, errCase{label: "declared-custom", declared: d.Name, custom: val, build: func() (error, error) {
					pv := reflect.New(rt)
					if err := s.V.Set(pv.Elem(), d.Type, val); err != nil {
						return nil, err
					}
					e, ok := pv.Interface().(error)
					if !ok {
						return nil, fmt.Errorf("%s is not an error", rt)
					}
					return e, nil
				}})
			}
		case spec.IsPrimitive(d.Type.K):
			rt, _ := symByNorm(syms, "type:"+d.Name).(reflect.Type)
			if rt == nil {
				r.HarnessErr = append(r.HarnessErr, "no type for primitive error "+d.Name)
				continue
			}
			for _, txt := range []string{"primitive message", "", "é"} {
				txt := txt
				cases = append(cases, errCase{label: "declared-primitive", declared: d.Name, custom: txt, build: func() (error, error) {
					pv := reflect.New(rt).Elem()
					pv.SetString(txt)
					e, ok := pv.Interface().(error)
					if !ok {
						return nil, fmt.Errorf("%s is not an error", rt)
					}
					return e, nil
				}})
			}
		}
	}
	// undeclared errors
	for fl := 0; fl < 8; fl++ {
		fl := fl
		for _, name := range []string{"undeclared", "unsupported_media_type"} {
			name := name
			to, tmp, f := fl&4 != 0, fl&2 != 0, fl&1 != 0
			cases = append(cases, errCase{label: fmt.Sprintf("undeclared-service-error-%03b", fl), refStatus: refStatusOf(name, to, tmp, f), refFault: f,
				build: func() (error, error) {
					return &goa.ServiceError{Name: name, ID: "idx", Message: "m undeclared", Timeout: to, Temporary: tmp, Fault: f}, nil
				}})
		}
	}
	cases = append(cases,
		errCase{label: "undeclared-plain", refStatus: 500, refFault: true, build: func() (error, error) { return errors.New("boom"), nil }},
		errCase{label: "undeclared-wrapped-plain", refStatus: 500, refFault: true, build: func() (error, error) { return fmt.Errorf("outer: %w", errors.New("inner")), nil }},
		errCase{label: "undeclared-wrapped-service-error", refStatus: 503, refFault: false, build: func() (error, error) {
			return fmt.Errorf("outer: %w", goa.TemporaryError("undeclared", "tmp")), nil
		}},
		errCase{label: "undeclared-constructor-permanent", refStatus: 400, build: func() (error, error) { return goa.PermanentError("undeclared", "x"), nil }},
		errCase{label: "undeclared-constructor-timeout", refStatus: 408, build: func() (error, error) { return goa.PermanentTimeoutError("undeclared", "x"), nil }},
		errCase{label: "undeclared-constructor-temporary-timeout", refStatus: 504, build: func() (error, error) { return goa.TemporaryTimeoutError("undeclared", "x"), nil }},
		errCase{label: "undeclared-constructor-fault", refStatus: 500, refFault: true, build: func() (error, error) { return goa.Fault("x"), nil }},
	)
	for _, ec := range cases {
		ec := ec
		r.Cases++
		r.Nontrivial++
		c05One(s, m, ec, resps, r, true)
	}
	return r
}

func c05One(s *Svc, m *spec.Method, ec errCase, resps map[string]spec.Resp, r *MethodResult, report bool) []string {
	sp := s.Spec
	serr, berr := ec.build()
	if berr != nil {
		if report {
			r.HarnessErr = append(r.HarnessErr, "c05 build: "+berr.Error())
		}
		return nil
	}
	var herr error
	call, _, res, cerr, herr2 := exchange(s, m, spec.Obj{"sel": "x"}, replyWith(s, m, nil, "", serr, &herr))
	if report {
		r.Execs++
	}
	if herr == nil {
		herr = herr2
	}
	if herr != nil {
		if report {
			r.HarnessErr = append(r.HarnessErr, "c05: "+herr.Error())
		}
		return nil
	}
	var sigs []string
	feat := fmt.Sprintf("level=%s type=%s status=%s case=%s", m.Feat["level"], m.Feat["type"], m.Feat["status"], ec.label)
	if sh := m.Feat["shape"]; sh != "" {
		feat += " shape=" + sh
	}
	fail := func(sig, what string) {
		sigs = append(sigs, sig)
		if report {
			cs := map[string]any{"design": s.Design, "service": s.Service.Name, "method": m.Name, "returned_error": fmt.Sprintf("%T %v", serr, serr), "case": ec.label}
			if call.Rec != nil {
				cs["status"] = call.Rec.Code
				cs["response_headers"] = call.Rec.Header()
				cs["response_body"] = truncate(call.Rec.Body.String(), 400)
			}
			cs["client_error"] = fmt.Sprintf("%T %v", cerr, cerr)
			r.violation(sig, what, cs, func() []string { return c05One(s, m, ec, resps, r, false) })
		}
	}
	if call.ServerPanic != "" {
		fail("C05 server-panic "+feat+" "+panicSite(call.ServerPanic), "server handler panicked while encoding the error: "+call.ServerPanic)
		return sigs
	}
	if call.Invoked != 1 || call.Rec == nil {
		if report {
			r.outcome("request-not-delivered")
		}
		return sigs
	}
	if call.WriteHeaders != 1 {
		fail(fmt.Sprintf("C05 write-header-count %s n=%d", feat, call.WriteHeaders), fmt.Sprintf("%d WriteHeader calls for one error response", call.WriteHeaders))
	}
	status := call.Rec.Code
	body := call.Rec.Body.Bytes()
	var bodyAny any
	if len(body) > 0 {
		if err := json.Unmarshal(body, &bodyAny); err != nil {
			fail("C05 body-not-wellformed "+feat, fmt.Sprintf("error response body is not valid JSON: %s", truncate(string(body), 200)))
			return sigs
		}
	}
	if cerr == nil {
		fail("C05 client-no-error "+feat, fmt.Sprintf("service returned %v but the client returned a result %+v and no error", serr, res))
		return sigs
	}
	if ec.declared == "" {
		// undeclared: default mapping on the wire
		if status != ec.refStatus {
			fail(fmt.Sprintf("C05 undeclared-status %s expected=%d observed=%d", ec.label, ec.refStatus, status),
				fmt.Sprintf("undeclared error %v must be answered %d, got %d %s", serr, ec.refStatus, status, truncate(string(body), 200)))
			return sigs
		}
		bo, _ := bodyAny.(map[string]any)
		if f, _ := bo["fault"].(bool); f != ec.refFault {
			fail(fmt.Sprintf("C05 undeclared-fault-flag %s expected=%v", ec.label, ec.refFault), fmt.Sprintf("fault flag of the response body is %v: %s", f, truncate(string(body), 200)))
		}
		if report {
			r.outcome(fmt.Sprintf("undeclared status=%d", status))
		}
		return sigs
	}
	resp := resps[ec.declared]
	if status != resp.Status {
		fail(fmt.Sprintf("C05 declared-status %s expected=%d observed=%d", feat, resp.Status, status),
			fmt.Sprintf("declared error %s must use status %d, got %d %s", ec.declared, resp.Status, status, truncate(string(body), 200)))
		return sigs
	}
	// client-side error must be the same error
	var namer goa.GoaErrorNamer
	if !errors.As(cerr, &namer) || namer.GoaErrorName() != ec.declared {
		got := "none"
		if namer != nil {
			got = namer.GoaErrorName()
		}
		fail(fmt.Sprintf("C05 client-error-name %s observed=%s", feat, classifyName(got, ec.declared)),
			fmt.Sprintf("client error %T %v has name %q, want %q", cerr, cerr, got, ec.declared))
		return sigs
	}
	var def *spec.ErrorDef
	defs, _ := declaredErrors(sp, s.Service, m)
	for i := range defs {
		if defs[i].Name == ec.declared {
			def = &defs[i]
		}
	}
	switch {
	case def.Type == nil:
		var want, got *goa.ServiceError
		errors.As(serr, &want)
		if !errors.As(cerr, &got) {
			fail("C05 client-error-type "+feat, fmt.Sprintf("client error is %T, not a *goa.ServiceError", cerr))
			return sigs
		}
		var diffs []string
		if got.Message != want.Message {
			diffs = append(diffs, "message")
		}
		if got.ID != want.ID {
			diffs = append(diffs, "id")
		}
		if got.Timeout != want.Timeout || got.Temporary != want.Temporary || got.Fault != want.Fault {
			diffs = append(diffs, "flags")
		}
		if len(diffs) > 0 {
			fail(fmt.Sprintf("C05 client-error-values %s differs=%s", feat, strings.Join(diffs, "+")),
				fmt.Sprintf("service returned %+v, client got %+v", *want, *got))
		}
	case def.Type.K == spec.KUser:
		gotN := s.V.Get(reflect.ValueOf(cerr), def.Type)
		wantN := ec.custom
		if d := Equal(sp, def.Type, nil, wantN, gotN, "error"); d != nil {
			fail(fmt.Sprintf("C05 client-error-values %s differs=%s", feat, strings.TrimPrefix(d.Path, "error.")),
				fmt.Sprintf("%s: %s (service returned %s, client got %s)", d.Path, d.Why, spec.Canon(wantN), spec.Canon(gotN)))
		}
		// header-mapped attributes travel in the header
		for _, h := range resp.Headers {
			want := ec.custom.(spec.Obj)[h.Attr]
			got := call.Rec.Header().Get(h.Wire)
			if want != nil && got != fmt.Sprint(want) {
				fail(fmt.Sprintf("C05 declared-header %s", feat), fmt.Sprintf("header %s=%q, want %v", h.Wire, got, want))
			}
			if bo, ok := bodyAny.(map[string]any); ok {
				if _, present := bo[h.Attr]; present {
					fail(fmt.Sprintf("C05 declared-header-also-in-body %s", feat), fmt.Sprintf("attribute %s is mapped to header %s but also present in the body", h.Attr, h.Wire))
				}
			}
		}
	default:
		got := "?"
		if rv := reflect.ValueOf(cerr); rv.Kind() == reflect.String {
			got = rv.String()
		} else if rv.Kind() == reflect.Ptr && rv.Elem().Kind() == reflect.String {
			got = rv.Elem().String()
		}
		if got != ec.custom.(string) {
			fail(fmt.Sprintf("C05 client-error-values %s differs=text value=%s", feat, stringClass(ec.custom.(string))), fmt.Sprintf("service returned %q, client got %q (%T)", ec.custom, got, cerr))
		}
	}
	if report {
		r.outcome(fmt.Sprintf("declared status=%d", status))
		if r.Cases%9 == 1 {
			r.sample(map[string]any{"case": ec.label, "error": ec.declared, "status": status, "body": truncate(string(body), 160), "client_error": fmt.Sprintf("%T", cerr)})
		}
	}
	return sigs
}

func classifyName(got, want string) string {
	switch {
	case got == "none":
		return "unnamed"
	case got == want:
		return "same"
	}
	return "other-declared-or-default"
}

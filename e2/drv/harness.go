package drv

import (
	"bufio"
	"bytes"
	"context"
	"fmt"
	"io"
	"net/http"
	"net/http/httptest"
	"reflect"
	"runtime/debug"
	"strings"
	"sync"

	goahttp "goa.design/goa/v3/http"
	goa "goa.design/goa/v3/pkg"

	"verif/e2/spec"
	"verif/e2/vreg"
)

// Call records everything observable about one client call.
type Call struct {
	Method       string
	Reply        func(method string, args []any) []any // what the stub service answers
	Invoked      int
	Args         []any // arguments of the last Service method invocation
	AuthCalls    []AuthCall
	AuthReply    func(ac AuthCall) error
	ServerReq    *http.Request // request as parsed by net/http on the server side
	ReqBody      []byte
	Rec          *httptest.ResponseRecorder
	WriteHeaders int
	ServerPanic  string
	ErrHandler   []error
	Tamper       func(resp *http.Response) // optional response rewriting (C08)
}

// AuthCall is one invocation of an Auther callback.
type AuthCall struct {
	Func   string
	Args   []any
	Scheme any
}

// Svc is one mounted generated service: stub + generated endpoints + generated HTTP server on
// a goa muxer + generated HTTP client whose Doer is the in-memory wire.
type Svc struct {
	Design  string
	Spec    *spec.Spec
	Service *spec.Service
	V       V

	stub      reflect.Value
	endpoints reflect.Value
	mux       goahttp.Muxer
	server    reflect.Value
	client    reflect.Value
	goName    map[string]string // design method name -> Go method name

	mu  sync.Mutex
	cur *Call
}

type countingWriter struct {
	http.ResponseWriter
	n *int
}

func (w countingWriter) WriteHeader(code int) { *w.n++; w.ResponseWriter.WriteHeader(code) }
func (w countingWriter) Flush() {
	if f, ok := w.ResponseWriter.(http.Flusher); ok {
		f.Flush()
	}
}

// Do is the in-memory wire: the client request is serialised exactly as net/http's client
// transport would write it, parsed back by net/http's server-side request parser, and served
// by the goa muxer on a recorder.
func (s *Svc) Do(req *http.Request) (*http.Response, error) {
	call := s.cur
	if c, ok := req.Context().Value(callKey{}).(*Call); ok {
		call = c // concurrent use: the call record travels in the request context
	}
	var buf bytes.Buffer
	if err := req.Write(&buf); err != nil {
		return nil, fmt.Errorf("wire: cannot serialise request: %w", err)
	}
	sreq, err := http.ReadRequest(bufio.NewReader(&buf))
	if err != nil {
		return nil, fmt.Errorf("wire: server cannot parse request: %w", err)
	}
	body, _ := io.ReadAll(sreq.Body)
	sreq.Body = io.NopCloser(bytes.NewReader(body))
	sreq.RemoteAddr = "192.0.2.1:1234"
	if call != nil {
		sreq = sreq.WithContext(context.WithValue(sreq.Context(), callKey{}, call))
	}
	rec := httptest.NewRecorder()
	if call != nil {
		call.ServerReq = sreq
		call.ReqBody = body
		call.Rec = rec
	}
	n := 0
	func() {
		defer func() {
			if r := recover(); r != nil {
				if call != nil {
					call.ServerPanic = fmt.Sprintf("%v\n%s", r, trimStack(debug.Stack()))
				}
			}
		}()
		s.mux.ServeHTTP(countingWriter{rec, &n}, sreq)
	}()
	if call != nil {
		call.WriteHeaders = n
		if call.ServerPanic != "" {
			return nil, fmt.Errorf("wire: server handler panicked (connection aborted): %s", firstLine(call.ServerPanic))
		}
	}
	resp := rec.Result()
	resp.Request = req
	if call != nil && call.Tamper != nil {
		call.Tamper(resp)
	}
	return resp, nil
}

func firstLine(s string) string {
	if i := strings.IndexByte(s, '\n'); i >= 0 {
		return s[:i]
	}
	return s
}

func trimStack(b []byte) string {
	lines := strings.Split(string(b), "\n")
	var keep []string
	for _, l := range lines {
		if strings.Contains(l, "corpus/") || strings.Contains(l, "goa.design/goa/v3") || strings.Contains(l, "/repo/") {
			keep = append(keep, strings.TrimSpace(l))
		}
		if len(keep) > 12 {
			break
		}
	}
	return strings.Join(keep, "\n")
}

func (s *Svc) hook(method string, args []any) []any {
	call := s.cur
	if len(args) > 0 {
		if ctx, ok := args[0].(context.Context); ok {
			if c, ok := ctx.Value(callKey{}).(*Call); ok {
				call = c
			}
		}
	}
	if call == nil {
		return nil
	}
	if strings.HasSuffix(method, "Auth") && isAuthMethod(method) {
		ac := AuthCall{Func: method, Args: args}
		if len(args) > 0 {
			ac.Scheme = args[len(args)-1]
		}
		call.AuthCalls = append(call.AuthCalls, ac)
		var err error
		if call.AuthReply != nil {
			err = call.AuthReply(ac)
		}
		ctx, _ := args[0].(context.Context)
		if err != nil {
			return []any{ctx, err}
		}
		return []any{ctx, nil}
	}
	call.Invoked++
	call.Args = args
	if call.Reply != nil {
		return call.Reply(method, args)
	}
	return nil
}

func isAuthMethod(m string) bool {
	switch m {
	case "BasicAuth", "APIKeyAuth", "JWTAuth", "OAuth2Auth":
		return true
	}
	return false
}

// callFunc calls fn (a reflect func) filling each parameter with the first candidate whose
// type is assignable; unknown parameters get their zero value.
func callFunc(fn reflect.Value, cands ...any) []reflect.Value {
	ft := fn.Type()
	args := make([]reflect.Value, ft.NumIn())
	used := make([]bool, len(cands))
	for i := 0; i < ft.NumIn(); i++ {
		pt := ft.In(i)
		args[i] = reflect.Zero(pt)
		for j, c := range cands {
			if used[j] || c == nil {
				continue
			}
			cv := reflect.ValueOf(c)
			if cv.Type().AssignableTo(pt) {
				args[i] = cv
				used[j] = true
				break
			}
			if cv.Type().ConvertibleTo(pt) && cv.Kind() == reflect.Func && pt.Kind() == reflect.Func {
				args[i] = cv.Convert(pt)
				used[j] = true
				break
			}
		}
	}
	return fn.Call(args)
}

// Mount builds the stub, endpoints, server and client of one service of a linked design.
func Mount(design string, sp *spec.Spec, svc *spec.Service) (*Svc, error) {
	s := &Svc{Design: design, Spec: sp, Service: svc, V: V{S: sp}, goName: map[string]string{}}
	dir := norm(svc.Name)
	var syms, ssyms, csyms map[string]any
	for _, e := range vreg.All() {
		if e.Design != design || norm(e.Service) != dir {
			continue
		}
		switch e.Role {
		case "service":
			syms = e.Syms
		case "server":
			ssyms = e.Syms
		case "client":
			csyms = e.Syms
		}
	}
	if syms == nil {
		return nil, fmt.Errorf("%s/%s: service package not registered", design, svc.Name)
	}
	s.V.Types = typeLookup(syms)
	stub := syms["NewStub"].(func(vreg.Hook) any)(s.hook)
	s.stub = reflect.ValueOf(stub)
	for _, gm := range syms["GoMethods"].([]string) {
		s.goName[norm(gm)] = gm
	}
	out := callFunc(reflect.ValueOf(syms["NewEndpoints"]), stub)
	s.endpoints = out[0]
	if ssyms == nil || csyms == nil {
		return s, nil // no HTTP transport
	}
	s.mux = goahttp.NewMuxer()
	errh := func(ctx context.Context, w http.ResponseWriter, err error) {
		if c := s.cur; c != nil {
			c.ErrHandler = append(c.ErrHandler, err)
		}
	}
	dec := goahttp.RequestDecoder
	enc := goahttp.ResponseEncoder
	out = callFunc(reflect.ValueOf(ssyms["New"]), s.endpoints.Interface(), s.mux, dec, enc, errh, http.Dir("/nonexistent"))
	s.server = out[0]
	callFunc(reflect.ValueOf(ssyms["Mount"]), s.mux, s.server.Interface())
	var doer goahttp.Doer = doerFunc(s.Do)
	out = callFunc(reflect.ValueOf(csyms["NewClient"]), "http", "verif.test", doer, goahttp.RequestEncoder, goahttp.ResponseDecoder, false)
	s.client = out[0]
	return s, nil
}

type doerFunc func(*http.Request) (*http.Response, error)

func (f doerFunc) Do(r *http.Request) (*http.Response, error) { return f(r) }

// GoMethod returns the Go name of a design method.
func (s *Svc) GoMethod(m string) string { return s.goName[norm(m)] }

// PayloadType returns the Go type of the payload parameter of a Service method (nil if none).
func (s *Svc) PayloadType(m string) reflect.Type {
	mt, ok := s.stub.Type().MethodByName(s.GoMethod(m))
	if !ok {
		return nil
	}
	// receiver, ctx, [payload], [stream]
	if mt.Type.NumIn() >= 3 {
		return mt.Type.In(2)
	}
	return nil
}

// ResultType returns the Go type of the first result of a Service method (nil if only error).
func (s *Svc) ResultType(m string) reflect.Type {
	mt, ok := s.stub.Type().MethodByName(s.GoMethod(m))
	if !ok {
		return nil
	}
	if mt.Type.NumOut() >= 2 {
		return mt.Type.Out(0)
	}
	return nil
}

// NumResults returns the number of results of the Service method (2: res, err; 3: res, view, err).
func (s *Svc) NumResults(m string) int {
	mt, ok := s.stub.Type().MethodByName(s.GoMethod(m))
	if !ok {
		return 0
	}
	return mt.Type.NumOut()
}

// Invoke calls the generated client endpoint of method m with the payload (nil = none) while
// call is the current observation record. It returns the client's result and error.
func (s *Svc) Invoke(call *Call, m string, payload any) (res any, err error) {
	s.mu.Lock()
	defer s.mu.Unlock()
	s.cur = call
	defer func() { s.cur = nil }()
	call.Method = m
	epm := s.client.MethodByName(s.GoMethod(m))
	if !epm.IsValid() {
		return nil, fmt.Errorf("harness: client has no endpoint method for %q", m)
	}
	ep := epm.Call(nil)[0].Interface().(goa.Endpoint)
	defer func() {
		if r := recover(); r != nil {
			err = fmt.Errorf("client panic: %v\n%s", r, trimStack(debug.Stack()))
			res = nil
			call.ServerPanic += "client-side panic: " + fmt.Sprint(r)
		}
	}()
	return ep(context.Background(), payload)
}

// callKey carries the *Call through request contexts so that several calls can be in flight
// on one mounted service (C20 family B); sequential modes keep using Invoke.
type callKey struct{}

// InvokeConcurrent is Invoke without the per-service serialisation: the call record travels in
// the context (client request -> in-memory wire -> server request -> stub hook), so any number
// of calls may overlap on one Svc. It takes no lock and touches no shared harness state.
func (s *Svc) InvokeConcurrent(call *Call, m string, payload any) (res any, err error) {
	call.Method = m
	epm := s.client.MethodByName(s.GoMethod(m))
	if !epm.IsValid() {
		return nil, fmt.Errorf("harness: client has no endpoint method for %q", m)
	}
	ep := epm.Call(nil)[0].Interface().(goa.Endpoint)
	defer func() {
		if r := recover(); r != nil {
			err = fmt.Errorf("client panic: %v", r)
			res = nil
		}
	}()
	return ep(context.WithValue(context.Background(), callKey{}, call), payload)
}

// RawDo sends a hand-built request through the same wire (used for malformed encodings).
func (s *Svc) RawDo(call *Call, req *http.Request) (*http.Response, error) {
	s.mu.Lock()
	defer s.mu.Unlock()
	s.cur = call
	defer func() { s.cur = nil }()
	return s.Do(req)
}

package drv

import (
	"reflect"

	"verif/e2/spec"
)

// Exported entry points for the scenario package of C20 FAMILY B (checks/c20b/scen), which
// drives mounted services from virtual threads of the controlled scheduler instead of from a
// driver mode. Nothing here holds state.

// Norm is the identifier normalisation used to match design names with generated names.
func Norm(s string) string { return norm(s) }

// ServiceSyms returns the symbols the glue file of the service package registered
// (constructors, Make<Error> functions, "type:<Name>" reflect types).
func (s *Svc) ServiceSyms() map[string]any { return s.serviceSyms() }

// SymByNorm looks a symbol up by normalised name.
func SymByNorm(syms map[string]any, want string) any { return symByNorm(syms, want) }

// ReplyWith builds the stub reply returning result value v (neutral form) under a view, or err.
func ReplyWith(s *Svc, m *spec.Method, v any, view string, err error, herr *error) func(string, []any) []any {
	return replyWith(s, m, v, view, err, herr)
}

// DeclaredErrors returns the errors a method can declare-return with their designed responses.
func DeclaredErrors(sp *spec.Spec, svc *spec.Service, m *spec.Method) ([]spec.ErrorDef, map[string]spec.Resp) {
	return declaredErrors(sp, svc, m)
}

// ReceivedPayload is the payload the stub service received for the call (neutral form).
func ReceivedPayload(s *Svc, m *spec.Method, call *Call) any {
	if m.Payload == nil || len(call.Args) < 2 || call.Args[1] == nil {
		return nil
	}
	return s.V.Get(reflect.ValueOf(call.Args[1]), m.Payload)
}

package drv

import (
	"fmt"

	"verif/e2/spec"
)

// DefaultNeutral converts a design default (JSON-decoded) to the neutral form of kind k.
func DefaultNeutral(sp *spec.Spec, t *spec.Type, v any) any {
	e := sp.Eff(t)
	switch e.K {
	case spec.KInt, spec.KInt32, spec.KInt64:
		switch x := v.(type) {
		case float64:
			return int64(x)
		case int:
			return int64(x)
		case int64:
			return x
		}
	case spec.KUInt, spec.KUInt32, spec.KUInt64:
		switch x := v.(type) {
		case float64:
			return uint64(x)
		case int:
			return uint64(x)
		}
	case spec.KFloat32, spec.KFloat64:
		switch x := v.(type) {
		case float64:
			return x
		case int:
			return float64(x)
		}
	case spec.KBytes:
		if s, ok := v.(string); ok {
			return []byte(s)
		}
	case spec.KArray:
		if l, ok := v.([]any); ok {
			out := spec.Arr{}
			for _, el := range l {
				out = append(out, DefaultNeutral(sp, e.Elem, el))
			}
			return out
		}
	}
	return v
}

func isZeroPrim(v any) bool {
	switch x := v.(type) {
	case bool:
		return !x
	case int64:
		return x == 0
	case uint64:
		return x == 0
	case float64:
		return x == 0
	case string:
		return x == ""
	}
	return false
}

func unsetLike(v any) bool { return v == nil || spec.IsEmptyColl(v) }

// Diff describes the first difference between what was sent and what arrived.
type Diff struct {
	Path string
	Attr *spec.Attr
	T    *spec.Type
	Sent any
	Recv any
	Why  string
}

// Equal compares a sent value with the value that arrived, applying exactly the stated
// normalisations: (1) nil and empty collections are equal; (2) an unset attribute with a design
// default arrives as the default; (3) for a defaulted primitive attribute (non-pointer field,
// zero is the only way to say "unset") zero may arrive as zero or as the default.
func Equal(sp *spec.Spec, t *spec.Type, a *spec.Attr, sent, recv any, path string) *Diff {
	return equalR(sp, t, a, sent, recv, path, nil, false)
}

// EqualBody is Equal with one normalisation removed for attributes that travel in a JSON body
// (inBody names the top-level attributes that do; everything nested below them does too):
// there "explicitly empty" ([] / {}) and "unset" are different texts on the wire, so an
// explicitly empty collection with a design default must arrive empty, not as the default.
func EqualBody(sp *spec.Spec, t *spec.Type, a *spec.Attr, sent, recv any, path string, inBody func(attr string) bool) *Diff {
	return equalR(sp, t, a, sent, recv, path, inBody, false)
}

func equalR(sp *spec.Spec, t *spec.Type, a *spec.Attr, sent, recv any, path string, inBody func(attr string) bool, strict bool) *Diff {
	if a != nil && a.HasDefault {
		def := DefaultNeutral(sp, a.T, a.Default)
		if strict && sent != nil && spec.IsEmptyColl(sent) && !unsetLike(def) {
			if unsetLike(recv) {
				return nil
			}
			return &Diff{path, a, t, sent, recv, fmt.Sprintf("explicitly empty collection (body) with default %s arrived as %s", spec.Canon(def), spec.Canon(recv))}
		}
		if unsetLike(sent) {
			if spec.Canon(recv) == spec.Canon(def) {
				return nil
			}
			if unsetLike(recv) && (unsetLike(def) || sent != nil) {
				return nil // an explicitly empty collection may arrive empty
			}
			return &Diff{path, a, t, sent, recv, fmt.Sprintf("unset attribute with default %s arrived as %s", spec.Canon(def), spec.Canon(recv))}
		}
		if isZeroPrim(sent) && spec.Canon(recv) == spec.Canon(def) {
			return nil
		}
	}
	if unsetLike(sent) && unsetLike(recv) {
		return nil
	}
	if unsetLike(sent) != unsetLike(recv) {
		if sent == nil || recv == nil {
			return &Diff{path, a, t, sent, recv, fmt.Sprintf("sent %s, arrived %s", spec.Canon(sent), spec.Canon(recv))}
		}
	}
	if t == nil {
		if spec.Canon(sent) != spec.Canon(recv) {
			return &Diff{path, a, t, sent, recv, "values differ"}
		}
		return nil
	}
	e := sp.Eff(t)
	switch s := sent.(type) {
	case spec.Arr:
		r, ok := recv.(spec.Arr)
		if !ok || len(r) != len(s) {
			return &Diff{path, a, t, sent, recv, "array length/type differs"}
		}
		for i := range s {
			if d := equalR(sp, e.Elem, nil, s[i], r[i], fmt.Sprintf("%s[%d]", path, i), nil, strict); d != nil {
				if d.Attr == nil {
					d.Attr = a
				}
				return d
			}
		}
		return nil
	case spec.MapV:
		r, ok := recv.(spec.MapV)
		if !ok || len(r) != len(s) {
			return &Diff{path, a, t, sent, recv, "map size/type differs"}
		}
		for _, kv := range s {
			found := false
			for _, rkv := range r {
				if spec.Canon(kv.K) == spec.Canon(rkv.K) {
					found = true
					if d := equalR(sp, e.Elem, nil, kv.V, rkv.V, path+"["+spec.Canon(kv.K)+"]", nil, strict); d != nil {
						if d.Attr == nil {
							d.Attr = a
						}
						return d
					}
				}
			}
			if !found {
				return &Diff{path, a, t, sent, recv, "map key " + spec.Canon(kv.K) + " lost"}
			}
		}
		return nil
	case spec.Obj:
		r, ok := recv.(spec.Obj)
		if !ok {
			return &Diff{path, a, t, sent, recv, "object expected"}
		}
		for _, at := range e.Attrs {
			st := strict
			if inBody != nil {
				st = inBody(at.Name)
			}
			if d := equalR(sp, at.T, at, s[at.Name], r[at.Name], path+"."+at.Name, nil, st); d != nil {
				return d
			}
		}
		return nil
	}
	if spec.Canon(sent) != spec.Canon(recv) {
		return &Diff{path, a, t, sent, recv, fmt.Sprintf("sent %s, arrived %s", spec.Canon(sent), spec.Canon(recv))}
	}
	return nil
}

package drv

// Operation sequences (driver modes C02Q and C03Q, family e2/families/opseq.go).
//
// Every other mode performs ONE call on a freshly mounted generated client/server pair. Here one
// mounted generated server and ONE generated client object serve a whole sequence of calls of
// different kinds (unary and WebSocket streaming), so that whatever a call leaves behind in the
// client object, in the server / its handlers, or in package-level state of the generated
// packages and of goa's runtime is met by the calls that follow.
//
//	alphabet  operations of one service = method x value variant {full, minimal} (seqPlan)
//	bound     every sequence of operations of length <= 3 (thorough: <= 4)
//	state     explicit-state exploration "from non-initial states": the state after a prefix is
//	          reached by replaying the prefix; a fresh state is a fresh PROCESS (the driver
//	          re-executes itself once per sequence, flag -seq), because package-level variables
//	          cannot be reset inside a process
//	oracle    differential: the observation of the last operation of a sequence equals the
//	          observation of the same operation executed alone in a fresh process. Every prefix of
//	          a sequence is a sequence of the enumeration, so every position is covered. The
//	          operation executed alone is also held against the absolute C02 / C03 oracles (sent
//	          equals received, designed locations, designed status).
//	harness   real sockets (httptest.Server on a unix domain socket; net/http client and
//	          gorilla/websocket dialer), the transport the generated client is written for: the URL
//	          it builds is interpreted by net/http and gorilla, scheme included. A unix socket, not
//	          a loopback TCP port, because one pair is mounted per sequence: tens of thousands of
//	          listeners and connections a minute exhaust the ephemeral ports (TIME_WAIT)
//
// The observation of one operation is split into a request side (C02Q) and a response side
// (C03Q); see OpObs.

import (
	"bytes"
	"context"
	"crypto/sha256"
	"encoding/hex"
	"encoding/json"
	"fmt"
	"net/http"
	"net/http/httptest"
	"os"
	"os/exec"
	"reflect"
	"regexp"
	"runtime"
	"runtime/debug"
	"sort"
	"strconv"
	"strings"
	"sync"
	"sync/atomic"
	"time"

	"verif/e2/spec"
)

func init() {
	RegisterMode("C02Q", func(s *Svc, m *spec.Method, tier string) *MethodResult { return runSeqMode(s, m, tier, "C02") })
	RegisterMode("C03Q", func(s *Svc, m *spec.Method, tier string) *MethodResult { return runSeqMode(s, m, tier, "C03") })
}

// ---- value menu ----------------------------------------------------------------------------

// seqVariant is one entry of the value menu of an operation.
type seqVariant struct {
	Name string
	tag  string
	full bool
}

// The menu: "full" sets every attribute, "minimal" only the required ones; all values of the two
// variants differ, values are salted with the method kind, the role (payload, result, message)
// and the attribute name, so that a value met in the wrong call, the wrong attribute or the wrong
// direction cannot look right.
var seqVariants = []seqVariant{{"full", "a", true}, {"minimal", "b", false}}

func seqSalt(scope string) int64 {
	var n int64
	for i := 0; i < len(scope); i++ {
		n = (n*31 + int64(scope[i])) % 89
	}
	return n
}

// seqValue builds the value of type t for a variant. scope names method kind, role and attribute.
func seqValue(sp *spec.Spec, t *spec.Type, tag, scope string, full bool) any {
	if t == nil {
		return nil
	}
	e := sp.Eff(t)
	num := int64(tag[0]-'a'+1)*1000 + seqSalt(scope)
	if len(tag) > 1 {
		num += int64(tag[1]-'0') * 100
	}
	switch e.K {
	case spec.KString, spec.KAny:
		return tag + "-" + scope
	case spec.KBytes:
		return []byte(tag + "-" + scope)
	case spec.KBool:
		return tag[0] == 'a'
	case spec.KInt, spec.KInt32, spec.KInt64:
		return num
	case spec.KUInt, spec.KUInt32, spec.KUInt64:
		return uint64(num)
	case spec.KFloat32, spec.KFloat64:
		return float64(num) + 0.5
	case spec.KArray:
		out := spec.Arr{seqValue(sp, e.Elem, tag, scope+".x", full)}
		if full {
			out = append(out, seqValue(sp, e.Elem, tag, scope+".y", full))
		}
		return out
	case spec.KMap:
		return spec.MapV{{K: seqValue(sp, e.Key, tag, scope+".k", full), V: seqValue(sp, e.Elem, tag, scope+".v", full)}}
	case spec.KObject:
		o := spec.Obj{}
		for _, a := range e.Attrs {
			if full || spec.IsRequired(e.Required, a.Name) {
				o[a.Name] = seqValue(sp, a.T, tag, scope+"."+a.Name, full)
			}
		}
		return o
	}
	return nil
}

// seqPlan is what both ends say in one operation: the initial payload, the messages each side
// streams (full: a complete and a minimal message, minimal: one minimal message), the result the
// stub returns; a bidirectional exchange uses schedule RS (full) or ALT (minimal).
func seqPlan(sp *spec.Spec, m *spec.Method, v seqVariant) streamPlan {
	kind := m.Feat["kind"]
	if kind == "" {
		kind = m.Name
	}
	p := streamPlan{}
	p.Payload = seqValue(sp, m.Payload, v.tag, kind+".p", v.full)
	p.Result = seqValue(sp, m.Result, v.tag, kind+".r", v.full)
	msgs := func(t *spec.Type, role string) []any {
		if t == nil {
			return nil
		}
		if v.full {
			return []any{seqValue(sp, t, v.tag+"1", kind+"."+role, true), seqValue(sp, t, v.tag+"2", kind+"."+role, false)}
		}
		return []any{seqValue(sp, t, v.tag+"1", kind+"."+role, false)}
	}
	p.Requests = msgs(m.StreamPayload, "in")
	p.Replies = msgs(m.StreamResult, "out")
	if m.StreamPayload != nil && m.StreamResult != nil {
		p.Sched = "RS"
		if !v.full {
			p.Sched = "ALT"
		}
	}
	return p
}

// ---- operations and sequences --------------------------------------------------------------

// seqOp is one operation: method index in the service, variant index in the menu.
type seqOp struct{ M, V int }

func (o seqOp) key() string { return fmt.Sprintf("%d%c", o.M, seqVariants[o.V].Name[0]) }

func seqKey(ops []seqOp) string {
	parts := make([]string, len(ops))
	for i, o := range ops {
		parts[i] = o.key()
	}
	return strings.Join(parts, ".")
}

func parseSeq(s string, nMethods int) ([]seqOp, error) {
	var out []seqOp
	for _, part := range strings.Split(s, ".") {
		if len(part) < 2 {
			return nil, fmt.Errorf("bad operation %q", part)
		}
		var o seqOp
		if _, err := fmt.Sscanf(part[:len(part)-1], "%d", &o.M); err != nil || o.M < 0 || o.M >= nMethods {
			return nil, fmt.Errorf("bad method index in %q", part)
		}
		o.V = -1
		for i, v := range seqVariants {
			if v.Name[0] == part[len(part)-1] {
				o.V = i
			}
		}
		if o.V < 0 {
			return nil, fmt.Errorf("bad variant in %q", part)
		}
		out = append(out, o)
	}
	return out, nil
}

func opKind(m *spec.Method) string {
	if k := m.Feat["kind"]; k != "" {
		return k
	}
	if k := streamKind(m); k != "" {
		return k
	}
	return "unary"
}

// ---- observation ---------------------------------------------------------------------------

// AbsFail is one failure of the absolute (single-call) oracle on an operation.
type AbsFail struct {
	Class string `json:"class"`
	What  string `json:"what"`
}

// OpObs is everything observed about one operation of a sequence.
type OpObs struct {
	Kind    string `json:"kind"`
	Variant string `json:"variant"`
	// request side (C02Q)
	Invoked   int                 `json:"invoked"`            // invocations of the service method
	Sent      map[string]string   `json:"sent,omitempty"`     // payload given to the client endpoint, per attribute
	Recv      map[string]string   `json:"recv,omitempty"`     // payload the service method received, per attribute
	ReqLine   string              `json:"req_line,omitempty"` // method and request URI as parsed by the server
	ReqHeader map[string][]string `json:"req_header,omitempty"`
	ReqBody   string              `json:"req_body,omitempty"`
	ReqSent   []string            `json:"req_sent,omitempty"` // messages the client streamed
	SrvRecv   []string            `json:"srv_recv,omitempty"` // messages the server stream delivered to the service
	SrvOps    []string            `json:"srv_ops,omitempty"`  // server script: operation and error class of each step
	// response side (C03Q)
	Status     int                 `json:"status"` // status written by the server (101: connection upgraded)
	RespHeader map[string][]string `json:"resp_header,omitempty"`
	RespBody   string              `json:"resp_body,omitempty"`
	ResSent    map[string]string   `json:"res_sent,omitempty"` // result the service returned, per attribute
	ResGot     map[string]string   `json:"res_got,omitempty"`  // result the client endpoint / CloseAndRecv returned
	CliErr     string              `json:"cli_err,omitempty"`  // error returned by the client endpoint
	RepSent    []string            `json:"rep_sent,omitempty"` // messages the service streamed
	CliRecv    []string            `json:"cli_recv,omitempty"` // messages the client stream delivered
	CliOps     []string            `json:"cli_ops,omitempty"`
	ErrHandler []string            `json:"err_handler,omitempty"`
	// both sides
	Panic     string    `json:"panic,omitempty"` // message of a panic in generated code
	PanicSite string    `json:"panic_site,omitempty"`
	Herr      string    `json:"herr,omitempty"`
	Abs02     []AbsFail `json:"abs02,omitempty"`
	Abs03     []AbsFail `json:"abs03,omitempty"`
}

var hostPortRe = regexp.MustCompile(`(127\.0\.0\.1|\[::1\]|localhost):\d+`)

func normErr(err error) string {
	if err == nil {
		return ""
	}
	return hostPortRe.ReplaceAllString(err.Error(), "HOST")
}

func attrsOf(v any) map[string]string {
	if v == nil {
		return nil
	}
	out := map[string]string{}
	if o, ok := v.(spec.Obj); ok {
		for k, x := range o {
			if x != nil {
				out[k] = spec.Canon(x)
			}
		}
		return out
	}
	out[""] = spec.Canon(v)
	return out
}

func canonSeq(vals []any) []string {
	out := make([]string, len(vals))
	for i, v := range vals {
		out[i] = spec.Canon(v)
	}
	return out
}

func headerObs(h http.Header, drop ...string) map[string][]string {
	out := map[string][]string{}
	for k, v := range h {
		skip := false
		for _, d := range drop {
			if strings.EqualFold(k, d) {
				skip = true
			}
		}
		if !skip {
			out[k] = append([]string{}, v...)
		}
	}
	return out
}

func sideOps(sd *streamSide) []string {
	var out []string
	for _, o := range sd.Obs {
		out = append(out, o.Op+":"+streamErrClass(o.Err))
	}
	if sd.Aborted {
		out = append(out, "aborted")
	}
	return out
}

// ---- one operation on the mounted pair -----------------------------------------------------

// Unary performs one non-streaming call through the generated client of ss (the same client
// object and the same server the streaming exchanges use).
func (ss *StreamSvc) Unary(ex *streamEx) {
	s := ss.S
	m := ex.M
	ex.handlerDone = make(chan struct{})
	ex.tickets = &ss.tickets
	var payload any
	if pt := s.PayloadType(m.Name); pt != nil && m.Payload != nil {
		rv, err := s.V.New(pt, m.Payload, ex.Payload)
		if err != nil {
			ex.Herr = fmt.Errorf("cannot build payload: %w", err)
			return
		}
		ex.SentN = s.V.Get(rv, m.Payload)
		payload = rv.Interface()
	}
	ep, err := ss.endpoint(m.Name)
	if err != nil {
		ex.Herr = err
		return
	}
	ss.setCurrent(ex)
	defer ss.setCurrent(nil)
	done := make(chan struct{})
	go func() {
		defer close(done)
		defer func() {
			if p := recover(); p != nil {
				ex.Cli.Panic = fmt.Sprintf("%v\n%s", p, trimStack(debug.Stack()))
			}
		}()
		ctx := context.WithValue(context.Background(), streamKey{}, ex)
		ex.Res, ex.OpenErr = ep(ctx, payload)
	}()
	wait := func(ch chan struct{}, what string) bool {
		select {
		case <-ch:
			return true
		case <-time.After(streamTimeout):
		}
		ss.timedOut = true
		if ex.Herr == nil {
			ex.Herr = fmt.Errorf("timeout: %s did not finish within %s", what, streamTimeout)
		}
		return false
	}
	if !wait(done, "unary client call") {
		return
	}
	if ex.reqSeen.Load() {
		wait(ex.handlerDone, "server handler")
	}
}

// seqExec performs one operation and returns its observation.
func seqExec(ss *StreamSvc, m *spec.Method, v seqVariant) *OpObs {
	s, sp := ss.S, ss.S.Spec
	p := seqPlan(sp, m, v)
	o := &OpObs{Kind: opKind(m), Variant: v.Name}
	var ex *streamEx
	streaming := streamKind(m) != ""
	var herr error
	if streaming {
		ex = ss.runPlan(m, p)
	} else {
		ex = &streamEx{M: m, Payload: p.Payload}
		if m.Result != nil {
			ex.Reply = replyWith(s, m, p.Result, "", nil, &herr)
		}
		ss.Unary(ex)
	}
	if ex.Herr != nil {
		o.Herr = normErr(ex.Herr)
		return o
	}
	if herr != nil {
		o.Herr = "cannot build result: " + herr.Error()
		return o
	}
	if pn := ex.streamPanic(); pn != "" {
		o.Panic, o.PanicSite = firstLine(pn), panicSite(pn) // the stack itself holds addresses
	}
	// ---- request side
	o.Invoked = int(atomic.LoadInt32(&ex.Invoked))
	o.Sent = attrsOf(ex.SentN)
	o.Recv = attrsOf(ex.GotPayload)
	if r := ex.ServerReq; r != nil {
		o.ReqLine = r.Method + " " + r.RequestURI
		o.ReqHeader = headerObs(r.Header, "Sec-Websocket-Key")
		o.ReqBody = string(ex.ReqBody)
	}
	var reqSent, repSent []any
	if streaming {
		reqT, resT, _ := streamGoTypes(s, m)
		reqSent = expressedSeq(s, reqT, m.StreamPayload, p.Requests)
		repSent = expressedSeq(s, resT, m.StreamResult, p.Replies)
		o.ReqSent, o.RepSent = canonSeq(reqSent), canonSeq(repSent)
		o.SrvRecv = canonSeq(ex.Srv.recvd())
		o.CliRecv = canonSeq(ex.Cli.recvd())
		o.SrvOps, o.CliOps = sideOps(&ex.Srv), sideOps(&ex.Cli)
	}
	// ---- response side
	o.Status = ex.Status
	if ex.Upgraded {
		o.Status = 101
	}
	o.RespHeader = headerObs(ex.RespHeader, "Date")
	o.RespBody = string(ex.RespBody)
	o.CliErr = normErr(ex.OpenErr)
	for _, e := range ex.ErrHandler {
		o.ErrHandler = append(o.ErrHandler, normErr(e))
	}
	var resSent, resGot any
	if m.Result != nil {
		resSent = p.Result
		if rt := s.ResultType(m.Name); rt != nil && !streaming {
			if rv, e := s.V.New(rt, m.Result, p.Result); e == nil {
				resSent = s.V.Get(rv, m.Result)
			}
		}
		if streaming {
			if co := ex.Cli.obsOf(opCloseAndRecv); co != nil && len(co.Vals) == 1 {
				resGot = co.Vals[0]
			}
		} else if ex.Res != nil && ex.OpenErr == nil {
			resGot = s.V.Get(reflect.ValueOf(ex.Res), m.Result)
		}
		o.ResSent, o.ResGot = attrsOf(resSent), attrsOf(resGot)
	}
	// ---- the absolute oracles on this operation (reported for operations executed alone)
	abs02 := func(class, what string) { o.Abs02 = append(o.Abs02, AbsFail{class, what}) }
	abs03 := func(class, what string) { o.Abs03 = append(o.Abs03, AbsFail{class, what}) }
	if o.Panic != "" {
		abs02("panic "+o.PanicSite, "generated code panicked: "+o.Panic)
		abs03("panic "+o.PanicSite, "generated code panicked: "+o.Panic)
		return o
	}
	if o.Invoked != 1 {
		abs02(fmt.Sprintf("not-delivered invoked=%d status=%d error=%s", o.Invoked, o.Status, errSlug(o.CliErr)),
			fmt.Sprintf("the service method was invoked %d times (status %d, client error %q)", o.Invoked, o.Status, o.CliErr))
		return o
	}
	if m.Payload != nil {
		l := RequestLayout(sp, s.Service, m)
		if d := EqualBody(sp, m.Payload, nil, ex.SentN, ex.GotPayload, "payload", bodyAttrOf(l)); d != nil {
			abs02("payload-changed "+seqPlaceFeat(sp, l, d), fmt.Sprintf("%s: %s", d.Path, d.Why))
		} else {
			for _, lf := range checkLocations(s, m, l, ex.SentN, &Call{ServerReq: ex.ServerReq, ReqBody: ex.ReqBody}) {
				abs02("location "+lf.kind, lf.what)
			}
		}
	}
	if m.StreamPayload != nil {
		if vd := compareSeq(sp, m.StreamPayload, reqSent, ex.Srv.recvd()); vd.Class != "" {
			abs02("stream-requests-"+vd.Class, vd.What)
		}
	}
	if streaming {
		if !ex.Upgraded || ex.OpenErr != nil {
			abs03(fmt.Sprintf("stream-not-opened status=%d error=%s", o.Status, errSlug(o.CliErr)), fmt.Sprintf("%s; client error %q", ex.responseText(), o.CliErr))
			return o
		}
		if m.StreamResult != nil {
			if vd := compareSeq(sp, m.StreamResult, repSent, ex.Cli.recvd()); vd.Class != "" {
				abs03("stream-replies-"+vd.Class, vd.What)
			}
		}
		for _, st := range o.CliOps {
			if !strings.HasSuffix(st, ":none") && !strings.HasPrefix(st, opRecvAll+":eof") {
				abs03("client-stream-op "+st, "client script: "+strings.Join(o.CliOps, " "))
				break
			}
		}
		if m.Result != nil {
			if resGot == nil {
				abs03("final-result-missing", "CloseAndRecv delivered no result")
			} else if d := Equal(sp, m.Result, nil, resSent, resGot, "result"); d != nil {
				abs03("final-result-changed", fmt.Sprintf("%s: %s", d.Path, d.Why))
			}
		}
		return o
	}
	resp := successResponses(m)[0]
	if o.Status != resp.Status {
		abs03(fmt.Sprintf("status expected=%d observed=%d", resp.Status, o.Status), fmt.Sprintf("designed status %d, the server wrote %d", resp.Status, o.Status))
		return o
	}
	if ex.OpenErr != nil {
		abs03("client-error "+errSlug(o.CliErr), "the client endpoint returned "+o.CliErr)
		return o
	}
	if m.Result != nil {
		l := ResponseLayout(sp, m, &resp)
		if d := resultDiff(sp, m.Result, l, resSent, resGot); d != nil {
			abs03("result-changed "+seqPlaceFeat(sp, l, d), fmt.Sprintf("%s: %s", d.Path, d.Why))
		} else {
			rec := httptest.NewRecorder()
			for k, vs := range ex.RespHeader {
				rec.Header()[k] = vs
			}
			rec.Code = o.Status
			rec.Body.Write(ex.RespBody)
			for _, lf := range checkResponseLocations(s, m, l, resSent, &Call{Rec: rec}) {
				abs03("location "+lf.kind, lf.what)
			}
		}
	}
	return o
}

func seqPlaceFeat(sp *spec.Spec, l *Layout, d *Diff) string {
	var p *Place
	if l.Whole && len(l.Places) > 0 {
		p = l.Places[0]
	} else if d.Attr != nil {
		p = l.ByAttr(d.Attr.Name)
	}
	if p == nil {
		return "attr=nested"
	}
	return fmt.Sprintf("loc=%s type=%s req=%s", p.Loc, typeClass(sp, p.T), p.Req)
}

var slugRe = regexp.MustCompile(`[^a-z0-9]+`)

// errSlug abstracts an error text into a short class: the innermost message, lower case.
func errSlug(msg string) string {
	if msg == "" {
		return "none"
	}
	parts := strings.Split(msg, ": ")
	s := strings.ToLower(parts[len(parts)-1])
	s = strings.Trim(slugRe.ReplaceAllString(s, "-"), "-")
	if len(s) > 48 {
		s = s[:48]
	}
	if s == "" {
		return "other"
	}
	return s
}

// ---- child process: one sequence -----------------------------------------------------------

type seqChildOut struct {
	Obs  []*OpObs `json:"obs"`
	Herr string   `json:"herr,omitempty"`
}

// seqChildMain runs one sequence on one freshly mounted pair and prints the observations.
func seqChildMain(specfile, design, service, seq string) {
	out := seqChildOut{}
	defer func() {
		if p := recover(); p != nil {
			out.Herr = fmt.Sprintf("sequence process panicked: %v | %s", p, trimStackAll(debug.Stack()))
		}
		_ = json.NewEncoder(os.Stdout).Encode(out)
	}()
	streamTimeout = 10 * time.Second
	b, err := os.ReadFile(specfile)
	var sp spec.Spec
	if err == nil {
		err = json.Unmarshal(b, &sp)
	}
	if err != nil {
		out.Herr = "spec: " + err.Error()
		return
	}
	var svc *spec.Service
	for _, x := range sp.Services {
		if x.Name == service {
			svc = x
		}
	}
	if svc == nil {
		out.Herr = "no service " + service
		return
	}
	ops, err := parseSeq(seq, len(svc.Methods))
	if err != nil {
		out.Herr = err.Error()
		return
	}
	s, err := Mount(design, &sp, svc)
	if err != nil {
		out.Herr = "mount: " + err.Error()
		return
	}
	// the server listens on a unix domain socket: one mount per sequence, tens of thousands of
	// sequences a minute would otherwise exhaust the loopback ports (sockets in TIME_WAIT)
	sockDir, err := os.MkdirTemp("", "opseq-")
	if err != nil {
		out.Herr = "socket directory: " + err.Error()
		return
	}
	defer os.RemoveAll(sockDir)
	ss, err := MountStreamingUnix(s, sockDir)
	if err != nil {
		out.Herr = "mount on sockets: " + err.Error()
		return
	}
	ss.KeepEndpoints = true
	for _, op := range ops {
		o := seqExec(ss, svc.Methods[op.M], seqVariants[op.V])
		out.Obs = append(out.Obs, o)
		if o.Herr != "" || ss.timedOut {
			break
		}
	}
	ss.Close()
}

// ---- parent: enumeration and comparison ----------------------------------------------------

var (
	seqSemOnce sync.Once
	seqSem     chan struct{}
	designDirs sync.Map // design name -> directory (filled by Main)
)

func seqSpawn(s *Svc, key string) (*seqChildOut, error) {
	seqSemOnce.Do(func() { seqSem = make(chan struct{}, runtime.GOMAXPROCS(0)) })
	seqSem <- struct{}{}
	defer func() { <-seqSem }()
	exe, err := os.Executable()
	if err != nil {
		return nil, err
	}
	dir, _ := designDirs.Load(s.Design)
	ds, _ := dir.(string)
	cmd := exec.Command(exe, "-specfile", ds+"/spec.json", "-design", s.Design, "-service", s.Service.Name, "-seq", key)
	var outb, errb bytes.Buffer
	cmd.Stdout, cmd.Stderr = &outb, &errb
	if err := cmd.Start(); err != nil {
		return nil, err
	}
	done := make(chan error, 1)
	go func() { done <- cmd.Wait() }()
	select {
	case err = <-done:
	case <-time.After(3 * time.Minute):
		_ = cmd.Process.Kill()
		<-done
		return nil, fmt.Errorf("sequence %s: process killed after 3 minutes", key)
	}
	var out seqChildOut
	line := strings.TrimSpace(outb.String())
	if i := strings.LastIndexByte(line, '\n'); i >= 0 {
		line = line[i+1:]
	}
	if jerr := json.Unmarshal([]byte(line), &out); jerr != nil {
		return nil, fmt.Errorf("sequence %s: no observation from the sequence process (%v): %s %s", key, err, truncate(outb.String(), 300), truncate(errb.String(), 600))
	}
	return &out, nil
}

// opDiff is one difference between an operation in a sequence and the same operation alone.
type opDiff struct {
	Class string // part of the signature
	What  string
}

func keysSorted[T any](m map[string]T) []string {
	keys := make([]string, 0, len(m))
	for k := range m {
		keys = append(keys, k)
	}
	sort.Strings(keys)
	return keys
}

// earlierTexts lists every value an earlier operation of the sequence put on, or took from, the
// wire: attribute values of payloads and results (as plain text), header values in both
// directions and the cookie pairs and values inside them.
func earlierTexts(preds []*OpObs) []string {
	var out []string
	add := func(t string) {
		if len(t) >= 3 {
			out = append(out, t)
		}
	}
	plain := func(canon string) string {
		if u, err := strconv.Unquote(canon); err == nil {
			return u
		}
		if len(canon) > 1 && (canon[0] == 'i' || canon[0] == 'u' || canon[0] == 'f') {
			return canon[1:]
		}
		return canon
	}
	for _, p := range preds {
		for _, mp := range []map[string]string{p.Sent, p.Recv, p.ResSent, p.ResGot} {
			for _, v := range mp {
				add(plain(v))
			}
		}
		for _, h := range []map[string][]string{p.ReqHeader, p.RespHeader} {
			for k, vs := range h {
				for _, v := range vs {
					add(v)
					if k == "Cookie" || k == "Set-Cookie" {
						for _, pair := range strings.Split(v, ";") {
							pair = strings.TrimSpace(pair)
							add(pair)
							if i := strings.IndexByte(pair, '='); i >= 0 {
								add(pair[i+1:])
							}
						}
					}
				}
			}
		}
	}
	return out
}

// originOf says where an unexpected value comes from: an earlier operation of the sequence, or not.
func originOf(val string, earlier []string) string {
	if u, err := strconv.Unquote(val); err == nil {
		val = u
	}
	for _, t := range earlier {
		if strings.Contains(val, t) {
			return "value-of-an-earlier-call"
		}
	}
	return "other"
}

func attrDiff(role string, places func(attr string) string, alone, got map[string]string, earlier []string) []opDiff {
	var out []opDiff
	names := map[string]bool{}
	for k := range alone {
		names[k] = true
	}
	for k := range got {
		names[k] = true
	}
	for _, k := range keysSorted(names) {
		a, aok := alone[k]
		g, gok := got[k]
		if aok == gok && a == g {
			continue
		}
		obs := "unset"
		if gok {
			obs = originOf(g, earlier)
		}
		exp := "set"
		if !aok {
			exp = "unset"
		}
		out = append(out, opDiff{fmt.Sprintf("%s %s alone=%s observed=%s", role, places(k), exp, obs),
			fmt.Sprintf("%s attribute %q: alone %s, in the sequence %s", role, k, orUnset(a, aok), orUnset(g, gok))})
	}
	return out
}

func orUnset(v string, ok bool) string {
	if !ok {
		return "unset"
	}
	return v
}

func headerDiff(role string, alone, got map[string][]string, earlier []string) []opDiff {
	var out []opDiff
	names := map[string]bool{}
	for k := range alone {
		names[k] = true
	}
	for k := range got {
		names[k] = true
	}
	for _, k := range keysSorted(names) {
		a, g := alone[k], got[k]
		if strings.Join(a, "\x00") == strings.Join(g, "\x00") {
			continue
		}
		obs := "absent"
		if len(g) > 0 {
			obs = "other"
			for _, x := range g {
				if contains(a, x) {
					continue
				}
				// what the header holds beyond what it holds alone
				rest := x
				for _, y := range a {
					rest = strings.ReplaceAll(rest, y, "")
				}
				if originOf(rest, earlier) != "other" {
					obs = "value-of-an-earlier-call"
				}
			}
			if len(g) > len(a) && obs == "other" {
				obs = "more-values"
			}
		}
		exp := "present"
		if len(a) == 0 {
			exp = "absent"
		}
		out = append(out, opDiff{fmt.Sprintf("%s name=%s alone=%s observed=%s", role, k, exp, obs),
			fmt.Sprintf("%s %s: alone %q, in the sequence %q", role, k, a, g)})
	}
	return out
}

func contains(l []string, s string) bool {
	for _, x := range l {
		if x == s {
			return true
		}
	}
	return false
}

func seqListDiff(role string, alone, got []string) []opDiff {
	if strings.Join(alone, "\x00") == strings.Join(got, "\x00") {
		return nil
	}
	cl := "changed"
	switch {
	case len(got) < len(alone):
		cl = "fewer"
	case len(got) > len(alone):
		cl = "more"
	}
	return []opDiff{{fmt.Sprintf("%s observed=%s", role, cl), fmt.Sprintf("%s: alone %v, in the sequence %v", role, alone, got)}}
}

// seqCompare lists the differences of one side between an operation observed in a sequence
// (got, after preds) and alone, most significant first.
func seqCompare(s *Svc, m *spec.Method, side string, alone, got *OpObs, preds []*OpObs) []opDiff {
	sp := s.Spec
	var out []opDiff
	add := func(class, what string) { out = append(out, opDiff{class, what}) }
	earlier := earlierTexts(preds)
	if alone.Panic != got.Panic || alone.PanicSite != got.PanicSite {
		site := "none"
		if got.Panic != "" {
			site = got.PanicSite
		}
		add("panic "+site, fmt.Sprintf("alone: panic %q; in the sequence: panic %q", alone.Panic, got.Panic))
	}
	if side == "C02" {
		if alone.Invoked != got.Invoked {
			add(fmt.Sprintf("invoked alone=%d observed=%d status=%d error=%s", alone.Invoked, got.Invoked, got.Status, errSlug(got.CliErr)),
				fmt.Sprintf("the service method was invoked %d times instead of %d (status %d, client error %q)", got.Invoked, alone.Invoked, got.Status, got.CliErr))
			return out // nothing was delivered: there is no payload to compare
		}
		l := RequestLayout(sp, s.Service, m)
		place := func(attr string) string {
			if p := l.ByAttr(attr); p != nil {
				return fmt.Sprintf("loc=%s req=%s", p.Loc, p.Req)
			}
			return "loc=whole"
		}
		out = append(out, attrDiff("payload", place, alone.Recv, got.Recv, earlier)...)
		if alone.ReqLine != got.ReqLine {
			part := "path"
			a, g := strings.SplitN(alone.ReqLine, "?", 2), strings.SplitN(got.ReqLine, "?", 2)
			if a[0] == g[0] {
				part = "query"
			}
			add("request-line part="+part, fmt.Sprintf("request line: alone %q, in the sequence %q", alone.ReqLine, got.ReqLine))
		}
		out = append(out, headerDiff("request-header", alone.ReqHeader, got.ReqHeader, earlier)...)
		if alone.ReqBody != got.ReqBody {
			add("request-body", fmt.Sprintf("request body: alone %q, in the sequence %q", truncate(alone.ReqBody, 200), truncate(got.ReqBody, 200)))
		}
		out = append(out, seqListDiff("streamed-requests-sent", alone.ReqSent, got.ReqSent)...)
		out = append(out, seqListDiff("streamed-requests-delivered", alone.SrvRecv, got.SrvRecv)...)
		out = append(out, seqListDiff("server-stream-operations", alone.SrvOps, got.SrvOps)...)
		return out
	}
	if alone.Invoked != got.Invoked {
		return append(out, opDiff{"request-not-delivered", "a C02 matter"})
	}
	if alone.Status != got.Status {
		add(fmt.Sprintf("status alone=%d observed=%d", alone.Status, got.Status), fmt.Sprintf("status: alone %d, in the sequence %d", alone.Status, got.Status))
	}
	out = append(out, headerDiff("response-header", alone.RespHeader, got.RespHeader, earlier)...)
	if alone.RespBody != got.RespBody {
		add("response-body", fmt.Sprintf("response body: alone %q, in the sequence %q", truncate(alone.RespBody, 200), truncate(got.RespBody, 200)))
	}
	if alone.CliErr != got.CliErr {
		add("client-error alone="+errSlug(alone.CliErr)+" observed="+errSlug(got.CliErr), fmt.Sprintf("error returned by the client endpoint: alone %q, in the sequence %q", alone.CliErr, got.CliErr))
	}
	if m.Result != nil {
		var l *Layout
		if streamKind(m) == "" {
			resp := successResponses(m)[0]
			l = ResponseLayout(sp, m, &resp)
		}
		place := func(attr string) string {
			if l != nil {
				if p := l.ByAttr(attr); p != nil {
					return fmt.Sprintf("loc=%s req=%s", p.Loc, p.Req)
				}
			}
			return "loc=message"
		}
		out = append(out, attrDiff("result", place, alone.ResGot, got.ResGot, earlier)...)
	}
	out = append(out, seqListDiff("streamed-replies-sent", alone.RepSent, got.RepSent)...)
	out = append(out, seqListDiff("streamed-replies-delivered", alone.CliRecv, got.CliRecv)...)
	out = append(out, seqListDiff("client-stream-operations", alone.CliOps, got.CliOps)...)
	out = append(out, seqListDiff("server-error-handler", alone.ErrHandler, got.ErrHandler)...)
	return out
}

func obsHash(o *OpObs) string {
	b, _ := json.Marshal(o)
	h := sha256.Sum256(b)
	return hex.EncodeToString(h[:8])
}

// seqFailure is a sequence whose last operation differs from the operation alone.
type seqFailure struct {
	ops   []seqOp
	diffs []opDiff
	obs   []*OpObs
}

// subsequences of the predecessors (order kept), proper ones only, each followed by the last op.
func properSubPrefixes(ops []seqOp) [][]seqOp {
	n := len(ops) - 1
	var out [][]seqOp
	for mask := 0; mask < (1<<n)-1; mask++ {
		var sub []seqOp
		for i := 0; i < n; i++ {
			if mask&(1<<i) != 0 {
				sub = append(sub, ops[i])
			}
		}
		out = append(out, append(sub, ops[n]))
	}
	return out
}

func runSeqMode(s *Svc, m *spec.Method, tier, side string) *MethodResult {
	if len(s.Service.Methods) == 0 || m != s.Service.Methods[0] {
		return nil // one result per service, reported with its first method
	}
	r := &MethodResult{}
	svc := s.Service
	maxLen := 3
	if tier == "thorough" {
		maxLen = 4
	}
	var alphabet []seqOp
	for i, mm := range svc.Methods {
		if mm.HTTP == nil {
			continue
		}
		for v := range seqVariants {
			alphabet = append(alphabet, seqOp{i, v})
		}
	}
	opName := func(o seqOp, withVariant bool) string {
		n := opKind(svc.Methods[o.M])
		if withVariant {
			n += "/" + seqVariants[o.V].Name
		}
		return n
	}
	names := func(ops []seqOp) []string {
		out := make([]string, len(ops))
		for i, o := range ops {
			out[i] = opName(o, true)
		}
		return out
	}
	r.note("sequence_operations_"+svc.Methods[0].Feat["service"], int64(len(alphabet)))
	herr := func(format string, a ...any) {
		if len(r.HarnessErr) < 12 {
			r.HarnessErr = append(r.HarnessErr, fmt.Sprintf(format, a...))
		}
	}

	// ---- level 1: every operation alone, twice (the observation itself must be reproducible)
	alone := map[string]*OpObs{}
	for _, op := range alphabet {
		k := op.key()
		var first *OpObs
		for rep := 0; rep < 2; rep++ {
			out, err := seqSpawn(s, k)
			if err == nil && out.Herr != "" {
				err = fmt.Errorf("%s", out.Herr)
			}
			if err == nil && (len(out.Obs) != 1 || out.Obs[0].Herr != "") {
				err = fmt.Errorf("operation %s alone: %v", opName(op, true), obsHerr(out.Obs))
			}
			if err != nil {
				herr("sequences: %v", err)
				return r
			}
			r.Execs++
			if first == nil {
				first = out.Obs[0]
			} else if a, b := obsJSON(first), obsJSON(out.Obs[0]); a != b {
				herr("sequences: the observation of %s alone is not reproducible: %s | %s", opName(op, true), a, b)
				return r
			}
		}
		alone[k] = first
		r.Cases++
		abs := first.Abs02
		if side == "C03" {
			abs = first.Abs03
		}
		if len(abs) == 0 {
			r.outcome("alone-" + side + "-oracle-holds op=" + first.Kind)
		}
		for _, f := range abs {
			op := op
			f := f
			sig := fmt.Sprintf("%s sequence op=%s alone %s", side, opName(op, true), f.Class)
			r.outcome("alone-fails")
			r.violation(sig, fmt.Sprintf("operation %s executed alone on a fresh pair: %s", opName(op, true), f.What),
				map[string]any{"design": s.Design, "service": svc.Name, "sequence": names([]seqOp{op}), "observed": first},
				func() []string {
					out, err := seqSpawn(s, op.key())
					if err != nil || len(out.Obs) != 1 {
						return nil
					}
					l := out.Obs[0].Abs02
					if side == "C03" {
						l = out.Obs[0].Abs03
					}
					var sigs []string
					for _, x := range l {
						sigs = append(sigs, fmt.Sprintf("%s sequence op=%s alone %s", side, opName(op, true), x.Class))
					}
					return sigs
				})
		}
	}

	// ---- levels 2..maxLen: every sequence, one fresh process each
	var seqs [][]seqOp
	var gen func(prefix []seqOp)
	gen = func(prefix []seqOp) {
		if len(prefix) >= 2 {
			seqs = append(seqs, append([]seqOp{}, prefix...))
		}
		if len(prefix) == maxLen {
			return
		}
		for _, op := range alphabet {
			gen(append(prefix, op))
		}
	}
	gen(nil)
	sort.SliceStable(seqs, func(i, j int) bool { return len(seqs[i]) < len(seqs[j]) })
	var (
		mu        sync.Mutex
		hashes    = map[string]string{} // sequence key -> hash of the observation of its last operation
		failures  = map[string]*seqFailure{}
		nondet    int
		timeouts  int32
		notRun    int64
		perLen    = map[int]int64{}
		equalOut  = map[string]int64{}
		differOut = map[string]int64{}
	)
	for k, o := range alone {
		hashes[k] = obsHash(o)
	}
	var wg sync.WaitGroup
	work := make(chan []seqOp)
	for w := 0; w < runtime.GOMAXPROCS(0); w++ {
		wg.Add(1)
		go func() {
			defer wg.Done()
			for ops := range work {
				if atomic.LoadInt32(&timeouts) >= 3 || streamExpired() {
					atomic.AddInt64(&notRun, 1)
					continue
				}
				key := seqKey(ops)
				out, err := seqSpawn(s, key)
				if err == nil && out.Herr != "" {
					err = fmt.Errorf("sequence %v: %s", names(ops), out.Herr)
				}
				if err == nil && (len(out.Obs) != len(ops) || obsHerr(out.Obs) != "") {
					err = fmt.Errorf("sequence %v: %s (%d of %d operations ran)", names(ops), obsHerr(out.Obs), len(out.Obs), len(ops))
				}
				mu.Lock()
				if err != nil {
					if strings.Contains(err.Error(), "timeout") {
						atomic.AddInt32(&timeouts, 1)
					}
					herr("sequences: %v", err)
					mu.Unlock()
					continue
				}
				r.Cases++
				r.Nontrivial++
				r.Execs += int64(len(ops))
				perLen[len(ops)]++
				// every prefix is a sequence of its own: its last observation must be the same here
				for i := range ops {
					pk, h := seqKey(ops[:i+1]), obsHash(out.Obs[i])
					if old, ok := hashes[pk]; !ok {
						hashes[pk] = h
					} else if old != h {
						nondet++
						herr("sequences: prefix %v of %v was observed differently in two processes (the sequence is not deterministic): %s", names(ops[:i+1]), names(ops), obsJSON(out.Obs[i]))
					}
				}
				last := ops[len(ops)-1]
				got := out.Obs[len(ops)-1]
				diffs := seqCompare(s, svc.Methods[last.M], side, alone[last.key()], got, out.Obs[:len(ops)-1])
				switch {
				case len(diffs) == 0:
					equalOut[fmt.Sprintf("in-sequence-equals-alone op=%s predecessors=%d", got.Kind, len(ops)-1)]++
				case diffs[0].Class == "request-not-delivered":
					differOut["request-not-delivered (a C02 matter)"]++
				default:
					differOut["in-sequence-differs-from-alone op="+got.Kind]++
					failures[key] = &seqFailure{ops: ops, diffs: diffs, obs: out.Obs}
				}
				mu.Unlock()
			}
		}()
	}
	for _, ops := range seqs {
		work <- ops
	}
	close(work)
	wg.Wait()
	for k, n := range equalOut {
		r.Outcomes = addOutcome(r.Outcomes, k, n)
	}
	for k, n := range differOut {
		r.Outcomes = addOutcome(r.Outcomes, k, n)
	}
	for l, n := range perLen {
		r.note(fmt.Sprintf("sequences_of_length_%d", l), n)
	}
	r.note("sequences_of_length_1", int64(len(alphabet)))
	if notRun > 0 {
		r.note("sequences_not_run", notRun)
		if atomic.LoadInt32(&timeouts) < 3 {
			seqIncomplete(fmt.Sprintf("%sQ %s/%s: budget exhausted, %d of %d sequences not run", side, s.Design, svc.Name, notRun, len(seqs)))
		}
	}
	if len(seqs) > 0 {
		// one executed sequence as a sample: the last one of the enumeration (maximal length)
		ex := seqs[len(seqs)-1]
		smp := map[string]any{"service": svc.Methods[0].Feat["service"], "operations": len(alphabet), "sequences": len(seqs) + len(alphabet), "example": names(ex)}
		if out, err := seqSpawn(s, seqKey(ex)); err == nil && len(out.Obs) == len(ex) {
			var lines []string
			for _, o := range out.Obs {
				lines = append(lines, fmt.Sprintf("%s/%s: %s -> service invoked %d, status %d", o.Kind, o.Variant, o.ReqLine, o.Invoked, o.Status))
			}
			smp["observed"] = lines
		}
		r.sample(smp)
	}

	// ---- report: minimal failing sequences only, value variants folded when the failing combinations form a product
	keys := keysSorted(failures)
	sort.SliceStable(keys, func(i, j int) bool { return len(failures[keys[i]].ops) < len(failures[keys[j]].ops) })
	type group struct {
		members []*seqFailure
	}
	groups := map[string]*group{}
	var order []string
	for _, k := range keys {
		f := failures[k]
		class := f.diffs[0].Class
		minimal := true
		for _, sub := range properSubPrefixes(f.ops) {
			if len(sub) == 1 {
				continue // the operation alone is the reference
			}
			if g, ok := failures[seqKey(sub)]; ok && g.diffs[0].Class == class {
				minimal = false
				break
			}
		}
		if !minimal {
			r.note("failing_sequences_subsumed_by_a_shorter_one", 1)
			continue
		}
		var kinds []string
		for _, o := range f.ops {
			kinds = append(kinds, opName(o, false))
		}
		gk := strings.Join(kinds, ">") + "|" + class
		if groups[gk] == nil {
			groups[gk] = &group{}
			order = append(order, gk)
		}
		groups[gk].members = append(groups[gk].members, f)
	}
	for _, gk := range order {
		g := groups[gk]
		n := len(g.members[0].ops)
		// the failing variant combinations of these kinds: when they form a complete product of
		// per-position variant sets they are one report, a position whose set is the whole menu is
		// named by its kind only
		sets := make([]map[int]bool, n)
		for i := range sets {
			sets[i] = map[int]bool{}
		}
		for _, f := range g.members {
			for i, o := range f.ops {
				sets[i][o.V] = true
			}
		}
		product := 1
		for _, st := range sets {
			product *= len(st)
		}
		var reports [][]*seqFailure
		if product == len(g.members) {
			reports = [][]*seqFailure{g.members}
		} else {
			for _, f := range g.members {
				reports = append(reports, []*seqFailure{f})
			}
		}
		for _, members := range reports {
			f := members[0]
			class := f.diffs[0].Class
			withVariant := func(i int) bool { return len(members) == 1 || len(sets[i]) < len(seqVariants) }
			var pre []string
			for i, o := range f.ops[:n-1] {
				pre = append(pre, opName(o, withVariant(i)))
			}
			sig := fmt.Sprintf("%s sequence op=%s after=%s differs=%s", side, opName(f.ops[n-1], withVariant(n-1)), strings.Join(pre, ","), class)
			var whats []string
			for _, d := range f.diffs {
				whats = append(whats, d.What)
			}
			what := fmt.Sprintf("operation %s behaves differently after %v on the same client and server than alone on a fresh pair: %s", opName(f.ops[n-1], true), names(f.ops[:n-1]), strings.Join(whats, "; "))
			if len(members) > 1 {
				what += fmt.Sprintf(" (the same for %d combinations of value variants)", len(members))
			}
			cs := map[string]any{"design": s.Design, "service": svc.Name, "sequence": names(f.ops), "sequence_key": seqKey(f.ops),
				"observed": f.obs[n-1], "alone": alone[f.ops[n-1].key()], "predecessors": f.obs[:n-1], "failing_sequences_of_this_class": len(members)}
			ops := f.ops
			r.violation(sig, what, cs, func() []string {
				out, err := seqSpawn(s, seqKey(ops))
				if err != nil || len(out.Obs) != len(ops) {
					return nil
				}
				last := ops[len(ops)-1]
				d := seqCompare(s, svc.Methods[last.M], side, alone[last.key()], out.Obs[len(ops)-1], out.Obs[:len(ops)-1])
				if len(d) == 0 || d[0].Class != class {
					return nil
				}
				return []string{sig}
			})
			if v, ok := r.viol[sig]; ok {
				v.Count = len(members)
			}
		}
	}
	return r
}

func addOutcome(m map[string]int64, k string, n int64) map[string]int64 {
	if m == nil {
		m = map[string]int64{}
	}
	m[k] += n
	return m
}

func obsJSON(o *OpObs) string {
	b, _ := json.Marshal(o)
	return string(b)
}

func obsHerr(obs []*OpObs) string {
	for _, o := range obs {
		if o.Herr != "" {
			return o.Kind + "/" + o.Variant + ": " + o.Herr
		}
	}
	return ""
}

func seqIncomplete(line string) {
	path := os.Getenv("VERIF_STREAM_INCOMPLETE")
	if path == "" {
		return
	}
	incompleteMu.Lock()
	defer incompleteMu.Unlock()
	f, err := os.OpenFile(path, os.O_CREATE|os.O_APPEND|os.O_WRONLY, 0o644)
	if err != nil {
		return
	}
	defer f.Close()
	fmt.Fprintln(f, line)
}

package drv

import (
	"encoding/json"
	"fmt"
	"net/url"
	"reflect"
	"regexp"
	"sort"
	"strings"

	"verif/e2/spec"
)

func init() { RegisterMode("C02", runC02) }

// payloadValues enumerates the candidate payload values of a method (valid and invalid; the
// reference validator classifies them).
func payloadValues(s *Svc, m *spec.Method, l *Layout) []any {
	if m.Payload == nil {
		return []any{nil}
	}
	sp := s.Spec
	if l.Whole {
		return sp.Candidates(m.Payload, l.Places[0].Loc, 0)
	}
	e := sp.Eff(m.Payload)
	return sp.ObjectCandidates(e, func(attr string) string {
		if p := l.ByAttr(attr); p != nil {
			return p.Loc
		}
		return spec.LocBody
	}, 0)
}

// sendable reports whether the transport can carry the payload at all: a path parameter must
// have a value.
func sendable(l *Layout, v any) bool {
	for _, p := range l.Places {
		if p.Loc != spec.LocPath {
			continue
		}
		var pv any
		if l.Whole {
			pv = v
		} else if o, ok := v.(spec.Obj); ok {
			pv = o[p.Attr]
		}
		if pv == nil {
			return false
		}
		if a, ok := pv.(spec.Arr); ok && len(a) == 0 {
			return false
		}
	}
	return true
}

// emptyRequiredOutsideBody: an empty array/bytes value of a required attribute carried in the
// path, query string, headers or cookies is indistinguishable from an absent one on the wire
// (and equal to unset by normalisation 1), so such a payload is not counted as satisfying the
// design.
func emptyRequiredOutsideBody(l *Layout, v any) bool {
	for _, p := range l.Places {
		if p.Loc == spec.LocBody || p.Req != "required" {
			continue
		}
		var pv any
		if l.Whole {
			pv = v
		} else if o, ok := v.(spec.Obj); ok {
			pv = o[p.Attr]
		}
		if pv != nil && spec.IsEmptyColl(pv) {
			return true
		}
	}
	return false
}

// expressed returns the neutral value the generated Go type actually holds after v has been
// stored in it (a required primitive is a non-pointer field: "unset" becomes its zero value).
func expressed(s *Svc, rt reflect.Type, t *spec.Type, v any) (any, error) {
	if rt == nil || t == nil {
		return v, nil
	}
	rv, err := s.V.New(rt, t, v)
	if err != nil {
		return nil, err
	}
	return s.V.Get(rv, t), nil
}

// emptyEntryInMapParams: a map carried as query-string parameters cannot represent an entry
// whose value is an empty array (there is no parameter to write), nor an empty map.
func emptyEntryInMapParams(l *Layout, v any) bool {
	for _, p := range l.Places {
		if p.Loc != "mapparams" {
			continue
		}
		var pv any
		if l.Whole {
			pv = v
		} else if o, ok := v.(spec.Obj); ok {
			pv = o[p.Attr]
		}
		mv, ok := pv.(spec.MapV)
		if !ok {
			continue
		}
		if len(mv) == 0 && p.Req == "required" {
			return true
		}
		for _, kv := range mv {
			if spec.IsEmptyColl(kv.V) {
				return true
			}
		}
	}
	return false
}

// exchange performs one client call with the payload value and returns the observation.
func exchange(s *Svc, m *spec.Method, v any, reply func(method string, args []any) []any) (call *Call, sentN any, res any, err error, herr error) {
	if reply == nil && m.Result != nil {
		// user code returning a nil result is a user error (the encoder dereferences it): the
		// stub always answers a valid result
		var rerr error
		reply = replyWith(s, m, minimalResult(s, m), "", nil, &rerr)
	}
	call = &Call{Reply: reply}
	var payload any
	if pt := s.PayloadType(m.Name); pt != nil && m.Payload != nil {
		rv, e := s.V.New(pt, m.Payload, v)
		if e != nil {
			return call, nil, nil, nil, fmt.Errorf("cannot build payload: %w", e)
		}
		sentN = s.V.Get(rv, m.Payload)
		payload = rv.Interface()
	}
	res, err = s.Invoke(call, m.Name, payload)
	return call, sentN, res, err, nil
}

func receivedPayload(s *Svc, m *spec.Method, call *Call) any {
	if m.Payload == nil || len(call.Args) < 2 {
		return nil
	}
	return s.V.Get(reflect.ValueOf(call.Args[1]), m.Payload)
}

func runC02(s *Svc, m *spec.Method, tier string) *MethodResult {
	r := &MethodResult{}
	if m.HTTP == nil {
		r.Skipped = "no HTTP mapping"
		return r
	}
	if m.StreamPayload != nil || m.StreamResult != nil || m.HTTP.Multipart || m.HTTP.SkipReq || m.HTTP.SkipResp {
		r.Skipped = "streaming/multipart/skip-encode endpoints are not driven by C02 in this revision"
		return r
	}
	sp := s.Spec
	l := RequestLayout(sp, s.Service, m)
	vals := payloadValues(s, m, l)
	for _, v := range vals {
		if m.Payload != nil && len(sp.Check(m.Payload, v, "payload")) > 0 {
			continue // C02 quantifies over payloads that satisfy the design
		}
		if emptyRequiredOutsideBody(l, v) || emptyEntryInMapParams(l, v) {
			r.note("excluded_required_empty_collection_outside_body", 1)
			continue
		}
		if !sendable(l, v) {
			r.note("unsendable_path_unset", 1)
			continue
		}
		r.Cases++
		if v != nil {
			r.Nontrivial++
		}
		sigs := c02One(s, m, l, v, r, true)
		_ = sigs
	}
	return r
}

// c02One runs one payload value; when report is true failures are registered on r (with
// five-fold recheck), otherwise only their signatures are returned.
func c02One(s *Svc, m *spec.Method, l *Layout, v any, r *MethodResult, report bool) []string {
	sp := s.Spec
	call, sentN, _, err, herr := exchange(s, m, v, nil)
	if report {
		r.Execs++
	}
	var sigs []string
	fail := func(sig, what string) {
		sigs = append(sigs, sig)
		if report {
			cs := map[string]any{"design": s.Design, "service": s.Service.Name, "method": m.Name, "payload": spec.JSONable(v), "layout": describeLayout(l)}
			if call.ServerReq != nil {
				cs["request"] = call.ServerReq.Method + " " + call.ServerReq.RequestURI
				cs["request_headers"] = call.ServerReq.Header
				cs["request_body"] = string(call.ReqBody)
			}
			r.violation(sig, what, cs, func() []string { return c02One(s, m, l, v, r, false) })
		}
	}
	if herr != nil {
		if report {
			r.HarnessErr = append(r.HarnessErr, herr.Error())
		}
		return nil
	}
	// which attribute is "the" varied one for signatures: first differing / first place
	feat := func(p *Place, val any) string {
		if p == nil {
			if f := m.Feat["feature"]; f != "" {
				return "attr=none feature=" + f
			}
			return "attr=none"
		}
		ct := ""
		if c := m.Feat["content-type"]; c != "" {
			ct = " ct=" + c
		}
		if f := m.Feat["feature"]; f != "" && ct == "" {
			ct = " feature=" + f
		}
		return fmt.Sprintf("loc=%s type=%s req=%s value=%s%s", p.Loc, typeClass(sp, p.T), p.Req, valueClass(val), ct)
	}
	attrVal := func(p *Place, whole any) any {
		if p == nil {
			return nil
		}
		if l.Whole {
			return whole
		}
		if o, ok := whole.(spec.Obj); ok {
			return o[p.Attr]
		}
		return nil
	}
	if call.ServerPanic != "" {
		fail("C02 server-panic "+panicSite(call.ServerPanic), "server handler panicked: "+call.ServerPanic)
		return sigs
	}
	if call.Invoked != 1 {
		// blame: the attribute whose replacement by a plain value makes the payload arrive
		p, pv := blame(s, m, l, v, sentN)
		if _, ok := pv.(compound); ok {
			if report {
				r.outcome("not-invoked compound-of-single-failures")
				r.note("compound_failures_not_reported_twice", 1)
			}
			return sigs
		}
		status := 0
		body := ""
		if call.Rec != nil {
			status = call.Rec.Code
			body = truncate(call.Rec.Body.String(), 200)
		}
		errName := errorName(call)
		if report {
			r.outcome(fmt.Sprintf("not-invoked status=%d", status))
		}
		fail(fmt.Sprintf("C02 not-delivered %s observed=status-%d-%s", feat(p, pv), status, errName),
			fmt.Sprintf("valid payload %s did not reach the service method (invoked=%d, status=%d, body=%s, client error=%v)", spec.Canon(sentN), call.Invoked, status, body, err))
		return sigs
	}
	if err != nil {
		// the request was delivered; response-side problems belong to C03 unless there is no result
		if report {
			r.outcome("delivered-client-error")
		}
	}
	recvN := receivedPayload(s, m, call)
	if d := EqualBody(sp, m.Payload, nil, sentN, recvN, "payload", bodyAttrOf(l)); d != nil {
		var p *Place
		if l.Whole {
			p = l.Places[0]
		} else if d.Attr != nil {
			p = l.ByAttr(d.Attr.Name)
			if p == nil { // nested attribute: use the top-level attribute on the path
				top := strings.SplitN(strings.TrimPrefix(d.Path, "payload."), ".", 2)[0]
				top = strings.SplitN(top, "[", 2)[0]
				p = l.ByAttr(top)
			}
		}
		if report {
			r.outcome("delivered-different")
		}
		fail(fmt.Sprintf("C02 value-changed %s observed=%s", feat(p, d.Sent), valueClass(d.Recv)),
			fmt.Sprintf("%s: %s (sent payload %s, arrived %s)", d.Path, d.Why, spec.Canon(sentN), spec.Canon(recvN)))
		return sigs
	}
	if report {
		r.outcome("delivered-equal")
	}
	// location oracle
	for _, lf := range checkLocations(s, m, l, sentN, call) {
		p := lf.place
		fail(fmt.Sprintf("C02 location %s observed=%s", feat(p, attrVal(p, sentN)), lf.kind), lf.what)
	}
	if report && r.Cases%7 == 1 {
		r.sample(map[string]any{"payload": spec.JSONable(sentN), "request": call.ServerReq.Method + " " + call.ServerReq.RequestURI, "body": truncate(string(call.ReqBody), 120)})
	}
	return sigs
}

func describeLayout(l *Layout) string {
	var parts []string
	for _, p := range l.Places {
		parts = append(parts, fmt.Sprintf("%s@%s:%s", p.Attr, p.Loc, p.Wire))
	}
	return l.FullPath + " " + strings.Join(parts, ",") + " body=" + l.BodyKind
}

func truncate(s string, n int) string {
	if len(s) > n {
		return s[:n] + "..."
	}
	return s
}

var (
	siteNumRe  = regexp.MustCompile(`M\d+`)
	siteFuncRe = regexp.MustCompile(`func\d+`)
)

func panicSite(p string) string {
	lines := strings.Split(p, "\n")
	for _, l := range lines[1:] {
		if i := strings.Index(l, "("); i > 0 && !strings.HasPrefix(l, "/") {
			fn := l[:i]
			if j := strings.LastIndex(fn, "/"); j >= 0 {
				fn = fn[j+1:]
			}
			// drop design-specific package prefix
			if k := strings.Index(fn, "."); k >= 0 {
				fn = fn[k+1:]
			}
			// method numbers and closure indices depend on how a family is packed
			fn = siteNumRe.ReplaceAllString(fn, "MN")
			fn = siteFuncRe.ReplaceAllString(fn, "func")
			return "site=" + fn
		}
	}
	return "site=unknown"
}

func errorName(call *Call) string {
	if call.Rec == nil {
		return "no-response"
	}
	var er struct {
		Name string `json:"name"`
	}
	if json.Unmarshal(call.Rec.Body.Bytes(), &er) == nil && er.Name != "" {
		return er.Name
	}
	return "unnamed"
}

// plainValue returns a plain valid value for the place (string "a", a small positive number...).
func plainValue(s *Svc, p *Place) any {
	cands := s.Spec.Candidates(p.T, p.Loc, 1)
	var fallback any
	for _, c := range cands {
		if c == nil || len(s.Spec.Check(p.T, c, "")) > 0 || unsetLike(c) {
			continue
		}
		if fallback == nil {
			fallback = c
		}
		switch vc := valueClass(c); {
		case strings.HasSuffix(vc, "-plain"), strings.HasSuffix(vc, "-positive"), vc == "bool-true", vc == "float-fraction", vc == "bytes-text", vc == "map-nonempty", vc == "object":
			return c
		}
	}
	return fallback
}

// delivered reports whether payload v reaches the service unchanged.
func delivered(s *Svc, m *spec.Method, v any) bool {
	call, sentN, _, _, herr := exchange(s, m, v, nil)
	if herr != nil || call.ServerPanic != "" || call.Invoked != 1 {
		return false
	}
	return EqualBody(s.Spec, m.Payload, nil, sentN, receivedPayload(s, m, call), "payload", bodyAttrOf(RequestLayout(s.Spec, s.Service, m))) == nil
}

// blame finds the attribute responsible for a delivery failure by substitution: an attribute
// is a culprit when replacing only its value by a plain one makes the payload arrive intact.
// With exactly one culprit that attribute is blamed; otherwise the least plain one is named.
func blame(s *Svc, m *spec.Method, l *Layout, v any, sentN any) (*Place, any) {
	return blameWith(s, l, v, sentN, func(alt any) bool { return delivered(s, m, alt) })
}

// blameWith is blame with an arbitrary "works" predicate.
func blameWith(s *Svc, l *Layout, v any, sentN any, delivered func(alt any) bool) (*Place, any) {
	o, ok := v.(spec.Obj)
	if l.Whole || !ok || len(l.Places) < 2 {
		return suspect(l, sentN)
	}
	var culprits []*Place
	for _, p := range l.Places {
		pv := plainValue(s, p)
		if pv == nil || spec.Canon(pv) == spec.Canon(o[p.Attr]) {
			continue
		}
		alt := spec.Obj{}
		for k, x := range o {
			alt[k] = x
		}
		alt[p.Attr] = pv
		if delivered(alt) {
			culprits = append(culprits, p)
		}
	}
	if len(culprits) == 1 {
		so, _ := sentN.(spec.Obj)
		return culprits[0], so[culprits[0].Attr]
	}
	if len(culprits) == 0 {
		// no single substitution heals it: if every attribute, alone among plain companions,
		// fails by itself, the case is the superposition of failures that are reported on their
		// own (simpler) cases; it is not reported again under a mixed label.
		alone := 0
		for _, p := range l.Places {
			alt := spec.Obj{}
			for _, q := range l.Places {
				if q == p {
					alt[q.Attr] = o[q.Attr]
				} else if pv := plainValue(s, q); pv != nil {
					alt[q.Attr] = pv
				}
			}
			if o[p.Attr] != nil && spec.Canon(alt[p.Attr]) != spec.Canon(plainValue(s, p)) && !delivered(alt) {
				alone++
			}
		}
		if alone >= 2 {
			return nil, compound{}
		}
	}
	return suspect(l, sentN)
}

// compound marks a failure that is the superposition of independently reported failures.
type compound struct{}

// suspect picks the attribute whose value class is least plain (used to label delivery
// failures of multi-attribute payloads).
func suspect(l *Layout, sent any) (*Place, any) {
	var best *Place
	var bestV any
	score := -1
	for _, p := range l.Places {
		var v any
		if l.Whole {
			v = sent
		} else if o, ok := sent.(spec.Obj); ok {
			v = o[p.Attr]
		}
		sc := 1
		vc := valueClass(v)
		switch {
		case v == nil:
			sc = 0
		case strings.HasSuffix(vc, "plain") || strings.HasSuffix(vc, "positive") || vc == "bool-true":
			sc = 1
		default:
			sc = 2
		}
		if p.Loc != spec.LocBody {
			sc++
		}
		if sc > score {
			score, best, bestV = sc, p, v
		}
	}
	return best, bestV
}

type locFail struct {
	place *Place
	kind  string
	what  string
}

// checkLocations verifies that every attribute travelled in exactly the designed location of
// the request as parsed by the server side of net/http.
func checkLocations(s *Svc, m *spec.Method, l *Layout, sent any, call *Call) []locFail {
	var out []locFail
	sp := s.Spec
	req := call.ServerReq
	if req == nil {
		return nil
	}
	get := func(p *Place) any {
		if l.Whole {
			return sent
		}
		if o, ok := sent.(spec.Obj); ok {
			return o[p.Attr]
		}
		return nil
	}
	// body
	var bodyObj map[string]any
	var bodyAny any
	if len(call.ReqBody) > 0 {
		dec := json.NewDecoder(strings.NewReader(string(call.ReqBody)))
		dec.UseNumber()
		if err := dec.Decode(&bodyAny); err == nil {
			bodyObj, _ = bodyAny.(map[string]any)
		}
	}
	query := req.URL.Query()
	designedQuery := map[string]bool{}
	bodyAttrs := map[string]bool{}
	// path segments
	tmplSegs := strings.Split(strings.Trim(l.FullPath, "/"), "/")
	reqSegs := strings.Split(strings.Trim(req.URL.EscapedPath(), "/"), "/")
	for _, p := range l.Places {
		v := get(p)
		e := sp.Eff(p.T)
		switch p.Loc {
		case "mapparams":
			for k := range query {
				designedQuery[k] = true
			}
		case spec.LocPath:
			idx := -1
			for i, seg := range tmplSegs {
				if mm := wildcardRe.FindStringSubmatch(seg); mm != nil && mm[1] == p.Wire {
					idx = i
				}
			}
			if idx < 0 || idx >= len(reqSegs) {
				out = append(out, locFail{p, "path-segment-missing", fmt.Sprintf("path %q has no segment for {%s} (template %s)", req.URL.EscapedPath(), p.Wire, l.FullPath)})
				continue
			}
			seg := reqSegs[idx]
			catchAll := strings.HasPrefix(tmplSegs[idx], "{*")
			if catchAll {
				seg = strings.Join(reqSegs[idx:], "/")
			}
			text, err := url.PathUnescape(seg)
			if err != nil {
				out = append(out, locFail{p, "path-segment-bad-escape", fmt.Sprintf("segment %q does not unescape", seg)})
				continue
			}
			if len(reqSegs) != len(tmplSegs) && !catchAll {
				out = append(out, locFail{p, "path-segment-count", fmt.Sprintf("request path %q has %d segments, template %s has %d", req.URL.EscapedPath(), len(reqSegs), l.FullPath, len(tmplSegs))})
				continue
			}
			if f := cmpWire(sp, p, e, v, []string{text}, true); f != "" {
				out = append(out, locFail{p, "path-value-" + f, fmt.Sprintf("path segment %q does not carry %s", reqSegs[idx], spec.Canon(v))})
			}
		case spec.LocQuery:
			designedQuery[p.Wire] = true
			vals, present := query[p.Wire]
			if unsetLike(v) {
				if present && !p.A.HasDefaultSafe() && strings.Join(vals, "") != "" {
					out = append(out, locFail{p, "query-present-for-unset", fmt.Sprintf("query has %s=%v for an unset attribute", p.Wire, vals)})
				}
				continue
			}
			if !present {
				out = append(out, locFail{p, "query-missing", fmt.Sprintf("query %q lacks %s", req.URL.RawQuery, p.Wire)})
				continue
			}
			if f := cmpWire(sp, p, e, v, vals, false); f != "" {
				out = append(out, locFail{p, "query-value-" + f, fmt.Sprintf("query %s=%v does not carry %s", p.Wire, vals, spec.Canon(v))})
			}
		case spec.LocHeader:
			vals := req.Header.Values(p.Wire)
			if unsetLike(v) {
				if len(vals) > 0 && !p.A.HasDefaultSafe() && strings.Join(vals, "") != "" {
					out = append(out, locFail{p, "header-present-for-unset", fmt.Sprintf("header %s=%v for an unset attribute", p.Wire, vals)})
				}
				continue
			}
			if len(vals) == 0 {
				if s, ok := v.(string); ok && s == "" {
					continue // net/http cannot distinguish an empty header from none on all paths
				}
				out = append(out, locFail{p, "header-missing", fmt.Sprintf("request lacks header %s", p.Wire)})
				continue
			}
			if f := cmpWire(sp, p, e, v, vals, true); f != "" {
				out = append(out, locFail{p, "header-value-" + f, fmt.Sprintf("header %s=%v does not carry %s", p.Wire, vals, spec.Canon(v))})
			}
		case spec.LocCookie:
			ck, err := req.Cookie(p.Wire)
			if unsetLike(v) {
				if err == nil && !p.A.HasDefaultSafe() && ck.Value != "" {
					out = append(out, locFail{p, "cookie-present-for-unset", "cookie sent for an unset attribute"})
				}
				continue
			}
			if err != nil {
				out = append(out, locFail{p, "cookie-missing", fmt.Sprintf("request lacks cookie %s (Cookie: %v)", p.Wire, req.Header.Values("Cookie"))})
				continue
			}
			if f := cmpWire(sp, p, e, v, []string{ck.Value}, true); f != "" {
				out = append(out, locFail{p, "cookie-value-" + f, fmt.Sprintf("cookie %s=%q does not carry %s", p.Wire, ck.Value, spec.Canon(v))})
			}
		case spec.LocBody:
			bodyAttrs[p.Attr] = true
			if l.BodyKind == "attr" {
				if unsetLike(v) {
					continue
				}
				if !jsonCarries(sp, p.T, v, bodyAny) {
					out = append(out, locFail{p, "body-value-mismatch", fmt.Sprintf("body %s does not carry %s", truncate(string(call.ReqBody), 200), spec.Canon(v))})
				}
				continue
			}
			bv, present := bodyObj[p.Wire]
			if unsetLike(v) {
				if present && bv != nil && !p.A.HasDefaultSafe() {
					if !isEmptyJSON(bv) {
						out = append(out, locFail{p, "body-present-for-unset", fmt.Sprintf("body has key %s for an unset attribute", p.Wire)})
					}
				}
				continue
			}
			if !present {
				out = append(out, locFail{p, "body-key-missing", fmt.Sprintf("body %s lacks key %s", truncate(string(call.ReqBody), 200), p.Wire)})
				continue
			}
			if !jsonCarries(sp, p.T, v, bv) && !(p.A.HasDefaultSafe() && isZeroPrim(v) && jsonCarries(sp, p.T, DefaultNeutral(sp, p.T, p.A.Default), bv)) {
				out = append(out, locFail{p, "body-value-mismatch", fmt.Sprintf("body key %s=%v does not carry %s", p.Wire, bv, spec.Canon(v))})
			}
		}
	}
	// nothing travels anywhere else: no undesigned query keys, no undesigned body keys
	var extraQ []string
	for k := range query {
		if !designedQuery[k] {
			extraQ = append(extraQ, k)
		}
	}
	sort.Strings(extraQ)
	if len(extraQ) > 0 && m.HTTP.MapParams == "" {
		out = append(out, locFail{nil, "query-undesigned-key", fmt.Sprintf("query carries undesigned keys %v", extraQ)})
	}
	if l.BodyKind == "object" || l.BodyKind == "none" {
		var extraB []string
		for k := range bodyObj {
			if !bodyAttrs[k] {
				extraB = append(extraB, k)
			}
		}
		sort.Strings(extraB)
		if len(extraB) > 0 {
			out = append(out, locFail{nil, "body-undesigned-key", fmt.Sprintf("body carries undesigned keys %v", extraB)})
		}
	}
	return out
}

func isEmptyJSON(v any) bool {
	switch x := v.(type) {
	case []any:
		return len(x) == 0
	case map[string]any:
		return len(x) == 0
	case string:
		return x == ""
	}
	return false
}

// cmpWire compares wire texts with the sent value. joined: arrays travel comma-joined in one
// text (path, header, cookie) instead of repeated (query).
func cmpWire(sp *spec.Spec, p *Place, e spec.Eff, v any, texts []string, joined bool) string {
	if p.A.HasDefaultSafe() && isZeroPrim(v) {
		if cmpWire0(sp, p, e, DefaultNeutral(sp, p.T, p.A.Default), texts, joined) == "" {
			return ""
		}
	}
	return cmpWire0(sp, p, e, v, texts, joined)
}

func cmpWire0(sp *spec.Spec, p *Place, e spec.Eff, v any, texts []string, joined bool) string {
	if e.K == spec.KArray {
		arr, _ := v.(spec.Arr)
		parts := texts
		if joined {
			if len(texts) == 1 {
				parts = strings.Split(texts[0], ",")
			}
		}
		ee := sp.Eff(e.Elem)
		if len(parts) != len(arr) {
			// a joined encoding cannot be inverted when elements contain commas
			return "array-arity"
		}
		for i, el := range arr {
			pv, err := parseWire(ee.K, parts[i])
			if err != nil || spec.Canon(pv) != spec.Canon(el) {
				return "array-element"
			}
		}
		return ""
	}
	if e.K == spec.KMap || e.K == spec.KObject {
		return "" // not checked at wire level
	}
	if len(texts) != 1 {
		return "repeated"
	}
	pv, err := parseWire(e.K, texts[0])
	if err != nil {
		return "unparsable"
	}
	if spec.Canon(pv) != spec.Canon(v) {
		return "mismatch"
	}
	return ""
}

// jsonCarries reports whether the decoded JSON value j carries the neutral value v of type t.
func jsonCarries(sp *spec.Spec, t *spec.Type, v any, j any) bool {
	e := sp.Eff(t)
	if e.K == spec.KUnion && v != nil {
		return unionJSONCarries(sp, t, v, j)
	}
	switch x := v.(type) {
	case nil:
		return j == nil
	case bool:
		b, ok := j.(bool)
		return ok && b == x
	case int64:
		n, ok := j.(json.Number)
		return ok && n.String() == fmt.Sprint(x)
	case uint64:
		n, ok := j.(json.Number)
		return ok && n.String() == fmt.Sprint(x)
	case float64:
		n, ok := j.(json.Number)
		if !ok {
			return false
		}
		bits := 64
		if e.K == spec.KFloat32 {
			bits = 32
		}
		pv, err := parseWire(map[int]string{32: spec.KFloat32, 64: spec.KFloat64}[bits], n.String())
		return err == nil && spec.Canon(pv) == spec.Canon(x)
	case string:
		sv, ok := j.(string)
		return ok && sv == x
	case []byte:
		// encoding/json renders []byte as base64
		sv, ok := j.(string)
		if !ok {
			return false
		}
		b, _ := json.Marshal(x)
		var want string
		_ = json.Unmarshal(b, &want)
		return sv == want
	case spec.Arr:
		l, ok := j.([]any)
		if !ok || len(l) != len(x) {
			return len(x) == 0 && j == nil
		}
		for i := range x {
			if !jsonCarries(sp, e.Elem, x[i], l[i]) {
				return false
			}
		}
		return true
	case spec.MapV:
		mm, ok := j.(map[string]any)
		if !ok || len(mm) != len(x) {
			return len(x) == 0 && j == nil
		}
		for _, kv := range x {
			key := fmt.Sprint(native2(kv.K))
			jv, ok := mm[key]
			if !ok || !jsonCarries(sp, e.Elem, kv.V, jv) {
				return false
			}
		}
		return true
	case spec.Obj:
		mm, ok := j.(map[string]any)
		if !ok {
			return false
		}
		for _, a := range e.Attrs {
			av := x[a.Name]
			jv, present := mm[a.Name]
			if unsetLike(av) {
				continue
			}
			if present && a.HasDefault && isZeroPrim(av) && jsonCarries(sp, a.T, DefaultNeutral(sp, a.T, a.Default), jv) {
				continue // zero of a defaulted primitive may travel as the default (normalisation 3)
			}
			if !present || !jsonCarries(sp, a.T, av, jv) {
				return false
			}
		}
		return true
	}
	return false
}

func native2(v any) any {
	if b, ok := v.([]byte); ok {
		return string(b)
	}
	return v
}

// bodyAttrOf tells which top-level attributes of a layout travel in the (JSON) body.
func bodyAttrOf(l *Layout) func(string) bool {
	if l == nil || l.Whole {
		return nil
	}
	return func(attr string) bool {
		p := l.ByAttr(attr)
		return p != nil && p.Loc == spec.LocBody
	}
}

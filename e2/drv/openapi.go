package drv

import (
	"bytes"
	"context"
	"encoding/json"
	"flag"
	"fmt"
	"math"
	"net/http"
	"os"
	"path/filepath"
	"reflect"
	"regexp"
	"sort"
	"strings"
	"sync"
	"sync/atomic"

	"github.com/getkin/kin-openapi/openapi2"
	"github.com/getkin/kin-openapi/openapi3"
	"gopkg.in/yaml.v3"

	goahttp "goa.design/goa/v3/http"

	"verif/e2/spec"
	"verif/e2/vreg"
)

// Shared plumbing of C07 and C14: locating and loading the generated OpenAPI documents of a
// design, the independent validators (kin-openapi for OpenAPI 3 and for Swagger 2.0 converted to
// OpenAPI 3, a structural checker written from the Swagger 2.0 / OpenAPI 3.0.3 texts), format
// validators backed by the constructive tables of e2/spec/formats.go, and the recording muxer
// that observes what the generated Mount functions register.

// designDir returns the directory of a design of the corpus the driver was started on.
func designDir(design string) string {
	if staticCorpusDir != "" {
		return filepath.Join(staticCorpusDir, design)
	}
	f := flag.Lookup("corpus")
	if f == nil {
		return ""
	}
	return filepath.Join(f.Value.String(), design)
}

// staticCorpusDir is set when the document checks run inside a check binary (C07Static)
// rather than inside a corpus driver.
var staticCorpusDir string

// formatOutsideTables counts strings kin asked a format verdict for that the constructive
// tables do not contain (must stay 0 for the verdicts to mean anything).
var formatOutsideTables int64

var oaOnce sync.Once

// oaInit registers every format name goa defines with a validator that answers from the
// constructive tables: the schema side then says what the named format means independently of
// goa's pkg/validation.go and of kin-openapi's deliberately loose regular expressions.
func oaInit() {
	oaOnce.Do(func() {
		for _, f := range spec.Formats() {
			f := f
			openapi3.DefineStringFormatValidator(f, openapi3.NewCallbackValidator(func(s string) error {
				valid, known := spec.FormatVerdict(f, s)
				if !known {
					atomic.AddInt64(&formatOutsideTables, 1)
					return nil
				}
				if !valid {
					return fmt.Errorf("%q is not a valid %s (constructive table)", s, f)
				}
				return nil
			}))
		}
	})
}

// oaDocs holds the four generated documents of one design.
type oaDocs struct {
	dir  string
	raw  map[string][]byte // openapi.json, openapi.yaml, openapi3.json, openapi3.yaml
	miss []string          // files that could not be read

	v3        *openapi3.T
	v3LoadErr error
	v3Lenient bool // loaded only after rewriting numeric exclusiveMinimum/Maximum (C14 only)
	v3Valid   error

	gen2, gen3 map[string]any // generic JSON form
}

var oaCache sync.Map // design dir -> *oaDocs

func loadDocs(design string) *oaDocs {
	dir := designDir(design)
	if d, ok := oaCache.Load(dir); ok {
		return d.(*oaDocs)
	}
	oaInit()
	d := &oaDocs{dir: dir, raw: map[string][]byte{}}
	for _, n := range []string{"openapi.json", "openapi.yaml", "openapi3.json", "openapi3.yaml"} {
		b, err := os.ReadFile(filepath.Join(dir, "gen", "http", n))
		if err != nil {
			d.miss = append(d.miss, n)
			continue
		}
		d.raw[n] = b
	}
	if b := d.raw["openapi3.json"]; b != nil {
		_ = json.Unmarshal(b, &d.gen3)
		d.v3, d.v3LoadErr = openapi3.NewLoader().LoadFromData(b)
		if d.v3LoadErr == nil {
			d.v3Valid = d.v3.Validate(context.Background(), openapi3.DisableExamplesValidation())
		}
	}
	if b := d.raw["openapi.json"]; b != nil {
		_ = json.Unmarshal(b, &d.gen2)
	}
	act, _ := oaCache.LoadOrStore(dir, d)
	return act.(*oaDocs)
}

// lenientV3 returns the OpenAPI 3 document for request/response validation. When the document
// as generated cannot be loaded because exclusiveMinimum/exclusiveMaximum are numbers (JSON
// Schema draft 6+ / OpenAPI 3.1 syntax inside a 3.0.3 document; the invalidity itself is C07's
// finding) it is re-read the way a draft-6 reader would: {"exclusiveMinimum": n} becomes
// {"minimum": n, "exclusiveMinimum": true}.
func (d *oaDocs) lenientV3() (*openapi3.T, bool, error) {
	if d.v3 != nil {
		return d.v3, d.v3Lenient, nil
	}
	if d.gen3 == nil {
		return nil, false, fmt.Errorf("openapi3.json missing or not JSON")
	}
	var cp any
	b, _ := json.Marshal(d.gen3)
	_ = json.Unmarshal(b, &cp)
	n := rewriteExclusive(cp)
	if n == 0 {
		return nil, false, d.v3LoadErr
	}
	b, _ = json.Marshal(cp)
	doc, err := openapi3.NewLoader().LoadFromData(b)
	if err != nil {
		return nil, false, err
	}
	d.v3, d.v3Lenient = doc, true
	return doc, true, nil
}

func rewriteExclusive(v any) int {
	n := 0
	switch x := v.(type) {
	case map[string]any:
		for _, k := range []string{"exclusiveMinimum", "exclusiveMaximum"} {
			if f, ok := x[k].(float64); ok {
				base := "minimum"
				if k == "exclusiveMaximum" {
					base = "maximum"
				}
				x[base] = f
				x[k] = true
				n++
			}
		}
		for _, e := range x {
			n += rewriteExclusive(e)
		}
	case []any:
		for _, e := range x {
			n += rewriteExclusive(e)
		}
	}
	return n
}

// ---------------------------------------------------------------------------------------------
// JSON vs YAML

// normGeneric maps decoded JSON / YAML values onto one generic form: every number becomes a
// float64, map keys are strings.
func normGeneric(v any) any {
	switch x := v.(type) {
	case map[string]any:
		out := make(map[string]any, len(x))
		for k, e := range x {
			out[k] = normGeneric(e)
		}
		return out
	case map[any]any:
		out := make(map[string]any, len(x))
		for k, e := range x {
			out[fmt.Sprint(k)] = normGeneric(e)
		}
		return out
	case []any:
		out := make([]any, len(x))
		for i, e := range x {
			out[i] = normGeneric(e)
		}
		return out
	case int:
		return float64(x)
	case int64:
		return float64(x)
	case uint64:
		return float64(x)
	case float32:
		return float64(x)
	case json.Number:
		f, _ := x.Float64()
		return f
	}
	return v
}

// genericDiff returns the path of the first difference between two generic values ("" = equal).
func genericDiff(a, b any, path string) string {
	switch x := a.(type) {
	case map[string]any:
		y, ok := b.(map[string]any)
		if !ok {
			return path + ": object vs " + kindOf(b)
		}
		keys := map[string]bool{}
		for k := range x {
			keys[k] = true
		}
		for k := range y {
			keys[k] = true
		}
		var ks []string
		for k := range keys {
			ks = append(ks, k)
		}
		sort.Strings(ks)
		for _, k := range ks {
			xv, xok := x[k]
			yv, yok := y[k]
			if !xok {
				return path + "/" + k + ": only in YAML"
			}
			if !yok {
				return path + "/" + k + ": only in JSON"
			}
			if d := genericDiff(xv, yv, path+"/"+k); d != "" {
				return d
			}
		}
		return ""
	case []any:
		y, ok := b.([]any)
		if !ok {
			return path + ": array vs " + kindOf(b)
		}
		if len(x) != len(y) {
			return fmt.Sprintf("%s: array length %d vs %d", path, len(x), len(y))
		}
		for i := range x {
			if d := genericDiff(x[i], y[i], fmt.Sprintf("%s/%d", path, i)); d != "" {
				return d
			}
		}
		return ""
	}
	if !reflect.DeepEqual(a, b) {
		return fmt.Sprintf("%s: %s %v vs %s %v", path, kindOf(a), a, kindOf(b), b)
	}
	return ""
}

func kindOf(v any) string {
	switch v.(type) {
	case nil:
		return "null"
	case map[string]any:
		return "object"
	case []any:
		return "array"
	case string:
		return "string"
	case float64:
		return "number"
	case bool:
		return "boolean"
	}
	return fmt.Sprintf("%T", v)
}

// diffClass abstracts a JSON/YAML difference for signatures: the last path element (a field
// name of the document format, not a design name) and the kind of difference.
func diffClass(d string) string {
	i := strings.Index(d, ": ")
	what := ""
	if i >= 0 {
		what = d[i+2:]
		d = d[:i]
	}
	parts := strings.Split(d, "/")
	last := ""
	if len(parts) > 0 {
		last = parts[len(parts)-1]
	}
	// name the enclosing keyword of the document format rather than a design name
	for i := len(parts) - 1; i >= 0; i-- {
		switch parts[i] {
		case "example", "examples", "default", "enum", "description", "required", "parameters", "responses", "security", "securityDefinitions", "securitySchemes":
			last = parts[i]
			i = -1
		}
	}
	kind := "value-differs"
	switch {
	case strings.HasPrefix(what, "only in"):
		kind = strings.ReplaceAll(what, " ", "-")
	case strings.HasPrefix(what, "array length"):
		kind = "array-length"
	case strings.HasPrefix(what, "string ") && strings.Contains(what, " vs string "):
		kind = "string-differs"
	case strings.HasPrefix(what, "number ") && strings.Contains(what, " vs number "):
		kind = "number-differs"
	case strings.Contains(what, " vs "):
		kind = "type-differs"
	}
	return safeTok(last) + ":" + kind
}

func yamlJSONDiff(jsonRaw, yamlRaw []byte) (string, error) {
	var j any
	dec := json.NewDecoder(bytes.NewReader(jsonRaw))
	dec.UseNumber()
	if err := dec.Decode(&j); err != nil {
		return "", fmt.Errorf("json: %w", err)
	}
	var y any
	if err := yaml.Unmarshal(yamlRaw, &y); err != nil {
		return "", fmt.Errorf("yaml: %w", err)
	}
	return genericDiff(normGeneric(j), normGeneric(y), ""), nil
}

// ---------------------------------------------------------------------------------------------
// documented operations

// docOp is one documented operation in generic form.
type docOp struct {
	Verb string // upper case
	Path string // full path template (base path applied)
	Op   map[string]any
	Item map[string]any
}

var oaVerbs = []string{"get", "put", "post", "delete", "options", "head", "patch", "trace"}

// docOps lists the operations of a generic document. Swagger 2.0 has no "trace" operation;
// neither version can express CONNECT.
func docOps(doc map[string]any, v2 bool) []docOp {
	var out []docOp
	paths, _ := doc["paths"].(map[string]any)
	base := ""
	if v2 {
		base, _ = doc["basePath"].(string)
	}
	var keys []string
	for k := range paths {
		keys = append(keys, k)
	}
	sort.Strings(keys)
	for _, p := range keys {
		if strings.HasPrefix(p, "x-") {
			continue
		}
		item, _ := paths[p].(map[string]any)
		for _, verb := range oaVerbs {
			if v2 && verb == "trace" {
				continue
			}
			op, ok := item[verb].(map[string]any)
			if !ok {
				continue
			}
			full := p
			if base != "" && base != "/" {
				full = strings.TrimSuffix(base, "/") + p
			}
			out = append(out, docOp{Verb: strings.ToUpper(verb), Path: full, Op: op, Item: item})
		}
	}
	return out
}

var starRe = regexp.MustCompile(`\{\*([A-Za-z0-9_]+)\}`)

// routeKey is the comparison form of a (verb, pattern) pair: {*x} is written {x}.
func routeKey(verb, pattern string) string {
	return strings.ToUpper(verb) + " " + starRe.ReplaceAllString(pattern, "{$1}")
}

// ---------------------------------------------------------------------------------------------
// recording muxer

type mountRec struct{ Verb, Pattern string }

type recMuxer struct {
	goahttp.Muxer
	mu   sync.Mutex
	recs []mountRec
}

func (r *recMuxer) Handle(method, pattern string, handler http.HandlerFunc) {
	r.mu.Lock()
	r.recs = append(r.recs, mountRec{method, pattern})
	r.mu.Unlock()
	r.Muxer.Handle(method, pattern, handler)
}

// mountedRoutes builds a fresh generated server of the service on a recording muxer and
// returns the (verb, pattern) pairs the generated Mount registers.
func mountedRoutes(design string, sp *spec.Spec, svc *spec.Service) (recs []mountRec, err error) {
	defer func() {
		if r := recover(); r != nil {
			err = fmt.Errorf("generated New/Mount panicked: %v", r)
		}
	}()
	var syms, ssyms map[string]any
	for _, e := range vreg.All() {
		if e.Design != design || norm(e.Service) != norm(svc.Name) {
			continue
		}
		switch e.Role {
		case "service":
			syms = e.Syms
		case "server":
			ssyms = e.Syms
		}
	}
	if syms == nil || ssyms == nil {
		return nil, fmt.Errorf("%s/%s: service or server package not registered", design, svc.Name)
	}
	stub := syms["NewStub"].(func(vreg.Hook) any)(func(string, []any) []any { return nil })
	eps := callFunc(reflect.ValueOf(syms["NewEndpoints"]), stub)[0]
	rm := &recMuxer{Muxer: goahttp.NewMuxer()}
	errh := func(context.Context, http.ResponseWriter, error) {}
	// every http.FileSystem parameter of New (one per file server) gets a value
	newFn := reflect.ValueOf(ssyms["New"])
	cands := []any{eps.Interface(), goahttp.Muxer(rm), goahttp.RequestDecoder, goahttp.ResponseEncoder, errh}
	fsT := reflect.TypeOf((*http.FileSystem)(nil)).Elem()
	for i := 0; i < newFn.Type().NumIn(); i++ {
		if newFn.Type().In(i) == fsT {
			cands = append(cands, http.FileSystem(http.Dir("/nonexistent")))
		}
	}
	srv := callFunc(newFn, cands...)[0]
	callFunc(reflect.ValueOf(ssyms["Mount"]), goahttp.Muxer(rm), srv.Interface())
	return rm.recs, nil
}

// ---------------------------------------------------------------------------------------------
// Swagger 2.0 structural checker (written from the Swagger 2.0 specification text)

// oaIssue is one finding of a structural checker: class is stable (used in signatures), what is
// the human explanation.
type oaIssue struct{ class, what string }

var v2ParamTypes = map[string]bool{"string": true, "number": true, "integer": true, "boolean": true, "array": true, "file": true}
var v2ItemTypes = map[string]bool{"string": true, "number": true, "integer": true, "boolean": true, "array": true}
var pathTmplRe = regexp.MustCompile(`\{([^}/]+)\}`)

func checkSwagger2(doc map[string]any) []oaIssue {
	var out []oaIssue
	add := func(class, f string, a ...any) { out = append(out, oaIssue{class, fmt.Sprintf(f, a...)}) }
	if s, _ := doc["swagger"].(string); s != "2.0" {
		add("swagger-field", `"swagger" must be the string "2.0", got %v`, doc["swagger"])
	}
	info, ok := doc["info"].(map[string]any)
	if !ok {
		add("info-missing", `"info" is required`)
	} else {
		if _, ok := info["title"].(string); !ok {
			add("info-title-missing", `"info.title" is required`)
		}
		if _, ok := info["version"].(string); !ok {
			add("info-version-missing", `"info.version" is required`)
		}
	}
	paths, ok := doc["paths"].(map[string]any)
	if !ok {
		add("paths-missing", `"paths" is required`)
		return out
	}
	if bp, ok := doc["basePath"].(string); ok && bp != "" && !strings.HasPrefix(bp, "/") {
		add("basepath-no-leading-slash", `basePath %q must start with "/"`, bp)
	}
	secDefs, _ := doc["securityDefinitions"].(map[string]any)
	for name, sd := range secDefs {
		m, _ := sd.(map[string]any)
		switch t, _ := m["type"].(string); t {
		case "basic":
		case "apiKey":
			if n, _ := m["name"].(string); n == "" {
				add("security-definition-apikey-name", "securityDefinitions.%s: apiKey requires name", name)
			}
			if in, _ := m["in"].(string); in != "query" && in != "header" {
				add("security-definition-apikey-in", "securityDefinitions.%s: apiKey requires in: query|header, got %q", name, in)
			}
		case "oauth2":
			fl, _ := m["flow"].(string)
			switch fl {
			case "implicit", "password", "application", "accessCode":
			default:
				add("security-definition-oauth2-flow", "securityDefinitions.%s: oauth2 requires flow, got %q", name, fl)
			}
			if fl == "implicit" || fl == "accessCode" {
				if u, _ := m["authorizationUrl"].(string); u == "" {
					add("security-definition-oauth2-url", "securityDefinitions.%s: flow %s requires authorizationUrl", name, fl)
				}
			}
			if fl == "password" || fl == "application" || fl == "accessCode" {
				if u, _ := m["tokenUrl"].(string); u == "" {
					add("security-definition-oauth2-url", "securityDefinitions.%s: flow %s requires tokenUrl", name, fl)
				}
			}
			if _, ok := m["scopes"].(map[string]any); !ok {
				add("security-definition-oauth2-scopes", "securityDefinitions.%s: oauth2 requires scopes", name)
			}
		default:
			add("security-definition-type", "securityDefinitions.%s: type %q is not basic|apiKey|oauth2", name, t)
		}
	}
	checkSec := func(where string, v any) {
		reqs, _ := v.([]any)
		for _, r := range reqs {
			rm, _ := r.(map[string]any)
			for name := range rm {
				if _, ok := secDefs[name]; !ok {
					add("security-ref-dangling level="+strings.SplitN(where, " ", 2)[0], "%s: security requirement names %q which securityDefinitions does not define", where, name)
				}
			}
		}
	}
	checkSec("global", doc["security"])
	opIDs := map[string]string{}
	for _, p := range sortedKeys(paths) {
		if strings.HasPrefix(p, "x-") {
			continue
		}
		if !strings.HasPrefix(p, "/") {
			add("path-no-leading-slash", "path %q must begin with a slash", p)
		}
		item, _ := paths[p].(map[string]any)
		tmpl := map[string]bool{}
		for _, m := range pathTmplRe.FindAllStringSubmatch(p, -1) {
			tmpl[m[1]] = true
		}
		itemParams, _ := item["parameters"].([]any)
		for _, verb := range oaVerbs {
			op, ok := item[verb].(map[string]any)
			if !ok {
				continue
			}
			where := strings.ToUpper(verb) + " " + p
			if verb == "trace" {
				add("operation-verb-unknown", "%s: Swagger 2.0 path items have no %q field", where, verb)
			}
			if id, _ := op["operationId"].(string); id != "" {
				if prev, dup := opIDs[id]; dup {
					add("operation-id-duplicate", "%s: operationId %q already used by %s", where, id, prev)
				}
				opIDs[id] = where
			}
			resps, ok := op["responses"].(map[string]any)
			if !ok || len(resps) == 0 {
				add("responses-missing", "%s: responses is required and must contain at least one response", where)
			}
			for code, rv := range resps {
				if strings.HasPrefix(code, "x-") {
					continue
				}
				if code != "default" && !validStatus(code) {
					add("response-code", "%s: response key %q is neither an HTTP status code nor default", where, code)
				}
				r, _ := rv.(map[string]any)
				if _, ok := r["$ref"]; ok {
					continue
				}
				if _, ok := r["description"].(string); !ok {
					add("response-description-missing", "%s: response %s lacks the required description", where, code)
				}
				hs, _ := r["headers"].(map[string]any)
				for hn, hv := range hs {
					h, _ := hv.(map[string]any)
					t, _ := h["type"].(string)
					if !v2ItemTypes[t] {
						add("response-header-type", "%s: response %s header %s has type %q (must be string|number|integer|boolean|array)", where, code, hn, t)
					}
					if t == "array" {
						if _, ok := h["items"].(map[string]any); !ok {
							add("response-header-array-items", "%s: response %s header %s: array without items", where, code, hn)
						}
					}
				}
			}
			checkSec(where, op["security"])
			// parameters: operation overrides path-item level by (name, in)
			params := append([]any{}, itemParams...)
			ops, _ := op["parameters"].([]any)
			params = append(params, ops...)
			seen := map[string]bool{}
			bodies, forms := 0, 0
			inPath := map[string]bool{}
			for _, pv := range ops {
				pm, _ := pv.(map[string]any)
				if _, isRef := pm["$ref"]; isRef {
					continue
				}
				name, _ := pm["name"].(string)
				in, _ := pm["in"].(string)
				if name == "" {
					add("parameter-name-missing", "%s: a parameter lacks name", where)
				}
				switch in {
				case "query", "header", "path", "formData", "body":
				default:
					add("parameter-in value="+safeTok(in), "%s: parameter %q has in=%q (must be query|header|path|formData|body)", where, name, in)
				}
				key := in + ":" + name
				if seen[key] {
					add("parameter-duplicate in="+safeTok(in), "%s: two parameters share name %q and location %q", where, name, in)
				}
				seen[key] = true
				switch in {
				case "body":
					bodies++
					if _, ok := pm["schema"].(map[string]any); !ok {
						add("parameter-body-schema-missing", "%s: body parameter %q lacks schema", where, name)
					}
				case "path":
					inPath[name] = true
					if req, _ := pm["required"].(bool); !req {
						add("parameter-path-not-required", "%s: path parameter %q must be required: true", where, name)
					}
					if !tmpl[name] {
						add("parameter-path-not-in-template", "%s: path parameter %q does not appear in the path template", where, name)
					}
				case "formData":
					forms++
				}
				if in != "body" && in != "" {
					t, _ := pm["type"].(string)
					if !v2ParamTypes[t] {
						add("parameter-type in="+safeTok(in), "%s: parameter %q (in %s) has type %q (must be string|number|integer|boolean|array|file)", where, name, in, t)
					}
					if t == "array" {
						it, ok := pm["items"].(map[string]any)
						if !ok {
							add("parameter-array-items", "%s: array parameter %q lacks items", where, name)
						} else if t2, _ := it["type"].(string); !v2ItemTypes[t2] {
							add("parameter-items-type", "%s: items of parameter %q have type %q", where, name, t2)
						}
					}
					if t == "file" && in != "formData" {
						add("parameter-file-not-formdata", "%s: parameter %q of type file must be in formData", where, name)
					}
				}
			}
			_ = params
			if bodies > 1 {
				add("parameter-body-multiple", "%s: %d body parameters (at most one allowed)", where, bodies)
			}
			if bodies > 0 && forms > 0 {
				add("parameter-body-and-formdata", "%s: body and formData parameters cannot coexist", where)
			}
			for name := range tmpl {
				if !inPath[name] {
					found := false
					for _, pv := range itemParams {
						pm, _ := pv.(map[string]any)
						if n, _ := pm["name"].(string); n == name && pm["in"] == "path" {
							found = true
						}
					}
					if !found {
						add("template-variable-undeclared", "%s: path template variable {%s} has no path parameter", where, name)
					}
				}
			}
		}
	}
	return out
}

// checkOpenAPI3Extra checks the OpenAPI 3.0.3 MUSTs that kin-openapi's Validate does not: every
// security requirement names a declared scheme, scopes only on oauth2/openIdConnect schemes,
// path template variables are declared as path parameters, unique operationIds.
func checkOpenAPI3Extra(doc map[string]any) []oaIssue {
	var out []oaIssue
	add := func(class, f string, a ...any) { out = append(out, oaIssue{class, fmt.Sprintf(f, a...)}) }
	comps, _ := doc["components"].(map[string]any)
	schemes, _ := comps["securitySchemes"].(map[string]any)
	checkSec := func(where string, v any) {
		reqs, _ := v.([]any)
		for _, r := range reqs {
			rm, _ := r.(map[string]any)
			for _, name := range sortedKeys(rm) {
				sc, ok := schemes[name].(map[string]any)
				if !ok {
					add("security-ref-dangling level="+strings.SplitN(where, " ", 2)[0], "%s: security requirement names %q which components.securitySchemes does not declare", where, name)
					continue
				}
				t, _ := sc["type"].(string)
				if scopes, _ := rm[name].([]any); len(scopes) > 0 && t != "oauth2" && t != "openIdConnect" {
					add("security-scopes-on-non-oauth2 type="+safeTok(t), "%s: requirement %q lists scopes %v but the scheme type is %q (the array MUST be empty for types other than oauth2/openIdConnect)", where, name, scopes, t)
				}
			}
		}
	}
	checkSec("global", doc["security"])
	opIDs := map[string]string{}
	for _, o := range docOps(doc, false) {
		where := o.Verb + " " + o.Path
		checkSec("operation "+where, o.Op["security"])
		if id, _ := o.Op["operationId"].(string); id != "" {
			if prev, dup := opIDs[id]; dup {
				add("operation-id-duplicate", "%s: operationId %q already used by %s", where, id, prev)
			}
			opIDs[id] = where
		}
		declared := map[string]bool{}
		for _, lvl := range []any{o.Item["parameters"], o.Op["parameters"]} {
			ps, _ := lvl.([]any)
			for _, pv := range ps {
				pm, _ := pv.(map[string]any)
				if pm["in"] == "path" {
					n, _ := pm["name"].(string)
					declared[n] = true
				}
			}
		}
		for _, m := range pathTmplRe.FindAllStringSubmatch(o.Path, -1) {
			if !declared[m[1]] {
				add("template-variable-undeclared", "%s: path template variable {%s} has no path parameter", where, m[1])
			}
		}
	}
	return out
}

func validStatus(code string) bool {
	if len(code) != 3 {
		return false
	}
	for _, c := range code {
		if c < '0' || c > '9' {
			return false
		}
	}
	return code[0] >= '1' && code[0] <= '5'
}

func safeTok(s string) string {
	if s == "" {
		return "none"
	}
	return strings.Map(func(r rune) rune {
		if r == ' ' || r == '\n' || r == '\t' {
			return '_'
		}
		return r
	}, s)
}

func sortedKeys[V any](m map[string]V) []string {
	ks := make([]string, 0, len(m))
	for k := range m {
		ks = append(ks, k)
	}
	sort.Strings(ks)
	return ks
}

// unmarshalV2 decodes the Swagger document into kin-openapi's openapi2.T.
func unmarshalV2(raw []byte) (*openapi2.T, error) {
	var t openapi2.T
	if err := json.Unmarshal(raw, &t); err != nil {
		return nil, err
	}
	return &t, nil
}

// errClassOA abstracts a kin-openapi error message into a stable class: quoted names, numbers
// and schema dumps removed.
func errClassOA(err error) string {
	s := err.Error()
	if i := strings.Index(s, "\n"); i >= 0 {
		s = s[:i]
	}
	if i := strings.Index(s, ", yaml error"); i >= 0 {
		s = s[:i]
	}
	s = regexp.MustCompile(`"[^"]*"`).ReplaceAllString(s, "Q")
	s = regexp.MustCompile(`\[[^\]]*\]`).ReplaceAllString(s, "[L]") // lists of names (kin prints them in map order)
	s = regexp.MustCompile(`/[A-Za-z0-9_{}*/.-]+`).ReplaceAllString(s, "P")
	s = regexp.MustCompile(`\b[Mm]\d+\b`).ReplaceAllString(s, "mN")
	s = regexp.MustCompile(`\d+`).ReplaceAllString(s, "N")
	s = strings.Join(strings.Fields(s), "_")
	if len(s) > 150 {
		s = s[:150]
	}
	return s
}

// beyondFloat reports whether a neutral value contains an integer whose magnitude exceeds 2^53
// (kin-openapi computes on float64, so its verdict on such values is not exact).
func beyondFloat(v any) bool {
	switch x := v.(type) {
	case int64:
		return x > 1<<53 || x < -(1<<53)
	case uint64:
		return x > 1<<53
	case float64:
		return false
	case spec.Arr:
		for _, e := range x {
			if beyondFloat(e) {
				return true
			}
		}
	case spec.MapV:
		for _, kv := range x {
			if beyondFloat(kv.K) || beyondFloat(kv.V) {
				return true
			}
		}
	case spec.Obj:
		for _, e := range x {
			if beyondFloat(e) {
				return true
			}
		}
	}
	return false
}

var _ = math.MaxInt64

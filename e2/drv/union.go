package drv

import (
	"encoding/json"
	"fmt"
	"reflect"
	"strings"

	"verif/e2/spec"
)

// OneOf unions in generated HTTP code. The service type holds the union in an interface-typed
// field (`Uu interface{ uuVal() }`); the alternatives are generated types: a user type
// alternative is the user type itself (pointer for objects, value for aliases), any other
// alternative is a named type <Union><Alternative> (e.g. `type UuUs string`). The neutral form
// of a union value is an Obj with exactly one key, the chosen alternative.

// typeLookup finds generated types of the service package ("type:<Name>" registrations of the
// glue file) by normalised name.
func typeLookup(syms map[string]any) func(string) reflect.Type {
	idx := map[string]reflect.Type{}
	for k, v := range syms {
		if rt, ok := v.(reflect.Type); ok && strings.HasPrefix(k, "type:") {
			idx[norm(strings.TrimPrefix(k, "type:"))] = rt
		}
	}
	return func(name string) reflect.Type { return idx[norm(name)] }
}

// altType returns the generated Go type of alternative alt of union attribute attr.
func (c V) altType(attr string, alt *spec.Attr) reflect.Type {
	if c.Types == nil {
		return nil
	}
	if alt.T.K == spec.KUser {
		if td := c.S.TypeDefByName(alt.T.Ref); td != nil {
			if st := c.Types(alt.T.Ref); st != nil {
				if td.Kind == "alias" {
					return st
				}
				return reflect.PointerTo(st)
			}
		}
		return nil
	}
	return c.Types(attr + alt.Name)
}

// setUnion stores neutral union value v into the interface-typed field rv of attribute attr.
func (c V) setUnion(rv reflect.Value, attr string, t *spec.Type, v any) error {
	if v == nil {
		return nil
	}
	alt, av, err := unionAlt(t, v)
	if err != nil {
		return fmt.Errorf("union %s: %w", attr, err)
	}
	rt := c.altType(attr, alt)
	if rt == nil {
		return fmt.Errorf("no generated type for alternative %q of union %q", alt.Name, attr)
	}
	x := reflect.New(rt).Elem()
	if err := c.Set(x, alt.T, av); err != nil {
		return fmt.Errorf("union %s.%s: %w", attr, alt.Name, err)
	}
	if rv.Kind() != reflect.Interface || !x.Type().AssignableTo(rv.Type()) {
		return fmt.Errorf("generated type %s of alternative %q is not assignable to the union field %s", x.Type(), alt.Name, rv.Type())
	}
	rv.Set(x)
	return nil
}

// getUnion reads the union held by the interface-typed field rv back into neutral form.
func (c V) getUnion(rv reflect.Value, attr string, t *spec.Type) any {
	if rv.Kind() != reflect.Interface || rv.IsNil() {
		return nil
	}
	x := rv.Elem()
	if x.Kind() == reflect.Ptr && x.IsNil() {
		return nil
	}
	for _, alt := range t.Attrs {
		if rt := c.altType(attr, alt); rt != nil && rt == x.Type() {
			return spec.Obj{alt.Name: c.Get(x, alt.T)}
		}
	}
	return spec.Obj{"?" + x.Type().String(): fmt.Sprint(x.Interface())}
}

// unionJSONCarries reports whether decoded JSON value j is the designed wire form of union value
// v: an object {"Type": <alternative name>, "Value": <JSON text of the alternative's value>}.
// Inside Value, object keys are matched by normalised name: the wire names of a user-type
// alternative's attributes inside the JSON text are not fixed by the design.
func unionJSONCarries(sp *spec.Spec, t *spec.Type, v any, j any) bool {
	alt, av, err := unionAlt(t, v)
	if err != nil {
		return false
	}
	mm, ok := j.(map[string]any)
	if !ok {
		return false
	}
	tn, _ := mm["Type"].(string)
	val, ok := mm["Value"].(string)
	if tn != alt.Name || !ok {
		return false
	}
	var inner any
	dec := json.NewDecoder(strings.NewReader(val))
	dec.UseNumber()
	if err := dec.Decode(&inner); err != nil {
		return false
	}
	return jsonCarriesLoose(sp, alt.T, av, normKeys(inner))
}

// normKeys rewrites object keys of a decoded JSON value to their normalised form.
func normKeys(j any) any {
	switch x := j.(type) {
	case map[string]any:
		out := map[string]any{}
		for k, v := range x {
			out["\x00"+norm(k)] = normKeys(v)
		}
		return out
	case []any:
		out := make([]any, len(x))
		for i, v := range x {
			out[i] = normKeys(v)
		}
		return out
	}
	return j
}

// jsonCarriesLoose is jsonCarries over a value whose object keys went through normKeys. Map keys
// (data, not attribute names) are normalised as well, so map-typed alternatives compare their
// keys case-insensitively; the value equality oracle is the strict one.
func jsonCarriesLoose(sp *spec.Spec, t *spec.Type, v any, j any) bool {
	e := sp.Eff(t)
	switch x := v.(type) {
	case spec.Arr:
		l, ok := j.([]any)
		if !ok || len(l) != len(x) {
			return len(x) == 0 && j == nil
		}
		for i := range x {
			if !jsonCarriesLoose(sp, e.Elem, x[i], l[i]) {
				return false
			}
		}
		return true
	case spec.MapV:
		mm, ok := j.(map[string]any)
		if !ok || len(mm) != len(x) {
			return len(x) == 0 && j == nil
		}
		for _, kv := range x {
			jv, ok := mm["\x00"+norm(fmt.Sprint(native2(kv.K)))]
			if !ok || !jsonCarriesLoose(sp, e.Elem, kv.V, jv) {
				return false
			}
		}
		return true
	case spec.Obj:
		mm, ok := j.(map[string]any)
		if !ok {
			return false
		}
		for _, a := range e.Attrs {
			av := x[a.Name]
			if unsetLike(av) {
				continue
			}
			jv, present := mm["\x00"+norm(a.Name)]
			if !present {
				return false
			}
			if a.T.K == spec.KUnion {
				// a union nested inside a union alternative is the in-memory form of the service
				// type (an interface value): only its presence is checked here
				continue
			}
			if a.HasDefault && isZeroPrim(av) && jsonCarriesLoose(sp, a.T, DefaultNeutral(sp, a.T, a.Default), jv) {
				continue
			}
			if !jsonCarriesLoose(sp, a.T, av, jv) {
				return false
			}
		}
		return true
	}
	return jsonCarries(sp, t, v, j)
}

package drv

import (
	"encoding/json"
	"fmt"
	"net/http"
	"reflect"
	"sort"
	"strings"

	"verif/e2/spec"
)

func init() { RegisterMode("C08", runC08) }

// project is the reference projection of a result value under a view.
func project(sp *spec.Spec, t *spec.Type, v any, view string) (any, bool) {
	if v == nil {
		return nil, true
	}
	e := sp.Eff(t)
	if e.K == spec.KArray {
		arr, _ := v.(spec.Arr)
		out := spec.Arr{}
		for _, el := range arr {
			pv, ok := project(sp, e.Elem, el, view)
			if !ok {
				return nil, false
			}
			out = append(out, pv)
		}
		return out, true
	}
	if t.K != spec.KUser || e.Def == nil || (e.Def.Kind != "result" && e.Def.Kind != "collection") {
		return v, true
	}
	attrs, sub, ok := sp.ViewAttrs(t.Ref, view)
	if !ok {
		return nil, false
	}
	o, _ := v.(spec.Obj)
	out := spec.Obj{}
	for _, a := range e.Attrs {
		in := false
		for _, n := range attrs {
			if n == a.Name {
				in = true
			}
		}
		if !in || o[a.Name] == nil {
			continue
		}
		sv, overridden := sub[a.Name]
		if !overridden && a.T != nil && a.T.K == spec.KUser {
			sv = a.T.View // view given where the attribute is declared in the type
		}
		pv, ok := project(sp, a.T, o[a.Name], sv)
		if !ok {
			return nil, false
		}
		out[a.Name] = pv
	}
	return out, true
}

func viewNames(sp *spec.Spec, t *spec.Type) []string {
	e := sp.Eff(t)
	def := e.Def
	if def != nil && def.Kind == "collection" {
		def = sp.TypeDefByName(def.Collection)
	}
	var out []string
	if def != nil {
		for _, v := range def.Views {
			out = append(out, v.Name)
		}
	}
	return out
}

// viewValues: a few result values with every attribute set, only required ones, and zeros.
func viewValues(sp *spec.Spec, t *spec.Type, depth int) []any {
	e := sp.Eff(t)
	if e.K == spec.KArray {
		els := viewValues(sp, e.Elem, depth)
		return []any{spec.Arr{els[0]}, spec.Arr{els[0], els[len(els)-1]}, spec.Arr{}}
	}
	full, req, zero := spec.Obj{}, spec.Obj{}, spec.Obj{}
	for _, a := range e.Attrs {
		ae := sp.Eff(a.T)
		var fv, zv any
		switch {
		case ae.K == spec.KString:
			fv, zv = "v-"+a.Name, ""
		case ae.K == spec.KInt:
			fv, zv = int64(7), int64(0)
		case ae.K == spec.KArray && sp.Eff(ae.Elem).K == spec.KString:
			fv, zv = spec.Arr{"x", "y"}, spec.Arr{}
		case ae.K == spec.KObject || ae.K == spec.KArray:
			if depth < 2 {
				sub := viewValues(sp, a.T, depth+1)
				fv, zv = sub[0], sub[len(sub)-1]
			}
		}
		if fv != nil {
			full[a.Name] = fv
		}
		if spec.IsRequired(e.Required, a.Name) {
			req[a.Name] = fv
			zero[a.Name] = fv
		} else if zv != nil {
			zero[a.Name] = zv
		}
	}
	return []any{full, req, zero}
}

func runC08(s *Svc, m *spec.Method, tier string) *MethodResult {
	r := &MethodResult{}
	if m.HTTP == nil || m.Feat["family"] != "L2-views" {
		r.Skipped = "not a view-family method"
		return r
	}
	sp := s.Spec
	chosenByService := s.NumResults(m.Name) == 3
	views := viewNames(sp, m.Result)
	var labels []string
	if chosenByService {
		labels = append(append([]string{}, views...), "", "undefined-view")
	} else {
		labels = []string{m.Result.View}
	}
	for _, v := range viewValues(sp, m.Result, 0) {
		for _, lb := range labels {
			r.Cases++
			r.Nontrivial++
			c08One(s, m, v, lb, "", false, r, true)
		}
		if chosenByService {
			// response tampering: the label on the wire is rewritten
			for _, tl := range append(append([]string{}, views...), "undefined-view", "(removed)") {
				r.Cases++
				r.Nontrivial++
				c08One(s, m, v, "default", tl, true, r, true)
			}
		}
	}
	return r
}

func c08One(s *Svc, m *spec.Method, v any, view string, tamper string, doTamper bool, r *MethodResult, report bool) []string {
	sp := s.Spec
	var herr error
	call := &Call{Reply: replyWith(s, m, v, view, nil, &herr)}
	if doTamper {
		call.Tamper = func(resp *http.Response) {
			if tamper == "(removed)" {
				resp.Header.Del("goa-view")
			} else {
				resp.Header.Set("goa-view", tamper)
			}
		}
	}
	res, cerr := s.Invoke(call, m.Name, nil)
	if report {
		r.Execs++
	}
	if herr != nil {
		if report {
			r.HarnessErr = append(r.HarnessErr, "c08: "+herr.Error())
		}
		return nil
	}
	var sigs []string
	chosen := s.NumResults(m.Name) == 3
	feat := fmt.Sprintf("shape=%s view=%s", m.Feat["shape"], viewClass(sp, m, view))
	fail := func(sig, what string) {
		sigs = append(sigs, sig)
		if report {
			cs := map[string]any{"design": s.Design, "method": m.Name, "feat": m.Feat, "value": spec.JSONable(v), "view": view, "tamper": tamper, "client_error": fmt.Sprint(cerr)}
			if call.Rec != nil {
				cs["status"] = call.Rec.Code
				cs["goa-view"] = call.Rec.Header().Get("goa-view")
				cs["body"] = truncate(call.Rec.Body.String(), 400)
			}
			r.violation(sig, what, cs, func() []string { return c08One(s, m, v, view, tamper, doTamper, r, false) })
		}
	}
	eff := view
	if eff == "" {
		eff = "default"
	}
	want, defined := project(sp, m.Result, v, eff)
	if _, _, ok := sp.ViewAttrs(m.Result.Ref, eff); !ok {
		defined = false
	}
	if doTamper {
		if call.ServerPanic != "" {
			fail("C08 server-panic "+feat, call.ServerPanic)
			return sigs
		}
		_, _, labelDefined := sp.ViewAttrs(m.Result.Ref, tamper)
		switch {
		case tamper == "(removed)":
			if report {
				r.outcome(fmt.Sprintf("label-removed client-error=%v", cerr != nil))
			}
		case !labelDefined:
			if cerr == nil {
				fail("C08 client-accepts-undefined-view-label shape="+m.Feat["shape"], fmt.Sprintf("response labelled with undefined view %q was accepted by the client: %+v", tamper, res))
			} else if report {
				r.outcome("undefined-label-refused")
			}
		default:
			if report {
				r.outcome(fmt.Sprintf("relabelled client-error=%v", cerr != nil))
			}
		}
		return sigs
	}
	if !defined {
		// the service itself chose a view the type does not define: the statement promises
		// nothing about the response; only fail-safe behaviour is required
		if cerr == nil && !unsetLike(s.V.Get(reflect.ValueOf(res), m.Result)) {
			fail("C08 undefined-service-view-yields-result shape="+m.Feat["shape"], fmt.Sprintf("service returned undefined view %q and the client got a result %+v", view, res))
		} else if cerr == nil {
			if report {
				r.outcome("undefined-service-view empty-result")
			}
		} else if report {
			if call.ServerPanic != "" {
				r.outcome("undefined-service-view server-panic (fail-safe: no result)")
			} else {
				r.outcome("undefined-service-view refused")
			}
		}
		return sigs
	}
	if call.ServerPanic != "" {
		fail("C08 server-panic "+feat+" "+panicSite(call.ServerPanic), call.ServerPanic)
		return sigs
	}
	if cerr != nil {
		fail("C08 client-error "+feat+" error="+errClass(cerr), fmt.Sprintf("client returned %v for value %s rendered with view %q (body %s)", cerr, spec.Canon(v), view, truncate(call.Rec.Body.String(), 200)))
		return sigs
	}
	// wire: keys of the body = attributes of the view, recursively
	var body any
	dec := json.NewDecoder(strings.NewReader(call.Rec.Body.String()))
	dec.UseNumber()
	if err := dec.Decode(&body); err != nil {
		fail("C08 body-not-json "+feat, "response body is not JSON: "+truncate(call.Rec.Body.String(), 200))
		return sigs
	}
	if d := keyDiff(want, body, "body"); d != "" {
		kind := "missing"
		if strings.Contains(d, ": extra key ") {
			kind = "leak"
		}
		fail(fmt.Sprintf("C08 wire-keys %s kind=%s", feat, kind), fmt.Sprintf("view %q of %s: %s (body %s)", view, spec.Canon(v), d, truncate(call.Rec.Body.String(), 300)))
	}
	if chosen {
		if got := call.Rec.Header().Get("goa-view"); got != eff {
			fail(fmt.Sprintf("C08 view-header %s observed=%s", feat, headerClass(got)), fmt.Sprintf("goa-view header is %q, rendered view is %q", got, eff))
		}
	}
	gotN := dropZeroOutside(want, s.V.Get(reflect.ValueOf(res), m.Result))
	if d := Equal(sp, m.Result, nil, want, gotN, "result"); d != nil {
		fail(fmt.Sprintf("C08 client-value %s at=%s", feat, lastSeg(d.Path)), fmt.Sprintf("%s: %s (expected projection %s, client got %s)", d.Path, d.Why, spec.Canon(want), spec.Canon(gotN)))
	} else if extra := extraSet(want, gotN, "result"); extra != "" {
		fail(fmt.Sprintf("C08 client-value-outside-view %s", feat), fmt.Sprintf("client value has attributes outside view %q set: %s", view, extra))
	}
	if report && len(sigs) == 0 {
		r.outcome("view-ok " + viewClass(sp, m, view))
		if r.Cases%5 == 1 {
			r.sample(map[string]any{"type": m.Result.Ref, "view": view, "goa-view": call.Rec.Header().Get("goa-view"), "body": truncate(call.Rec.Body.String(), 160)})
		}
	}
	return sigs
}

func lastSeg(p string) string {
	if i := strings.LastIndex(p, "."); i >= 0 {
		return p[i+1:]
	}
	return p
}

func headerClass(h string) string {
	if h == "" {
		return "absent"
	}
	return "other"
}

func viewClass(sp *spec.Spec, m *spec.Method, view string) string {
	switch view {
	case "":
		return "empty"
	case "undefined-view":
		return "undefined"
	}
	return view
}

// dropZeroOutside removes from got the attributes that the projection does not contain and
// that hold the zero value of a primitive: a required primitive is a non-pointer field in the
// generated type, so "unset" cannot be represented otherwise.
func dropZeroOutside(want, got any) any {
	switch g := got.(type) {
	case spec.Obj:
		w, _ := want.(spec.Obj)
		out := spec.Obj{}
		for k, gv := range g {
			if w[k] == nil && isZeroPrim(gv) {
				continue
			}
			out[k] = dropZeroOutside(w[k], gv)
		}
		return out
	case spec.Arr:
		w, _ := want.(spec.Arr)
		out := spec.Arr{}
		for i, gv := range g {
			var wv any
			if i < len(w) {
				wv = w[i]
			}
			out = append(out, dropZeroOutside(wv, gv))
		}
		return out
	}
	return got
}

// keyDiff compares the key structure of a JSON value with the expected projection.
func keyDiff(want any, got any, path string) string {
	switch w := want.(type) {
	case spec.Obj:
		g, ok := got.(map[string]any)
		if !ok {
			return path + ": object expected"
		}
		var wk, gk []string
		for k, v := range w {
			if v != nil {
				wk = append(wk, k)
			}
		}
		for k, v := range g {
			if v != nil {
				gk = append(gk, k)
			}
		}
		sort.Strings(wk)
		sort.Strings(gk)
		for _, k := range gk {
			if _, ok := w[k]; !ok || w[k] == nil {
				return fmt.Sprintf("%s: extra key %q outside the view (keys %v, view attributes set %v)", path, k, gk, wk)
			}
		}
		for _, k := range wk {
			if gv, ok := g[k]; !ok || gv == nil {
				if unsetLike(w[k]) {
					continue
				}
				return fmt.Sprintf("%s: key %q of the view is missing (keys %v)", path, k, gk)
			}
			if d := keyDiff(w[k], g[k], path+"."+k); d != "" {
				return d
			}
		}
	case spec.Arr:
		g, ok := got.([]any)
		if !ok {
			if len(w) == 0 && got == nil {
				return ""
			}
			return path + ": array expected"
		}
		if len(g) != len(w) {
			return fmt.Sprintf("%s: %d elements, expected %d", path, len(g), len(w))
		}
		for i := range w {
			if d := keyDiff(w[i], g[i], fmt.Sprintf("%s[%d]", path, i)); d != "" {
				return d
			}
		}
	}
	return ""
}

// extraSet reports attributes set in got that are unset in want (Equal ignores them only when
// they are absent from want, which must not happen for a projection).
func extraSet(want, got any, path string) string {
	switch w := want.(type) {
	case spec.Obj:
		g, ok := got.(spec.Obj)
		if !ok {
			return ""
		}
		for k, gv := range g {
			if gv == nil || unsetLike(gv) {
				continue
			}
			if w[k] == nil {
				return path + "." + k
			}
			if d := extraSet(w[k], gv, path+"."+k); d != "" {
				return d
			}
		}
	case spec.Arr:
		g, ok := got.(spec.Arr)
		if !ok {
			return ""
		}
		for i := range w {
			if i < len(g) {
				if d := extraSet(w[i], g[i], fmt.Sprintf("%s[%d]", path, i)); d != "" {
					return d
				}
			}
		}
	}
	return ""
}

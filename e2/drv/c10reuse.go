package drv

import (
	"fmt"
	"reflect"
	"sort"
	"strings"
	"sync"
	"time"

	"google.golang.org/grpc"

	"verif/e2/spec"
)

// C10, client reuse (family G-reuse, spec.GRPCReuse): one generated gRPC client serves many calls.
//
//	client     ONE client per (service, client configuration), built once with the generated
//	           NewClient(conn, opts...) from a call-option slice of the configuration's length and
//	           capacity (harmless options: grpc.MaxCallRecvMsgSize; the slice is handed to the
//	           variadic parameter as it is, like a program writing NewClient(conn, opts...)), and used
//	           for every case of every method of the service — it is never rebuilt.
//	alphabet   letters (method, variant): two value variants per method (distinct payload / result /
//	           streamed values; a multi-view result is rendered with "default" in variant 0 and with
//	           the last view in variant 1).
//	bound      sequences: every sequence of 1..3 letters, calls made one after the other;
//	           overlaps: every ordered pair (A, B) of letters under three schedules — A is held inside
//	           the service method while B runs to completion ("nested"), A and B are both held and
//	           released A first ("a-first") or B first ("b-first"). Holding a call is done by the
//	           service method itself (it waits on a channel), so every schedule is deterministic.
//	           The cases are partitioned by their first letter's method (the driver runs per method).
//	oracle     differential: every call of a case observes the same thing — payload and streamed
//	           requests at the service, result / streamed results / error at the caller — as the same
//	           letter run alone on a FRESH client of the same configuration.
//	not asserted: that what a call observes alone is right (that is the business of the other
//	           families), timing.

type reuseLetter struct {
	m *spec.Method
	k int // variant
}

func (l reuseLetter) String() string { return fmt.Sprintf("%s#%d", l.m.Name, l.k) }

// reuseCfg is a client configuration: the call-option slice NewClient receives.
type reuseCfg struct {
	name     string
	len, cap int
	stub     string // protocol buffer client stub style: "v1.5" (copies its call options), "v1.3" (hands them on)
}

func reuseCfgs(tier string) []reuseCfg {
	shapes := []reuseCfg{{name: "1-of-8", len: 1, cap: 8}}
	if tier == "thorough" {
		shapes = []reuseCfg{{name: "no-options"}, {name: "1-of-1", len: 1, cap: 1}, {name: "1-of-3", len: 1, cap: 3}, {name: "1-of-8", len: 1, cap: 8}, {name: "2-of-8", len: 2, cap: 8}}
	}
	var out []reuseCfg
	for _, stub := range []string{"v1.5", "v1.3"} {
		for _, c := range shapes {
			c.stub = stub
			c.name += " pb-stub=" + stub
			out = append(out, c)
		}
	}
	return out
}

func (c reuseCfg) opts() []grpc.CallOption {
	if c.cap == 0 {
		return nil
	}
	o := make([]grpc.CallOption, c.len, c.cap)
	for i := range o {
		o[i] = grpc.MaxCallRecvMsgSize(4<<20 + i)
	}
	return o
}

// spareClass abstracts a configuration for signatures.
func (c reuseCfg) spareClass() string {
	s := "spare-capacity"
	switch {
	case c.cap == 0:
		s = "no-options"
	case c.cap == c.len:
		s = "exact-capacity"
	}
	return s + " pb-stub=" + c.stub
}

type reuseState struct {
	mu      sync.Mutex
	clients map[string]reflect.Value // cfg name -> the reused client
	solo    map[string]string        // cfg name + letter -> observation of the letter alone
}

var (
	reuseMu     sync.Mutex
	reuseStates = map[*GRPCSvc]*reuseState{}
)

func reuseStateOf(g *GRPCSvc) *reuseState {
	reuseMu.Lock()
	defer reuseMu.Unlock()
	st, ok := reuseStates[g]
	if !ok {
		st = &reuseState{clients: map[string]reflect.Value{}, solo: map[string]string{}}
		reuseStates[g] = st
	}
	return st
}

// synth builds the value of variant k of type t: every leaf carries the attribute name and k.
func synth(sp *spec.Spec, t *spec.Type, name string, k, i int) any {
	e := sp.Eff(t)
	switch e.K {
	case spec.KString:
		return fmt.Sprintf("%s-v%d-%d", name, k, i)
	case spec.KInt, spec.KInt32, spec.KInt64:
		return int64(100*(k+1) + i)
	case spec.KUInt, spec.KUInt32, spec.KUInt64:
		return uint64(100*(k+1) + i)
	case spec.KBool:
		return k%2 == 0
	case spec.KFloat32, spec.KFloat64:
		return float64(k) + 0.5
	case spec.KObject:
		o := spec.Obj{}
		for _, a := range e.Attrs {
			o[a.Name] = synth(sp, a.T, a.Name, k, i)
		}
		return o
	case spec.KArray:
		return spec.Arr{synth(sp, e.Elem, name, k, i)}
	}
	return nil
}

// gate holds a call inside the service method.
type gate struct {
	where   string // "service": inside the service method; "interceptor": in the client interceptor, before the RPC starts
	entered chan struct{}
	release chan struct{}
}

func newGate(where string) *gate {
	return &gate{where: where, entered: make(chan struct{}), release: make(chan struct{})}
}

// at returns the wait function when the gate stands at the given place.
func (gt *gate) at(where string) func() {
	if gt == nil || gt.where != where {
		return nil
	}
	return gt.wait
}

func (gt *gate) wait() {
	close(gt.entered)
	select {
	case <-gt.release:
	case <-time.After(GRPCCallTimeout):
	}
}

// reuseCall makes the call of one letter on client and returns what it observed as one string.
func reuseCall(g *GRPCSvc, client reflect.Value, l reuseLetter, gt *gate) (string, error) {
	sp, s, m := g.S.Spec, g.S, l.m
	view := ""
	for _, t := range []*spec.Type{m.Result, m.StreamResult} {
		if vs := viewsOf(sp, t); len(vs) > 0 {
			view = vs[0]
			if l.k%2 == 1 {
				view = vs[len(vs)-1]
			}
		}
	}
	var pv, rv any
	if m.Payload != nil {
		pv = synth(sp, m.Payload, "p", l.k, 0)
	}
	if m.Result != nil {
		rv = synth(sp, m.Result, "r", l.k, 0)
	}
	var obs []string
	add := func(k string, v any) { obs = append(obs, k+"="+fmt.Sprint(v)) }
	if m.StreamPayload != nil || m.StreamResult != nil {
		run := streamRun{payload: pv, result: rv, view: view, on: client, gate: gt.at("service"), hold: gt.at("interceptor")}
		if m.StreamPayload != nil {
			run.requests = []any{synth(sp, m.StreamPayload, "q", l.k, 0), synth(sp, m.StreamPayload, "q", l.k, 1)}
		}
		if m.StreamResult != nil {
			run.replies = []any{synth(sp, m.StreamResult, "s", l.k, 0), synth(sp, m.StreamResult, "s", l.k, 1)}
		}
		so := streamExchange(g, m, run)
		if so.herr != nil {
			return "", so.herr
		}
		if so.call.ServerPanic != "" {
			add("panic", panicSite(so.call.ServerPanic))
		}
		add("invoked", so.invoked)
		add("payload", spec.Canon(so.gotPayload))
		add("server-received", spec.Canon(spec.Arr(so.srvRecv)))
		add("client-received", spec.Canon(spec.Arr(so.cliRecv)))
		add("result", spec.Canon(so.cliResult))
		add("error", reuseErr(so.cliErr))
		return strings.Join(obs, " | "), nil
	}
	var herr error
	call := &Call{Reply: func(method string, args []any) []any {
		if w := gt.at("service"); w != nil {
			w()
		}
		n := s.NumResults(m.Name)
		out := make([]any, n)
		if rt := s.ResultType(m.Name); rt != nil && m.Result != nil && n >= 2 {
			x, e := g.NewValue(rt, m.Result, rv)
			if e != nil {
				herr = e
				return out
			}
			out[0] = x.Interface()
			if n == 3 {
				out[1] = view
			}
		}
		return out
	}}
	var payload any
	if pt := s.PayloadType(m.Name); pt != nil && m.Payload != nil {
		x, e := g.NewValue(pt, m.Payload, pv)
		if e != nil {
			return "", fmt.Errorf("cannot build payload: %w", e)
		}
		payload = x.Interface()
	}
	o := &GRPCObs{}
	res, err := g.InvokeOn(client, call, o, m.Name, payload, nil, gt.at("interceptor"))
	o.waitHandlers(5 * time.Second)
	if herr != nil {
		return "", herr
	}
	if call.ServerPanic != "" {
		add("panic", panicSite(call.ServerPanic))
	}
	add("invoked", call.Invoked)
	if m.Payload != nil && len(call.Args) >= 2 {
		add("payload", spec.Canon(g.GetValue(reflect.ValueOf(call.Args[1]), m.Payload)))
	}
	if err == nil && m.Result != nil && res != nil {
		add("result", spec.Canon(g.GetValue(reflect.ValueOf(res), m.Result)))
	}
	add("error", reuseErr(err))
	return strings.Join(obs, " | "), nil
}

func reuseErr(err error) string {
	if err == nil {
		return "none"
	}
	if n := goaErrorName(err); n != "" {
		return "goa-" + n + ": " + truncate(err.Error(), 160)
	}
	return "code-" + grpcCode(err) + ": " + truncate(err.Error(), 160)
}

// reuseDiffClass names the first component in which two observations differ.
func reuseDiffClass(want, got string) string {
	w, g := strings.Split(want, " | "), strings.Split(got, " | ")
	for i := range w {
		if i >= len(g) {
			return "shape"
		}
		if w[i] != g[i] {
			key := strings.SplitN(w[i], "=", 2)[0]
			if key == "error" {
				gv := strings.SplitN(g[i], "=", 2)[1]
				return "error:" + strings.SplitN(gv, ":", 2)[0]
			}
			return key
		}
	}
	if len(g) != len(w) {
		return "shape"
	}
	return ""
}

func runC10Reuse(g *GRPCSvc, m *spec.Method, tier string, r *MethodResult) {
	st := reuseStateOf(g)
	st.mu.Lock()
	defer st.mu.Unlock()
	var letters []reuseLetter
	for _, mm := range g.S.Service.Methods {
		if mm.GRPC == nil {
			continue
		}
		for k := 0; k < 2; k++ {
			letters = append(letters, reuseLetter{mm, k})
		}
	}
	r.note("reuse_letters", int64(len(letters)))
	for _, cfg := range reuseCfgs(tier) {
		client, ok := st.clients[cfg.name]
		if !ok {
			c, err := g.NewClientWith(cfg.opts(), cfg.stub)
			if err != nil {
				r.HarnessErr = append(r.HarnessErr, "c10 reuse: "+err.Error())
				return
			}
			client = c
			st.clients[cfg.name] = c
		}
		solo := func(l reuseLetter) (string, bool) {
			key := cfg.name + " " + l.String()
			if o, ok := st.solo[key]; ok {
				return o, true
			}
			fresh, err := g.NewClientWith(cfg.opts(), cfg.stub)
			if err != nil {
				r.HarnessErr = append(r.HarnessErr, "c10 reuse: "+err.Error())
				return "", false
			}
			o, err := reuseCall(g, fresh, l, nil)
			if err != nil {
				r.HarnessErr = append(r.HarnessErr, "c10 reuse (alone): "+err.Error())
				return "", false
			}
			// the reference itself must be reproducible
			fresh2, _ := g.NewClientWith(cfg.opts(), cfg.stub)
			if o2, _ := reuseCall(g, fresh2, l, nil); o2 != o {
				r.HarnessErr = append(r.HarnessErr, fmt.Sprintf("c10 reuse: letter %s alone on a fresh client observes %q, then %q", l, o, o2))
				return "", false
			}
			r.Execs += 2
			r.outcome("reuse alone: " + soloClass(o))
			st.solo[key] = o
			return o, true
		}
		// sequences starting with a letter of this method
		var seqs [][]reuseLetter
		var grow func(prefix []reuseLetter)
		grow = func(prefix []reuseLetter) {
			if len(prefix) > 0 {
				seqs = append(seqs, append([]reuseLetter{}, prefix...))
			}
			if len(prefix) == 3 {
				return
			}
			for _, l := range letters {
				if len(prefix) == 0 && l.m != m {
					continue
				}
				grow(append(prefix, l))
			}
		}
		grow(nil)
		for _, seq := range seqs {
			r.Cases++
			if len(seq) > 1 {
				r.Nontrivial++
			}
			c10ReuseSeq(g, client, cfg, seq, solo, r, true)
		}
		// overlaps (A, B) with A a letter of this method
		for _, a := range letters {
			if a.m != m {
				continue
			}
			for _, b := range letters {
				for _, hold := range []string{"service", "interceptor"} {
					for _, sched := range []string{"nested", "a-first", "b-first"} {
						r.Cases++
						r.Nontrivial++
						c10ReuseOverlap(g, client, cfg, a, b, hold, sched, solo, r, true)
					}
				}
			}
		}
	}
}

func soloClass(o string) string {
	for _, part := range strings.Split(o, " | ") {
		if strings.HasPrefix(part, "error=") {
			return strings.SplitN(strings.TrimPrefix(part, "error="), ":", 2)[0]
		}
	}
	return "?"
}

func letterFeat(l reuseLetter) string {
	return fmt.Sprintf("%s/%s", l.m.Feat["stream"], l.m.Feat["shape"])
}

// otherClass abstracts the other call of an overlap for signatures: unary or streaming.
func otherClass(l reuseLetter) string {
	if l.m.Feat["stream"] == "unary" {
		return "unary"
	}
	return "streaming"
}

func lettersJSON(ls []reuseLetter) []string {
	var out []string
	for _, l := range ls {
		out = append(out, fmt.Sprintf("%s(%s) variant %d", l.m.Name, letterFeat(l), l.k))
	}
	return out
}

func c10ReuseSeq(g *GRPCSvc, client reflect.Value, cfg reuseCfg, seq []reuseLetter, solo func(reuseLetter) (string, bool), r *MethodResult, report bool) []string {
	var sigs []string
	for i, l := range seq {
		want, ok := solo(l)
		if !ok {
			return nil
		}
		got, err := reuseCall(g, client, l, nil)
		if report {
			r.Execs++
		}
		if err != nil {
			if report {
				r.HarnessErr = append(r.HarnessErr, "c10 reuse: "+err.Error())
			}
			return nil
		}
		if got == want {
			continue
		}
		prev := "first-call"
		if i > 0 {
			prev = "after=" + otherClass(seq[i-1])
		}
		sig := fmt.Sprintf("C10 client-reuse sequential client-options=%s call=%s %s differs=%s", cfg.spareClass(), letterFeat(l), prev, reuseDiffClass(want, got))
		sigs = append(sigs, sig)
		if report {
			r.outcome("reuse sequential-differs")
			cs := map[string]any{"design": g.S.Design, "service": g.S.Service.Name, "client_options": cfg.name, "sequence": lettersJSON(seq), "call": i, "alone_on_a_fresh_client": want, "on_the_reused_client": got}
			r.violation(sig, fmt.Sprintf("call %d of the sequence %v on the reused client (options %s) observes\n  %s\nthe same call alone on a fresh client observes\n  %s", i+1, lettersJSON(seq), cfg.name, got, want),
				cs, func() []string { return c10ReuseSeq(g, client, cfg, seq, solo, r, false) })
		}
		return sigs
	}
	if report {
		r.outcome(fmt.Sprintf("reuse sequential-same len=%d", len(seq)))
	}
	return sigs
}

// c10ReuseOverlap runs two calls that are in flight together on the reused client.
func c10ReuseOverlap(g *GRPCSvc, client reflect.Value, cfg reuseCfg, a, b reuseLetter, hold, sched string, solo func(reuseLetter) (string, bool), r *MethodResult, report bool) []string {
	wantA, ok := solo(a)
	if !ok {
		return nil
	}
	wantB, ok := solo(b)
	if !ok {
		return nil
	}
	type res struct {
		o   string
		err error
	}
	start := func(l reuseLetter, gt *gate) chan res {
		ch := make(chan res, 1)
		go func() {
			o, err := reuseCall(g, client, l, gt)
			ch <- res{o, err}
		}()
		return ch
	}
	entered := func(gt *gate, ch chan res) (res, bool) {
		select {
		case <-gt.entered:
			return res{}, true
		case x := <-ch:
			return x, false // the call ended without reaching the service method
		case <-time.After(GRPCCallTimeout):
			return res{err: fmt.Errorf("call neither reached the service method nor ended")}, false
		}
	}
	ga := newGate(hold)
	cha := start(a, ga)
	var ra, rb res
	doneA := false
	if x, ok := entered(ga, cha); !ok {
		ra, doneA = x, true
	}
	switch sched {
	case "nested":
		o, err := reuseCall(g, client, b, nil)
		rb = res{o, err}
		close(ga.release)
		if !doneA {
			ra = <-cha
		}
	default:
		gb := newGate(hold)
		chb := start(b, gb)
		doneB := false
		if x, ok := entered(gb, chb); !ok {
			rb, doneB = x, true
		}
		if sched == "a-first" {
			close(ga.release)
			if !doneA {
				ra = <-cha
			}
			close(gb.release)
			if !doneB {
				rb = <-chb
			}
		} else {
			close(gb.release)
			if !doneB {
				rb = <-chb
			}
			close(ga.release)
			if !doneA {
				ra = <-cha
			}
		}
	}
	if report {
		r.Execs += 2
	}
	for _, x := range []res{ra, rb} {
		if x.err != nil {
			if report {
				r.HarnessErr = append(r.HarnessErr, "c10 reuse overlap: "+x.err.Error())
			}
			return nil
		}
	}
	var sigs []string
	var whats []string
	if ra.o != wantA {
		sigs = append(sigs, fmt.Sprintf("C10 client-reuse overlap=%s held-in=%s client-options=%s call=%s role=held-first other=%s differs=%s", sched, hold, cfg.spareClass(), letterFeat(a), otherClass(b), reuseDiffClass(wantA, ra.o)))
		whats = append(whats, fmt.Sprintf("call A %s observes\n  %s\nalone on a fresh client it observes\n  %s", lettersJSON([]reuseLetter{a})[0], ra.o, wantA))
	}
	if rb.o != wantB {
		sigs = append(sigs, fmt.Sprintf("C10 client-reuse overlap=%s held-in=%s client-options=%s call=%s role=started-second other=%s differs=%s", sched, hold, cfg.spareClass(), letterFeat(b), otherClass(a), reuseDiffClass(wantB, rb.o)))
		whats = append(whats, fmt.Sprintf("call B %s observes\n  %s\nalone on a fresh client it observes\n  %s", lettersJSON([]reuseLetter{b})[0], rb.o, wantB))
	}
	sort.Strings(sigs)
	if len(sigs) == 0 {
		if report {
			r.outcome("reuse overlap-same held-in=" + hold + " sched=" + sched)
		}
		return nil
	}
	if report {
		r.outcome("reuse overlap-differs")
		cs := map[string]any{"design": g.S.Design, "service": g.S.Service.Name, "client_options": cfg.name, "schedule": sched, "held_in": hold, "A": lettersJSON([]reuseLetter{a})[0], "B": lettersJSON([]reuseLetter{b})[0],
			"A_alone": wantA, "A_overlapped": ra.o, "B_alone": wantB, "B_overlapped": rb.o}
		for _, sig := range sigs {
			sig := sig
			r.violation(sig, fmt.Sprintf("two calls in flight on one generated client (options %s, calls held in the %s, schedule %s): %s", cfg.name, hold, sched, strings.Join(whats, "; ")), cs,
				func() []string { return c10ReuseOverlap(g, client, cfg, a, b, hold, sched, solo, r, false) })
		}
	}
	return sigs
}

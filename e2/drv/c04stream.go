package drv

import (
	"errors"
	"fmt"
	"io"
	"reflect"
	"sort"
	"strings"

	"verif/e2/spec"
)

// C04S — the streaming part of C04: every message of an HTTP (WebSocket) stream is validated by
// the side that receives it before user code sees it.
//
//	directions  requests: the StreamingPayload of a client-streaming or bidirectional method;
//	            the receiver is the generated SERVER stream (its Recv is what user code, the stub
//	            service, calls). replies: the StreamingResult of a server-streaming or
//	            bidirectional method; the receiver is the generated CLIENT stream.
//	            A direction is driven when the reference finds at least one candidate message of
//	            its type that violates the design.
//	alphabet    V = a message that satisfies every constraint of the streamed type, I = one that
//	            violates at least one (reference validator over spec.Candidates at the body
//	            location, as the generated Go type expresses them). V is instantiated by the first
//	            three distinct valid candidates in turn (so that loss, duplication and reordering of
//	            the valid prefix are visible), I by one candidate per distinct set of violated
//	            rules (at most three per method).
//	bound       every sequence of length 0..3 over {V, I} (15 patterns), each pattern containing I
//	            once per instance of I; the other direction stays silent; bidirectional methods
//	            use the schedule "sender first, then the receiver's side ends".
//	oracle      the receiver's Recv delivers exactly the messages before the first I, in order and
//	            equal under drv.Equal's normalisations; the Recv that meets the first I returns an
//	            error which is a goa error named after one of the violated rules (invalid_range,
//	            invalid_length, invalid_pattern, invalid_format, invalid_enum_value, missing_field);
//	            user code stops at that error (nothing after it is delivered as a message). A sender
//	            that refuses to send I (Send returns an error, nothing reaches the receiver) is
//	            accepted. Without I every message is delivered.
//	not asserted: what the sending side observes after the receiver has stopped (its Send/Close
//	            errors depend on when the connection closes), timing, frame layout, and what a Recv
//	            issued after a validation error would return.
func init() { RegisterMode("C04S", runC04S) }

type c04sDir struct {
	name    string // "requests" or "replies"
	t       *spec.Type
	rt      reflect.Type
	valid   []any
	invalid []any
}

func runC04S(s *Svc, m *spec.Method, tier string) *MethodResult {
	r := &MethodResult{}
	kind := streamKind(m)
	if m.HTTP == nil || kind == "" {
		r.Skipped = "not an HTTP streaming endpoint"
		return r
	}
	reqT, resT, finT := streamGoTypes(s, m)
	var dirs []*c04sDir
	for _, d := range []*c04sDir{{name: "requests", t: m.StreamPayload, rt: reqT}, {name: "replies", t: m.StreamResult, rt: resT}} {
		if d.t == nil {
			continue
		}
		d.valid, d.invalid = c04sMessages(s, d.rt, d.t)
		if len(d.invalid) > 0 {
			dirs = append(dirs, d)
		}
	}
	if len(dirs) == 0 {
		r.Skipped = "no streamed type of the method has a value that violates the design"
		return r
	}
	ss, err := MountStreaming(s)
	if err != nil {
		r.HarnessErr = append(r.HarnessErr, "mount streaming: "+err.Error())
		return r
	}
	defer ss.Close()
	base := streamPlan{}
	if m.Payload != nil {
		base.Payload = minimalPayload(s, m)
	}
	if m.StreamResult == nil && m.Result != nil {
		base.Result = plainOfValues(messageValues(s, finT, m.Result))
	}
	if m.StreamPayload != nil && m.StreamResult != nil {
		base.Sched = "RS"
	}
	for _, d := range dirs {
		r.note("stream_"+d.name+"_valid_values", int64(len(d.valid)))
		r.note("stream_"+d.name+"_invalid_values", int64(len(d.invalid)))
		for _, pat := range c04sPatterns(len(d.valid) > 0) {
			ivs := d.invalid
			if !strings.Contains(pat, "I") {
				ivs = []any{nil}
			}
			for _, iv := range ivs {
				if ss.timedOut {
					return r
				}
				seq := make([]any, len(pat))
				nv := 0
				for i, c := range pat {
					if c == 'I' {
						seq[i] = iv
					} else {
						seq[i] = d.valid[nv%len(d.valid)]
						nv++
					}
				}
				p := base
				if d.name == "requests" {
					p.Requests = seq
				} else {
					p.Replies = seq
				}
				r.Cases++
				if strings.Contains(pat, "I") {
					r.Nontrivial++
				}
				c04sOne(ss, m, d, pat, p, r, true)
			}
		}
	}
	return r
}

// c04sPatterns lists every sequence of length 0..3 over {V, I} (only over {I} when the type has
// no valid candidate).
func c04sPatterns(haveValid bool) []string {
	out := []string{""}
	prev := []string{""}
	for n := 1; n <= 3; n++ {
		var cur []string
		for _, p := range prev {
			if haveValid {
				cur = append(cur, p+"V")
			}
			cur = append(cur, p+"I")
		}
		out = append(out, cur...)
		prev = cur
	}
	return out
}

// c04sMessages splits the candidate messages of a streamed type into the first three distinct
// valid ones and one invalid one per distinct set of violated rules (at most three). A message the
// generated type expresses as nil or as an empty collection is outside the alphabet (JSON null is
// goa's end-of-stream marker; nil and empty collections are one value by normalisation 1).
func c04sMessages(s *Svc, rt reflect.Type, t *spec.Type) (valid, invalid []any) {
	sp := s.Spec
	seen := map[string]bool{}
	rules := map[string]bool{}
	for _, v := range sp.Candidates(t, spec.LocBody, 0) {
		if v == nil {
			continue
		}
		ev, err := expressed(s, rt, t, v)
		if err != nil || unsetLike(ev) || seen[spec.Canon(ev)] || ambiguousEmpty(sp, t, ev) {
			continue
		}
		seen[spec.Canon(ev)] = true
		issues := sp.Check(t, ev, "message")
		if len(issues) == 0 {
			if len(valid) < 3 {
				valid = append(valid, v)
			}
			continue
		}
		rs := issueRules(issues)
		sort.Strings(rs)
		if k := strings.Join(rs, "+"); !rules[k] && len(invalid) < 3 {
			rules[k] = true
			invalid = append(invalid, v)
		}
	}
	return valid, invalid
}

// goaErrorName returns the name of a goa error ("" when err is not one).
func goaErrorName(err error) string {
	var n interface{ GoaErrorName() string }
	if errors.As(err, &n) {
		return n.GoaErrorName()
	}
	return ""
}

func c04sOne(ss *StreamSvc, m *spec.Method, d *c04sDir, pat string, p streamPlan, r *MethodResult, report bool) []string {
	s, sp := ss.S, ss.S.Spec
	ex := ss.runPlan(m, p)
	if report {
		r.Execs++
	}
	var sigs []string
	if ex.Herr != nil {
		if report {
			r.HarnessErr = append(r.HarnessErr, "c04s: "+ex.Herr.Error())
		}
		return nil
	}
	fail := func(sig, what string) {
		sigs = append(sigs, sig)
		if report {
			cs := ex.caseJSON(s, p)
			cs["pattern"] = pat
			r.violation(sig, what, cs, func() []string { return c04sOne(ss, m, d, pat, p, r, false) })
		}
	}
	outcome := func(o string) {
		if report {
			r.outcome(o)
		}
	}
	side := "payload"
	sender, receiver := &ex.Cli, &ex.Srv
	seq := p.Requests
	if d.name == "replies" {
		side = "result"
		sender, receiver = &ex.Srv, &ex.Cli
		seq = p.Replies
	}
	feat := fmt.Sprintf("side=%s kind=%s elem=%s valid=%s", side, streamKind(m), typeClass(sp, d.t), m.Feat["valid"])
	if pn := ex.streamPanic(); pn != "" {
		fail(fmt.Sprintf("C04 stream-panic %s %s", feat, panicSite(pn)), "generated code panicked: "+pn)
		return sigs
	}
	if len(seq) == 0 && ex.Invoked == 1 && ex.OpenErr != nil {
		// nothing is streamed in the direction under test and the service neither sends nor
		// receives: the generated server stream upgrades lazily in Send/Recv, its Close alone does
		// not (the class C03S reports, stream-open-failed replies=0); there is no message whose
		// validation could be observed
		outcome("empty-sequence stream-not-opened (a C03S matter)")
		return sigs
	}
	if ex.Invoked != 1 || ex.OpenErr != nil {
		fail(fmt.Sprintf("C04 stream-not-opened %s observed=invoked-%d-%s", feat, ex.Invoked, streamErrClass(ex.OpenErr)),
			fmt.Sprintf("the streaming call did not reach the service method or returned no client stream (invoked=%d, %s, client error=%v)", ex.Invoked, ex.responseText(), ex.OpenErr))
		return sigs
	}
	sent := expressedSeq(s, d.rt, d.t, seq)
	k := len(sent) // position of the first invalid message
	var issues []spec.Issue
	for i, v := range sent {
		if is := sp.Check(d.t, v, "message"); len(is) > 0 {
			k, issues = i, is
			break
		}
	}
	got := receiver.recvd()
	// how many messages the sender handed over without error
	nsent := 0
	for _, o := range sender.Obs {
		if o.Op == opSend && o.Err == nil {
			nsent++
		}
	}
	// the valid prefix must arrive, in order
	n := len(got)
	if n > k {
		n = k
	}
	if !seqEqual(sp, d.t, sent[:n], got[:n]) {
		v := compareSeq(sp, d.t, sent[:k], got[:n])
		outcome("valid-prefix-changed")
		fail(fmt.Sprintf("C04 stream-valid-prefix-%s %s pos=%s", v.Class, feat, posClass(v.Pos, k)),
			fmt.Sprintf("the messages before the first invalid one are %v, %s Recv delivered %v: %s", seqJSON(sent[:k]), d.receiverName(), seqJSON(got), v.What))
		return sigs
	}
	if len(got) < k {
		var ferr error
		if o := receiver.failedObs(); o != nil {
			ferr = o.Err
		}
		if nsent < k && len(got) == nsent {
			// the sender itself refused a valid message
			var serr error
			if o := sender.failedObs(); o != nil {
				serr = o.Err
			}
			outcome("valid-refused-by-sender")
			fail(fmt.Sprintf("C04 stream-valid-refused-by-sender %s pos=%s value=%s observed=%s", feat, posClass(nsent, len(sent)), valueClass(sent[nsent]), c04sErrClass(serr)),
				fmt.Sprintf("message %d of %v satisfies the design but the sending side's Send returned %v", nsent+1, seqJSON(sent), serr))
			return sigs
		}
		outcome("valid-rejected")
		fail(fmt.Sprintf("C04 stream-valid-rejected %s pos=%s value=%s observed=%s", feat, posClass(len(got), len(sent)), valueClass(sent[len(got)]), c04sErrClass(ferr)),
			fmt.Sprintf("message %d of %v satisfies the design but %s Recv returned %v instead of delivering it (delivered before: %v)", len(got)+1, seqJSON(sent), d.receiverName(), ferr, seqJSON(got)))
		return sigs
	}
	if k == len(sent) {
		if len(got) > k {
			outcome("extra-message")
			fail(fmt.Sprintf("C04 stream-extra-message %s sent=%d observed=%d", feat, len(sent), len(got)),
				fmt.Sprintf("%d valid messages sent, %s Recv delivered %v", len(sent), d.receiverName(), seqJSON(got)))
			return sigs
		}
		outcome(fmt.Sprintf("all-valid-delivered side=%s n=%s", side, seqLenClass(len(sent))))
		return sigs
	}
	// there is a first invalid message at position k
	rules := issueRules(issues)
	if len(got) > k {
		outcome("invalid-delivered")
		what := fmt.Sprintf("message %d of %v violates %v but %s Recv delivered it to user code (delivered: %v)", k+1, seqJSON(sent), issues, d.receiverName(), seqJSON(got))
		if !sameMsg(sp, d.t, sent[k], got[k]) {
			what += "; what was delivered differs from what was sent"
		}
		fail(fmt.Sprintf("C04 stream-invalid-delivered %s rule=%s pos=%s value=%s", feat, rules[0], posClass(k, len(sent)), valueClass(sent[k])), what)
		return sigs
	}
	if nsent <= k {
		// the sending side refused the invalid message: nothing invalid travelled
		outcome("invalid-refused-by-sender side=" + side)
		return sigs
	}
	o := receiver.failedObs()
	var rerr error
	if o != nil {
		rerr = o.Err
	}
	name := goaErrorName(rerr)
	named := false
	for _, ru := range rules {
		if ru == name {
			named = true
		}
	}
	if !named {
		outcome("invalid-wrong-error")
		fail(fmt.Sprintf("C04 stream-wrong-error %s rule=%s pos=%s observed=%s", feat, rules[0], posClass(k, len(sent)), c04sErrClass(rerr)),
			fmt.Sprintf("message %d of %v violates %v: %s Recv did not deliver it but returned %v, which does not name the violated rule", k+1, seqJSON(sent), issues, d.receiverName(), rerr))
		return sigs
	}
	outcome(fmt.Sprintf("invalid-rejected-%s side=%s prefix=%s", name, side, seqLenClass(k)))
	if report && r.Cases%13 == 1 {
		r.sample(map[string]any{"side": side, "kind": streamKind(m), "pattern": pat, "sent": seqJSON(sent), "delivered": seqJSON(got), "error": rerr.Error(), "error_name": name})
	}
	return sigs
}

func (d *c04sDir) receiverName() string {
	if d.name == "replies" {
		return "the generated client stream's"
	}
	return "the generated server stream's"
}

// c04sErrClass abstracts the error a Recv/Send returned.
func c04sErrClass(err error) string {
	switch {
	case err == nil:
		return "none"
	case errors.Is(err, io.EOF):
		return "eof"
	}
	if n := goaErrorName(err); n != "" {
		return "named-" + n
	}
	return streamErrClass(err)
}

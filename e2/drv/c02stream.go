package drv

import (
	"errors"
	"fmt"
	"io"

	"verif/e2/spec"
)

// C02S — the streaming part of C02 (thorough tier): for an HTTP (WebSocket) streaming endpoint
// the initial payload and every message the client streams arrive at the service, in order.
//
//	oracle   the stub service (server goroutine) receives, through the generated server stream's
//	         Recv, exactly the messages the client handed to the generated client stream's Send, in
//	         order, equal under drv.Equal's normalisations: none lost, duplicated, added, reordered
//	         or changed; after the last one Recv reports io.EOF when the client ended its stream
//	         (Close / CloseAndRecv); Send / Close return no error; the initial payload arrives equal
//	         and in its designed location (same oracle as C02).
//	not asserted: the error of a Close issued by the side that ends second, timing, frame layout.
func init() { RegisterMode("C02S", runC02S) }

func runC02S(s *Svc, m *spec.Method, tier string) *MethodResult {
	r := &MethodResult{}
	kind := streamKind(m)
	if m.HTTP == nil || kind == "" {
		r.Skipped = "not an HTTP streaming endpoint"
		return r
	}
	if tier != "thorough" {
		r.Skipped = "streaming endpoints are driven in the thorough tier"
		return r
	}
	if m.Payload == nil && m.StreamPayload == nil {
		r.Skipped = "server streaming without payload: nothing travels from the client to the service (C03S covers the replies)"
		return r
	}
	ss, err := MountStreaming(s)
	if err != nil {
		r.HarnessErr = append(r.HarnessErr, "mount streaming: "+err.Error())
		return r
	}
	defer ss.Close()
	env := newStreamEnv(s, m)
	if m.StreamPayload != nil && len(env.reqVals) == 0 {
		r.HarnessErr = append(r.HarnessErr, "no valid streamed payload value")
		return r
	}
	plans := env.plans("requests")
	r.note("stream_request_values", int64(len(env.reqVals)))
	r.note("stream_payload_values", int64(len(env.payloads)))
	for i, p := range plans {
		if streamExpired() {
			streamIncomplete(s, m, "C02S", i, len(plans))
			r.note("stream_cases_not_run_budget", int64(len(plans)-i))
			break
		}
		if ss.timedOut {
			break // the harness error is already recorded; do not pile up timeouts
		}
		r.Cases++
		if len(p.Requests) > 0 || p.Payload != nil {
			r.Nontrivial++
		}
		c02sOne(ss, env, p, r, true)
	}
	return r
}

func c02sOne(ss *StreamSvc, env *streamEnv, p streamPlan, r *MethodResult, report bool) []string {
	s, m, sp := env.s, env.m, env.s.Spec
	ex := ss.runPlan(m, p)
	if report {
		r.Execs++
	}
	if ex.Herr != nil {
		if report {
			r.HarnessErr = append(r.HarnessErr, "c02s: "+ex.Herr.Error())
		}
		return nil
	}
	var sigs []string
	fail := func(sig, what string) {
		sigs = append(sigs, sig)
		if report {
			r.violation(sig, what, ex.caseJSON(s, p), func() []string { return c02sOne(ss, env, p, r, false) })
		}
	}
	outcome := func(o string) {
		if report {
			r.outcome(o)
		}
	}
	feat := fmt.Sprintf("kind=%s elem=%s%s", env.kind, typeClass(sp, m.StreamPayload), schedFeat(p))
	if pn := ex.streamPanic(); pn != "" {
		fail(fmt.Sprintf("C02 stream-panic %s %s", feat, panicSite(pn)), "generated code panicked: "+pn)
		return sigs
	}
	// ---- the initial payload and the invocation
	payloadFeat := func(pl *Place, val any) string {
		if pl == nil {
			return "attr=none"
		}
		return fmt.Sprintf("loc=%s type=%s req=%s value=%s", pl.Loc, typeClass(sp, pl.T), pl.Req, valueClass(val))
	}
	if ex.Invoked != 1 {
		observed := fmt.Sprintf("status-%d", ex.Status)
		if !ex.reqSeen.Load() {
			observed = "no-request-" + streamErrClass(ex.OpenErr)
		}
		outcome("not-invoked " + observed)
		if m.Payload != nil {
			pl, pv := blameWith(s, env.layout, p.Payload, ex.SentN, func(alt any) bool { return streamDelivered(ss, env, p, alt) })
			if _, ok := pv.(compound); ok {
				outcome("not-invoked compound-of-single-failures")
				return sigs
			}
			fail(fmt.Sprintf("C02 stream-initial-payload kind=%s %s observed=not-delivered-%s", env.kind, payloadFeat(pl, pv), observed),
				fmt.Sprintf("valid initial payload %s did not reach the service method (invoked=%d, status=%d, body=%s, client error=%v)", spec.Canon(ex.SentN), ex.Invoked, ex.Status, truncate(ex.Body, 200), ex.OpenErr))
			return sigs
		}
		fail(fmt.Sprintf("C02 stream-not-invoked %s observed=%s", feat, observed),
			fmt.Sprintf("the streaming call did not reach the service method (invoked=%d, status=%d, body=%s, client error=%v)", ex.Invoked, ex.Status, truncate(ex.Body, 200), ex.OpenErr))
		return sigs
	}
	if m.Payload != nil {
		l := env.layout
		if d := Equal(sp, m.Payload, nil, ex.SentN, ex.GotPayload, "payload"); d != nil {
			var pl *Place
			if l.Whole {
				pl = l.Places[0]
			} else if d.Attr != nil {
				pl = l.ByAttr(d.Attr.Name)
			}
			outcome("initial-payload-different")
			fail(fmt.Sprintf("C02 stream-initial-payload kind=%s %s observed=%s", env.kind, payloadFeat(pl, d.Sent), valueClass(d.Recv)),
				fmt.Sprintf("%s: %s (sent initial payload %s, arrived %s)", d.Path, d.Why, spec.Canon(ex.SentN), spec.Canon(ex.GotPayload)))
			return sigs
		}
		call := &Call{ServerReq: ex.ServerReq}
		for _, lf := range checkLocations(s, m, l, ex.SentN, call) {
			var pv any
			if lf.place != nil {
				if o, ok := ex.SentN.(spec.Obj); ok {
					pv = o[lf.place.Attr]
				} else {
					pv = ex.SentN
				}
			}
			fail(fmt.Sprintf("C02 stream-initial-payload-location kind=%s %s observed=%s", env.kind, payloadFeat(lf.place, pv), lf.kind), lf.what)
		}
	}
	if m.StreamPayload == nil {
		outcome("initial-payload-delivered replies=" + seqLenClass(len(p.Replies)))
		return sigs
	}
	// ---- the streamed messages, client -> service
	sent := expressedSeq(s, env.reqT, m.StreamPayload, p.Requests)
	got := ex.Srv.recvd()
	first := ex.firstFailure()
	if ex.OpenErr != nil {
		if len(sent) == 0 {
			outcome("nothing-to-deliver stream-not-opened (a C03S matter)")
			return sigs
		}
		fail(fmt.Sprintf("C02 stream-open-failed kind=%s requests=%s upgraded=%v observed=%s", env.kind, seqLenClass(len(sent)), ex.Upgraded, streamErrClass(ex.OpenErr)),
			fmt.Sprintf("the client endpoint returned no stream, %d messages could not be sent: %v (status %d, body %s)", len(sent), ex.OpenErr, ex.Status, truncate(ex.Body, 200)))
		return sigs
	}
	// the service's view is authoritative when its script ran to its end (every Recv delivered a
	// message or the final io.EOF): a stream that ended early there is a loss, whatever error the
	// client met afterwards while writing to a connection the server had already left
	srvClean := ex.Srv.Finished && !ex.Srv.Aborted
	if first == "client" && !(srvClean && !seqEqual(sp, m.StreamPayload, sent, got)) {
		o := ex.Cli.failedObs()
		if o != nil && (o.Op == opSend || o.Op == opClose) {
			outcome("client-op-error")
			fail(fmt.Sprintf("C02 stream-op-error %s side=client op=%s observed=%s", feat, o.Op, streamErrClass(o.Err)),
				fmt.Sprintf("client stream %s returned %v (operation %d of the client script %v)", o.Op, o.Err, ex.Cli.AbortAt, opNames(ex.CliOps)))
			return sigs
		}
		// the client stopped on its receiving side: the replies are C03S's matter; the requests
		// that were sent before are still compared below when the service saw all of them
		if o != nil && (o.Op == opRecv || o.Op == opRecvAll || o.Op == opCloseAndRecv) {
			nsent := 0
			for _, co := range ex.Cli.Obs {
				if co.Op == opSend && co.Err == nil {
					nsent++
				}
			}
			if nsent < len(sent) {
				outcome("client-receive-failed-before-all-requests-were-sent (a C03S matter)")
				return sigs
			}
		}
	}
	if first == "server" {
		if o := ex.Srv.failedObs(); o != nil && (o.Op == opRecv || o.Op == opRecvAll) && o.Err != nil && !errors.Is(o.Err, io.EOF) {
			pos := len(got)
			var v any
			if pos < len(sent) {
				v = sent[pos]
				outcome("server-recv-error")
				fail(fmt.Sprintf("C02 stream-recv-error %s pos=%s value=%s observed=%s", feat, posClass(pos, len(sent)), valueClass(v), streamErrClass(o.Err)),
					fmt.Sprintf("server stream Recv returned %v instead of message %d of %d (%s); delivered before: %v", o.Err, pos+1, len(sent), spec.Canon(v), seqJSON(got)))
				return sigs
			}
			if seqEqual(sp, m.StreamPayload, sent, got) {
				outcome("server-end-error")
				fail(fmt.Sprintf("C02 stream-end %s observed=%s", feat, streamErrClass(o.Err)),
					fmt.Sprintf("after the %d messages the client sent and its end of stream, server stream Recv returned %v instead of io.EOF", len(sent), o.Err))
				return sigs
			}
		}
		if o := ex.Srv.failedObs(); o != nil && o.Op != opRecv && o.Op != opRecvAll && len(got) < len(sent) {
			outcome("server-send-failed-before-all-requests-were-read (a C03S matter)")
			return sigs
		}
	}
	if first == "client" && len(got) < len(sent) && !srvClean {
		// the service could not read everything because the client side broke down first on an
		// operation that is not a C02 matter
		outcome("client-failed-first (a C03S matter)")
		return sigs
	}
	if v := compareSeq(sp, m.StreamPayload, sent, got); v.Class != "" {
		outcome("requests-" + v.Class)
		what := fmt.Sprintf("client sent %v, server stream delivered %v: %s", seqJSON(sent), seqJSON(got), v.What)
		switch v.Class {
		case "changed":
			fail(fmt.Sprintf("C02 stream-message-changed %s pos=%s value=%s observed=%s", feat, posClass(v.Pos, len(sent)), valueClass(v.Sent), valueClass(v.Recv)), what)
		case "lost":
			fail(fmt.Sprintf("C02 stream-message-lost %s pos=%s value=%s", feat, posClass(v.Pos, len(sent)), valueClass(v.Sent)), what)
		case "extra", "duplicated":
			fail(fmt.Sprintf("C02 stream-message-%s %s pos=%s", v.Class, feat, posClass(v.Pos, len(got))), what)
		case "order":
			fail(fmt.Sprintf("C02 stream-order %s", feat), what)
		default:
			fail(fmt.Sprintf("C02 stream-sequence-changed %s sent=%d observed=%d", feat, len(sent), len(got)), what)
		}
		return sigs
	}
	outcome(fmt.Sprintf("requests-delivered-in-order kind=%s n=%s%s", env.kind, seqLenClass(len(sent)), schedFeat(p)))
	if report && r.Cases%97 == 1 {
		r.sample(map[string]any{"kind": env.kind, "schedule": p.Sched, "requests": seqJSON(sent), "server_received": seqJSON(got), "replies": len(p.Replies)})
	}
	return sigs
}

// streamDelivered reports whether the initial payload alt reaches the service unchanged.
func streamDelivered(ss *StreamSvc, env *streamEnv, p streamPlan, alt any) bool {
	p.Payload = alt
	ex := ss.runPlan(env.m, p)
	if ex.Herr != nil || ex.streamPanic() != "" || ex.Invoked != 1 {
		return false
	}
	return Equal(env.s.Spec, env.m.Payload, nil, ex.SentN, ex.GotPayload, "payload") == nil
}

package drv

import (
	"context"
	"fmt"
	"net"
	"reflect"
	"runtime/debug"
	"strings"
	"sync"
	"sync/atomic"
	"time"
	"unsafe"

	goa "goa.design/goa/v3/pkg"
	"google.golang.org/grpc"
	"google.golang.org/grpc/codes"
	"google.golang.org/grpc/credentials/insecure"
	"google.golang.org/grpc/metadata"
	"google.golang.org/grpc/status"
	"google.golang.org/grpc/test/bufconn"

	"verif/e2/spec"
	"verif/e2/vreg"
)

// GRPCObs is what the gRPC wire shows for one call: the request message and incoming metadata
// as the grpc.Server delivered them to the generated server, and the response header / trailer
// metadata as the client connection received them.
type GRPCObs struct {
	ReqMsg   string      // text rendering of the (first) protocol buffer request message
	ReqMD    metadata.MD // incoming metadata on the server
	Header   metadata.MD // response headers seen by the client
	Trailer  metadata.MD // response trailers seen by the client
	RespMsg  string
	Handlers int32 // number of times the registered server implementation was entered

	active sync.WaitGroup // server handlers of this call that have not returned yet
}

// waitHandlers waits until every server handler entered for this call has returned.
func (o *GRPCObs) waitHandlers(max time.Duration) bool {
	done := make(chan struct{})
	go func() { o.active.Wait(); close(done) }()
	select {
	case <-done:
		return true
	case <-time.After(max):
		return false
	}
}

// GRPCSvc is the gRPC transport of a mounted service: the generated gRPC server registered on
// a real grpc.Server listening on an in-memory bufconn listener, and the generated gRPC client
// on a real grpc.ClientConn dialled to it.
type GRPCSvc struct {
	S      *Svc
	srv    *grpc.Server
	lis    *bufconn.Listener
	cc     *grpc.ClientConn
	client reflect.Value
	obs    atomic.Pointer[GRPCObs]
	call   atomic.Pointer[Call]
	types  map[string]any // "service" role symbols (type registry)

	// calls that may overlap (InvokeOn): the call record is found through a request metadata key
	newClient reflect.Value  // the generated NewClient(cc, opts...)
	pbSyms    map[string]any // exported functions of the pb package
	plainMu   sync.Mutex
	plainCC   *grpc.ClientConn // a second connection whose client interceptors only hold calls on request (NewClientWith)
	flights   sync.Map         // id -> *gFlight
	flightSeq atomic.Int64
}

// gFlight is one call in flight made with InvokeOn.
type gFlight struct {
	call *Call
	obs  *GRPCObs
	hold func() // runs in the client interceptor of the NewClientWith connection, before the RPC starts
}

// flightKey is the request metadata key that carries the identity of a call made with InvokeOn
// from the client to the server interceptors (a context value does not cross the connection).
const flightKey = "verif-call"

type flightCtxKey struct{}

// flightOf finds the call record of an incoming request made with InvokeOn and returns a context
// in which the stub hook finds it (callKey).
func (g *GRPCSvc) flightOf(ctx context.Context) (context.Context, *gFlight) {
	md, _ := metadata.FromIncomingContext(ctx)
	if ids := md.Get(flightKey); len(ids) > 0 {
		if f, ok := g.flights.Load(ids[0]); ok {
			fl := f.(*gFlight)
			ctx = context.WithValue(ctx, callKey{}, fl.call)
			return context.WithValue(ctx, flightCtxKey{}, fl), fl
		}
	}
	return ctx, nil
}

var (
	grpcMu   sync.Mutex
	grpcSvcs = map[*Svc]*GRPCSvc{}
	grpcErrs = map[*Svc]error{}
)

// GRPCOf returns (mounting it on first use) the gRPC transport of a service.
func GRPCOf(s *Svc) (*GRPCSvc, error) {
	grpcMu.Lock()
	defer grpcMu.Unlock()
	if g, ok := grpcSvcs[s]; ok {
		return g, nil
	}
	if err, ok := grpcErrs[s]; ok {
		return nil, err
	}
	g, err := func() (g *GRPCSvc, err error) {
		defer func() {
			if r := recover(); r != nil {
				err = fmt.Errorf("MountGRPC panicked: %v\n%s", r, trimStack(debug.Stack()))
			}
		}()
		return MountGRPC(s)
	}()
	if err != nil {
		grpcErrs[s] = err
		return nil, err
	}
	grpcSvcs[s] = g
	return g, nil
}

// MountGRPC wires stub -> generated endpoints (built by Mount) -> generated gRPC server ->
// grpc.Server(bufconn) <- grpc.ClientConn <- generated gRPC client.
func MountGRPC(s *Svc) (*GRPCSvc, error) {
	g := &GRPCSvc{S: s}
	dir := norm(s.Service.Name)
	var ssyms, csyms, psyms map[string]any
	for _, e := range vreg.All() {
		if e.Design != s.Design || norm(e.Service) != dir {
			continue
		}
		switch e.Role {
		case "service":
			g.types = e.Syms
		case "grpcserver":
			ssyms = e.Syms
		case "grpcclient":
			csyms = e.Syms
		case "pb":
			psyms = e.Syms
		}
	}
	if ssyms == nil || csyms == nil || psyms == nil {
		return nil, fmt.Errorf("%s/%s: gRPC packages not registered (server=%v client=%v pb=%v)", s.Design, s.Service.Name, ssyms != nil, csyms != nil, psyms != nil)
	}
	newServer, ok := ssyms["New"]
	if !ok {
		return nil, fmt.Errorf("%s/%s: generated gRPC server package has no New", s.Design, s.Service.Name)
	}
	// New(e *Endpoints[, uh goagrpc.UnaryHandler][, sh goagrpc.StreamHandler]): nil handlers
	server := callFunc(reflect.ValueOf(newServer), s.endpoints.Interface())[0]
	var register reflect.Value
	for k, v := range psyms {
		if strings.HasPrefix(k, "Register") && strings.HasSuffix(k, "Server") {
			register = reflect.ValueOf(v)
		}
	}
	if !register.IsValid() {
		return nil, fmt.Errorf("%s/%s: pb package has no Register<Service>Server", s.Design, s.Service.Name)
	}
	g.srv = grpc.NewServer(grpc.ChainUnaryInterceptor(g.unaryInterceptor), grpc.ChainStreamInterceptor(g.streamInterceptor))
	register.Call([]reflect.Value{reflect.ValueOf(g.srv), server})
	g.lis = bufconn.Listen(1 << 20)
	go func() { _ = g.srv.Serve(g.lis) }()
	cc, err := grpc.NewClient("passthrough:///verif-bufconn",
		grpc.WithContextDialer(func(ctx context.Context, _ string) (net.Conn, error) { return g.lis.DialContext(ctx) }),
		grpc.WithTransportCredentials(insecure.NewCredentials()),
		grpc.WithChainUnaryInterceptor(g.clientUnary))
	if err != nil {
		return nil, fmt.Errorf("grpc.NewClient: %w", err)
	}
	g.cc = cc
	newClient, ok := csyms["NewClient"]
	if !ok {
		return nil, fmt.Errorf("%s/%s: generated gRPC client package has no NewClient", s.Design, s.Service.Name)
	}
	g.newClient = reflect.ValueOf(newClient)
	g.pbSyms = psyms
	g.client = g.newClient.Call([]reflect.Value{reflect.ValueOf(cc)})[0] // NewClient(cc, opts...)
	return g, nil
}

func (g *GRPCSvc) recovered(fl *gFlight, r any) error {
	msg := fmt.Sprintf("%v\n%s", r, trimStack(debug.Stack()))
	if fl != nil {
		fl.call.ServerPanic = msg
	} else if c := g.call.Load(); c != nil {
		c.ServerPanic = msg
	}
	return status.Error(codes.Internal, "verif: server handler panicked: "+firstLine(msg))
}

func (g *GRPCSvc) unaryInterceptor(ctx context.Context, req any, info *grpc.UnaryServerInfo, handler grpc.UnaryHandler) (resp any, err error) {
	o := g.obs.Load()
	ctx, fl := g.flightOf(ctx)
	if fl != nil {
		o = fl.obs
	}
	if o != nil {
		atomic.AddInt32(&o.Handlers, 1)
		o.active.Add(1)
		defer o.active.Done()
		o.ReqMsg = fmt.Sprint(req)
		o.ReqMD, _ = metadata.FromIncomingContext(ctx)
	}
	defer func() {
		if r := recover(); r != nil {
			resp, err = nil, g.recovered(fl, r)
		}
	}()
	resp, err = handler(ctx, req)
	if o != nil && resp != nil {
		o.RespMsg = fmt.Sprint(resp)
	}
	return resp, err
}

type obsServerStream struct {
	grpc.ServerStream
	o   *GRPCObs
	ctx context.Context
}

func (w *obsServerStream) Context() context.Context { return w.ctx }

func (w *obsServerStream) RecvMsg(m any) error {
	err := w.ServerStream.RecvMsg(m)
	if err == nil && w.o != nil && w.o.ReqMsg == "" {
		w.o.ReqMsg = fmt.Sprint(m)
	}
	return err
}

func (g *GRPCSvc) streamInterceptor(srv any, ss grpc.ServerStream, info *grpc.StreamServerInfo, handler grpc.StreamHandler) (err error) {
	o := g.obs.Load()
	ctx, fl := g.flightOf(ss.Context())
	if fl != nil {
		o = fl.obs
	}
	if o != nil {
		atomic.AddInt32(&o.Handlers, 1)
		o.active.Add(1)
		defer o.active.Done()
		o.ReqMD, _ = metadata.FromIncomingContext(ss.Context())
	}
	defer func() {
		if r := recover(); r != nil {
			err = g.recovered(fl, r)
		}
	}()
	return handler(srv, &obsServerStream{ss, o, ctx})
}

// GRPCCallTimeout bounds one client call (a deadlock between the two stream ends must not
// hang the driver).
var GRPCCallTimeout = 20 * time.Second

// Invoke calls the generated gRPC client endpoint of method m. For streaming methods the
// endpoint returns the generated client stream, which drive (when non-nil) operates while the
// call is still the current observation record.
func (g *GRPCSvc) Invoke(call *Call, obs *GRPCObs, m string, payload any, drive func(stream any) (any, error)) (res any, err error) {
	s := g.S
	s.mu.Lock()
	defer s.mu.Unlock()
	s.cur = call
	g.call.Store(call)
	g.obs.Store(obs)
	defer func() { s.cur = nil; g.call.Store(nil); g.obs.Store(nil) }()
	call.Method = m
	epm := g.client.MethodByName(s.GoMethod(m))
	if !epm.IsValid() {
		return nil, fmt.Errorf("harness: gRPC client has no endpoint method for %q", m)
	}
	ep := epm.Call(nil)[0].Interface().(goa.Endpoint)
	ctx, cancel := context.WithTimeout(context.Background(), GRPCCallTimeout)
	defer cancel()
	defer func() {
		if r := recover(); r != nil {
			err = fmt.Errorf("client panic: %v\n%s", r, trimStack(debug.Stack()))
			res = nil
			call.ServerPanic += "client-side panic: " + fmt.Sprint(r) + "\n" + trimStack(debug.Stack())
		}
	}()
	res, err = ep(ctx, payload)
	if err == nil && drive != nil {
		res, err = drive(res)
	}
	return res, err
}

// holdUnary / holdStream are the client interceptors of the NewClientWith connection: a call made
// with InvokeOn and a hold function waits there, before the RPC starts, the way a call waits in an
// authentication, rate-limiting or retry interceptor of a program; every other call passes.
func (g *GRPCSvc) holdUnary(ctx context.Context, method string, req, reply any, cc *grpc.ClientConn, invoker grpc.UnaryInvoker, opts ...grpc.CallOption) error {
	g.holdHere(ctx)
	return invoker(ctx, method, req, reply, cc, opts...)
}

func (g *GRPCSvc) holdStream(ctx context.Context, desc *grpc.StreamDesc, cc *grpc.ClientConn, method string, streamer grpc.Streamer, opts ...grpc.CallOption) (grpc.ClientStream, error) {
	g.holdHere(ctx)
	return streamer(ctx, desc, cc, method, opts...)
}

func (g *GRPCSvc) holdHere(ctx context.Context) {
	md, _ := metadata.FromOutgoingContext(ctx)
	if ids := md.Get(flightKey); len(ids) > 0 {
		if f, ok := g.flights.Load(ids[0]); ok {
			if h := f.(*gFlight).hold; h != nil {
				h()
			}
		}
	}
}

// NewClientWith builds one more generated client, NewClient(conn, opts...), on a connection of
// its own whose client interceptors do nothing but hold a call when asked to (holdUnary). The opts slice is handed over as it is (reflect CallSlice:
// length and capacity are what the caller chose), exactly as a program calling
// NewClient(conn, opts...) does.
//
// stub names the protocol buffer client the generated client drives: "v1.5" is the one the
// generated constructor wires in (New<Svc>Client of the stand-in's <svc>_grpc.pb.go, in the shape
// of protoc-gen-go-grpc v1.5: every method copies its call options); "v1.3" is the stand-in's
// New<Svc>ClientV13, in the shape of the plugin up to v1.3 (the options go to the connection as
// received). The generated Client holds it in a field of the pb client INTERFACE type, but its
// constructor hard-wires New<Svc>Client: the harness stores the other implementation into that
// field (reflect + unsafe; nothing else of the generated client is touched).
func (g *GRPCSvc) NewClientWith(opts []grpc.CallOption, stub string) (reflect.Value, error) {
	g.plainMu.Lock()
	defer g.plainMu.Unlock()
	if g.plainCC == nil {
		cc, err := grpc.NewClient("passthrough:///verif-bufconn",
			grpc.WithContextDialer(func(ctx context.Context, _ string) (net.Conn, error) { return g.lis.DialContext(ctx) }),
			grpc.WithTransportCredentials(insecure.NewCredentials()),
			grpc.WithChainUnaryInterceptor(g.holdUnary), grpc.WithChainStreamInterceptor(g.holdStream))
		if err != nil {
			return reflect.Value{}, fmt.Errorf("grpc.NewClient: %w", err)
		}
		g.plainCC = cc
	}
	var client reflect.Value
	if opts == nil {
		client = g.newClient.Call([]reflect.Value{reflect.ValueOf(g.plainCC)})[0]
	} else {
		client = g.newClient.CallSlice([]reflect.Value{reflect.ValueOf(g.plainCC), reflect.ValueOf(opts)})[0]
	}
	if stub == "" || stub == "v1.5" {
		return client, nil
	}
	var ctor reflect.Value
	for k, v := range g.pbSyms {
		if strings.HasPrefix(k, "New") && strings.HasSuffix(k, "ClientV13") {
			ctor = reflect.ValueOf(v)
		}
	}
	if !ctor.IsValid() {
		return reflect.Value{}, fmt.Errorf("pb package has no New<Service>ClientV13 (stand-in protoc too old?)")
	}
	pbc := ctor.Call([]reflect.Value{reflect.ValueOf(g.plainCC)})[0]
	if client.Kind() != reflect.Ptr || client.Elem().Kind() != reflect.Struct {
		return reflect.Value{}, fmt.Errorf("generated client is a %s, not a pointer to a struct", client.Type())
	}
	f := client.Elem().FieldByName("grpccli")
	if !f.IsValid() || !pbc.Type().AssignableTo(f.Type()) {
		return reflect.Value{}, fmt.Errorf("generated client %s has no field grpccli of the pb client interface type", client.Type())
	}
	reflect.NewAt(f.Type(), unsafe.Pointer(f.UnsafeAddr())).Elem().Set(pbc)
	return client, nil
}

// InvokeOn is Invoke on a given generated client (NewClientWith) without the per-service
// serialisation: the call record is registered under an identifier that travels as request
// metadata, the server interceptors hand it to the stub hook through the handler's context, so any
// number of calls may be in flight on one mounted service. It takes no lock and does not touch
// the single-call observation slots used by Invoke.
//
// hold, when not nil, runs in the connection's client interceptor before the RPC starts.
func (g *GRPCSvc) InvokeOn(client reflect.Value, call *Call, obs *GRPCObs, m string, payload any, drive func(stream any) (any, error), hold func()) (res any, err error) {
	s := g.S
	id := fmt.Sprintf("c%d", g.flightSeq.Add(1))
	g.flights.Store(id, &gFlight{call: call, obs: obs, hold: hold})
	defer g.flights.Delete(id)
	call.Method = m
	epm := client.MethodByName(s.GoMethod(m))
	if !epm.IsValid() {
		return nil, fmt.Errorf("harness: gRPC client has no endpoint method for %q", m)
	}
	ep := epm.Call(nil)[0].Interface().(goa.Endpoint)
	ctx, cancel := context.WithTimeout(context.Background(), GRPCCallTimeout)
	defer cancel()
	ctx = metadata.AppendToOutgoingContext(ctx, flightKey, id)
	defer func() {
		if r := recover(); r != nil {
			err = fmt.Errorf("client panic: %v\n%s", r, trimStack(debug.Stack()))
			res = nil
			call.ServerPanic += "client-side panic: " + fmt.Sprint(r) + "\n" + trimStack(debug.Stack())
		}
	}()
	res, err = ep(ctx, payload)
	if err == nil && drive != nil {
		res, err = drive(res)
	}
	return res, err
}

// clientUnary observes the response header and trailer metadata of unary calls on the client
// connection (next to the grpc.Header / grpc.Trailer options goa's invoker passes itself).
func (g *GRPCSvc) clientUnary(ctx context.Context, method string, req, reply any, cc *grpc.ClientConn, invoker grpc.UnaryInvoker, opts ...grpc.CallOption) error {
	var h, t metadata.MD
	opts = append(opts, grpc.Header(&h), grpc.Trailer(&t))
	err := invoker(ctx, method, req, reply, cc, opts...)
	if o := g.obs.Load(); o != nil {
		o.Header, o.Trailer = h, t
	}
	return err
}

// Close releases the transport.
func (g *GRPCSvc) Close() {
	_ = g.cc.Close()
	if g.plainCC != nil {
		_ = g.plainCC.Close()
	}
	g.srv.Stop()
}

// typeSym finds a registered generated type by normalised name.
func (g *GRPCSvc) typeSym(name string) reflect.Type {
	want := norm("type:" + name)
	for k, v := range g.types {
		if norm(k) == want {
			if rt, ok := v.(reflect.Type); ok {
				return rt
			}
		}
	}
	return nil
}

// --- neutral <-> generated values with OneOf unions -------------------------------------------

// unionAlt returns the chosen alternative of a neutral union value.
func unionAlt(t *spec.Type, v any) (*spec.Attr, any, error) {
	o, ok := v.(spec.Obj)
	if !ok {
		return nil, nil, fmt.Errorf("union value must be an object with one key, got %T", v)
	}
	var alt *spec.Attr
	var av any
	n := 0
	for _, a := range t.Attrs {
		if x, ok := o[a.Name]; ok && x != nil {
			alt, av = a, x
			n++
		}
	}
	if n != 1 {
		return nil, nil, fmt.Errorf("union value must choose exactly one alternative, got %d", n)
	}
	return alt, av, nil
}

// setUnion stores a union value into the interface-typed field rv of attribute attr.
func (g *GRPCSvc) setUnion(rv reflect.Value, attr string, t *spec.Type, v any) error {
	alt, av, err := unionAlt(t, v)
	if err != nil {
		return err
	}
	var rt reflect.Type
	if alt.T.K == spec.KUser {
		if td := g.S.Spec.TypeDefByName(alt.T.Ref); td != nil {
			if st := g.typeSym(alt.T.Ref); st != nil {
				if td.Kind == "alias" {
					rt = st // the alias type itself is the alternative
				} else {
					rt = reflect.PointerTo(st)
				}
			}
		}
	}
	if rt == nil {
		rt = g.typeSym(attr + alt.Name)
	}
	if rt == nil {
		return fmt.Errorf("no generated type for alternative %q of union %q", alt.Name, attr)
	}
	x := reflect.New(rt).Elem()
	if err := g.S.V.Set(x, alt.T, av); err != nil {
		return fmt.Errorf("union %s.%s: %w", attr, alt.Name, err)
	}
	if !x.Type().AssignableTo(rv.Type()) {
		return fmt.Errorf("generated type %s of alternative %q is not assignable to the union field %s", x.Type(), alt.Name, rv.Type())
	}
	rv.Set(x)
	return nil
}

// getUnion reads the union held by the interface-typed field rv.
func (g *GRPCSvc) getUnion(rv reflect.Value, attr string, t *spec.Type) any {
	if rv.Kind() != reflect.Interface || rv.IsNil() {
		return nil
	}
	x := rv.Elem()
	for x.Kind() == reflect.Ptr && x.IsNil() {
		return nil
	}
	tn := x.Type().Name()
	if x.Kind() == reflect.Ptr {
		tn = x.Type().Elem().Name()
	}
	for _, alt := range t.Attrs {
		match := norm(tn) == norm(attr+alt.Name)
		if alt.T.K == spec.KUser && norm(tn) == norm(alt.T.Ref) {
			match = true
		}
		if match {
			return spec.Obj{alt.Name: g.S.V.Get(x, alt.T)}
		}
	}
	return spec.Obj{"?" + x.Type().String(): fmt.Sprint(x.Interface())}
}

// NewValue is V.New for types whose top-level attributes may be unions.
func (g *GRPCSvc) NewValue(rt reflect.Type, t *spec.Type, v any) (reflect.Value, error) {
	sp := g.S.Spec
	o, isObj := v.(spec.Obj)
	e := sp.Eff(t)
	hasUnion := false
	if isObj && e.K == spec.KObject {
		for _, a := range e.Attrs {
			if a.T.K == spec.KUnion {
				hasUnion = true
			}
		}
	}
	if !hasUnion {
		return g.S.V.New(rt, t, v)
	}
	plain := spec.Obj{}
	for k, x := range o {
		plain[k] = x
	}
	for _, a := range e.Attrs {
		if a.T.K == spec.KUnion {
			delete(plain, a.Name)
		}
	}
	rv, err := g.S.V.New(rt, t, plain)
	if err != nil {
		return rv, err
	}
	st := rv
	for st.Kind() == reflect.Ptr {
		st = st.Elem()
	}
	for _, a := range e.Attrs {
		if a.T.K != spec.KUnion || o[a.Name] == nil {
			continue
		}
		f, ok := fieldByAttr(st, a.Name)
		if !ok {
			return rv, fmt.Errorf("no field for union attribute %q in %s", a.Name, st.Type())
		}
		if err := g.setUnion(f, a.Name, a.T, o[a.Name]); err != nil {
			return rv, err
		}
	}
	return rv, nil
}

// GetValue is V.Get for types whose top-level attributes may be unions.
func (g *GRPCSvc) GetValue(rv reflect.Value, t *spec.Type) any {
	sp := g.S.Spec
	if t == nil {
		return g.S.V.Get(rv, t)
	}
	e := sp.Eff(t)
	hasUnion := false
	if e.K == spec.KObject {
		for _, a := range e.Attrs {
			if a.T.K == spec.KUnion {
				hasUnion = true
			}
		}
	}
	if !hasUnion {
		return g.S.V.Get(rv, t)
	}
	st := rv
	for st.IsValid() && (st.Kind() == reflect.Ptr || st.Kind() == reflect.Interface) {
		if st.IsNil() {
			return nil
		}
		st = st.Elem()
	}
	if !st.IsValid() || st.Kind() != reflect.Struct {
		return g.S.V.Get(rv, t)
	}
	out := spec.Obj{}
	for _, a := range e.Attrs {
		f, ok := fieldByAttr(st, a.Name)
		if !ok {
			continue
		}
		var v any
		if a.T.K == spec.KUnion {
			v = g.getUnion(f, a.Name, a.T)
		} else {
			v = g.S.V.Get(f, a.T)
		}
		if v != nil {
			out[a.Name] = v
		}
	}
	return out
}

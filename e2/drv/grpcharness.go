package drv

import (
	"context"
	"fmt"
	"net"
	"reflect"
	"runtime/debug"
	"strings"
	"sync"
	"sync/atomic"
	"time"

	goa "goa.design/goa/v3/pkg"
	"google.golang.org/grpc"
	"google.golang.org/grpc/codes"
	"google.golang.org/grpc/credentials/insecure"
	"google.golang.org/grpc/metadata"
	"google.golang.org/grpc/status"
	"google.golang.org/grpc/test/bufconn"

	"verif/e2/spec"
	"verif/e2/vreg"
)

// GRPCObs is what the gRPC wire shows for one call: the request message and incoming metadata
// as the grpc.Server delivered them to the generated server, and the response header / trailer
// metadata as the client connection received them.
type GRPCObs struct {
	ReqMsg   string      // text rendering of the (first) protocol buffer request message
	ReqMD    metadata.MD // incoming metadata on the server
	Header   metadata.MD // response headers seen by the client
	Trailer  metadata.MD // response trailers seen by the client
	RespMsg  string
	Handlers int32 // number of times the registered server implementation was entered
}

// GRPCSvc is the gRPC transport of a mounted service: the generated gRPC server registered on
// a real grpc.Server listening on an in-memory bufconn listener, and the generated gRPC client
// on a real grpc.ClientConn dialled to it.
type GRPCSvc struct {
	S      *Svc
	srv    *grpc.Server
	lis    *bufconn.Listener
	cc     *grpc.ClientConn
	client reflect.Value
	obs    atomic.Pointer[GRPCObs]
	call   atomic.Pointer[Call]
	types  map[string]any // "service" role symbols (type registry)
}

var (
	grpcMu   sync.Mutex
	grpcSvcs = map[*Svc]*GRPCSvc{}
	grpcErrs = map[*Svc]error{}
)

// GRPCOf returns (mounting it on first use) the gRPC transport of a service.
func GRPCOf(s *Svc) (*GRPCSvc, error) {
	grpcMu.Lock()
	defer grpcMu.Unlock()
	if g, ok := grpcSvcs[s]; ok {
		return g, nil
	}
	if err, ok := grpcErrs[s]; ok {
		return nil, err
	}
	g, err := func() (g *GRPCSvc, err error) {
		defer func() {
			if r := recover(); r != nil {
				err = fmt.Errorf("MountGRPC panicked: %v\n%s", r, trimStack(debug.Stack()))
			}
		}()
		return MountGRPC(s)
	}()
	if err != nil {
		grpcErrs[s] = err
		return nil, err
	}
	grpcSvcs[s] = g
	return g, nil
}

// MountGRPC wires stub -> generated endpoints (built by Mount) -> generated gRPC server ->
// grpc.Server(bufconn) <- grpc.ClientConn <- generated gRPC client.
func MountGRPC(s *Svc) (*GRPCSvc, error) {
	g := &GRPCSvc{S: s}
	dir := norm(s.Service.Name)
	var ssyms, csyms, psyms map[string]any
	for _, e := range vreg.All() {
		if e.Design != s.Design || norm(e.Service) != dir {
			continue
		}
		switch e.Role {
		case "service":
			g.types = e.Syms
		case "grpcserver":
			ssyms = e.Syms
		case "grpcclient":
			csyms = e.Syms
		case "pb":
			psyms = e.Syms
		}
	}
	if ssyms == nil || csyms == nil || psyms == nil {
		return nil, fmt.Errorf("%s/%s: gRPC packages not registered (server=%v client=%v pb=%v)", s.Design, s.Service.Name, ssyms != nil, csyms != nil, psyms != nil)
	}
	newServer, ok := ssyms["New"]
	if !ok {
		return nil, fmt.Errorf("%s/%s: generated gRPC server package has no New", s.Design, s.Service.Name)
	}
	// New(e *Endpoints[, uh goagrpc.UnaryHandler][, sh goagrpc.StreamHandler]): nil handlers
	server := callFunc(reflect.ValueOf(newServer), s.endpoints.Interface())[0]
	var register reflect.Value
	for k, v := range psyms {
		if strings.HasPrefix(k, "Register") && strings.HasSuffix(k, "Server") {
			register = reflect.ValueOf(v)
		}
	}
	if !register.IsValid() {
		return nil, fmt.Errorf("%s/%s: pb package has no Register<Service>Server", s.Design, s.Service.Name)
	}
	g.srv = grpc.NewServer(grpc.ChainUnaryInterceptor(g.unaryInterceptor), grpc.ChainStreamInterceptor(g.streamInterceptor))
	register.Call([]reflect.Value{reflect.ValueOf(g.srv), server})
	g.lis = bufconn.Listen(1 << 20)
	go func() { _ = g.srv.Serve(g.lis) }()
	cc, err := grpc.NewClient("passthrough:///verif-bufconn",
		grpc.WithContextDialer(func(ctx context.Context, _ string) (net.Conn, error) { return g.lis.DialContext(ctx) }),
		grpc.WithTransportCredentials(insecure.NewCredentials()),
		grpc.WithChainUnaryInterceptor(g.clientUnary))
	if err != nil {
		return nil, fmt.Errorf("grpc.NewClient: %w", err)
	}
	g.cc = cc
	newClient, ok := csyms["NewClient"]
	if !ok {
		return nil, fmt.Errorf("%s/%s: generated gRPC client package has no NewClient", s.Design, s.Service.Name)
	}
	g.client = reflect.ValueOf(newClient).Call([]reflect.Value{reflect.ValueOf(cc)})[0] // NewClient(cc, opts...)
	return g, nil
}

func (g *GRPCSvc) recovered(r any) error {
	msg := fmt.Sprintf("%v\n%s", r, trimStack(debug.Stack()))
	if c := g.call.Load(); c != nil {
		c.ServerPanic = msg
	}
	return status.Error(codes.Internal, "verif: server handler panicked: "+firstLine(msg))
}

func (g *GRPCSvc) unaryInterceptor(ctx context.Context, req any, info *grpc.UnaryServerInfo, handler grpc.UnaryHandler) (resp any, err error) {
	if o := g.obs.Load(); o != nil {
		atomic.AddInt32(&o.Handlers, 1)
		o.ReqMsg = fmt.Sprint(req)
		o.ReqMD, _ = metadata.FromIncomingContext(ctx)
	}
	defer func() {
		if r := recover(); r != nil {
			resp, err = nil, g.recovered(r)
		}
	}()
	resp, err = handler(ctx, req)
	if o := g.obs.Load(); o != nil && resp != nil {
		o.RespMsg = fmt.Sprint(resp)
	}
	return resp, err
}

type obsServerStream struct {
	grpc.ServerStream
	o *GRPCObs
}

func (w *obsServerStream) RecvMsg(m any) error {
	err := w.ServerStream.RecvMsg(m)
	if err == nil && w.o != nil && w.o.ReqMsg == "" {
		w.o.ReqMsg = fmt.Sprint(m)
	}
	return err
}

func (g *GRPCSvc) streamInterceptor(srv any, ss grpc.ServerStream, info *grpc.StreamServerInfo, handler grpc.StreamHandler) (err error) {
	o := g.obs.Load()
	if o != nil {
		atomic.AddInt32(&o.Handlers, 1)
		o.ReqMD, _ = metadata.FromIncomingContext(ss.Context())
	}
	defer func() {
		if r := recover(); r != nil {
			err = g.recovered(r)
		}
	}()
	return handler(srv, &obsServerStream{ss, o})
}

// GRPCCallTimeout bounds one client call (a deadlock between the two stream ends must not
// hang the driver).
var GRPCCallTimeout = 20 * time.Second

// Invoke calls the generated gRPC client endpoint of method m. For streaming methods the
// endpoint returns the generated client stream, which drive (when non-nil) operates while the
// call is still the current observation record.
func (g *GRPCSvc) Invoke(call *Call, obs *GRPCObs, m string, payload any, drive func(stream any) (any, error)) (res any, err error) {
	s := g.S
	s.mu.Lock()
	defer s.mu.Unlock()
	s.cur = call
	g.call.Store(call)
	g.obs.Store(obs)
	defer func() { s.cur = nil; g.call.Store(nil); g.obs.Store(nil) }()
	call.Method = m
	epm := g.client.MethodByName(s.GoMethod(m))
	if !epm.IsValid() {
		return nil, fmt.Errorf("harness: gRPC client has no endpoint method for %q", m)
	}
	ep := epm.Call(nil)[0].Interface().(goa.Endpoint)
	ctx, cancel := context.WithTimeout(context.Background(), GRPCCallTimeout)
	defer cancel()
	defer func() {
		if r := recover(); r != nil {
			err = fmt.Errorf("client panic: %v\n%s", r, trimStack(debug.Stack()))
			res = nil
			call.ServerPanic += "client-side panic: " + fmt.Sprint(r) + "\n" + trimStack(debug.Stack())
		}
	}()
	res, err = ep(ctx, payload)
	if err == nil && drive != nil {
		res, err = drive(res)
	}
	return res, err
}

// clientUnary observes the response header and trailer metadata of unary calls on the client
// connection (next to the grpc.Header / grpc.Trailer options goa's invoker passes itself).
func (g *GRPCSvc) clientUnary(ctx context.Context, method string, req, reply any, cc *grpc.ClientConn, invoker grpc.UnaryInvoker, opts ...grpc.CallOption) error {
	var h, t metadata.MD
	opts = append(opts, grpc.Header(&h), grpc.Trailer(&t))
	err := invoker(ctx, method, req, reply, cc, opts...)
	if o := g.obs.Load(); o != nil {
		o.Header, o.Trailer = h, t
	}
	return err
}

// Close releases the transport.
func (g *GRPCSvc) Close() {
	_ = g.cc.Close()
	g.srv.Stop()
}

// typeSym finds a registered generated type by normalised name.
func (g *GRPCSvc) typeSym(name string) reflect.Type {
	want := norm("type:" + name)
	for k, v := range g.types {
		if norm(k) == want {
			if rt, ok := v.(reflect.Type); ok {
				return rt
			}
		}
	}
	return nil
}

// --- neutral <-> generated values with OneOf unions -------------------------------------------

// unionAlt returns the chosen alternative of a neutral union value.
func unionAlt(t *spec.Type, v any) (*spec.Attr, any, error) {
	o, ok := v.(spec.Obj)
	if !ok {
		return nil, nil, fmt.Errorf("union value must be an object with one key, got %T", v)
	}
	var alt *spec.Attr
	var av any
	n := 0
	for _, a := range t.Attrs {
		if x, ok := o[a.Name]; ok && x != nil {
			alt, av = a, x
			n++
		}
	}
	if n != 1 {
		return nil, nil, fmt.Errorf("union value must choose exactly one alternative, got %d", n)
	}
	return alt, av, nil
}

// setUnion stores a union value into the interface-typed field rv of attribute attr.
func (g *GRPCSvc) setUnion(rv reflect.Value, attr string, t *spec.Type, v any) error {
	alt, av, err := unionAlt(t, v)
	if err != nil {
		return err
	}
	var rt reflect.Type
	if alt.T.K == spec.KUser {
		if td := g.S.Spec.TypeDefByName(alt.T.Ref); td != nil {
			if st := g.typeSym(alt.T.Ref); st != nil {
				if td.Kind == "alias" {
					rt = st // the alias type itself is the alternative
				} else {
					rt = reflect.PointerTo(st)
				}
			}
		}
	}
	if rt == nil {
		rt = g.typeSym(attr + alt.Name)
	}
	if rt == nil {
		return fmt.Errorf("no generated type for alternative %q of union %q", alt.Name, attr)
	}
	x := reflect.New(rt).Elem()
	if err := g.S.V.Set(x, alt.T, av); err != nil {
		return fmt.Errorf("union %s.%s: %w", attr, alt.Name, err)
	}
	if !x.Type().AssignableTo(rv.Type()) {
		return fmt.Errorf("generated type %s of alternative %q is not assignable to the union field %s", x.Type(), alt.Name, rv.Type())
	}
	rv.Set(x)
	return nil
}

// getUnion reads the union held by the interface-typed field rv.
func (g *GRPCSvc) getUnion(rv reflect.Value, attr string, t *spec.Type) any {
	if rv.Kind() != reflect.Interface || rv.IsNil() {
		return nil
	}
	x := rv.Elem()
	for x.Kind() == reflect.Ptr && x.IsNil() {
		return nil
	}
	tn := x.Type().Name()
	if x.Kind() == reflect.Ptr {
		tn = x.Type().Elem().Name()
	}
	for _, alt := range t.Attrs {
		match := norm(tn) == norm(attr+alt.Name)
		if alt.T.K == spec.KUser && norm(tn) == norm(alt.T.Ref) {
			match = true
		}
		if match {
			return spec.Obj{alt.Name: g.S.V.Get(x, alt.T)}
		}
	}
	return spec.Obj{"?" + x.Type().String(): fmt.Sprint(x.Interface())}
}

// NewValue is V.New for types whose top-level attributes may be unions.
func (g *GRPCSvc) NewValue(rt reflect.Type, t *spec.Type, v any) (reflect.Value, error) {
	sp := g.S.Spec
	o, isObj := v.(spec.Obj)
	e := sp.Eff(t)
	hasUnion := false
	if isObj && e.K == spec.KObject {
		for _, a := range e.Attrs {
			if a.T.K == spec.KUnion {
				hasUnion = true
			}
		}
	}
	if !hasUnion {
		return g.S.V.New(rt, t, v)
	}
	plain := spec.Obj{}
	for k, x := range o {
		plain[k] = x
	}
	for _, a := range e.Attrs {
		if a.T.K == spec.KUnion {
			delete(plain, a.Name)
		}
	}
	rv, err := g.S.V.New(rt, t, plain)
	if err != nil {
		return rv, err
	}
	st := rv
	for st.Kind() == reflect.Ptr {
		st = st.Elem()
	}
	for _, a := range e.Attrs {
		if a.T.K != spec.KUnion || o[a.Name] == nil {
			continue
		}
		f, ok := fieldByAttr(st, a.Name)
		if !ok {
			return rv, fmt.Errorf("no field for union attribute %q in %s", a.Name, st.Type())
		}
		if err := g.setUnion(f, a.Name, a.T, o[a.Name]); err != nil {
			return rv, err
		}
	}
	return rv, nil
}

// GetValue is V.Get for types whose top-level attributes may be unions.
func (g *GRPCSvc) GetValue(rv reflect.Value, t *spec.Type) any {
	sp := g.S.Spec
	if t == nil {
		return g.S.V.Get(rv, t)
	}
	e := sp.Eff(t)
	hasUnion := false
	if e.K == spec.KObject {
		for _, a := range e.Attrs {
			if a.T.K == spec.KUnion {
				hasUnion = true
			}
		}
	}
	if !hasUnion {
		return g.S.V.Get(rv, t)
	}
	st := rv
	for st.IsValid() && (st.Kind() == reflect.Ptr || st.Kind() == reflect.Interface) {
		if st.IsNil() {
			return nil
		}
		st = st.Elem()
	}
	if !st.IsValid() || st.Kind() != reflect.Struct {
		return g.S.V.Get(rv, t)
	}
	out := spec.Obj{}
	for _, a := range e.Attrs {
		f, ok := fieldByAttr(st, a.Name)
		if !ok {
			continue
		}
		var v any
		if a.T.K == spec.KUnion {
			v = g.getUnion(f, a.Name, a.T)
		} else {
			v = g.S.V.Get(f, a.T)
		}
		if v != nil {
			out[a.Name] = v
		}
	}
	return out
}

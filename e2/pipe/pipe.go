// Package pipe is the generate–compile–link pipeline of engine E2: for a family of design
// Specs it runs the real goa generators (one fresh genworker process per design), writes the
// stub/glue files, compiles everything against /repo's working tree and links one driver
// binary. Results are cached under /verif/.work/e2 keyed by a digest of every non-test source
// file of /repo, the harness sources and the specs, so a cache entry is reused only when all
// of them are byte-identical.
package pipe

import (
	"bytes"
	"crypto/sha256"
	"encoding/hex"
	"encoding/json"
	"fmt"
	"io/fs"
	"os"
	"os/exec"
	"path/filepath"
	"regexp"
	"sort"
	"strings"
	"sync"
	"syscall"
	"time"

	"verif/core"
	"verif/e2/spec"
	"verif/e2/stubgen"
)

// GenResult mirrors genworker's JSON output.
type GenResult struct {
	Spec    string              `json:"spec"`
	Stage   string              `json:"stage"`
	OK      bool                `json:"ok"`
	Error   string              `json:"error,omitempty"`
	Panic   string              `json:"panic,omitempty"`
	Stack   string              `json:"stack,omitempty"`
	Outputs map[string][]string `json:"outputs,omitempty"`
	Timeout bool                `json:"timeout,omitempty"`
	Raw     string              `json:"raw,omitempty"`
}

// Design is one design of a corpus with the outcome of every pipeline stage.
type Design struct {
	Spec       *spec.Spec `json:"-"`
	Name       string     `json:"name"`
	Dir        string     `json:"dir"`
	Gen        GenResult  `json:"gen"`
	GlueError  string     `json:"glue_error,omitempty"`
	BuildDiags []string   `json:"build_diags,omitempty"` // compiler diagnostics attributed to this design
	Linked     bool       `json:"linked"`                // part of the driver binary
	// Excluded lists methods removed from the executed design because the code goa generated
	// for them does not compile (method name -> diagnostics); reported by C01.
	Excluded map[string][]string `json:"excluded,omitempty"`
}

// Corpus is a built family.
type Corpus struct {
	Family  string    `json:"family"`
	Dir     string    `json:"dir"`
	Designs []*Design `json:"designs"`
	Driver  string    `json:"driver"`
	Cached  bool      `json:"-"`
	GenWall float64   `json:"gen_wall_s"`
	BldWall float64   `json:"build_wall_s"`
	// Unattributed holds build output lines that could not be tied to a design.
	Unattributed []string `json:"unattributed,omitempty"`
	EnvFailure   bool     `json:"env_failure,omitempty"` // a build step failed for lack of disk/memory: results unusable, never cached
}

// Options control Build.
type Options struct {
	Cmds      string // genworker -cmds, default "gen"
	NoDriver  bool   // only generate and compile (C01)
	ExtraMain string // extra import lines for the driver main
	Vet       bool
}

var goEnv = []string{"GOFLAGS=-mod=mod", "GOPROXY=off", "GOSUMDB=off", "GOTOOLCHAIN=local"}

// env is the environment of every subprocess: offline Go settings, and /verif/bin/tools first
// on PATH (the stand-in protoc lives there: goa's gRPC generator shells out to `protoc`).
func env() []string {
	e := append(os.Environ(), goEnv...)
	// the pb packages of all designs of a family are linked into one driver: designs reuse
	// protocol buffer names (messages keep their own descriptors)
	e = append(e, "GOLANG_PROTOBUF_REGISTRATION_CONFLICT=ignore")
	return append(e, "PATH="+filepath.Join(core.Root(), "bin", "tools")+string(os.PathListSeparator)+os.Getenv("PATH"))
}

var (
	digestOnce sync.Once
	repoDigest string
)

// RepoDigest hashes every non-test .go/.tpl/go.mod file of /repo and of the harness.
func RepoDigest() string {
	digestOnce.Do(func() {
		h := sha256.New()
		// harness parts that determine what is generated and compiled; the driver (e2/drv) is
		// relinked on every run instead, so editing an oracle does not invalidate the corpora
		e2 := filepath.Join(core.Root(), "e2")
		for _, root := range []string{core.RepoDir(), filepath.Join(e2, "spec"), filepath.Join(e2, "build"), filepath.Join(e2, "stubgen"),
			filepath.Join(e2, "pipe"), filepath.Join(e2, "vreg"), filepath.Join(e2, "cluestub"), filepath.Join(core.Root(), "cmd", "genworker"),
			filepath.Join(core.Root(), "cmd", "protoc"), filepath.Join(core.Root(), "e5")} {
			var files []string
			_ = filepath.WalkDir(root, func(p string, d fs.DirEntry, err error) error {
				if err != nil {
					return nil
				}
				if d.IsDir() {
					if d.Name() == ".git" || d.Name() == "testdata" {
						return filepath.SkipDir
					}
					return nil
				}
				n := d.Name()
				if strings.HasSuffix(n, "_test.go") {
					return nil
				}
				if strings.HasSuffix(n, ".go") || strings.HasSuffix(n, ".tpl") || n == "go.mod" {
					files = append(files, p)
				}
				return nil
			})
			sort.Strings(files)
			for _, f := range files {
				b, err := os.ReadFile(f)
				if err != nil {
					continue
				}
				fmt.Fprintf(h, "%s %d\n", f, len(b))
				h.Write(b)
			}
		}
		repoDigest = hex.EncodeToString(h.Sum(nil))[:16]
	})
	return repoDigest
}

// WorkDir is /verif/.work/e2.
func WorkDir() string {
	if r := core.RepoDir(); r != "/repo" {
		// corpora of another copy of goa (VERIF_REPO) never share a directory with /repo's
		h := sha256.Sum256([]byte(r))
		return filepath.Join(core.Root(), ".work", "e2-alt-"+hex.EncodeToString(h[:4]))
	}
	return filepath.Join(core.Root(), ".work", "e2")
}

func run(dir string, timeout time.Duration, name string, args ...string) (string, error, bool) {
	cmd := exec.Command(name, args...)
	cmd.Dir = dir
	cmd.Env = env()
	var out bytes.Buffer
	cmd.Stdout = &out
	cmd.Stderr = &out
	if err := cmd.Start(); err != nil {
		return "", err, false
	}
	done := make(chan error, 1)
	go func() { done <- cmd.Wait() }()
	select {
	case err := <-done:
		return out.String(), err, false
	case <-time.After(timeout):
		_ = cmd.Process.Kill()
		<-done
		return out.String(), fmt.Errorf("timeout after %s", timeout), true
	}
}

// ensureGenworker builds bin/genworker from the current sources.
func ensureGenworker() (string, error) {
	bin := filepath.Join(core.Root(), "bin", "genworker")
	args := []string{"build"}
	if mf := os.Getenv("VERIF_MODFILE"); mf != "" {
		// running against another copy of goa (VERIF_REPO): see run.sh
		args = append(args, "-modfile="+mf)
		bin += ".alt-" + RepoDigest()
	}
	out, err, _ := run(core.Root(), 10*time.Minute, "go", append(args, "-o", bin, "./cmd/genworker")...)
	if err != nil {
		return "", fmt.Errorf("building genworker: %v\n%s", err, out)
	}
	// stand-in protoc (engine E5), when present in this revision of /verif
	if _, serr := os.Stat(filepath.Join(core.Root(), "cmd", "protoc")); serr == nil {
		_ = os.MkdirAll(filepath.Join(core.Root(), "bin", "tools"), 0o755)
		pargs := []string{"build"}
		if mf := os.Getenv("VERIF_MODFILE"); mf != "" {
			pargs = append(pargs, "-modfile="+mf)
		}
		out, err, _ := run(core.Root(), 10*time.Minute, "go", append(pargs, "-o", filepath.Join(core.Root(), "bin", "tools", "protoc"), "./cmd/protoc")...)
		if err != nil {
			return "", fmt.Errorf("building stand-in protoc: %v\n%s", err, out)
		}
	}
	return bin, nil
}

const goMod = `module corpus

go 1.22.0

require (
	goa.design/goa/v3 v3.0.0
	goa.design/clue v0.0.0
	verif v0.0.0
)

replace goa.design/goa/v3 => %s

replace goa.design/clue => %s

replace verif => %s
`

// Build generates, compiles and links the family (or returns the cached corpus).
func Build(family string, specs []*spec.Spec, opt Options) (*Corpus, error) {
	if opt.Cmds == "" {
		opt.Cmds = "gen"
	}
	sj, _ := json.Marshal(specs)
	h := sha256.New()
	fmt.Fprintf(h, "%s|%s|%s|%v|%v|", RepoDigest(), family, opt.Cmds, opt.NoDriver, opt.Vet)
	h.Write(sj)
	key := hex.EncodeToString(h.Sum(nil))[:12]
	if err := os.MkdirAll(WorkDir(), 0o755); err != nil {
		return nil, err
	}
	// one builder at a time per family
	lock, err := os.OpenFile(filepath.Join(WorkDir(), family+".lock"), os.O_CREATE|os.O_RDWR, 0o644)
	if err != nil {
		return nil, err
	}
	defer lock.Close()
	if err := syscall.Flock(int(lock.Fd()), syscall.LOCK_EX); err != nil {
		return nil, err
	}
	defer syscall.Flock(int(lock.Fd()), syscall.LOCK_UN) //nolint
	dir := filepath.Join(WorkDir(), family+"-"+key)
	marker := filepath.Join(dir, "CORPUS.json")
	if b, err := os.ReadFile(marker); err == nil {
		var c Corpus
		if json.Unmarshal(b, &c) == nil && len(c.Designs) == len(specs) {
			for i, d := range c.Designs {
				d.Spec = specs[i]
				// same shape as after a fresh build: the methods excluded by the repack are gone
				if len(d.Excluded) > 0 {
					var svcs []*spec.Service
					for _, svc := range d.Spec.Services {
						var keep []*spec.Method
						for _, m := range svc.Methods {
							if _, bad := d.Excluded[m.Name+" "+featString(m.Feat)]; !bad {
								keep = append(keep, m)
							}
						}
						svc.Methods = keep
						if len(keep) > 0 {
							svcs = append(svcs, svc)
						}
					}
					d.Spec.Services = svcs
				}
			}
			c.Cached = true
			if c.Driver != "" {
				// relink the driver against the current e2/drv sources (incremental)
				out, err, _ := run(dir, 30*time.Minute, "go", "build", "-o", c.Driver, "./zdriver")
				if err != nil {
					return nil, fmt.Errorf("driver build failed: %v\n%s", err, tail(out, 6000))
				}
			}
			return &c, nil
		}
	}
	// remove stale builds of this family (bounded disk use)
	if ents, err := os.ReadDir(WorkDir()); err == nil {
		for _, e := range ents {
			if e.IsDir() && strings.HasPrefix(e.Name(), family+"-") {
				_ = os.RemoveAll(filepath.Join(WorkDir(), e.Name()))
			}
		}
	}
	if err := os.MkdirAll(dir, 0o755); err != nil {
		return nil, err
	}
	gw, err := ensureGenworker()
	if err != nil {
		return nil, err
	}
	mod := fmt.Sprintf(goMod, core.RepoDir(), filepath.Join(core.Root(), "e2", "cluestub"), core.Root())
	if err := os.WriteFile(filepath.Join(dir, "go.mod"), []byte(mod), 0o644); err != nil {
		return nil, err
	}
	sum, _ := os.ReadFile(filepath.Join(core.Root(), "go.sum"))
	_ = os.WriteFile(filepath.Join(dir, "go.sum"), sum, 0o644)

	c := &Corpus{Family: family, Dir: dir}
	for i, s := range specs {
		name := fmt.Sprintf("d%04d", i)
		s.Name = name
		if s.APIName == "" {
			s.APIName = name
		}
		d := &Design{Spec: s, Name: name, Dir: filepath.Join(dir, name)}
		c.Designs = append(c.Designs, d)
	}
	t0 := time.Now()
	core.Parallel(len(c.Designs), func(i int) {
		d := c.Designs[i]
		_ = os.MkdirAll(d.Dir, 0o755)
		b, _ := json.Marshal(d.Spec)
		sp := filepath.Join(d.Dir, "spec.json")
		_ = os.WriteFile(sp, b, 0o644)
		out, err, timedOut := run(dir, 120*time.Second, gw, "-spec", sp, "-out", d.Dir, "-cmds", opt.Cmds)
		line := lastJSONLine(out)
		if line == "" || json.Unmarshal([]byte(line), &d.Gen) != nil {
			d.Gen = GenResult{Spec: d.Name, Stage: "crash", Raw: tail(out, 2000)}
			if err != nil {
				d.Gen.Error = err.Error()
			}
		}
		d.Gen.Timeout = timedOut
		if d.Gen.OK {
			if err := stubgen.Design(d.Dir, d.Name); err != nil {
				d.GlueError = err.Error()
			}
		}
	})
	c.GenWall = time.Since(t0).Seconds()

	// compile everything goa wrote, attribute diagnostics to designs
	t1 := time.Now()
	out, _, _ := run(dir, 30*time.Minute, "go", "build", "-gcflags=-e", "./...")
	if opt.Vet {
		vout, _, _ := run(dir, 30*time.Minute, "go", "vet", "./...")
		out += vout
	}
	c.attribute(out)
	{
		// Repack: remove the methods whose generated code does not compile (attributed through
		// the enclosing generated function of each diagnostic), regenerate those designs and
		// compile again, so that one bad method does not hide the other methods of its design.
		for round := 0; round < 3; round++ {
			var redo []*Design
			for _, d := range c.Designs {
				if !d.Gen.OK || len(d.BuildDiags) == 0 {
					continue
				}
				culprits := culpritMethods(dir, d)
				if len(culprits) == 0 {
					continue
				}
				if d.Excluded == nil {
					d.Excluded = map[string][]string{}
				}
				removed := false
				for _, svc := range d.Spec.Services {
					var keep []*spec.Method
					for _, m := range svc.Methods {
						if diags, bad := culprits[m.Name]; bad {
							d.Excluded[m.Name+" "+featString(m.Feat)] = diags
							removed = true
							continue
						}
						keep = append(keep, m)
					}
					svc.Methods = keep
				}
				var svcs []*spec.Service
				for _, svc := range d.Spec.Services {
					if len(svc.Methods) > 0 {
						svcs = append(svcs, svc)
					}
				}
				d.Spec.Services = svcs
				if removed && len(svcs) > 0 {
					redo = append(redo, d)
				}
			}
			if len(redo) == 0 {
				break
			}
			core.Parallel(len(redo), func(i int) {
				d := redo[i]
				_ = os.RemoveAll(d.Dir)
				_ = os.MkdirAll(d.Dir, 0o755)
				b, _ := json.Marshal(d.Spec)
				sp := filepath.Join(d.Dir, "spec.json")
				_ = os.WriteFile(sp, b, 0o644)
				out, err, timedOut := run(dir, 120*time.Second, gw, "-spec", sp, "-out", d.Dir, "-cmds", opt.Cmds)
				d.Gen = GenResult{}
				line := lastJSONLine(out)
				if line == "" || json.Unmarshal([]byte(line), &d.Gen) != nil {
					d.Gen = GenResult{Spec: d.Name, Stage: "crash", Raw: tail(out, 2000)}
					if err != nil {
						d.Gen.Error = err.Error()
					}
				}
				d.Gen.Timeout = timedOut
				d.BuildDiags = nil
				if d.Gen.OK {
					if err := stubgen.Design(d.Dir, d.Name); err != nil {
						d.GlueError = err.Error()
					}
				}
			})
			for _, d := range c.Designs {
				d.BuildDiags = nil
			}
			c.Unattributed = nil
			out, _, _ = run(dir, 30*time.Minute, "go", "build", "-gcflags=-e", "./...")
			c.attribute(out)
		}
	}
	if !opt.NoDriver {
		var imports []string
		for _, d := range c.Designs {
			if !d.Gen.OK || d.GlueError != "" || len(d.BuildDiags) > 0 {
				continue
			}
			d.Linked = true
			pkgs, _ := listPackages(filepath.Join(d.Dir, "gen"))
			for _, p := range pkgs {
				rel, _ := filepath.Rel(dir, p)
				imports = append(imports, "corpus/"+filepath.ToSlash(rel))
			}
		}
		var mb bytes.Buffer
		mb.WriteString("package main\n\nimport (\n\t\"verif/e2/drv\"\n")
		for _, im := range imports {
			fmt.Fprintf(&mb, "\t_ %q\n", im)
		}
		mb.WriteString(opt.ExtraMain)
		mb.WriteString(")\n\nfunc main() { drv.Main() }\n")
		_ = os.MkdirAll(filepath.Join(dir, "zdriver"), 0o755)
		if err := os.WriteFile(filepath.Join(dir, "zdriver", "main.go"), mb.Bytes(), 0o644); err != nil {
			return nil, err
		}
		c.Driver = filepath.Join(dir, "zdriver", "driver")
		out, err, _ := run(dir, 30*time.Minute, "go", "build", "-o", c.Driver, "./zdriver")
		if err != nil {
			return nil, fmt.Errorf("driver build failed: %v\n%s", err, tail(out, 6000))
		}
	}
	c.BldWall = time.Since(t1).Seconds()
	if c.EnvFailure {
		return nil, fmt.Errorf("environment failure while building family %s (not cached): %s", family, strings.Join(c.Unattributed, " | "))
	}
	b, _ := json.MarshalIndent(c, "", " ")
	if err := os.WriteFile(marker, b, 0o644); err != nil {
		return nil, err
	}
	return c, nil
}

func lastJSONLine(out string) string {
	lines := strings.Split(strings.TrimSpace(out), "\n")
	for i := len(lines) - 1; i >= 0; i-- {
		l := strings.TrimSpace(lines[i])
		if strings.HasPrefix(l, "{") && strings.HasSuffix(l, "}") {
			return l
		}
	}
	return ""
}

func tail(s string, n int) string {
	if len(s) > n {
		return s[len(s)-n:]
	}
	return s
}

var designRe = regexp.MustCompile(`\b(d\d{4})/`)

// envFailureRe recognises build output caused by the environment (disk, memory, descriptors),
// which must never be read as a diagnostic about the generated code.
var envFailureRe = regexp.MustCompile(`gocache/\S*: no such file or directory|go-build\S*: no such file or directory|no space left on device|cannot allocate memory|out of memory|signal: killed|too many open files|input/output error|resource temporarily unavailable`)

func (c *Corpus) attribute(out string) {
	by := map[string]*Design{}
	for _, d := range c.Designs {
		by[d.Name] = d
	}
	for _, line := range strings.Split(out, "\n") {
		line = strings.TrimRight(line, " \t")
		if line == "" || strings.HasPrefix(line, "#") || strings.HasPrefix(line, "\t") || strings.HasPrefix(line, "  ") {
			continue // blank, package header, or continuation line of a multi-line diagnostic
		}
		if envFailureRe.MatchString(line) {
			// the machine ran out of a resource: says nothing about the generated code
			c.EnvFailure = true
			if len(c.Unattributed) < 100 {
				c.Unattributed = append(c.Unattributed, "ENVIRONMENT: "+line)
			}
			continue
		}
		m := designRe.FindStringSubmatch(line)
		if m != nil && by[m[1]] != nil {
			d := by[m[1]]
			if len(d.BuildDiags) < 200 {
				d.BuildDiags = append(d.BuildDiags, line)
			}
			continue
		}
		if len(c.Unattributed) < 100 {
			c.Unattributed = append(c.Unattributed, line)
		}
	}
	for _, d := range c.Designs {
		sort.Strings(d.BuildDiags)
	}
}

func featString(f map[string]string) string {
	keys := make([]string, 0, len(f))
	for k := range f {
		keys = append(keys, k)
	}
	sort.Strings(keys)
	var parts []string
	for _, k := range keys {
		parts = append(parts, k+"="+f[k])
	}
	return strings.Join(parts, " ")
}

var diagRe = regexp.MustCompile(`^(\S+?\.go):(\d+):\d+: (.*)$`)
var methodRe = regexp.MustCompile(`[Mm](\d+)`)

// culpritMethods maps the compiler diagnostics of a design to the design methods whose
// generated functions contain them (methods of executed families are named m<N>, which goa
// renders as M<N> inside generated identifiers).
func culpritMethods(corpusDir string, d *Design) map[string][]string {
	out := map[string][]string{}
	cache := map[string][]string{}
	for _, l := range d.BuildDiags {
		m := diagRe.FindStringSubmatch(l)
		if m == nil {
			continue
		}
		path := m[1]
		if !filepath.IsAbs(path) {
			path = filepath.Join(corpusDir, path)
		}
		src, ok := cache[path]
		if !ok {
			b, err := os.ReadFile(path)
			if err != nil {
				continue
			}
			src = strings.Split(string(b), "\n")
			cache[path] = src
		}
		var ln int
		fmt.Sscanf(m[2], "%d", &ln)
		i := ln - 1
		if i >= len(src) {
			continue
		}
		for i >= 0 && !strings.HasPrefix(src[i], "func ") && !strings.HasPrefix(src[i], "type ") {
			i--
		}
		if i < 0 {
			continue
		}
		mm := methodRe.FindStringSubmatch(src[i])
		if mm == nil {
			continue
		}
		name := "m" + mm[1]
		out[name] = append(out[name], abstractDiag(m[3]))
	}
	// the compiler's output order depends on package scheduling: keep a canonical selection
	for k, l := range out {
		sort.Strings(l)
		var uniq []string
		for _, x := range l {
			if len(uniq) == 0 || uniq[len(uniq)-1] != x {
				uniq = append(uniq, x)
			}
		}
		if len(uniq) > 40 {
			uniq = uniq[:40]
		}
		out[k] = uniq
	}
	return out
}

var identNumRe = regexp.MustCompile(`([Mm])\d+`)

// abstractDiag removes design-specific numbering from a compiler diagnostic.
func abstractDiag(msg string) string {
	return identNumRe.ReplaceAllString(msg, "${1}N")
}

// listPackages returns directories below root that contain .go files, except main packages
// (cli) which cannot be imported.
func listPackages(root string) ([]string, error) {
	var out []string
	err := filepath.WalkDir(root, func(p string, d fs.DirEntry, err error) error {
		if err != nil || !d.IsDir() {
			return nil
		}
		if d.Name() == "cli" {
			return filepath.SkipDir
		}
		ents, _ := os.ReadDir(p)
		for _, e := range ents {
			if !e.IsDir() && strings.HasSuffix(e.Name(), ".go") {
				out = append(out, p)
				break
			}
		}
		return nil
	})
	sort.Strings(out)
	return out, err
}

// RunDriver runs the linked driver with the given arguments and returns its stdout lines.
func (c *Corpus) RunDriver(timeout time.Duration, args ...string) (string, error) {
	a := append([]string{"-corpus", c.Dir}, args...)
	cmd := exec.Command(c.Driver, a...)
	cmd.Env = env()
	var out, errb bytes.Buffer
	cmd.Stdout = &out
	cmd.Stderr = &errb
	if err := cmd.Start(); err != nil {
		return "", err
	}
	done := make(chan error, 1)
	go func() { done <- cmd.Wait() }()
	select {
	case err := <-done:
		if err != nil {
			return out.String(), fmt.Errorf("driver: %v\n%s", err, tail(errb.String(), 4000))
		}
		return out.String(), nil
	case <-time.After(timeout):
		_ = cmd.Process.Kill()
		<-done
		return out.String(), fmt.Errorf("driver timeout after %s", timeout)
	}
}

// Filter asks goa (fresh genworker process per case, DSL evaluation only) which method cases
// it accepts as a one-method design. Rejected cases are returned with goa's error text.
func Filter(cases []spec.MethodCase) (accepted []spec.MethodCase, rejected map[int]GenResult, err error) {
	gw, err := ensureGenworker()
	if err != nil {
		return nil, nil, err
	}
	tmp := filepath.Join(WorkDir(), fmt.Sprintf("filter-%d", os.Getpid()))
	if err := os.MkdirAll(tmp, 0o755); err != nil {
		return nil, nil, err
	}
	defer os.RemoveAll(tmp)
	res := make([]GenResult, len(cases))
	core.Parallel(len(cases), func(i int) {
		s := spec.Single(cases[i])
		s.Name, s.APIName = "filter", "filter"
		b, _ := json.Marshal(s)
		p := filepath.Join(tmp, fmt.Sprintf("f%d.json", i))
		_ = os.WriteFile(p, b, 0o644)
		out, rerr, timedOut := run(tmp, 60*time.Second, gw, "-spec", p, "-evalonly")
		line := lastJSONLine(out)
		if line == "" || json.Unmarshal([]byte(line), &res[i]) != nil {
			res[i] = GenResult{Stage: "crash", Raw: tail(out, 1500)}
			if rerr != nil {
				res[i].Error = rerr.Error()
			}
		}
		res[i].Timeout = timedOut
		_ = os.Remove(p)
	})
	rejected = map[int]GenResult{}
	for i, r := range res {
		if r.OK {
			accepted = append(accepted, cases[i])
		} else {
			rejected[i] = r
		}
	}
	return accepted, rejected, nil
}

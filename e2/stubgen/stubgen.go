// Package stubgen writes, into the package directories goa generated for one design, the glue
// files the generic driver needs: an implementation of the generated Service/Auther interfaces
// that forwards every call to a hook (printed mechanically from the interfaces' AST), and
// registrations of the generated constructors. No goa code is involved in producing them.
package stubgen

import (
	"bytes"
	"fmt"
	"go/ast"
	"go/format"
	"go/parser"
	"go/printer"
	"go/token"
	"os"
	"path/filepath"
	"sort"
	"strconv"
	"strings"
)

const glueName = "zz_verif_glue.go"

// Design writes glue for every generated package below dir/gen. design is the registry key.
func Design(dir, design string) error {
	gen := filepath.Join(dir, "gen")
	ents, err := os.ReadDir(gen)
	if err != nil {
		return err
	}
	for _, e := range ents {
		if !e.IsDir() || e.Name() == "http" || e.Name() == "grpc" {
			continue
		}
		svc := e.Name()
		if _, err := os.Stat(filepath.Join(gen, svc, "service.go")); err != nil {
			continue
		}
		if err := servicePkg(filepath.Join(gen, svc), design, svc); err != nil {
			return fmt.Errorf("%s/%s: %w", design, svc, err)
		}
		for _, tr := range []struct{ sub, role string }{
			{filepath.Join("http", svc, "server"), "server"},
			{filepath.Join("http", svc, "client"), "client"},
			{filepath.Join("grpc", svc, "server"), "grpcserver"},
			{filepath.Join("grpc", svc, "client"), "grpcclient"},
			{filepath.Join("grpc", svc, "pb"), "pb"}, // Register<Svc>Server / New<Svc>Client of the protoc output
		} {
			p := filepath.Join(gen, tr.sub)
			if _, err := os.Stat(p); err != nil {
				continue
			}
			if err := funcsPkg(p, design, svc, tr.role); err != nil {
				return fmt.Errorf("%s/%s/%s: %w", design, svc, tr.role, err)
			}
		}
	}
	return nil
}

func parseDir(dir string) (*token.FileSet, map[string]*ast.File, string, error) {
	fset := token.NewFileSet()
	files := map[string]*ast.File{}
	ents, err := os.ReadDir(dir)
	if err != nil {
		return nil, nil, "", err
	}
	pkg := ""
	for _, e := range ents {
		n := e.Name()
		if e.IsDir() || !strings.HasSuffix(n, ".go") || strings.HasSuffix(n, "_test.go") || n == glueName {
			continue
		}
		f, err := parser.ParseFile(fset, filepath.Join(dir, n), nil, 0)
		if err != nil {
			return nil, nil, "", err
		}
		files[n] = f
		pkg = f.Name.Name
	}
	return fset, files, pkg, nil
}

func importName(is *ast.ImportSpec) string {
	if is.Name != nil {
		return is.Name.Name
	}
	p, _ := strconv.Unquote(is.Path.Value)
	base := p[strings.LastIndex(p, "/")+1:]
	if strings.HasPrefix(base, "v") && len(base) > 1 && base[1] >= '0' && base[1] <= '9' {
		rest := p[:strings.LastIndex(p, "/")]
		base = rest[strings.LastIndex(rest, "/")+1:]
	}
	return base
}

func exprString(fset *token.FileSet, e ast.Expr) string {
	var b bytes.Buffer
	_ = printer.Fprint(&b, fset, e)
	return b.String()
}

func selectors(e ast.Node, into map[string]bool) {
	ast.Inspect(e, func(n ast.Node) bool {
		if s, ok := n.(*ast.SelectorExpr); ok {
			if id, ok := s.X.(*ast.Ident); ok {
				into[id.Name] = true
			}
		}
		return true
	})
}

// servicePkg writes the stub implementing every method-only interface of service.go plus the
// registration of NewEndpoints / NewClient and the exported funcs of the package.
func servicePkg(dir, design, svc string) error {
	fset, files, pkg, err := parseDir(dir)
	if err != nil {
		return err
	}
	var b bytes.Buffer
	used := map[string]bool{}
	imports := map[string]string{} // name -> path
	var methods []string
	seen := map[string]bool{}
	names := make([]string, 0, len(files))
	for n := range files {
		names = append(names, n)
	}
	sort.Strings(names)
	var body bytes.Buffer
	for _, fn := range names {
		f := files[fn]
		for _, is := range f.Imports {
			p, _ := strconv.Unquote(is.Path.Value)
			imports[importName(is)] = p
		}
		if fn != "service.go" {
			continue
		}
		for _, d := range f.Decls {
			gd, ok := d.(*ast.GenDecl)
			if !ok || gd.Tok != token.TYPE {
				continue
			}
			for _, s := range gd.Specs {
				ts := s.(*ast.TypeSpec)
				it, ok := ts.Type.(*ast.InterfaceType)
				if !ok || (ts.Name.Name != "Service" && ts.Name.Name != "Auther") {
					continue
				}
				for _, m := range it.Methods.List {
					ft, ok := m.Type.(*ast.FuncType)
					if !ok || len(m.Names) == 0 {
						continue
					}
					name := m.Names[0].Name
					if seen[name] {
						continue
					}
					seen[name] = true
					if ts.Name.Name == "Service" {
						methods = append(methods, name)
					}
					selectors(ft, used)
					var params, args []string
					i := 0
					for _, p := range ft.Params.List {
						n := len(p.Names)
						if n == 0 {
							n = 1
						}
						for k := 0; k < n; k++ {
							params = append(params, fmt.Sprintf("a%d %s", i, exprString(fset, p.Type)))
							args = append(args, fmt.Sprintf("a%d", i))
							i++
						}
					}
					var results []string
					var assigns bytes.Buffer
					j := 0
					if ft.Results != nil {
						for _, r := range ft.Results.List {
							n := len(r.Names)
							if n == 0 {
								n = 1
							}
							for k := 0; k < n; k++ {
								ty := exprString(fset, r.Type)
								results = append(results, fmt.Sprintf("r%d %s", j, ty))
								fmt.Fprintf(&assigns, "\tif len(out) > %d && out[%d] != nil {\n\t\tr%d = out[%d].(%s)\n\t}\n", j, j, j, j, ty)
								j++
							}
						}
					}
					fmt.Fprintf(&body, "func (s *VStub) %s(%s) (%s) {\n\tout := s.vhook__(%q, []any{%s})\n%s\treturn\n}\n\n",
						name, strings.Join(params, ", "), strings.Join(results, ", "), name, strings.Join(args, ", "), assigns.String())
				}
			}
		}
	}
	fmt.Fprintf(&b, "// Code written by verif/e2/stubgen (verification glue, not goa output).\n\npackage %s\n\nimport (\n", pkg)
	fmt.Fprintf(&b, "\t\"verif/e2/vreg\"\n\t\"reflect\"\n")
	var inames []string
	for n := range used {
		if _, ok := imports[n]; ok {
			inames = append(inames, n)
		}
	}
	sort.Strings(inames)
	for _, n := range inames {
		fmt.Fprintf(&b, "\t%s %q\n", n, imports[n])
	}
	fmt.Fprintf(&b, ")\n\n// VStub implements the generated Service (and Auther) interface by forwarding to the hook.\ntype VStub struct{ vhook__ vreg.Hook }\n\n")
	b.Write(body.Bytes())
	fmt.Fprintf(&b, "func init() {\n\tvreg.Register(%q, %q, \"service\", map[string]any{\n", design, svc)
	fmt.Fprintf(&b, "\t\t\"NewStub\": func(h vreg.Hook) any { return &VStub{vhook__: h} },\n")
	fmt.Fprintf(&b, "\t\t\"GoMethods\": %#v,\n", methods)
	for _, fn := range exportedFuncs(files) {
		fmt.Fprintf(&b, "\t\t%q: %s,\n", fn, fn)
	}
	for _, tn := range exportedTypes(files) {
		fmt.Fprintf(&b, "\t\t\"type:%s\": reflect.TypeOf((*%s)(nil)).Elem(),\n", tn, tn)
	}
	if hasVar(files, "MethodNames") {
		fmt.Fprintf(&b, "\t\t\"MethodNames\": MethodNames[:],\n")
	}
	fmt.Fprintf(&b, "\t})\n}\n")
	return writeGo(filepath.Join(dir, glueName), b.Bytes())
}

func hasVar(files map[string]*ast.File, name string) bool {
	for _, f := range files {
		for _, d := range f.Decls {
			if gd, ok := d.(*ast.GenDecl); ok && gd.Tok == token.VAR {
				for _, s := range gd.Specs {
					for _, n := range s.(*ast.ValueSpec).Names {
						if n.Name == name {
							return true
						}
					}
				}
			}
		}
	}
	return false
}

// exportedTypes lists exported non-interface, non-generic named types.
func exportedTypes(files map[string]*ast.File) []string {
	var out []string
	for _, f := range files {
		for _, d := range f.Decls {
			gd, ok := d.(*ast.GenDecl)
			if !ok || gd.Tok != token.TYPE {
				continue
			}
			for _, s := range gd.Specs {
				ts := s.(*ast.TypeSpec)
				if !ts.Name.IsExported() || ts.TypeParams != nil {
					continue
				}
				if _, isIface := ts.Type.(*ast.InterfaceType); isIface {
					continue
				}
				out = append(out, ts.Name.Name)
			}
		}
	}
	sort.Strings(out)
	return out
}

// exportedFuncs lists exported, non-generic, receiver-less functions.
func exportedFuncs(files map[string]*ast.File) []string {
	var out []string
	for n, f := range files {
		if n == "cli.go" {
			continue
		}
		for _, d := range f.Decls {
			fd, ok := d.(*ast.FuncDecl)
			if !ok || fd.Recv != nil || !fd.Name.IsExported() || fd.Type.TypeParams != nil {
				continue
			}
			out = append(out, fd.Name.Name)
		}
	}
	sort.Strings(out)
	return out
}

func funcsPkg(dir, design, svc, role string) error {
	_, files, pkg, err := parseDir(dir)
	if err != nil {
		return err
	}
	var b bytes.Buffer
	fmt.Fprintf(&b, "// Code written by verif/e2/stubgen (verification glue, not goa output).\n\npackage %s\n\nimport \"verif/e2/vreg\"\n\n", pkg)
	fmt.Fprintf(&b, "func init() {\n\tvreg.Register(%q, %q, %q, map[string]any{\n", design, svc, role)
	for _, fn := range exportedFuncs(files) {
		fmt.Fprintf(&b, "\t\t%q: %s,\n", fn, fn)
	}
	fmt.Fprintf(&b, "\t})\n}\n")
	return writeGo(filepath.Join(dir, glueName), b.Bytes())
}

func writeGo(path string, src []byte) error {
	out, err := format.Source(src)
	if err != nil {
		return fmt.Errorf("glue does not parse: %w\n%s", err, src)
	}
	return os.WriteFile(path, out, 0o644)
}

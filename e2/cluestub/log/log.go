// Package log is a stand-in for goa.design/clue/log, which the code produced by
// `goa example` imports and which is not available offline. Only the functions the goa
// example templates call are provided, with the signatures of the real package; they do
// nothing. This is environment, not goa code.
package log

import (
	"context"
	"net/http"

	goa "goa.design/goa/v3/pkg"
	"google.golang.org/grpc"
)

type (
	KV struct {
		K string
		V any
	}
	Fielder       interface{ LogFields() []KV }
	Entry         struct{ KeyVals []KV }
	FormatFunc    func(e *Entry) []byte
	options       struct{}
	LogOption     func(*options)
	HTTPLogOption func(*options)
	GRPCLogOption func(*options)
)

func (kv KV) LogFields() []KV { return []KV{kv} }

func FormatJSON(e *Entry) []byte     { return nil }
func FormatTerminal(e *Entry) []byte { return nil }
func IsTerminal() bool               { return false }

func Context(ctx context.Context, opts ...LogOption) context.Context { return ctx }
func WithFormat(fn FormatFunc) LogOption                             { return func(*options) {} }
func WithDebug() LogOption                                           { return func(*options) {} }

func Printf(ctx context.Context, format string, v ...any)            {}
func Print(ctx context.Context, keyvals ...Fielder)                  {}
func Debugf(ctx context.Context, format string, v ...any)            {}
func Debug(ctx context.Context, keyvals ...Fielder)                  {}
func Errorf(ctx context.Context, err error, format string, v ...any) {}
func Error(ctx context.Context, err error, keyvals ...Fielder)       {}
func Fatalf(ctx context.Context, err error, format string, v ...any) { panic(err) }
func Fatal(ctx context.Context, err error, keyvals ...Fielder)       { panic(err) }

func HTTP(logCtx context.Context, opts ...HTTPLogOption) func(http.Handler) http.Handler {
	return func(h http.Handler) http.Handler { return h }
}

func Endpoint(e goa.Endpoint) goa.Endpoint { return e }

func UnaryServerInterceptor(logCtx context.Context, opts ...GRPCLogOption) grpc.UnaryServerInterceptor {
	return func(ctx context.Context, req any, info *grpc.UnaryServerInfo, handler grpc.UnaryHandler) (any, error) {
		return handler(ctx, req)
	}
}

func StreamServerInterceptor(logCtx context.Context, opts ...GRPCLogOption) grpc.StreamServerInterceptor {
	return func(srv any, ss grpc.ServerStream, info *grpc.StreamServerInfo, handler grpc.StreamHandler) error {
		return handler(srv, ss)
	}
}

// Package debug is a stand-in for goa.design/clue/debug (see ../log).
package debug

import (
	"context"
	"net/http"

	goahttp "goa.design/goa/v3/http"
	goa "goa.design/goa/v3/pkg"
	"google.golang.org/grpc"
)

type (
	Muxer interface {
		Handle(pattern string, handler http.Handler)
		HandleFunc(pattern string, handler func(http.ResponseWriter, *http.Request))
	}
	muxAdapter            struct{ m goahttp.Muxer }
	PprofOption           func(*struct{})
	DebugLogEnablerOption func(*struct{})
	LogPayloadsOption     func(*struct{})
)

func (a muxAdapter) Handle(pattern string, handler http.Handler) {
	a.m.Handle("GET", pattern, handler.ServeHTTP)
}
func (a muxAdapter) HandleFunc(pattern string, handler func(http.ResponseWriter, *http.Request)) {
	a.m.Handle("GET", pattern, handler)
}

func Adapt(m goahttp.Muxer) Muxer                                   { return muxAdapter{m} }
func MountPprofHandlers(mux Muxer, opts ...PprofOption)             {}
func MountDebugLogEnabler(mux Muxer, opts ...DebugLogEnablerOption) {}
func HTTP() func(http.Handler) http.Handler {
	return func(h http.Handler) http.Handler { return h }
}
func LogPayloads(opts ...LogPayloadsOption) func(goa.Endpoint) goa.Endpoint {
	return func(e goa.Endpoint) goa.Endpoint { return e }
}
func UnaryServerInterceptor() grpc.UnaryServerInterceptor {
	return func(ctx context.Context, req any, info *grpc.UnaryServerInfo, handler grpc.UnaryHandler) (any, error) {
		return handler(ctx, req)
	}
}
func StreamServerInterceptor() grpc.StreamServerInterceptor {
	return func(srv any, ss grpc.ServerStream, info *grpc.StreamServerInfo, handler grpc.StreamHandler) error {
		return handler(srv, ss)
	}
}

package core

import (
	"runtime"
	"sync"
)

// Product enumerates the complete cartesian product of index domains of the given sizes in
// odometer order (simplest-first: the all-zero vector first, last position fastest). The
// callback returns false to stop. The idx slice is reused between calls.
func Product(sizes []int, f func(idx []int) bool) {
	for _, s := range sizes {
		if s == 0 {
			return
		}
	}
	idx := make([]int, len(sizes))
	for {
		if !f(idx) {
			return
		}
		i := len(idx) - 1
		for ; i >= 0; i-- {
			idx[i]++
			if idx[i] < sizes[i] {
				break
			}
			idx[i] = 0
		}
		if i < 0 {
			return
		}
	}
}

// Sequences enumerates every sequence of length exactly n over an alphabet of k symbols.
func Sequences(k, n int, f func(seq []int) bool) {
	sizes := make([]int, n)
	for i := range sizes {
		sizes[i] = k
	}
	if n == 0 {
		f(nil)
		return
	}
	Product(sizes, f)
}

// Permutations enumerates all permutations of 0..n-1 (Heap's algorithm, identity first).
func Permutations(n int, f func(p []int) bool) {
	p := make([]int, n)
	for i := range p {
		p[i] = i
	}
	c := make([]int, n)
	if !f(p) {
		return
	}
	i := 0
	for i < n {
		if c[i] < i {
			if i%2 == 0 {
				p[0], p[i] = p[i], p[0]
			} else {
				p[c[i]], p[i] = p[i], p[c[i]]
			}
			if !f(p) {
				return
			}
			c[i]++
			i = 0
		} else {
			c[i] = 0
			i++
		}
	}
}

// Tree is a full binary tree over leaves lo..hi-1 (a parenthesisation of a sequence).
type Tree struct {
	Leaf        int // valid when L == nil
	L, R        *Tree
	Lo, Hi      int
	description string
}

// String renders the grouping, e.g. ((0 1) 2).
func (t *Tree) String() string {
	if t.description != "" {
		return t.description
	}
	if t.L == nil {
		t.description = string(rune('0' + t.Leaf%10))
		if t.Leaf >= 10 {
			t.description = "#" + itoa(t.Leaf)
		}
		return t.description
	}
	t.description = "(" + t.L.String() + " " + t.R.String() + ")"
	return t.description
}

func itoa(n int) string {
	if n == 0 {
		return "0"
	}
	s := ""
	for n > 0 {
		s = string(rune('0'+n%10)) + s
		n /= 10
	}
	return s
}

// Groupings returns every parenthesisation (full binary tree) of leaves lo..hi-1:
// Catalan(hi-lo-1) trees. The left-leaning fold comes first.
func Groupings(lo, hi int) []*Tree {
	if hi-lo == 1 {
		return []*Tree{{Leaf: lo, Lo: lo, Hi: hi}}
	}
	var out []*Tree
	for split := hi - 1; split > lo; split-- {
		for _, l := range Groupings(lo, split) {
			for _, r := range Groupings(split, hi) {
				out = append(out, &Tree{L: l, R: r, Lo: lo, Hi: hi})
			}
		}
	}
	return out
}

// Parallel runs f(i) for i in [0,n) on all cores. f must be safe for concurrent use.
func Parallel(n int, f func(i int)) {
	w := runtime.GOMAXPROCS(0)
	if w > n {
		w = n
	}
	if w <= 1 {
		for i := 0; i < n; i++ {
			f(i)
		}
		return
	}
	var wg sync.WaitGroup
	var mu sync.Mutex
	next := 0
	for k := 0; k < w; k++ {
		wg.Add(1)
		go func() {
			defer wg.Done()
			for {
				mu.Lock()
				i := next
				next++
				mu.Unlock()
				if i >= n {
					return
				}
				f(i)
			}
		}()
	}
	wg.Wait()
}

package core

import "testing"

func TestGlob(t *testing.T) {
	cases := []struct {
		pat, s string
		want   bool
	}{
		{"a loc=* b", "a loc=query b", true},
		{"a loc=* b", "a loc=query x b", false},
		{"a loc=* req=* v", "a loc=q req=optional v", true},
		{"a loc=*", "a loc=q", true},
		{"a loc=*", "a loc=q z", false},
		{"a loc=q", "a loc=q", true},
		{"x=* observed=status-*-fault", "x=1 observed=status-404-fault", true},
	}
	for _, c := range cases {
		if got := globMatch(c.pat, c.s); got != c.want {
			t.Errorf("glob(%q,%q)=%v", c.pat, c.s, got)
		}
	}
}

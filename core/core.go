// Package core is engine E1 of the verification machinery: the common plumbing every
// check uses to count what it explored, to report violations (with known-findings
// classification, five-fold re-execution and replay files) and to write the evidence file.
//
// A check is a program `cmd/cXX` whose main calls core.Main. The check enumerates a finite
// space, executes the real goa code on every element and calls Ctx.Violation for each
// element on which the oracle fails.
package core

import (
	"crypto/sha256"
	"encoding/hex"
	"encoding/json"
	"flag"
	"fmt"
	"os"
	"path/filepath"
	"runtime/debug"
	"sort"
	"strconv"
	"strings"
	"sync"
	"time"
)

// Root is the directory holding MANIFEST.json, evidence/, replays/, known_findings.json.
// Checks are always run with cwd=/verif, but VERIF_ROOT allows running from a snapshot.
func Root() string {
	if r := os.Getenv("VERIF_ROOT"); r != "" {
		return r
	}
	wd, err := os.Getwd()
	if err == nil {
		for d := wd; d != "/" && d != "."; d = filepath.Dir(d) {
			if _, err := os.Stat(filepath.Join(d, "properties.jsonl")); err == nil {
				return d
			}
		}
	}
	return "/verif"
}

// RepoDir is the goa tree under verification.
func RepoDir() string {
	if r := os.Getenv("VERIF_REPO"); r != "" {
		return r
	}
	return "/repo"
}

// Finding is one entry of known_findings.json.
type Finding struct {
	Property    string `json:"property"`
	Signature   string `json:"signature"`
	Status      string `json:"status"` // "known" or "fixed"
	Commit      string `json:"commit,omitempty"`
	Description string `json:"description"`
	Example     any    `json:"example,omitempty"`
}

type violation struct {
	Signature string `json:"signature"`
	What      string `json:"what"`
	Replay    string `json:"replay"`
	Count     int    `json:"count"`
	Known     bool   `json:"known"`
	KnownAs   string `json:"known_as,omitempty"`
}

// Ctx accumulates coverage for one run of one check. All methods are safe for concurrent use.
type Ctx struct {
	ID         string
	tier       string
	seed       int64
	level      string
	start      time.Time
	deadline   time.Time
	mu         sync.Mutex
	evals      int64
	trans      int64
	states     map[[16]byte]struct{}
	nontrivial map[[16]byte]struct{}
	outcomes   map[string]int64
	samples    []any
	sampleSeen int64
	notes      map[string]any
	assume     []string
	rule       string
	incomplete []string
	viols      map[string]*violation
	known      map[string]Finding
	harnessErr []string
}

// Tier returns "quick" or "thorough".
func (c *Ctx) Tier() string { return c.tier }

// Thorough reports whether the thorough tier was requested.
func (c *Ctx) Thorough() bool { return c.tier == "thorough" }

// Seed is VERIF_SEED (recorded; the checks make no random choices).
func (c *Ctx) Seed() int64 { return c.seed }

// Deadline is the internal deadline after which a check should stop enumerating, call
// Incomplete and return (exit 0 with exhaustive:false).
func (c *Ctx) Deadline() time.Time { return c.deadline }

// Expired reports whether the internal deadline has passed.
func (c *Ctx) Expired() bool { return time.Now().After(c.deadline) }

// Rule records how cases are enumerated and what makes one distinct / non-trivial.
func (c *Ctx) Rule(s string) { c.mu.Lock(); c.rule = s; c.mu.Unlock() }

// Assume records an assumption / trusted component for the evidence file.
func (c *Ctx) Assume(s string) {
	c.mu.Lock()
	defer c.mu.Unlock()
	for _, a := range c.assume {
		if a == s {
			return
		}
	}
	c.assume = append(c.assume, s)
}

// Exec counts n executions of real goa code (transitions; every one is a trace of the
// implementation itself).
func (c *Ctx) Exec(n int64) { c.mu.Lock(); c.trans += n; c.evals += n; c.mu.Unlock() }

func digest(key string) [16]byte {
	h := sha256.Sum256([]byte(key))
	var d [16]byte
	copy(d[:], h[:16])
	return d
}

// State records one distinct explored case/state by canonical key. nontrivial says whether
// the case is non-trivial by the check's stated rule.
func (c *Ctx) State(key string, nontrivial bool) {
	d := digest(key)
	c.mu.Lock()
	c.states[d] = struct{}{}
	if nontrivial {
		c.nontrivial[d] = struct{}{}
	}
	c.mu.Unlock()
}

// Outcome records the observed outcome class of one execution (vacuity alarm: a single
// class out of many executions means nothing collided).
func (c *Ctx) Outcome(class string) { c.mu.Lock(); c.outcomes[class]++; c.mu.Unlock() }

// Sample offers a case for the evidence samples list. The first three, then every case whose
// ordinal is a power of four are kept (deterministic, no randomness), capped at 12.
func (c *Ctx) Sample(v any) {
	c.mu.Lock()
	defer c.mu.Unlock()
	c.sampleSeen++
	n := c.sampleSeen
	keep := n <= 3
	if !keep && n&(n-1) == 0 {
		// power of two; keep powers of four
		for m := n; m > 1; m >>= 2 {
			if m == 4 {
				keep = true
			}
		}
	}
	if keep && len(c.samples) < 12 {
		c.samples = append(c.samples, v)
	}
}

// Note adds a free-form key to the coverage object.
func (c *Ctx) Note(key string, v any) { c.mu.Lock(); c.notes[key] = v; c.mu.Unlock() }

// AddNote adds n to an integer note.
func (c *Ctx) AddNote(key string, n int64) {
	c.mu.Lock()
	cur, _ := c.notes[key].(int64)
	c.notes[key] = cur + n
	c.mu.Unlock()
}

// Incomplete marks the run as not exhaustive (a cap or deadline was hit) with the reason and
// the frontier reached.
func (c *Ctx) Incomplete(reason string) {
	c.mu.Lock()
	c.incomplete = append(c.incomplete, reason)
	c.mu.Unlock()
}

// HarnessError records an infrastructure failure: the run exits 2, never a VIOLATION.
func (c *Ctx) HarnessError(format string, a ...any) {
	c.mu.Lock()
	c.harnessErr = append(c.harnessErr, fmt.Sprintf(format, a...))
	c.mu.Unlock()
}

// Violation reports that the oracle failed on one case. signature is the stable abstract
// class of the failure (built from features, not enumeration indices); what is the human
// explanation; replay is the minimal input/schedule (JSON-encodable) that `--replay` can
// re-execute; recheck, when non-nil, re-executes the case and reports whether it fails again
// with the same signature: it is run five times and must fail each time, otherwise the
// failure is classed as a harness error (uncaptured nondeterminism), not a violation.
// Only the first case of each signature is re-checked and written out; later ones are counted.
func (c *Ctx) Violation(signature, what string, replay any, recheck func() bool) {
	c.mu.Lock()
	if v, ok := c.viols[signature]; ok {
		v.Count++
		c.mu.Unlock()
		return
	}
	v := &violation{Signature: signature, What: what, Count: 1}
	c.viols[signature] = v
	v.KnownAs, v.Known = c.matchKnown(signature)
	c.mu.Unlock()

	if recheck != nil {
		for i := 0; i < 5; i++ {
			ok := func() (failed bool) {
				defer func() {
					if r := recover(); r != nil {
						failed = false
						c.HarnessError("recheck of %q panicked: %v", signature, r)
					}
				}()
				return recheck()
			}()
			if !ok {
				c.HarnessError("violation %q did not reproduce on re-execution %d/5: %s", signature, i+1, what)
				c.mu.Lock()
				delete(c.viols, signature)
				c.mu.Unlock()
				return
			}
		}
	}
	dir := filepath.Join(Root(), "replays", c.ID)
	_ = os.MkdirAll(dir, 0o755)
	name := sigFile(signature)
	path := filepath.Join(dir, name)
	b, err := json.MarshalIndent(map[string]any{
		"property":  c.ID,
		"signature": signature,
		"what":      what,
		"case":      replay,
	}, "", " ")
	if err != nil {
		b, _ = json.Marshal(map[string]any{"property": c.ID, "signature": signature, "what": what, "case": fmt.Sprintf("%+v", replay)})
	}
	if err := os.WriteFile(path, b, 0o644); err != nil {
		c.HarnessError("cannot write replay %s: %v", path, err)
	}
	c.mu.Lock()
	v.Replay = path
	c.mu.Unlock()
}

func sigFile(sig string) string {
	var sb strings.Builder
	for _, r := range sig {
		switch {
		case r >= 'a' && r <= 'z', r >= 'A' && r <= 'Z', r >= '0' && r <= '9', r == '-', r == '_', r == '.':
			sb.WriteRune(r)
		default:
			sb.WriteByte('_')
		}
		if sb.Len() > 80 {
			break
		}
	}
	h := sha256.Sum256([]byte(sig))
	return sb.String() + "-" + hex.EncodeToString(h[:4]) + ".json"
}

// matchKnown finds the known finding covering a signature: exact match, or a listed pattern
// in which each '*' stands for one run of non-space characters (one feature value).
func (c *Ctx) matchKnown(sig string) (string, bool) {
	if _, ok := c.known[sig]; ok {
		return sig, true
	}
	for pat := range c.known {
		if strings.Contains(pat, "*") && globMatch(pat, sig) {
			return pat, true
		}
	}
	return "", false
}

func globMatch(pat, s string) bool {
	parts := strings.Split(pat, "*")
	if !strings.HasPrefix(s, parts[0]) {
		return false
	}
	s = s[len(parts[0]):]
	for i := 1; i < len(parts); i++ {
		// '*' consumes non-space characters only
		j := 0
		for j < len(s) && s[j] != ' ' {
			j++
		}
		rest := parts[i]
		if i == len(parts)-1 && rest == "" {
			return j == len(s)
		}
		// find rest starting within s[:j+1]
		k := strings.Index(s, rest)
		if rest == "" || k < 0 || k > j {
			return false
		}
		s = s[k+len(rest):]
	}
	return s == ""
}

// ViolationCount returns the number of distinct violation signatures so far (known or not).
func (c *Ctx) ViolationCount() int { c.mu.Lock(); defer c.mu.Unlock(); return len(c.viols) }

func loadKnown(id string) map[string]Finding {
	out := map[string]Finding{}
	b, err := os.ReadFile(filepath.Join(Root(), "known_findings.json"))
	if err != nil {
		return out
	}
	var doc struct {
		Findings []Finding `json:"findings"`
	}
	if err := json.Unmarshal(b, &doc); err != nil {
		fmt.Fprintf(os.Stderr, "known_findings.json: %v\n", err)
		os.Exit(2)
	}
	for _, f := range doc.Findings {
		if f.Property == id && f.Status == "known" {
			out[f.Signature] = f
		}
	}
	return out
}

// ReplayCase loads the "case" member of a replay file into v.
func ReplayCase(path string, v any) error {
	b, err := os.ReadFile(path)
	if err != nil {
		return err
	}
	var doc struct {
		Case json.RawMessage `json:"case"`
	}
	if err := json.Unmarshal(b, &doc); err != nil {
		return err
	}
	return json.Unmarshal(doc.Case, v)
}

// Main is the entry point of every check binary.
//
//	cXX [--tier quick|thorough] [--replay file]
//
// run enumerates and reports through the Ctx; replay (may be nil) re-executes one replay file.
// Exit status: 0 held (possibly with KNOWN-FINDING lines), 1 with VIOLATION lines, 2 harness error.
func Main(id string, run func(c *Ctx), replay func(c *Ctx, path string)) {
	tier := os.Getenv("VERIF_TIER")
	if tier == "" {
		tier = "quick"
	}
	fs := flag.NewFlagSet(id, flag.ExitOnError)
	fs.StringVar(&tier, "tier", tier, "quick or thorough")
	replayPath := fs.String("replay", "", "replay file to re-execute")
	budget := fs.Duration("budget", 0, "internal deadline (default: quick 15m, thorough 50m)")
	noEvidence := fs.Bool("no-evidence", false, "do not write the evidence file")
	_ = fs.Parse(os.Args[1:])
	if tier != "quick" && tier != "thorough" {
		fmt.Fprintf(os.Stderr, "unknown tier %q\n", tier)
		os.Exit(2)
	}
	seed, _ := strconv.ParseInt(os.Getenv("VERIF_SEED"), 10, 64)
	if *budget == 0 {
		*budget = 15 * time.Minute
		if tier == "thorough" {
			*budget = 50 * time.Minute
		}
		if s := os.Getenv("VERIF_BUDGET"); s != "" {
			if d, err := time.ParseDuration(s); err == nil {
				*budget = d
			}
		}
	}
	c := &Ctx{
		ID: id, tier: tier, seed: seed, level: "model_checking", start: time.Now(),
		states: map[[16]byte]struct{}{}, nontrivial: map[[16]byte]struct{}{},
		outcomes: map[string]int64{}, notes: map[string]any{}, viols: map[string]*violation{},
		known: loadKnown(id),
	}
	c.deadline = c.start.Add(*budget)
	isReplay := *replayPath != ""
	func() {
		defer func() {
			if r := recover(); r != nil {
				c.HarnessError("check panicked: %v\n%s", r, debug.Stack())
			}
		}()
		if isReplay {
			if replay == nil {
				c.HarnessError("check %s has no replay support", id)
				return
			}
			replay(c, *replayPath)
			return
		}
		run(c)
	}()
	os.Exit(c.finish(isReplay || *noEvidence))
}

func (c *Ctx) finish(skipEvidence bool) int {
	c.mu.Lock()
	defer c.mu.Unlock()
	wall := time.Since(c.start).Seconds()
	var sigs []string
	for s := range c.viols {
		sigs = append(sigs, s)
	}
	sort.Strings(sigs)
	unknown := 0
	var knownHit []string
	for _, s := range sigs {
		v := c.viols[s]
		if v.Known {
			fmt.Printf("KNOWN-FINDING: property=%s %s -- %s (cases=%d)\n", c.ID, s, oneLine(c.known[v.KnownAs].Description), v.Count)
			knownHit = append(knownHit, s)
			continue
		}
		unknown++
		fmt.Printf("VIOLATION property=%s replay=%s\n", c.ID, v.Replay)
		fmt.Printf("  signature: %s\n  what: %s\n  cases: %d\n", s, oneLine(v.What), v.Count)
	}
	for _, e := range c.harnessErr {
		fmt.Fprintf(os.Stderr, "HARNESS-ERROR %s: %s\n", c.ID, e)
	}
	exhaustive := len(c.incomplete) == 0 && len(c.harnessErr) == 0
	if !skipEvidence {
		cov := map[string]any{}
		for k, v := range c.notes {
			cov[k] = v
		}
		cov["states"] = len(c.states)
		cov["transitions"] = c.trans
		cov["traces_validated_against_impl"] = c.trans
		cov["evaluations"] = c.evals
		cov["distinct_nontrivial"] = len(c.nontrivial)
		cov["rule"] = c.rule
		samples := c.samples
		if samples == nil {
			samples = []any{}
		}
		cov["samples"] = samples
		cov["exhaustive"] = exhaustive
		if len(c.incomplete) > 0 {
			cov["incomplete"] = c.incomplete
		}
		oc := map[string]int64{}
		for k, v := range c.outcomes {
			oc[k] = v
		}
		cov["distinct_outcomes"] = len(oc)
		if len(oc) <= 64 {
			cov["outcomes"] = oc
		}
		cov["known_findings_hit"] = knownHit
		var vl []violation
		for _, s := range sigs {
			vl = append(vl, *c.viols[s])
		}
		if vl != nil {
			cov["violation_signatures"] = vl
		}
		cov["explanation"] = "every explored trace is an execution of the goa implementation built from /repo's working tree; no separate model, so traces_validated_against_impl equals transitions"
		ev := map[string]any{
			"property_id": c.ID,
			"tier":        c.tier,
			"seed":        c.seed,
			"level":       c.level,
			"coverage":    cov,
			"assumptions": append([]string{}, c.assume...),
			"wall_s":      wall,
			"violations":  unknown,
		}
		b, err := json.MarshalIndent(ev, "", " ")
		if err != nil {
			fmt.Fprintf(os.Stderr, "HARNESS-ERROR %s: evidence: %v\n", c.ID, err)
			return 2
		}
		dir := filepath.Join(Root(), "evidence")
		_ = os.MkdirAll(dir, 0o755)
		if err := os.WriteFile(filepath.Join(dir, c.ID+".json"), append(b, '\n'), 0o644); err != nil {
			fmt.Fprintf(os.Stderr, "HARNESS-ERROR %s: evidence: %v\n", c.ID, err)
			return 2
		}
	}
	fmt.Printf("%s tier=%s states=%d transitions=%d distinct_outcomes=%d exhaustive=%v known=%d violations=%d wall=%.1fs\n",
		c.ID, c.tier, len(c.states), c.trans, len(c.outcomes), exhaustive, len(knownHit), unknown, wall)
	if unknown > 0 {
		return 1
	}
	if len(c.harnessErr) > 0 {
		return 2
	}
	return 0
}

func oneLine(s string) string {
	s = strings.ReplaceAll(s, "\n", " | ")
	if len(s) > 400 {
		s = s[:400] + "..."
	}
	return s
}

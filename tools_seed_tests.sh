#!/bin/bash
# Runs goa's own full test suite on every seeded change that has not been confirmed yet and records
# the outcome in its meta.json (coordinator_confirmation.goa_tests). Baseline: exactly the
# protoc-dependent grpc/codegen tests (TestProtoFiles, TestMessageDefSection) fail.
export GOFLAGS=-mod=mod GOPROXY=off GOSUMDB=off GOTOOLCHAIN=local
for D in /verif/seeded/*/; do
  ID=$(basename "$D")
  [ -f "$D/patch.diff" ] || continue
  grep -q '"goa_tests": "same-as-baseline' "$D/meta.json" 2>/dev/null && continue
  WT=/tmp/seedt/$ID; rm -rf "$WT"; mkdir -p /tmp/seedt
  git -C /repo worktree add -q "$WT" HEAD || continue
  git -C "$WT" apply "$D/patch.diff" || { git -C /repo worktree remove --force "$WT"; continue; }
  (cd "$WT" && go test -json -vet=off -count=1 -timeout 25m ./... 2>/dev/null) > "/tmp/seedt/$ID.json"
  python3 - "$ID" <<'PY'
import json,sys
i=sys.argv[1]
base=set(json.load(open('/root/.vp/BASELINE.json'))['stable_pass'])
got=set()
for l in open(f'/tmp/seedt/{i}.json'):
    try: e=json.loads(l)
    except: continue
    if e.get('Action')=='pass' and e.get('Test'): got.add(e['Package']+'::'+e['Test'])
missing=sorted(base-got)
p=f'/verif/seeded/{i}/meta.json'
m=json.load(open(p))
cc=m.setdefault('coordinator_confirmation',{})
cc['goa_tests']=("same-as-baseline: all %d stable-pass tests pass (go test -vet=off -count=1 ./... in a worktree with the patch)"%len(base)) if not missing else ("DIFFERENT-FROM-BASELINE: %d baseline tests do not pass: %s"%(len(missing),missing[:5]))
json.dump(m,open(p,'w'),indent=1)
print(i,cc['goa_tests'][:120])
PY
  git -C /repo worktree remove --force "$WT"
  rm -f "/tmp/seedt/$ID.json"
done

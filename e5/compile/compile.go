// Package compile is the back end of the stand-in protoc (engine E5): it validates the
// descriptor built by protoparse with the protobuf project's own validator
// (protodesc.NewFile), generates the genuine message code (<name>.pb.go) with
// compiler/protogen + protoc-gen-go's generator, and the service glue (<name>_grpc.pb.go) with
// a generator written here after the output shape of protoc-gen-go-grpc v1.5 (that plugin's
// module is not available offline).
package compile

import (
	"fmt"
	"os"
	"path/filepath"
	"strings"

	gengo "google.golang.org/protobuf/cmd/protoc-gen-go/internal_gengo"
	"google.golang.org/protobuf/compiler/protogen"
	"google.golang.org/protobuf/proto"
	"google.golang.org/protobuf/reflect/protodesc"
	"google.golang.org/protobuf/reflect/protoreflect"
	"google.golang.org/protobuf/reflect/protoregistry"
	"google.golang.org/protobuf/types/descriptorpb"
	"google.golang.org/protobuf/types/pluginpb"

	// well-known types that a .proto file may import (registered in protoregistry.GlobalFiles)
	_ "google.golang.org/protobuf/types/known/anypb"
	_ "google.golang.org/protobuf/types/known/durationpb"
	_ "google.golang.org/protobuf/types/known/emptypb"
	_ "google.golang.org/protobuf/types/known/fieldmaskpb"
	_ "google.golang.org/protobuf/types/known/structpb"
	_ "google.golang.org/protobuf/types/known/timestamppb"
	_ "google.golang.org/protobuf/types/known/wrapperspb"

	"verif/e5/protoparse"
)

// Options is one invocation of the compiler.
type Options struct {
	Files       []string // .proto files as given on the command line
	ProtoPaths  []string // --proto_path / -I directories, in order
	GoOut       string   // "" = no message code
	GoOpts      []string // --go_opt values
	GoGRPCOut   string   // "" = no service glue
	GoGRPCOpts  []string // --go-grpc_opt values
	CompilerVer string
}

// registry resolves imports: files compiled during this invocation first, then the
// well-known types linked into the binary.
type registry struct {
	local *protoregistry.Files
}

func (r *registry) FindFileByPath(p string) (protoreflect.FileDescriptor, error) {
	if fd, err := r.local.FindFileByPath(p); err == nil {
		return fd, nil
	}
	if strings.HasPrefix(p, "google/protobuf/") {
		return protoregistry.GlobalFiles.FindFileByPath(p)
	}
	return nil, protoregistry.NotFound
}

func (r *registry) FindDescriptorByName(n protoreflect.FullName) (protoreflect.Descriptor, error) {
	if d, err := r.local.FindDescriptorByName(n); err == nil {
		return d, nil
	}
	if d, err := protoregistry.GlobalFiles.FindDescriptorByName(n); err == nil && strings.HasPrefix(d.ParentFile().Path(), "google/protobuf/") {
		return d, nil
	}
	return nil, protoregistry.NotFound
}

type compiler struct {
	opt   Options
	reg   *registry
	order []*descriptorpb.FileDescriptorProto // dependency order
	stack map[string]bool
}

// relPath maps a file given on the command line to its canonical import path: relative to
// the first --proto_path directory that contains it (protoc's rule).
func (c *compiler) relPath(file string) (string, string, error) {
	abs, err := filepath.Abs(file)
	if err != nil {
		return "", "", err
	}
	paths := c.opt.ProtoPaths
	if len(paths) == 0 {
		paths = []string{"."}
	}
	for _, pp := range paths {
		pabs, err := filepath.Abs(pp)
		if err != nil {
			continue
		}
		if rel, err := filepath.Rel(pabs, abs); err == nil && !strings.HasPrefix(rel, "..") {
			return filepath.ToSlash(rel), abs, nil
		}
	}
	return "", "", fmt.Errorf("%s: File does not reside within any path specified using --proto_path (or -I). You must specify a --proto_path which encompasses this file.", file)
}

// find locates an imported file on the include path.
func (c *compiler) find(rel string) (string, bool) {
	paths := c.opt.ProtoPaths
	if len(paths) == 0 {
		paths = []string{"."}
	}
	for _, pp := range paths {
		p := filepath.Join(pp, filepath.FromSlash(rel))
		if st, err := os.Stat(p); err == nil && !st.IsDir() {
			return p, true
		}
	}
	return "", false
}

// load parses, resolves and validates one file (and, first, the files it imports).
func (c *compiler) load(rel, abs string) error {
	if _, err := c.reg.local.FindFileByPath(rel); err == nil {
		return nil
	}
	if c.stack[rel] {
		return fmt.Errorf("%s: file recursively imports itself", rel)
	}
	c.stack[rel] = true
	defer delete(c.stack, rel)
	src, err := os.ReadFile(abs)
	if err != nil {
		return fmt.Errorf("%s: %v", rel, err)
	}
	pf, err := protoparse.Parse(rel, string(src))
	if err != nil {
		return err
	}
	for _, im := range pf.Imports {
		if _, err := c.reg.FindFileByPath(im.Path); err == nil {
			continue
		}
		if p, ok := c.find(im.Path); ok {
			if err := c.load(im.Path, p); err != nil {
				return err
			}
		}
		// a missing import is diagnosed by protoparse.Descriptor
	}
	fdp, err := protoparse.Descriptor(pf, c.reg)
	if err != nil {
		return err
	}
	fd, err := protodesc.NewFile(fdp, c.reg)
	if err != nil {
		return fmt.Errorf("%s: %v", rel, err)
	}
	if err := c.reg.local.RegisterFile(fd); err != nil {
		return fmt.Errorf("%s: %v", rel, err)
	}
	c.order = append(c.order, fdp)
	return nil
}

// Run compiles the files and writes the generated code.
func Run(opt Options) error {
	c := &compiler{opt: opt, reg: &registry{local: new(protoregistry.Files)}, stack: map[string]bool{}}
	if len(opt.Files) == 0 {
		return fmt.Errorf("Missing input file.")
	}
	var toGen []string
	for _, f := range opt.Files {
		rel, abs, err := c.relPath(f)
		if err != nil {
			return err
		}
		if _, err := os.Stat(abs); err != nil {
			return fmt.Errorf("%s: No such file or directory", f)
		}
		if err := c.load(rel, abs); err != nil {
			return err
		}
		toGen = append(toGen, rel)
	}
	if opt.GoOut == "" && opt.GoGRPCOut == "" {
		return fmt.Errorf("Missing output directives.")
	}
	// the request a real protoc would hand to its plugins
	var all []*descriptorpb.FileDescriptorProto
	seen := map[string]bool{}
	var addDeps func(fdp *descriptorpb.FileDescriptorProto)
	addDeps = func(fdp *descriptorpb.FileDescriptorProto) {
		if seen[fdp.GetName()] {
			return
		}
		seen[fdp.GetName()] = true
		for _, d := range fdp.Dependency {
			if !seen[d] {
				if fd, err := c.reg.FindFileByPath(d); err == nil {
					addDeps(protodesc.ToFileDescriptorProto(fd))
				}
			}
		}
		all = append(all, fdp)
	}
	for _, fdp := range c.order {
		addDeps(fdp)
	}
	if opt.GoOut != "" {
		if err := c.plugin(all, toGen, opt.GoOpts, opt.GoOut, func(gen *protogen.Plugin, f *protogen.File) {
			gengo.GenerateFile(gen, f)
		}); err != nil {
			return fmt.Errorf("--go_out: %v", err)
		}
	}
	if opt.GoGRPCOut != "" {
		if err := c.plugin(all, toGen, opt.GoGRPCOpts, opt.GoGRPCOut, func(gen *protogen.Plugin, f *protogen.File) {
			GenerateGRPC(gen, f)
		}); err != nil {
			return fmt.Errorf("--go-grpc_out: %v", err)
		}
	}
	return nil
}

func (c *compiler) plugin(all []*descriptorpb.FileDescriptorProto, toGen, params []string, outDir string, genFile func(*protogen.Plugin, *protogen.File)) error {
	req := &pluginpb.CodeGeneratorRequest{
		FileToGenerate: toGen,
		ProtoFile:      all,
	}
	if len(params) > 0 {
		req.Parameter = proto.String(strings.Join(params, ","))
	}
	gen, err := protogen.Options{}.New(req)
	if err != nil {
		return err
	}
	for _, f := range gen.Files {
		if f.Generate {
			genFile(gen, f)
		}
	}
	gen.SupportedFeatures = gengo.SupportedFeatures
	resp := gen.Response()
	if resp.Error != nil {
		return fmt.Errorf("%s", resp.GetError())
	}
	for _, f := range resp.File {
		p := filepath.Join(outDir, filepath.FromSlash(f.GetName()))
		if err := os.MkdirAll(filepath.Dir(p), 0o755); err != nil {
			return err
		}
		if err := os.WriteFile(p, []byte(f.GetContent()), 0o644); err != nil {
			return err
		}
	}
	return nil
}

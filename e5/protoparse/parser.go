package protoparse

import (
	"strconv"
	"strings"
)

// File is the parse tree of one .proto file.
type File struct {
	Path     string
	Syntax   string
	Package  string
	Options  []Option
	Imports  []Import
	Messages []*Message
	Enums    []*Enum
	Services []*Service
}

// Option is a file-level option.
type Option struct {
	Name  string
	Value string
	Kind  string // "string", "ident", "int"
	Line  int
}

// Import is an import statement.
type Import struct {
	Path   string
	Public bool
	Line   int
}

// Message is a message definition. Fields lists every field in declaration order, including
// the members of oneofs (Field.Oneof names the oneof).
type Message struct {
	Name   string
	Fields []*Field
	Oneofs []*Oneof
	Nested []*Message
	Enums  []*Enum
	Line   int
}

// Field is a message field.
type Field struct {
	Name     string
	Number   uint64 // as written; range is checked when the descriptor is built
	Label    string // "", "optional", "repeated"
	Type     string // scalar name or (possibly qualified) message/enum name; "" for maps
	IsMap    bool
	MapKey   string
	MapValue string
	Oneof    string // name of the enclosing oneof, "" if none
	Line     int
	Col      int
}

// Oneof is a oneof group.
type Oneof struct {
	Name   string
	Fields []*Field
	Line   int
}

// Enum is an enum definition.
type Enum struct {
	Name   string
	Values []EnumValue
	Line   int
}

// EnumValue is one enum constant.
type EnumValue struct {
	Name   string
	Number int64
	Line   int
}

// Service is a service definition.
type Service struct {
	Name string
	RPCs []*RPC
	Line int
}

// RPC is one rpc of a service.
type RPC struct {
	Name      string
	In, Out   string
	InStream  bool
	OutStream bool
	Line      int
}

type parser struct {
	lx  *lexer
	tok token
}

// Parse parses proto3 source text. path is used in diagnostics and as the descriptor name.
func Parse(path, src string) (*File, error) {
	if strings.HasPrefix(src, "\xef\xbb\xbf") {
		src = src[3:]
	}
	p := &parser{lx: &lexer{file: path, src: src, line: 1, col: 1}}
	if err := p.advance(); err != nil {
		return nil, err
	}
	f, err := p.file(path)
	if err != nil {
		return nil, err
	}
	return f, nil
}

func (p *parser) advance() *Error {
	t, err := p.lx.next()
	if err != nil {
		return err
	}
	p.tok = t
	return nil
}

func (p *parser) errHere(format string, a ...any) *Error {
	return p.lx.errf(p.tok.line, p.tok.col, format, a...)
}

func (p *parser) isSym(s string) bool   { return p.tok.kind == tSym && p.tok.text == s }
func (p *parser) isIdent(s string) bool { return p.tok.kind == tIdent && p.tok.text == s }

func (p *parser) expectSym(s string) *Error {
	if !p.isSym(s) {
		return p.errHere("expected %q, found %s", s, p.tok)
	}
	return p.advance()
}

func (p *parser) ident(what string) (string, *Error) {
	if p.tok.kind != tIdent {
		return "", p.errHere("expected %s, found %s", what, p.tok)
	}
	s := p.tok.text
	return s, p.advance()
}

func (p *parser) intLit(what string) (uint64, *Error) {
	if p.tok.kind != tInt {
		return 0, p.errHere("expected %s, found %s", what, p.tok)
	}
	n, err := strconv.ParseUint(p.tok.text, 0, 64)
	if err != nil {
		return 0, p.errHere("integer literal %s out of range", p.tok.text)
	}
	return n, p.advance()
}

func (p *parser) file(path string) (*File, *Error) {
	f := &File{Path: path}
	// syntax statement must come first
	if !p.isIdent("syntax") {
		return nil, p.errHere("file must begin with a syntax statement (syntax = \"proto3\";), found %s", p.tok)
	}
	if err := p.advance(); err != nil {
		return nil, err
	}
	if err := p.expectSym("="); err != nil {
		return nil, err
	}
	if p.tok.kind != tString {
		return nil, p.errHere("expected syntax string, found %s", p.tok)
	}
	if p.tok.text != "proto3" {
		return nil, p.errHere("unsupported syntax %q: only \"proto3\" is accepted", p.tok.text)
	}
	f.Syntax = p.tok.text
	if err := p.advance(); err != nil {
		return nil, err
	}
	if err := p.expectSym(";"); err != nil {
		return nil, err
	}
	seenPackage := false
	for p.tok.kind != tEOF {
		switch {
		case p.isSym(";"):
			if err := p.advance(); err != nil {
				return nil, err
			}
		case p.isIdent("syntax"):
			return nil, p.errHere("duplicate syntax statement")
		case p.isIdent("package"):
			if seenPackage {
				return nil, p.errHere("multiple package definitions")
			}
			seenPackage = true
			if err := p.advance(); err != nil {
				return nil, err
			}
			name, err := p.fullIdent("package name", false)
			if err != nil {
				return nil, err
			}
			f.Package = name
			if err := p.expectSym(";"); err != nil {
				return nil, err
			}
		case p.isIdent("import"):
			line := p.tok.line
			if err := p.advance(); err != nil {
				return nil, err
			}
			imp := Import{Line: line}
			if p.isIdent("public") {
				imp.Public = true
				if err := p.advance(); err != nil {
					return nil, err
				}
			} else if p.isIdent("weak") {
				return nil, p.errHere("weak imports are outside the accepted grammar")
			}
			if p.tok.kind != tString {
				return nil, p.errHere("expected import path string, found %s", p.tok)
			}
			imp.Path = p.tok.text
			if err := p.advance(); err != nil {
				return nil, err
			}
			if err := p.expectSym(";"); err != nil {
				return nil, err
			}
			f.Imports = append(f.Imports, imp)
		case p.isIdent("option"):
			line := p.tok.line
			if err := p.advance(); err != nil {
				return nil, err
			}
			name, err := p.ident("option name")
			if err != nil {
				return nil, err
			}
			if err := p.expectSym("="); err != nil {
				return nil, err
			}
			o := Option{Name: name, Line: line, Value: p.tok.text}
			switch p.tok.kind {
			case tString:
				o.Kind = "string"
			case tIdent:
				o.Kind = "ident"
			case tInt:
				o.Kind = "int"
			default:
				return nil, p.errHere("expected option value, found %s", p.tok)
			}
			if err := p.advance(); err != nil {
				return nil, err
			}
			if err := p.expectSym(";"); err != nil {
				return nil, err
			}
			f.Options = append(f.Options, o)
		case p.isIdent("message"):
			m, err := p.message(0)
			if err != nil {
				return nil, err
			}
			f.Messages = append(f.Messages, m)
		case p.isIdent("enum"):
			e, err := p.enum()
			if err != nil {
				return nil, err
			}
			f.Enums = append(f.Enums, e)
		case p.isIdent("service"):
			s, err := p.service()
			if err != nil {
				return nil, err
			}
			f.Services = append(f.Services, s)
		default:
			return nil, p.errHere("expected top-level statement (import, package, option, message, enum, service), found %s", p.tok)
		}
	}
	return f, nil
}

// fullIdent parses ident { "." ident } with an optional leading dot when allowed.
func (p *parser) fullIdent(what string, leadingDot bool) (string, *Error) {
	var sb strings.Builder
	if p.isSym(".") {
		if !leadingDot {
			return "", p.errHere("expected %s, found %s", what, p.tok)
		}
		sb.WriteByte('.')
		if err := p.advance(); err != nil {
			return "", err
		}
	}
	id, err := p.ident(what)
	if err != nil {
		return "", err
	}
	sb.WriteString(id)
	for p.isSym(".") {
		if err := p.advance(); err != nil {
			return "", err
		}
		id, err := p.ident("identifier after '.'")
		if err != nil {
			return "", err
		}
		sb.WriteByte('.')
		sb.WriteString(id)
	}
	return sb.String(), nil
}

func (p *parser) message(depth int) (*Message, *Error) {
	if depth > 31 {
		return nil, p.errHere("messages nested too deeply")
	}
	m := &Message{Line: p.tok.line}
	if err := p.advance(); err != nil { // "message"
		return nil, err
	}
	name, err := p.ident("message name")
	if err != nil {
		return nil, err
	}
	m.Name = name
	if err := p.expectSym("{"); err != nil {
		return nil, err
	}
	for !p.isSym("}") {
		switch {
		case p.tok.kind == tEOF:
			return nil, p.errHere("unexpected end of file in message %s (missing '}')", m.Name)
		case p.isSym(";"):
			if err := p.advance(); err != nil {
				return nil, err
			}
		case p.isIdent("message"):
			n, err := p.message(depth + 1)
			if err != nil {
				return nil, err
			}
			m.Nested = append(m.Nested, n)
		case p.isIdent("enum"):
			e, err := p.enum()
			if err != nil {
				return nil, err
			}
			m.Enums = append(m.Enums, e)
		case p.isIdent("oneof"):
			o := &Oneof{Line: p.tok.line}
			if err := p.advance(); err != nil {
				return nil, err
			}
			if o.Name, err = p.ident("oneof name"); err != nil {
				return nil, err
			}
			if err := p.expectSym("{"); err != nil {
				return nil, err
			}
			for !p.isSym("}") {
				if p.tok.kind == tEOF {
					return nil, p.errHere("unexpected end of file in oneof %s (missing '}')", o.Name)
				}
				if p.isSym(";") {
					if err := p.advance(); err != nil {
						return nil, err
					}
					continue
				}
				if p.isIdent("optional") || p.isIdent("repeated") || p.isIdent("required") {
					return nil, p.errHere("fields in oneofs must not have labels (required / optional / repeated)")
				}
				if p.isIdent("map") {
					return nil, p.errHere("map fields are not allowed in oneofs")
				}
				fl, err := p.field(false)
				if err != nil {
					return nil, err
				}
				fl.Oneof = o.Name
				o.Fields = append(o.Fields, fl)
				m.Fields = append(m.Fields, fl)
			}
			if err := p.advance(); err != nil { // "}"
				return nil, err
			}
			m.Oneofs = append(m.Oneofs, o)
		case p.isIdent("reserved") || p.isIdent("extensions") || p.isIdent("extend") || p.isIdent("option") || p.isIdent("group"):
			return nil, p.errHere("%q statements are outside the accepted grammar", p.tok.text)
		case p.tok.kind == tIdent || p.isSym("."):
			fl, err := p.field(true)
			if err != nil {
				return nil, err
			}
			m.Fields = append(m.Fields, fl)
		default:
			return nil, p.errHere("expected field, oneof, nested message or '}', found %s", p.tok)
		}
	}
	return m, p.advance() // "}"
}

// field parses [label] type name "=" number ";" (labels and maps only when allowed).
func (p *parser) field(labelsAndMaps bool) (*Field, *Error) {
	f := &Field{Line: p.tok.line, Col: p.tok.col}
	if labelsAndMaps {
		switch {
		case p.isIdent("required"):
			return nil, p.errHere("required fields are not allowed in proto3")
		case p.isIdent("optional"), p.isIdent("repeated"):
			f.Label = p.tok.text
			if err := p.advance(); err != nil {
				return nil, err
			}
			if p.isIdent("optional") || p.isIdent("repeated") || p.isIdent("required") {
				// e.g. "repeated repeated string x": a second label where a type is expected
				return nil, p.errHere("expected field type, found label %s", p.tok)
			}
		}
	}
	if p.isIdent("map") {
		// "map" "<" starts a map field; "map" followed by anything else is a type name
		save := *p.lx
		saveTok := p.tok
		if err := p.advance(); err != nil {
			return nil, err
		}
		if p.isSym("<") {
			if f.Label != "" {
				return nil, p.lx.errf(f.Line, f.Col, "map fields cannot be %s", f.Label)
			}
			if !labelsAndMaps {
				return nil, p.errHere("map fields are not allowed here")
			}
			if err := p.advance(); err != nil {
				return nil, err
			}
			key, err := p.typeName()
			if err != nil {
				return nil, err
			}
			if err := p.expectSym(","); err != nil {
				return nil, err
			}
			if p.isIdent("repeated") || p.isIdent("optional") || p.isIdent("required") {
				return nil, p.errHere("map value type cannot have label %s", p.tok)
			}
			if p.isIdent("map") {
				// map<K, map<...>> is not expressible in the protocol buffer language
				look := *p.lx
				lookTok := p.tok
				if err := p.advance(); err != nil {
					return nil, err
				}
				if p.isSym("<") {
					return nil, p.lx.errf(lookTok.line, lookTok.col, "map value type cannot be another map")
				}
				*p.lx, p.tok = look, lookTok
			}
			val, err := p.typeName()
			if err != nil {
				return nil, err
			}
			if err := p.expectSym(">"); err != nil {
				return nil, err
			}
			f.IsMap, f.MapKey, f.MapValue = true, key, val
		} else {
			*p.lx, p.tok = save, saveTok
		}
	}
	if !f.IsMap {
		t, err := p.typeName()
		if err != nil {
			return nil, err
		}
		f.Type = t
	}
	name, err := p.ident("field name")
	if err != nil {
		return nil, err
	}
	f.Name = name
	if err := p.expectSym("="); err != nil {
		return nil, err
	}
	if p.isSym("-") {
		return nil, p.errHere("field numbers must be positive integers")
	}
	n, err := p.intLit("field number")
	if err != nil {
		return nil, err
	}
	f.Number = n
	if p.isSym("[") {
		return nil, p.errHere("field options are outside the accepted grammar")
	}
	if err := p.expectSym(";"); err != nil {
		return nil, err
	}
	return f, nil
}

func (p *parser) typeName() (string, *Error) {
	if p.tok.kind != tIdent && !p.isSym(".") {
		return "", p.errHere("expected type name, found %s", p.tok)
	}
	return p.fullIdent("type name", true)
}

func (p *parser) enum() (*Enum, *Error) {
	e := &Enum{Line: p.tok.line}
	if err := p.advance(); err != nil {
		return nil, err
	}
	var err *Error
	if e.Name, err = p.ident("enum name"); err != nil {
		return nil, err
	}
	if err := p.expectSym("{"); err != nil {
		return nil, err
	}
	for !p.isSym("}") {
		if p.tok.kind == tEOF {
			return nil, p.errHere("unexpected end of file in enum %s (missing '}')", e.Name)
		}
		if p.isSym(";") {
			if err := p.advance(); err != nil {
				return nil, err
			}
			continue
		}
		if p.isIdent("option") || p.isIdent("reserved") {
			return nil, p.errHere("%q statements are outside the accepted grammar", p.tok.text)
		}
		v := EnumValue{Line: p.tok.line}
		if v.Name, err = p.ident("enum value name"); err != nil {
			return nil, err
		}
		if err := p.expectSym("="); err != nil {
			return nil, err
		}
		neg := false
		if p.isSym("-") {
			neg = true
			if err := p.advance(); err != nil {
				return nil, err
			}
		}
		n, err := p.intLit("enum value number")
		if err != nil {
			return nil, err
		}
		if n > 1<<31 || (!neg && n > 1<<31-1) {
			return nil, p.errHere("enum value out of range")
		}
		v.Number = int64(n)
		if neg {
			v.Number = -v.Number
		}
		if p.isSym("[") {
			return nil, p.errHere("enum value options are outside the accepted grammar")
		}
		if err := p.expectSym(";"); err != nil {
			return nil, err
		}
		e.Values = append(e.Values, v)
	}
	return e, p.advance()
}

func (p *parser) service() (*Service, *Error) {
	s := &Service{Line: p.tok.line}
	if err := p.advance(); err != nil {
		return nil, err
	}
	var err *Error
	if s.Name, err = p.ident("service name"); err != nil {
		return nil, err
	}
	if err := p.expectSym("{"); err != nil {
		return nil, err
	}
	for !p.isSym("}") {
		switch {
		case p.tok.kind == tEOF:
			return nil, p.errHere("unexpected end of file in service %s (missing '}')", s.Name)
		case p.isSym(";"):
			if err := p.advance(); err != nil {
				return nil, err
			}
		case p.isIdent("rpc"):
			r := &RPC{Line: p.tok.line}
			if err := p.advance(); err != nil {
				return nil, err
			}
			if r.Name, err = p.ident("rpc name"); err != nil {
				return nil, err
			}
			if r.In, r.InStream, err = p.rpcType(); err != nil {
				return nil, err
			}
			if !p.isIdent("returns") {
				return nil, p.errHere("expected \"returns\", found %s", p.tok)
			}
			if err := p.advance(); err != nil {
				return nil, err
			}
			if r.Out, r.OutStream, err = p.rpcType(); err != nil {
				return nil, err
			}
			switch {
			case p.isSym(";"):
				if err := p.advance(); err != nil {
					return nil, err
				}
			case p.isSym("{"):
				if err := p.advance(); err != nil {
					return nil, err
				}
				for p.isSym(";") {
					if err := p.advance(); err != nil {
						return nil, err
					}
				}
				if !p.isSym("}") {
					return nil, p.errHere("rpc options are outside the accepted grammar, found %s", p.tok)
				}
				if err := p.advance(); err != nil {
					return nil, err
				}
			default:
				return nil, p.errHere("expected ';' or '{' after rpc definition, found %s", p.tok)
			}
			s.RPCs = append(s.RPCs, r)
		default:
			return nil, p.errHere("expected rpc or '}', found %s", p.tok)
		}
	}
	return s, p.advance()
}

func (p *parser) rpcType() (string, bool, *Error) {
	if err := p.expectSym("("); err != nil {
		return "", false, err
	}
	stream := false
	if p.isIdent("stream") {
		// "stream" followed by a type is the qualifier; "stream" followed by ")" or "." is a type name
		save, saveTok := *p.lx, p.tok
		if err := p.advance(); err != nil {
			return "", false, err
		}
		if p.tok.kind == tIdent {
			stream = true
		} else if p.isSym(".") {
			// ambiguous: "stream .pkg.T" (qualifier + absolute name) vs "stream.T"; the text decides
			if saveTok.col+len("stream") == p.tok.col && saveTok.line == p.tok.line {
				*p.lx, p.tok = save, saveTok
			} else {
				stream = true
			}
		} else {
			*p.lx, p.tok = save, saveTok
		}
	}
	t, err := p.typeName()
	if err != nil {
		return "", false, err
	}
	if err := p.expectSym(")"); err != nil {
		return "", false, err
	}
	return t, stream, nil
}

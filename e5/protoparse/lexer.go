// Package protoparse is the front end of the stand-in protoc (engine E5): a hand-written,
// strict parser for the subset of the proto3 language that goa's gRPC generator emits, and
// the construction of a descriptorpb.FileDescriptorProto from the parse tree. Anything outside
// the grammar below is a parse error (the real protoc accepts a larger language; the stand-in
// deliberately does not, so that a construct goa never emitted before is noticed).
//
//	file      = syntax { import | package | option | message | enum | service | ";" }
//	syntax    = "syntax" "=" ( "\"proto3\"" | "'proto3'" ) ";"
//	import    = "import" [ "public" ] strLit ";"
//	package   = "package" fullIdent ";"
//	option    = "option" ident "=" ( strLit | ident | intLit ) ";"          (file level only)
//	message   = "message" ident "{" { field | mapField | oneof | message | enum | ";" } "}"
//	field     = [ "optional" | "repeated" ] type ident "=" intLit ";"
//	mapField  = "map" "<" keyType "," type ">" ident "=" intLit ";"
//	oneof     = "oneof" ident "{" { type ident "=" intLit ";" | ";" } "}"
//	enum      = "enum" ident "{" { ident "=" [ "-" ] intLit ";" | ";" } "}"
//	service   = "service" ident "{" { rpc | ";" } "}"
//	rpc       = "rpc" ident "(" [ "stream" ] type ")" "returns" "(" [ "stream" ] type ")" ( ";" | "{" { ";" } "}" )
//	type      = [ "." ] ident { "." ident }
//
// Comments (// and /* */) are skipped. Nothing in this package reads goa's code.
package protoparse

import (
	"fmt"
	"strconv"
	"strings"
)

type tokKind int

const (
	tEOF tokKind = iota
	tIdent
	tInt
	tString
	tSym
)

type token struct {
	kind tokKind
	text string // identifier, symbol, raw integer literal, or the decoded string value
	line int
	col  int
}

func (t token) String() string {
	switch t.kind {
	case tEOF:
		return "end of file"
	case tString:
		return strconv.Quote(t.text)
	}
	return "\"" + t.text + "\""
}

// Error is a syntax or semantic error with a position, formatted like protoc's diagnostics.
type Error struct {
	File string
	Line int
	Col  int
	Msg  string
}

func (e *Error) Error() string {
	if e.Line > 0 {
		return fmt.Sprintf("%s:%d:%d: %s", e.File, e.Line, e.Col, e.Msg)
	}
	return fmt.Sprintf("%s: %s", e.File, e.Msg)
}

type lexer struct {
	file string
	src  string
	pos  int
	line int
	col  int
}

func (l *lexer) errf(line, col int, format string, a ...any) *Error {
	return &Error{File: l.file, Line: line, Col: col, Msg: fmt.Sprintf(format, a...)}
}

func (l *lexer) advance(n int) {
	for i := 0; i < n && l.pos < len(l.src); i++ {
		if l.src[l.pos] == '\n' {
			l.line++
			l.col = 1
		} else {
			l.col++
		}
		l.pos++
	}
}

func isLetter(c byte) bool { return c == '_' || (c >= 'a' && c <= 'z') || (c >= 'A' && c <= 'Z') }
func isDigit(c byte) bool  { return c >= '0' && c <= '9' }

func (l *lexer) skipSpace() *Error {
	for l.pos < len(l.src) {
		c := l.src[l.pos]
		switch {
		case c == ' ' || c == '\t' || c == '\n' || c == '\r' || c == '\f' || c == '\v':
			l.advance(1)
		case strings.HasPrefix(l.src[l.pos:], "//"):
			for l.pos < len(l.src) && l.src[l.pos] != '\n' {
				l.advance(1)
			}
		case strings.HasPrefix(l.src[l.pos:], "/*"):
			line, col := l.line, l.col
			end := strings.Index(l.src[l.pos+2:], "*/")
			if end < 0 {
				return l.errf(line, col, "unterminated block comment")
			}
			l.advance(end + 4)
		default:
			return nil
		}
	}
	return nil
}

func (l *lexer) next() (token, *Error) {
	if err := l.skipSpace(); err != nil {
		return token{}, err
	}
	if l.pos >= len(l.src) {
		return token{kind: tEOF, line: l.line, col: l.col}, nil
	}
	line, col := l.line, l.col
	c := l.src[l.pos]
	switch {
	case isLetter(c):
		start := l.pos
		for l.pos < len(l.src) && (isLetter(l.src[l.pos]) || isDigit(l.src[l.pos])) {
			l.advance(1)
		}
		return token{tIdent, l.src[start:l.pos], line, col}, nil
	case isDigit(c):
		start := l.pos
		for l.pos < len(l.src) && (isLetter(l.src[l.pos]) || isDigit(l.src[l.pos])) {
			l.advance(1)
		}
		if l.pos < len(l.src) && l.src[l.pos] == '.' {
			return token{}, l.errf(line, col, "floating point literals are outside the accepted grammar")
		}
		text := l.src[start:l.pos]
		if !validInt(text) {
			return token{}, l.errf(line, col, "malformed integer literal %q", text)
		}
		return token{tInt, text, line, col}, nil
	case c == '"' || c == '\'':
		s, err := l.lexString(c)
		if err != nil {
			return token{}, err
		}
		return token{tString, s, line, col}, nil
	case strings.IndexByte(";={}()<>,.-[]", c) >= 0:
		l.advance(1)
		return token{tSym, string(c), line, col}, nil
	}
	return token{}, l.errf(line, col, "unexpected character %q", string(rune(c)))
}

// validInt accepts decimal, octal (leading 0) and hexadecimal (0x) literals.
func validInt(s string) bool {
	switch {
	case len(s) > 2 && (s[:2] == "0x" || s[:2] == "0X"):
		for _, c := range s[2:] {
			if !(c >= '0' && c <= '9' || c >= 'a' && c <= 'f' || c >= 'A' && c <= 'F') {
				return false
			}
		}
		return true
	case len(s) > 1 && s[0] == '0':
		for _, c := range s[1:] {
			if c < '0' || c > '7' {
				return false
			}
		}
		return true
	}
	for _, c := range s {
		if c < '0' || c > '9' {
			return false
		}
	}
	return s != ""
}

func hexVal(d byte) int {
	switch {
	case d >= '0' && d <= '9':
		return int(d - '0')
	case d >= 'a' && d <= 'f':
		return int(d-'a') + 10
	case d >= 'A' && d <= 'F':
		return int(d-'A') + 10
	}
	return -1
}

func (l *lexer) lexString(quote byte) (string, *Error) {
	line, col := l.line, l.col
	l.advance(1)
	var sb strings.Builder
	for {
		if l.pos >= len(l.src) || l.src[l.pos] == '\n' {
			return "", l.errf(line, col, "unterminated string literal")
		}
		c := l.src[l.pos]
		if c == 0 {
			return "", l.errf(l.line, l.col, "NUL byte in string literal")
		}
		if c == quote {
			l.advance(1)
			return sb.String(), nil
		}
		if c != '\\' {
			sb.WriteByte(c)
			l.advance(1)
			continue
		}
		l.advance(1)
		if l.pos >= len(l.src) {
			return "", l.errf(line, col, "unterminated string literal")
		}
		e := l.src[l.pos]
		switch e {
		case 'a':
			sb.WriteByte('\a')
		case 'b':
			sb.WriteByte('\b')
		case 'f':
			sb.WriteByte('\f')
		case 'n':
			sb.WriteByte('\n')
		case 'r':
			sb.WriteByte('\r')
		case 't':
			sb.WriteByte('\t')
		case 'v':
			sb.WriteByte('\v')
		case '\\', '\'', '"', '?':
			sb.WriteByte(e)
		case 'x', 'X':
			n, digits := 0, 0
			for digits < 2 && l.pos+1 < len(l.src) {
				v := hexVal(l.src[l.pos+1])
				if v < 0 {
					break
				}
				n = n*16 + v
				digits++
				l.advance(1)
			}
			if digits == 0 {
				return "", l.errf(l.line, l.col, "malformed \\x escape in string literal")
			}
			sb.WriteByte(byte(n))
		case '0', '1', '2', '3', '4', '5', '6', '7':
			n := int(e - '0')
			for digits := 1; digits < 3 && l.pos+1 < len(l.src) && l.src[l.pos+1] >= '0' && l.src[l.pos+1] <= '7'; digits++ {
				n = n*8 + int(l.src[l.pos+1]-'0')
				l.advance(1)
			}
			sb.WriteByte(byte(n))
		default:
			return "", l.errf(l.line, l.col, "invalid escape sequence \\%c in string literal", e)
		}
		l.advance(1)
	}
}

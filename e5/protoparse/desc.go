package protoparse

import (
	"fmt"
	"math"
	"strings"

	"google.golang.org/protobuf/proto"
	"google.golang.org/protobuf/reflect/protoreflect"
	"google.golang.org/protobuf/types/descriptorpb"
)

// Deps gives access to the files that may be imported (the well-known types linked into the
// stand-in, plus anything found on the include path and compiled earlier).
type Deps interface {
	FindFileByPath(string) (protoreflect.FileDescriptor, error)
	FindDescriptorByName(protoreflect.FullName) (protoreflect.Descriptor, error)
}

var scalarTypes = map[string]descriptorpb.FieldDescriptorProto_Type{
	"double":   descriptorpb.FieldDescriptorProto_TYPE_DOUBLE,
	"float":    descriptorpb.FieldDescriptorProto_TYPE_FLOAT,
	"int32":    descriptorpb.FieldDescriptorProto_TYPE_INT32,
	"int64":    descriptorpb.FieldDescriptorProto_TYPE_INT64,
	"uint32":   descriptorpb.FieldDescriptorProto_TYPE_UINT32,
	"uint64":   descriptorpb.FieldDescriptorProto_TYPE_UINT64,
	"sint32":   descriptorpb.FieldDescriptorProto_TYPE_SINT32,
	"sint64":   descriptorpb.FieldDescriptorProto_TYPE_SINT64,
	"fixed32":  descriptorpb.FieldDescriptorProto_TYPE_FIXED32,
	"fixed64":  descriptorpb.FieldDescriptorProto_TYPE_FIXED64,
	"sfixed32": descriptorpb.FieldDescriptorProto_TYPE_SFIXED32,
	"sfixed64": descriptorpb.FieldDescriptorProto_TYPE_SFIXED64,
	"bool":     descriptorpb.FieldDescriptorProto_TYPE_BOOL,
	"string":   descriptorpb.FieldDescriptorProto_TYPE_STRING,
	"bytes":    descriptorpb.FieldDescriptorProto_TYPE_BYTES,
}

// IsScalar reports whether name is a proto3 scalar type keyword.
func IsScalar(name string) bool { _, ok := scalarTypes[name]; return ok }

type symKind int

const (
	symPackage symKind = iota
	symMessage
	symEnum
	symOther // field, oneof, enum value, service, method: occupies the name, is not a type
)

type builder struct {
	f       *File
	deps    Deps
	syms    map[string]symKind // fully-qualified local names (no leading dot)
	visible map[string]bool    // paths of files whose symbols may be referenced
}

func (b *builder) errf(line int, format string, a ...any) error {
	return &Error{File: b.f.Path, Line: line, Col: 1, Msg: fmt.Sprintf(format, a...)}
}

func join(scope, name string) string {
	if scope == "" {
		return name
	}
	return scope + "." + name
}

func (b *builder) declare(full string, k symKind, line int) error {
	if old, ok := b.syms[full]; ok {
		if old == symPackage && k == symPackage {
			return nil
		}
		return b.errf(line, "%q is already defined in file %q", full, b.f.Path)
	}
	b.syms[full] = k
	return nil
}

func (b *builder) declareMessage(scope string, m *Message) error {
	full := join(scope, m.Name)
	if err := b.declare(full, symMessage, m.Line); err != nil {
		return err
	}
	for _, fl := range m.Fields {
		if err := b.declare(join(full, fl.Name), symOther, fl.Line); err != nil {
			return err
		}
	}
	for _, o := range m.Oneofs {
		if err := b.declare(join(full, o.Name), symOther, o.Line); err != nil {
			return err
		}
	}
	for _, fl := range m.Fields {
		if fl.IsMap {
			if err := b.declare(join(full, MapEntryName(fl.Name)), symMessage, fl.Line); err != nil {
				return err
			}
		}
	}
	for _, e := range m.Enums {
		if err := b.declareEnum(full, e); err != nil {
			return err
		}
	}
	for _, n := range m.Nested {
		if err := b.declareMessage(full, n); err != nil {
			return err
		}
	}
	return nil
}

func (b *builder) declareEnum(scope string, e *Enum) error {
	if err := b.declare(join(scope, e.Name), symEnum, e.Line); err != nil {
		return err
	}
	// enum values are siblings of the enum type (C++ scoping rules)
	for _, v := range e.Values {
		if err := b.declare(join(scope, v.Name), symOther, v.Line); err != nil {
			return err
		}
	}
	return nil
}

// lookup finds a fully-qualified name among the local symbols and the visible imports.
func (b *builder) lookup(full string) (symKind, bool) {
	if k, ok := b.syms[full]; ok {
		return k, true
	}
	if b.deps != nil {
		if d, err := b.deps.FindDescriptorByName(protoreflect.FullName(full)); err == nil && b.visible[d.ParentFile().Path()] {
			switch d.(type) {
			case protoreflect.MessageDescriptor:
				return symMessage, true
			case protoreflect.EnumDescriptor:
				return symEnum, true
			}
			return symOther, true
		}
		// package prefixes of visible files
		for p := range b.visible {
			if fd, err := b.deps.FindFileByPath(p); err == nil {
				pkg := string(fd.Package())
				if pkg == full || strings.HasPrefix(pkg, full+".") {
					return symPackage, true
				}
			}
		}
	}
	return 0, false
}

// resolve applies the protocol buffer scoping rules: the first component of a relative name
// is searched from the innermost scope outwards; the scope where it is found decides.
func (b *builder) resolve(name, scope string, line int) (string, symKind, error) {
	if strings.HasPrefix(name, ".") {
		full := name[1:]
		if k, ok := b.lookup(full); ok && (k == symMessage || k == symEnum) {
			return full, k, nil
		}
		return "", 0, b.errf(line, "%q is not defined", name)
	}
	first := name
	if i := strings.IndexByte(name, '.'); i >= 0 {
		first = name[:i]
	}
	for s := scope; ; {
		if k, ok := b.lookup(join(s, first)); ok {
			if first == name {
				if k == symMessage || k == symEnum {
					return join(s, name), k, nil
				}
				// a non-type symbol with that name hides nothing: keep searching outwards
			} else if k == symMessage || k == symEnum || k == symPackage {
				full := join(s, name)
				if k2, ok := b.lookup(full); ok && (k2 == symMessage || k2 == symEnum) {
					return full, k2, nil
				}
				return "", 0, b.errf(line, "%q is resolved to %q, which is not defined", name, full)
			}
		}
		if s == "" {
			break
		}
		if i := strings.LastIndexByte(s, '.'); i >= 0 {
			s = s[:i]
		} else {
			s = ""
		}
	}
	return "", 0, b.errf(line, "%q is not defined", name)
}

// MapEntryName is protoc's name for the implicit entry message of a map field.
func MapEntryName(field string) string {
	var sb strings.Builder
	up := true
	for i := 0; i < len(field); i++ {
		c := field[i]
		switch {
		case c == '_':
			up = true
		case up:
			if c >= 'a' && c <= 'z' {
				c = c - 'a' + 'A'
			}
			sb.WriteByte(c)
			up = false
		default:
			sb.WriteByte(c)
		}
	}
	return sb.String() + "Entry"
}

// JSONName is protoc's default JSON name of a field (lowerCamelCase).
func JSONName(field string) string {
	var sb strings.Builder
	up := false
	for i := 0; i < len(field); i++ {
		c := field[i]
		switch {
		case c == '_':
			up = true
		case up:
			if c >= 'a' && c <= 'z' {
				c = c - 'a' + 'A'
			}
			sb.WriteByte(c)
			up = false
		default:
			sb.WriteByte(c)
		}
	}
	return sb.String()
}

// Descriptor builds the file descriptor of a parsed file. It performs the checks of protoc
// that need the parse tree (name resolution, imports, number ranges that do not fit the
// descriptor, the reserved range 19000-19999, JSON name conflicts); everything else is left
// to protodesc.NewFile, which the caller must run on the result.
func Descriptor(f *File, deps Deps) (*descriptorpb.FileDescriptorProto, error) {
	b := &builder{f: f, deps: deps, syms: map[string]symKind{}, visible: map[string]bool{}}
	fd := &descriptorpb.FileDescriptorProto{
		Name:   proto.String(f.Path),
		Syntax: proto.String("proto3"),
	}
	if f.Package != "" {
		fd.Package = proto.String(f.Package)
		parts := strings.Split(f.Package, ".")
		for i := range parts {
			_ = b.declare(strings.Join(parts[:i+1], "."), symPackage, 0)
		}
	}
	// options
	seenOpt := map[string]bool{}
	for _, o := range f.Options {
		if seenOpt[o.Name] {
			return nil, b.errf(o.Line, "option %q was already set", o.Name)
		}
		seenOpt[o.Name] = true
		switch o.Name {
		case "go_package":
			if o.Kind != "string" {
				return nil, b.errf(o.Line, "value must be quoted string for string option \"google.protobuf.FileOptions.go_package\"")
			}
			if fd.Options == nil {
				fd.Options = &descriptorpb.FileOptions{}
			}
			fd.Options.GoPackage = proto.String(o.Value)
		default:
			return nil, b.errf(o.Line, "option %q is outside the accepted grammar (only go_package is accepted)", o.Name)
		}
	}
	// imports
	seenImp := map[string]bool{}
	for i, im := range f.Imports {
		if seenImp[im.Path] {
			return nil, b.errf(im.Line, "import %q was listed twice", im.Path)
		}
		seenImp[im.Path] = true
		if im.Path == f.Path {
			return nil, b.errf(im.Line, "file recursively imports itself: %s", im.Path)
		}
		var dep protoreflect.FileDescriptor
		if deps != nil {
			dep, _ = deps.FindFileByPath(im.Path)
		}
		if dep == nil {
			return nil, b.errf(im.Line, "import %q was not found or had errors", im.Path)
		}
		fd.Dependency = append(fd.Dependency, im.Path)
		if im.Public {
			fd.PublicDependency = append(fd.PublicDependency, int32(i))
		}
		b.addVisible(dep)
	}
	// declarations
	for _, m := range f.Messages {
		if err := b.declareMessage(f.Package, m); err != nil {
			return nil, err
		}
	}
	for _, e := range f.Enums {
		if err := b.declareEnum(f.Package, e); err != nil {
			return nil, err
		}
	}
	for _, s := range f.Services {
		if err := b.declare(join(f.Package, s.Name), symOther, s.Line); err != nil {
			return nil, err
		}
		for _, r := range s.RPCs {
			if err := b.declare(join(join(f.Package, s.Name), r.Name), symOther, r.Line); err != nil {
				return nil, err
			}
		}
	}
	for _, m := range f.Messages {
		md, err := b.message(f.Package, m)
		if err != nil {
			return nil, err
		}
		fd.MessageType = append(fd.MessageType, md)
	}
	for _, e := range f.Enums {
		ed, err := b.enum(e)
		if err != nil {
			return nil, err
		}
		fd.EnumType = append(fd.EnumType, ed)
	}
	for _, s := range f.Services {
		sd := &descriptorpb.ServiceDescriptorProto{Name: proto.String(s.Name)}
		for _, r := range s.RPCs {
			md := &descriptorpb.MethodDescriptorProto{Name: proto.String(r.Name)}
			for i, tn := range []string{r.In, r.Out} {
				full, k, err := b.resolve(tn, join(f.Package, s.Name), r.Line)
				if err != nil {
					return nil, err
				}
				if k != symMessage {
					return nil, b.errf(r.Line, "%q is not a message type", tn)
				}
				if i == 0 {
					md.InputType = proto.String("." + full)
				} else {
					md.OutputType = proto.String("." + full)
				}
			}
			if r.InStream {
				md.ClientStreaming = proto.Bool(true)
			}
			if r.OutStream {
				md.ServerStreaming = proto.Bool(true)
			}
			sd.Method = append(sd.Method, md)
		}
		fd.Service = append(fd.Service, sd)
	}
	return fd, nil
}

func (b *builder) addVisible(fd protoreflect.FileDescriptor) {
	if b.visible[fd.Path()] {
		return
	}
	b.visible[fd.Path()] = true
	imps := fd.Imports()
	for i := 0; i < imps.Len(); i++ {
		if imps.Get(i).IsPublic && imps.Get(i).FileDescriptor != nil {
			b.addVisible(imps.Get(i).FileDescriptor)
		}
	}
}

func (b *builder) enum(e *Enum) (*descriptorpb.EnumDescriptorProto, error) {
	ed := &descriptorpb.EnumDescriptorProto{Name: proto.String(e.Name)}
	if len(e.Values) == 0 {
		return nil, b.errf(e.Line, "enums must contain at least one value")
	}
	for _, v := range e.Values {
		ed.Value = append(ed.Value, &descriptorpb.EnumValueDescriptorProto{Name: proto.String(v.Name), Number: proto.Int32(int32(v.Number))})
	}
	return ed, nil
}

func (b *builder) fieldType(fdp *descriptorpb.FieldDescriptorProto, typeName, scope string, line int) (symKind, error) {
	if t, ok := scalarTypes[typeName]; ok {
		fdp.Type = t.Enum()
		return symOther, nil
	}
	full, k, err := b.resolve(typeName, scope, line)
	if err != nil {
		return 0, err
	}
	fdp.TypeName = proto.String("." + full)
	if k == symEnum {
		fdp.Type = descriptorpb.FieldDescriptorProto_TYPE_ENUM.Enum()
	} else {
		fdp.Type = descriptorpb.FieldDescriptorProto_TYPE_MESSAGE.Enum()
	}
	return k, nil
}

func (b *builder) message(scope string, m *Message) (*descriptorpb.DescriptorProto, error) {
	full := join(scope, m.Name)
	md := &descriptorpb.DescriptorProto{Name: proto.String(m.Name)}
	oneofIdx := map[string]int32{}
	for _, o := range m.Oneofs {
		if len(o.Fields) == 0 {
			return nil, b.errf(o.Line, "oneof %q must have at least one field", o.Name)
		}
		oneofIdx[o.Name] = int32(len(md.OneofDecl))
		md.OneofDecl = append(md.OneofDecl, &descriptorpb.OneofDescriptorProto{Name: proto.String(o.Name)})
	}
	jsonSeen := map[string]string{}
	var synthetic []*descriptorpb.FieldDescriptorProto
	for _, fl := range m.Fields {
		if fl.Number > math.MaxInt32 {
			return nil, b.errf(fl.Line, "field %q: field numbers cannot be greater than 536870911 (got %d)", fl.Name, fl.Number)
		}
		if fl.Number >= 19000 && fl.Number <= 19999 {
			return nil, b.errf(fl.Line, "field %q: field numbers 19000 through 19999 are reserved for the protocol buffer library implementation (got %d)", fl.Name, fl.Number)
		}
		jn := JSONName(fl.Name)
		if other, ok := jsonSeen[strings.ToLower(jn)]; ok && other != fl.Name {
			// protoc: error in proto3 (the JSON mapping would be ambiguous)
			return nil, b.errf(fl.Line, "the default JSON name of field %q (%q) conflicts with field %q", fl.Name, jn, other)
		}
		jsonSeen[strings.ToLower(jn)] = fl.Name
		fdp := &descriptorpb.FieldDescriptorProto{
			Name:     proto.String(fl.Name),
			Number:   proto.Int32(int32(fl.Number)),
			JsonName: proto.String(jn),
			Label:    descriptorpb.FieldDescriptorProto_LABEL_OPTIONAL.Enum(),
		}
		switch {
		case fl.IsMap:
			entry := &descriptorpb.DescriptorProto{
				Name:    proto.String(MapEntryName(fl.Name)),
				Options: &descriptorpb.MessageOptions{MapEntry: proto.Bool(true)},
			}
			kf := &descriptorpb.FieldDescriptorProto{Name: proto.String("key"), Number: proto.Int32(1), JsonName: proto.String("key"), Label: descriptorpb.FieldDescriptorProto_LABEL_OPTIONAL.Enum()}
			if !IsScalar(fl.MapKey) {
				// protoc: "Key in map fields cannot be float/double, bytes or message types." / enum types
				if _, k, err := b.resolve(fl.MapKey, full, fl.Line); err == nil {
					what := "message"
					if k == symEnum {
						what = "enum"
					}
					return nil, b.errf(fl.Line, "field %q: key in map fields cannot be %s types", fl.Name, what)
				}
				return nil, b.errf(fl.Line, "field %q: map key type %q is not defined", fl.Name, fl.MapKey)
			}
			kf.Type = scalarTypes[fl.MapKey].Enum()
			vf := &descriptorpb.FieldDescriptorProto{Name: proto.String("value"), Number: proto.Int32(2), JsonName: proto.String("value"), Label: descriptorpb.FieldDescriptorProto_LABEL_OPTIONAL.Enum()}
			if _, err := b.fieldType(vf, fl.MapValue, full, fl.Line); err != nil {
				return nil, err
			}
			entry.Field = []*descriptorpb.FieldDescriptorProto{kf, vf}
			md.NestedType = append(md.NestedType, entry)
			fdp.Label = descriptorpb.FieldDescriptorProto_LABEL_REPEATED.Enum()
			fdp.Type = descriptorpb.FieldDescriptorProto_TYPE_MESSAGE.Enum()
			fdp.TypeName = proto.String("." + join(full, entry.GetName()))
		default:
			if _, err := b.fieldType(fdp, fl.Type, full, fl.Line); err != nil {
				return nil, err
			}
			switch fl.Label {
			case "repeated":
				fdp.Label = descriptorpb.FieldDescriptorProto_LABEL_REPEATED.Enum()
			case "optional":
				fdp.Proto3Optional = proto.Bool(true)
				synthetic = append(synthetic, fdp)
			}
			if fl.Oneof != "" {
				fdp.OneofIndex = proto.Int32(oneofIdx[fl.Oneof])
			}
		}
		md.Field = append(md.Field, fdp)
	}
	// synthetic oneofs of proto3 optional fields come after the real ones; protoc names them
	// "_" + field name, adding "X" prefixes until the name is free
	for _, fdp := range synthetic {
		name := "_" + fdp.GetName()
		for {
			if _, taken := b.syms[join(full, name)]; !taken {
				break
			}
			name = "X" + name
		}
		b.syms[join(full, name)] = symOther
		fdp.OneofIndex = proto.Int32(int32(len(md.OneofDecl)))
		md.OneofDecl = append(md.OneofDecl, &descriptorpb.OneofDescriptorProto{Name: proto.String(name)})
	}
	for _, e := range m.Enums {
		ed, err := b.enum(e)
		if err != nil {
			return nil, err
		}
		md.EnumType = append(md.EnumType, ed)
	}
	for _, n := range m.Nested {
		nd, err := b.message(full, n)
		if err != nil {
			return nil, err
		}
		md.NestedType = append(md.NestedType, nd)
	}
	return md, nil
}

#!/usr/bin/env python3
"""Writes MANIFEST.json from the table below (single source of truth for the interface)."""
import json

CHECKS = {

 "C07": dict(
  engine="E2+E6",
  technique="bounded exhaustive enumeration of designs; independent validators (kin-openapi + hand-written Swagger 2.0 / OpenAPI 3.0.3 structural checkers) on the generated documents; recording muxer on the real generated Mount; comparison with a reference layout derived from the design data only",
  text="For every linked design of every E2 family plus a route-feature family (all nine verbs, several routes per endpoint, API/service base paths incl. path parameters, trailing slashes, absolute routes, wildcards, file servers, security inheritance with NoSecurity), the four generated documents are checked: openapi3.json loads and validates with an independent validator plus the OpenAPI 3.0.3 MUSTs it omits, openapi.json decodes, converts and validates and passes a structural checker written from the Swagger 2.0 text, JSON and YAML decode to identical content; the multiset of (verb, pattern) pairs every generated Mount registers on a recording muxer equals the operations of each document in both directions; per route and document the documented (name, in, required) parameters, request body presence, status codes and security requirements equal the designed layout. Exhaustive within the envelope.",
  design_ref="DESIGN.md section 3 C07, section 2 E6",
  note="Examples are not validated (SHOULD); CONNECT, and TRACE/cookie parameters/bearer schemes in Swagger 2.0, are inexpressible and not demanded; credential attributes may be documented as parameters or only through their scheme; scopes and schemas are not compared (C14); compile-only families are checked without the mount-set comparison; that the server agrees with the designed layout is C02/C04's subject.",
 ),
 "C14": dict(
  engine="E2+E6",
  technique="bounded exhaustive enumeration of (design, value / malformed encoding / returned result or error) executed end to end through generated client and server; differential comparison between the server's decision and kin-openapi's openapi3filter on the generated document",
  text="For every request C04 sends (both sides of every validation boundary, type menus, unset, plus hand-built malformed encodings) the http.Request exactly as the generated server parsed it is validated by an independent OpenAPI 3 request validator against the operation of openapi3.json, and the verdict must equal the server's decision (user code invoked <=> accepted), both directions; every success response for every valid result value and every declared-error response must validate against the documented response of its status code; operations documented through a schema shared with a differently constrained operation are reported and the body-located cases are re-run one method per design. Exhaustive within the envelope.",
  design_ref="DESIGN.md section 3 C14, section 2 E6",
  note="Format keywords are judged by constructive tables registered in the validator; integers beyond 2^53, C02/C03 delivery classes and nil-vs-empty collections are excluded; authentication is not evaluated; a JSON media type different from the single documented one is validated against that schema and only counted.",
 ),

 "C09": dict(
  engine="E2+E4",
  technique="bounded exhaustive enumeration of (design, map-iteration-order deviation) pairs on generators instrumented at check time (every range over a map under a controller, one fresh process per deviation); same-process and fresh-process repetition; explicit-state BFS over output-directory histories with the real goa CLI",
  text="From the current tree every `for ... range m` over a map in the packages linked into a generator is found by type-checking (58 sites) and rewritten through go build -overlay so that a controller chooses the key order. For every selected design a baseline (all maps ascending) is compared byte for byte with one fresh generator process (gen + example) per reached site x order: every permutation for <= 4 keys, reverse/rotate/swap beyond, and two orders that change between visits; thorough adds all designs of all E2 families and pairs of hasher/openapi sites. Every design is also generated twice in one process and in 2-5 uninstrumented processes. The real goa CLI (built from /repo) is driven through ALL histories of length <= 4 (thorough 5) over {gen, example, edit an example file, delete an example file, delete a gen file, add a stray file} on three designs (one with -o), states deduplicated by directory digest: after gen, gen/ must equal the fresh-directory output; example must leave bytes and mtime of every existing file untouched and recreate only missing files; gen never touches example files.",
  design_ref="DESIGN.md section 3 C09, section 2 E4-c",
  note="External protoc is replaced by a deterministic stand-in in the generator workers; gRPC is not run through the CLI; 9 static sites cannot be driven with two keys (dead code, one-entry tables; listed in the evidence); bound 2 is 'both reversed' only; plugins are not covered.",
 ),

 "C13": dict(
  engine="E1",
  technique="exhaustive enumeration of type graphs (constructor grammar with cycles, all member permutations, metadata/validation decorations, all 8 hash flag combinations) on the real Dup/DupAtt/Hash/Equal; map-iteration-order seam by go build -overlay rewriting of expr/hasher.go; reference canonical forms and reflective snapshots",
  text="All type graphs of a constructor grammar (primitives, arrays, maps, objects, unions, user and result types with views, guarded and unguarded cycles over two definitions; every permutation of object attributes and union alternatives up to 4; 10 metadata sets; validations, defaults, examples, bases/references) are built through the expr API. Copy oracle: Equal(Dup(t), t), equal Hash under all 8 flag combinations, and for EVERY reflectively found mutation site of the copy (field sets, pointer write-through, slice/map element edits, the mutating methods) an independently written snapshot of the original must be unchanged. Hash oracle (two-sided, never stricter than the documentation): same strict canonical form => same hash, same hash => loosely equal, decided for all pairs in O(n) through canonical-form maps. Stability: expr/hasher.go is rewritten at check time so that every range over a map takes its key order from a controller; every permutation (<= 4 keys) of every visit must give the same hash. Termination in child processes.",
  design_ref="DESIGN.md section 3 C13",
  note="Widths bounded by one-hole contexts; thorough independence phase needs ~170 CPU-minutes and reports a cap through exhaustive:false when the budget is hit.",
 ),

 "C10": dict(
  engine="E2+E5",
  technique="bounded exhaustive enumeration of (gRPC design, value / message sequence) pairs: real goa generators with a stand-in protoc, independent re-parse of the .proto files, generated client and server executed against each other over grpc/bufconn, compared with a reference validator and equality model",
  text="For every accepted design of the gRPC families (every mappable primitive, arrays, maps over every key kind, nested collections, aliases, user types, self-reference, OneOf; field numbers incl. gaps, extremes, reserved range, duplicates; Metadata/Headers/Trailers partition; the four streaming kinds; validation keyword by position) the generator must succeed with the stand-in protoc (strict proto3 parser + protodesc.NewFile, the protobuf project's own validator); the check re-parses each .proto and asserts designed field numbers, uniqueness of numbers and names per message, one rpc per method and the designed stream qualifiers. Every candidate value (complete product for <= 2 attributes) is classified by the reference validator and sent generated client -> grpc.ClientConn -> bufconn -> grpc.Server -> generated server -> stub: valid payloads/results must arrive equal with metadata under the designed key, invalid ones must not reach user code. Streaming: all sequences of length 0-2 (thorough 0-3) per direction. Exhaustive within the envelope.",
  design_ref="DESIGN.md section 3 C10, section 2 E5",
  note="protoc and protoc-gen-go-grpc are stand-ins (messages are genuine protoc-gen-go output generated in-process); only the gen command is run; metadata values are printable ASCII; gRPC errors, views and security are not covered.",
 ),
 "C16": dict(
  engine="E1",
  technique="exhaustive enumeration of pattern sets x URL universe (escaped values substituted into every pattern, parsed by net/http's request parser) on the real Muxer against a reference segment matcher",
  text="All patterns of 1-3 segments over {a, b, {x}, {y}, trailing {*w}/{*v}} x {GET, POST}; every legal set of 1-2 registrations over the full alphabet (size 3 over a reduced one; thorough: size 3 over a middle alphabet and sizes 4-6 over the reduced one) is mounted on the real goa Muxer and driven with every URL obtained by substituting url.PathEscape'd values from the string menu (percent look-alikes, slashes, plus, space, non-ASCII, empty and multi-segment catch-alls) into every pattern, parsed by http.ReadRequest, with middlewares that resolve the pattern before/after routing. Oracle: the handler reached is registered for the method and a pattern the reference matcher accepts, invoked once; Vars returns exactly the declared names with once-decoded values; ResolvePattern equals the registered string; unmatched requests get a 404 with a body decodable per its Content-Type. Plus a real httptest.Server pass.",
  design_ref="DESIGN.md section 3 C16",
  note="Which of several matching patterns wins, the status on a method mismatch and trailing-slash behaviour are not asserted (the statement is silent); Use after Handle panics inside chi and is recorded only.",
 ),

 "C11": dict(
  engine="E1",
  technique="exhaustive enumeration of dependency graphs x registration orders x per-root behaviours on the real eval.Context / RunDSL, against independent topological-order and phase-barrier definitions",
  text="Logging test roots and expressions (Root, Source, Preparer, Validator, Finalizer) are run through the real eval.Register / Context.Roots / RunDSL for EVERY directed graph without self-loops on up to 4 roots x every registration order, all DAGs on 5 roots x all orders, self-dependency graphs, and every behaviour vector from a 16-entry menu (append expressions to same/later/earlier sets, register roots while executing with and without dependencies, errors in DSL and Validate phases) on up to 3 roots; thorough adds one-back-edge graphs on 5 roots and all 3.78M labelled DAGs on 6 roots. Oracle: each root once, dependencies first, cycles reported with zero callbacks, global phase barrier over the callback log, appended expressions and registered roots receive all phases, all errors of a phase returned together, no finalize after failure.",
  design_ref="DESIGN.md section 3 C11",
  note="Dependencies only name registered roots; behaviour after a failed DSL phase other than 'no finalize' is not asserted (the statement is silent).",
 ),
 "C12": dict(
  engine="E1",
  technique="exhaustive enumeration of DSL call trees (context x function x argument menus built by reflection from the dsl package's own signatures) executed on the real engine in worker processes under recover and a watchdog",
  text="The table of all exported goa DSL functions is generated at check time from /repo/dsl by go/parser; every function is called in each of 47 contexts (complete valid designs with one hole) with the complete product of per-type argument menus (depth 1, about 2M programs), every ordered pair per context with vectors chosen per distinct depth-1 outcome (depth 2), thorough adds triples, plus dangling-reference and (mutually) recursive type families. Each program must end accepted or with a non-empty list of located errors: never a panic, a dead process or a hang; an accepted design of the dangling family must not contain the never-defined name.",
  design_ref="DESIGN.md section 3 C12",
  note="Argument values outside the menus and nesting deeper than the scaffolds are not covered; depth-2/3 vectors are selected from depth-1 outcome classes rather than full menus.",
 ),

 "C17": dict(
  engine="E1+E3",
  technique="exhaustive enumeration of constructive format grammars / pattern x value products / call histories, plus stateless DFS over all thread interleavings of the real ValidatePattern under a controlled scheduler with a happens-before race oracle",
  text="Inputs: per format a constructive grammar of valid instances enumerated completely to a size bound and single-point corruptions that are invalid by construction, each checked against the real ValidateFormat (plus ip <=> ipv4 xor ipv6); every regular expression of a small grammar x every string up to length 4 against regexp.MatchString. Histories: every call sequence up to length 3 over pattern triples must give history-independent verdicts. Schedules: 2-3 threads x 1-2 ValidatePattern calls on same/different patterns, ALL interleavings for two threads (preemption bound 2-3 otherwise) on the real code instrumented through go build -overlay (sync shim + shared-access hooks), with a vector-clock happens-before race oracle on the pattern cache, the invariant cache[p] compiles p, and a differential per-thread oracle.",
  design_ref="DESIGN.md section 3 C17, section 2 E3/E4",
  note="Strings whose validity is genuinely ambiguous under the named standard are neutral (listed in the evidence assumptions); 4+ threads only at bound 2; weaker-than-SC effects are subsumed by the happens-before oracle.",
 ),
 "C20": dict(
  engine="E3+E2",
  technique="stateless DFS over thread interleavings (iterative preemption bounding; all interleavings by sleep sets in thorough) of the real runtime helpers AND of generated servers/clients under a cooperative scheduler, happens-before race oracle + differential per-request oracle",
  text="goa's runtime packages (pkg, http, http/middleware, middleware) and, for family B, every generated service/views/server/client package of a dedicated corpus are instrumented at check time from /repo's working tree (go build -overlay: sync/atomic shims as scheduling points, automatic read/write hooks on package-level variables, closure-captured variables, receiver fields and their map/slice elements). Family A: 2-3 virtual threads x 1-2 operations on ErrorEncoder closures, ResponseEncoder, Muxer ServeHTTP/Vars/Handle/Use, a request pipeline, ValidatePattern, samplers, MergeErrors. Family B: on 6 (thorough 9) freshly mounted generated servers covering every handler shape (path+query+header+body payloads with validations, views, content negotiation, declared/undeclared errors) two threads each issue one request through the generated client over the in-memory wire: 186 request pairs (thorough: all 1575 pairs in ALL interleavings, 98 triples). Every schedule with <= 2 preemptions is executed to completion and checked for happens-before data races, deadlock, panics, and that every request's status, headers, body, received payload and decoded client result equal its sequential reference (nothing leaks between in-flight requests). A free-running -race pass with 64 goroutines is recorded, not deciding.",
  design_ref="DESIGN.md section 3 C20, section 2 E3/E4",
  note="More than 3 threads only in the auxiliary -race pass; streaming/WebSocket/SkipResponseWriter paths and gRPC are not explored (blocking in uninstrumented primitives); chi, net/http, encoding/* and the harness run as opaque steps; writes that uninstrumented code performs through a handed-off pointer are seen by the differential oracle and the -race pass only.",
 ),

 "C05": dict(
  engine="E2",
  technique="bounded exhaustive enumeration of (error design, returned error) pairs executed end to end against reference status/flag tables",
  text="For every error design (level method/service/API/none x type default ErrorResult / shared object type with error-name attribute / header-mapped attribute / primitive x distinct or shared status x DSL flags) the stub returns every declared error (Make constructor, all 8 flag combinations, wrapped) and the whole undeclared menu (service errors with all 8 flag combinations and special names, goa constructors, plain and wrapped errors); the wire must carry the designed status/headers/body, the generated client must return an error with the same name and attribute values, undeclared errors must follow the documented default table, and exactly one well-formed response is written. Exhaustive within the envelope.",
  design_ref="DESIGN.md section 3 C05",
  note="Request-decoding failures with standard names are exercised by C04's malformed-encoding cases; the in-memory wire of C02 is used.",
 ),
 "C06": dict(
  engine="E2",
  technique="bounded exhaustive enumeration of requirement structures x all 2^k accept/reject vectors of the authorization callbacks x credential menu, executed end to end against an OR-of-ANDs reference",
  text="For every requirement structure (1-3 alternatives of 1-2 schemes over Basic, APIKey header/query, JWT, OAuth2) declared at method, service or API level, with method override, NoSecurity and service-over-API, explicit and implicit credential mapping, every accept/reject vector of the recording Auther's callbacks and every credential set is executed through generated client and server: user code must run exactly when the reference OR-of-ANDs is true, every callback that ran must have received the designed credential (scheme prefix removed for bearer tokens), the scheme name, declared scopes and the required scopes of an effective requirement, unsecured methods must run with zero callbacks, and a failing caller must receive the callback's error. Exhaustive within the envelope.",
  design_ref="DESIGN.md section 3 C06",
  note="Credentials are always present and non-empty (empty credentials are C02 delivery classes); the order in which alternatives are tried is not asserted.",
 ),
 "C08": dict(
  engine="E2",
  technique="bounded exhaustive enumeration of (result type with views, value, view name / tampered label) executed end to end against a reference projection",
  text="For result types with 1-3 views (every non-empty attribute subset as second view, nested result types with per-view overrides incl. arrays, collection, fixed view, single view), every value of the menu and every view name the stub can return (each defined, empty, undefined) plus every rewriting of the goa-view label on the wire (each defined, undefined, removed), the JSON keys on the wire and the fields set on the client value must be exactly the reference projection (recursively), the goa-view header must name the rendered view, and a response labelled with an undefined view must be refused by the client. Exhaustive within the envelope.",
  design_ref="DESIGN.md section 3 C08",
  note="When the service itself returns an undefined view only fail-safe behaviour is required; relabelling with another defined view is recorded, not asserted.",
 ),

 "C01": dict(
  engine="E2",
  technique="bounded exhaustive enumeration of designs (complete products over a design grammar), each generated by the real goa generators in a fresh process and type-checked with go build",
  text="Every design of every E2 family (complete product type x location x requiredness on request and response side, ordered attribute pairs, status/tag responses, every validation keyword x nesting position x location, and the deep type-structure families: OneOf unions, nesting depth 2-3, mutually recursive types, Reference inheritance, non-object whole bodies, validations at inner positions) that goa's DSL evaluation accepts is generated with the real gen and example generators in a fresh process and every generated package is compiled (go build -gcflags=-e) against /repo's runtime packages; diagnostics are attributed to the design method whose generated function contains them. Exhaustive within the stated design envelope, so a template/type combination that yields uncompilable code is found; the suite never compiles generated code.",
  design_ref="DESIGN.md section 3 C01, section 2 E2",
  note="Envelope = the families listed in the evidence notes; example code is compiled against a signature-compatible stub of goa.design/clue (not available offline); plugins and designs outside the envelope are not covered.",
 ),
 "C02": dict(
  engine="E2",
  technique="bounded exhaustive enumeration of (design, payload value) pairs executed through generated client -> in-memory HTTP wire -> generated server -> stub, compared with a reference model of locations and defaults",
  text="For every accepted design of the L1 request families (complete product type x location x requiredness; ordered pairs over a reduced menu) and every valid payload value of the boundary menus (complete product per method), the payload handed to the generated client endpoint is compared with the payload received by the stub service behind the generated server, and the tapped server-side http.Request is checked attribute by attribute against the designed location (path segment, query key, header, cookie, JSON body key) and for undesigned query/body keys; a structural-feature family (all verbs, multiple routes, catch-all, map params, Body(attr)/Body(func), empty body, content types, primitive payloads) is driven the same way, and so is the deep type-structure family of JSON bodies (OneOf unions of primitives / user types / aliases as required and optional attributes, inside user types and arrays; user type in user type in array, maps of user types and of arrays of them, arrays of arrays and of maps, one type at several positions, mutually recursive types, defaults and required attributes inside optional inner objects; arrays, maps and primitive aliases as the whole body), where a union must travel as an object with the keys Type (alternative name) and Value (JSON text of its value). In the thorough tier the same oracle is extended to HTTP (WebSocket) streaming endpoints (server, client, bidirectional and payload-carrying kinds x object, user type, string, int, array<string> elements) over loopback sockets: for every request sequence of length 0-3 over a 3-value alphabet (complete, plus every boundary value as a single message; bidirectional: complete product with the reply sequences under three fixed schedules) the scripted stub service must receive exactly the client messages in order followed by io.EOF, and the initial payload must arrive equal and in its designed location. In both tiers an operation-sequence family runs services that mix unary and WebSocket streaming methods (unary GET with path and query parameters, POST with a body, PUT with headers and cookies, server, client and bidirectional streaming): every sequence of operations (method x {every attribute set, only required attributes with other values}) of length <= 3 (thorough <= 4) is executed in a fresh process on ONE generated client object and ONE mounted generated server over real sockets (net/http client and gorilla dialer against a server on a unix domain socket), and the request-side observation of its last operation (service invoked once, payload received, request line, headers, body, streamed messages delivered to the service) must equal the observation of the same operation executed alone on a fresh pair, so that state a call leaves in the client object, in the server and its handlers, or in package-level variables is detected. Exhaustive within the envelope; both halves of the generated code are executed against each other, which no golden test does.",
  design_ref="DESIGN.md section 3 C02, section 2 E2",
  note="In-memory wire (http.Request.Write -> http.ReadRequest -> goa muxer on a recorder) instead of sockets; equality normalisations listed in the evidence assumptions; the streaming family is driven in the thorough tier only, the operation-sequence family (real sockets) in both; multipart not driven.",
 ),
 "C03": dict(
  engine="E2",
  technique="bounded exhaustive enumeration of (design, result value) pairs executed through stub -> generated server -> wire -> generated client, compared with a reference model of status selection, locations and defaults",
  text="For every accepted design of the L1 response families, the status/tag family and the deep type-structure family of JSON bodies (same shape menu as C02 on the result side) and every valid result value (complete product per method), the result returned by the stub service is compared with the value returned by the generated client endpoint; the status code must be the one the reference selects (first response whose tag matches, else the untagged one), every attribute must sit in its designed header/cookie/body position, and exactly one WriteHeader is issued; XML/gob/text content types are compared by value. Thorough tier: for WebSocket streaming endpoints every reply sequence of length 0-3 must reach the client in order followed by io.EOF (including the empty stream), and the final result of client-streaming endpoints must arrive equal. In both tiers the operation-sequence family of C02 (services mixing unary and WebSocket streaming methods, every sequence of operations of length <= 3, thorough <= 4, one fresh process per sequence on one generated client object and one mounted server over a unix domain socket) is run with the response-side observation: status, response headers and body, result or error returned by the client endpoint, messages delivered by the client stream and the final result of a client stream of the last operation must equal those of the same operation executed alone on a fresh pair. Exhaustive within the envelope.",
  design_ref="DESIGN.md section 3 C03, section 2 E2",
  note="Same trusted base as C02; viewed results are covered by C08; the streaming family is driven in the thorough tier only, the operation-sequence family in both.",
 ),
 "C04": dict(
  engine="E2",
  technique="bounded exhaustive enumeration of (design, boundary value / malformed encoding) pairs executed end to end, verdicts compared with an independent reference validator",
  text="For every validation keyword x nesting position x location x requiredness design, every keyword x deep position design (field of a user type inside arrays, maps, other user types, mutually recursive types and OneOf alternatives; elements of nested collections; attributes inherited through Reference; arrays, maps and primitive aliases as the whole body; both request and response side) and every value on both sides of every boundary (classified by a reference validator written independently of goa), the stub service must be invoked exactly when the reference finds no violated constraint; a violating request must be answered 4xx with the violated rule's standard error name; hand-built malformed wire encodings (non-numeric text, overflow, wrong JSON type, invalid JSON, empty body, null for required) must be rejected before user code; constraint-violating results returned by the stub must be refused by the generated client. Exhaustive within the envelope.",
  design_ref="DESIGN.md section 3 C04, section 2 E2",
  note="Values whose delivery itself fails for C02 reasons (empty string outside the body, '/', '%' in path values) and values where nil vs empty collection makes requiredness undecidable are left out (counted in the evidence); format validity comes from constructive tables.",
 ),
 "C15": dict(
  engine="E1",
  technique="complete product enumeration of Accept x designed content type x pre-set header x value on the real encoders/decoders, round-trip oracle against reference codecs",
  text="The complete product of the Accept menu, designed content types (ContentTypeKey), pre-set response Content-Type headers and encodable values is run through the real ResponseEncoder exactly as generated handlers call it, and the recorded response must decode through ResponseDecoder (selected by the header the encoder set) to the original value; fallbacks must be JSON; no panic. Request side: Content-Type x body through RequestDecoder, unsupported media types must map to 415. Exhaustive over the stated menus.",
  design_ref="DESIGN.md section 3 C15",
  note="Only the default encoders/decoders; q-value semantics are not asserted (goa ignores q, the statement is silent).",
 ),
 "C19": dict(
  engine="E1",
  technique="complete product enumeration of middleware options x inbound values x every answer of the random source, explicit enumeration of call chains up to depth 4, handler behaviour sequences for response capture",
  text="Request-ID: every option list x limit x inbound value x transport (HTTP, gRPC unary, gRPC stream) against a reference function of the options. Tracing: sampling rates x every answer 0..99 of the random source (seam through a verif-tagged export file added by go build -overlay) so 0% and 100% are decided exactly; inbound trace shapes; all 4^d hop-kind chains up to depth 4 with the invariants one trace per chain, parent(i+1)=span(i), fresh spans. ResponseCapture: every handler behaviour sequence up to length 3 against the recorder. Exhaustive within the stated bounds.",
  design_ref="DESIGN.md section 3 C19",
  note="crypto/rand is replaced by a counter for ID freshness; adaptive sampling decisions depend on the clock and are recorded, not asserted.",
 ),
 "C18": dict(
  engine="E1",
  technique="bounded exhaustive enumeration of merge sequences x parenthesisations on the real MergeErrors against a reference fold; exhaustive status tables",
  text="Every sequence of error atoms (service errors with all 8 flag combinations, generic/specific names, with/without field and cause, plain and wrapped errors, nil) up to length 5 (thorough: 8) is merged through the real goa.MergeErrors under every parenthesisation and compared with an independent reference fold (message join, flag conjunction, first specific name, history = the original atoms unchanged, causes reachable, nil identity); the HTTP and gRPC status tables are enumerated completely (13 names x 8 flags x wrapped/unwrapped) and every error is round-tripped through EncodeError/DecodeError. Exhaustive within the stated bound, so a law broken for any small sequence/grouping is found.",
  design_ref="DESIGN.md section 3 C18",
  note="Atoms outside the alphabet (custom error types implementing only GoaErrorNamer, sequences longer than 8) are not covered; wrapped service errors are identified with the wrapped error.",
 ),
}

# Widenings made after the first version of each check (appended to the level text).
ADD = {
 "C01": " Later widenings: identifier-stress families; deep-type families (OneOf unions, 2-3 levels of nesting, Reference); HTTP-level validation and streaming-validation families; structural features (1-2 service base paths x route orders, API-level base path, streaming endpoints with two routes, methods sharing one payload with Body(attr)); cross-service designs with same-named methods; dual-transport (HTTP+gRPC) secured methods; degenerate and half-open ranges, patterns containing %, backslash, backtick.",
 "C02": " Later widenings: explicitly empty collections must arrive empty in JSON bodies; typed array defaults; path values that are path syntax (., ..); deep-type payloads (unions, nested collections); service/API base paths; operation sequences on one client (all sequences of length <= 3 over mixed unary/streaming services, each call compared with the same call alone).",
 "C03": " Later widenings: ordered pairs of tag-selected response shapes; deep-type results; operation sequences on one client (response side); explicitly empty collections in bodies.",
 "C04": " Later widenings: validations inherited through Extend (7 required-list shapes) and Reference; validations written on the HTTP mapping (endpoint/service/API level Param, Header, Cookie, path parameter) alone and together with attribute rules; streamed messages (all sequences <= 3 over {valid, invalid}); 21 deep positions (union alternatives, fields below arrays/maps of user types, array of arrays); degenerate/half-open/open ranges; patterns with %, backslash, backtick; cross-service same-named methods.",
 "C06": " Later widenings: credential mapping (explicit/implicit) x request body shape (Body(attr), inline body); the same secured method exposed over HTTP and gRPC.",
 "C08": " Later widenings: type-level attribute views overridden (or not) by parent views; three nested attributes of one result type (adjacent / separated) x all 27 override vectors over {none, tiny, full}; self-recursive result type with view overrides; views fixed in the design on types whose default view omits a required attribute (single and collection).",
 "C12": " Later widenings: the dangling-reference family has a 'kind of the type referred into' dimension (14 kinds x 26 contexts); a requirement/credential family (transport x level x 45 requirement shapes x payload kind x every subset of the six credential attributes).",
 "C14": " Later widenings: cross-service same-named methods (schema de-duplication), the views family (fixed and dynamic views), degenerate and half-open ranges.",
 "C16": " Later widenings: observers placed BEFORE routing (middleware calling ResolvePattern and Vars before next) and a literal-encoding universe (non-ASCII / space literals, two client encoders) - what the pre-routing observer is told must equal what the handler is told.",
 "C19": " Later widenings: configured header name spellings x sent spellings; byte-wise truncation reference with multi-byte and invalid UTF-8 inbound values at every limit; the underlying ResponseWriter as part of the environment (every cut-off point of a short writer, 1xx/204/304 and beyond-Content-Length refusals through a real net/http server).",
 "C20": " Later widenings: request matrix {json, xml, gob, text/plain, text/html} x {ok, invalid, declared, undeclared, 404, 405} with sequential prefix operations; sync.Pool Get as a data choice point (any pooled object or a fresh one); uses of package-level objects of uninstrumented types as accesses of the race oracle; gRPC middleware family (interceptors without a network, shutdown as a thread).",
}

NOT_YET = {}

def main():
    props = [json.loads(l) for l in open('/verif/properties.jsonl')]
    checks, na = [], []
    for p in props:
        i = p['id']
        if i in CHECKS:
            c = CHECKS[i]
            checks.append({
                "property_id": i,
                "quick_cmd": f"./run.sh {i} quick",
                "thorough_cmd": f"./run.sh {i} thorough",
                "evidence_file": f"/verif/evidence/{i}.json",
                "replay_cmd_template": f"./run.sh {i} quick --replay {{path}}",
                "engine": c["engine"],
                "level_claimed": {"category": "model_checking", "text": c["text"] + ADD.get(i, ""), "design_ref": c["design_ref"]},
                "level_note": c["note"],
                "technique": c["technique"],
            })
        else:
            na.append({"property_id": i, "reason": NOT_YET.get(i, "check not built yet in this revision of /verif (work in progress; the design in DESIGN.md section 3 applies bounded exhaustive exploration to it)")})
    m = {
        "version": 1,
        "setup_cmd": "./setup.sh",
        "hooks": {
            "guard": "verif",
            "enable": "go build -tags verif (plus go build -overlay for instrumented copies; /repo itself carries no hook commits unless listed in source_commits)",
            "baseline_off_cmd": "cd /repo && GOFLAGS=-mod=mod GOPROXY=off GOSUMDB=off GOTOOLCHAIN=local go test -vet=off -count=1 -timeout 25m ./...",
            "source_commits": [],
            "add_only": True,
        },
        "engines": [
            {"name": "E6", "path": "/verif/e2/drv/openapi.go", "serves_properties": ["C07", "C14"], "kind_free_text": "independent OpenAPI validators: kin-openapi loader/validator/openapi3filter with format validators backed by constructive tables, Swagger 2.0 structural checker written from the specification text, OpenAPI 3.0.3 MUST checks, JSON/YAML generic diff, recording muxer"},
            {"name": "E5", "path": "/verif/e5", "serves_properties": ["C10"], "kind_free_text": "stand-in protoc (cmd/protoc): strict proto3 parser for the subset goa emits, descriptor construction validated by protodesc.NewFile, genuine protoc-gen-go message code generated in-process, hand-written _grpc.pb.go generator"},
            {"name": "E3", "path": "/verif/sched", "serves_properties": ["C17", "C20"], "kind_free_text": "CHESS-style cooperative scheduler + stateless DFS explorer with iterative preemption bounding and sleep sets, vector-clock happens-before race oracle, sync/atomic shims; E4 source instrumenter (/verif/instr) producing go build -overlay copies of goa packages with scheduling points and shared-access hooks"},
            {"name": "E2", "path": "/verif/e2", "serves_properties": sorted(k for k, v in CHECKS.items() if "E2" in v["engine"]), "kind_free_text": "design-space enumerator (Spec + DSL builder + independent reference model), generate-compile-link pipeline (fresh genworker process per design, stub/glue generation from the generated interfaces' AST, go build of the corpus, one driver binary per family), generic reflection driver over an in-memory HTTP wire"},
            {"name": "E1", "path": "/verif/core", "serves_properties": sorted(CHECKS), "kind_free_text": "bounded exhaustive explorer plumbing: product/sequence/permutation/grouping enumerators, parallel sharding, violation signatures, known findings, 5x re-execution, replay files, evidence"},
        ],
        "checks": checks,
        "not_applicable": na,
        "notes": "Every check is decided by exhaustive enumeration of a stated finite envelope on the real goa code built from /repo's working tree (see DESIGN.md). Exit 0 held / 1 VIOLATION / 2 harness error.",
    }
    json.dump(m, open('/verif/MANIFEST.json', 'w'), indent=1)
    print("claimed:", [c['property_id'] for c in checks])

main()

#!/usr/bin/env python3
"""Writes MANIFEST.json from the table below (single source of truth for the interface)."""
import json

CHECKS = {
 "C18": dict(
  engine="E1",
  technique="bounded exhaustive enumeration of merge sequences x parenthesisations on the real MergeErrors against a reference fold; exhaustive status tables",
  text="Every sequence of error atoms (service errors with all 8 flag combinations, generic/specific names, with/without field and cause, plain and wrapped errors, nil) up to length 5 (thorough: 8) is merged through the real goa.MergeErrors under every parenthesisation and compared with an independent reference fold (message join, flag conjunction, first specific name, history = the original atoms unchanged, causes reachable, nil identity); the HTTP and gRPC status tables are enumerated completely (13 names x 8 flags x wrapped/unwrapped) and every error is round-tripped through EncodeError/DecodeError. Exhaustive within the stated bound, so a law broken for any small sequence/grouping is found.",
  design_ref="DESIGN.md section 3 C18",
  note="Atoms outside the alphabet (custom error types implementing only GoaErrorNamer, sequences longer than 8) are not covered; wrapped service errors are identified with the wrapped error.",
 ),
}

NOT_YET = {}

def main():
    props = [json.loads(l) for l in open('/verif/properties.jsonl')]
    checks, na = [], []
    for p in props:
        i = p['id']
        if i in CHECKS:
            c = CHECKS[i]
            checks.append({
                "property_id": i,
                "quick_cmd": f"./run.sh {i} quick",
                "thorough_cmd": f"./run.sh {i} thorough",
                "evidence_file": f"/verif/evidence/{i}.json",
                "replay_cmd_template": f"./run.sh {i} quick --replay {{path}}",
                "engine": c["engine"],
                "level_claimed": {"category": "model_checking", "text": c["text"], "design_ref": c["design_ref"]},
                "level_note": c["note"],
                "technique": c["technique"],
            })
        else:
            na.append({"property_id": i, "reason": NOT_YET.get(i, "check not built yet in this revision of /verif (work in progress; the design in DESIGN.md section 3 applies bounded exhaustive exploration to it)")})
    m = {
        "version": 1,
        "setup_cmd": "./setup.sh",
        "hooks": {
            "guard": "verif",
            "enable": "go build -tags verif (plus go build -overlay for instrumented copies; /repo itself carries no hook commits unless listed in source_commits)",
            "baseline_off_cmd": "cd /repo && GOFLAGS=-mod=mod GOPROXY=off GOSUMDB=off GOTOOLCHAIN=local go test -vet=off -count=1 -timeout 25m ./...",
            "source_commits": [],
            "add_only": True,
        },
        "engines": [
            {"name": "E1", "path": "/verif/core", "serves_properties": sorted(CHECKS), "kind_free_text": "bounded exhaustive explorer plumbing: product/sequence/permutation/grouping enumerators, parallel sharding, violation signatures, known findings, 5x re-execution, replay files, evidence"},
        ],
        "checks": checks,
        "not_applicable": na,
        "notes": "Every check is decided by exhaustive enumeration of a stated finite envelope on the real goa code built from /repo's working tree (see DESIGN.md). Exit 0 held / 1 VIOLATION / 2 harness error.",
    }
    json.dump(m, open('/verif/MANIFEST.json', 'w'), indent=1)
    print("claimed:", [c['property_id'] for c in checks])

main()

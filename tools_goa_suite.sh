#!/bin/bash
# Runs goa's own full test suite on /repo (hooks off: there are none) and compares the set of
# passing tests with the baseline recorded in /root/.vp/BASELINE.json.
export GOFLAGS=-mod=mod GOPROXY=off GOSUMDB=off GOTOOLCHAIN=local
cd /repo && go test -json -vet=off -count=1 -timeout 25m ./... 2>/dev/null > /tmp/goa_suite.json
python3 - <<'PY'
import json
base=set(json.load(open('/root/.vp/BASELINE.json'))['stable_pass'])
got=set()
for l in open('/tmp/goa_suite.json'):
    try: e=json.loads(l)
    except Exception: continue
    if e.get('Action')=='pass' and e.get('Test'): got.add(e['Package']+'::'+e['Test'])
missing=sorted(base-got)
print("baseline stable-pass tests: %d; passing now: %d of them; missing: %d"%(len(base),len(base&got),len(missing)))
for m in missing[:20]: print("  MISSING",m)
PY

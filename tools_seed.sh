#!/bin/bash
# usage: tools_seed.sh <PROP> <VARIANT> [check ids to run, default: PROP]
# Confirms a seeded property-breaking change delivered by a sub-agent in /tmp/seed/<PROP>-out/<VARIANT>
# and runs the checks against it, without touching /repo:
#   1. scratch worktree of /repo HEAD + patch applied; go build ./...
#   2. demonstration fails with the change, passes on /repo
#   3. goa's own tests: same failing set as on the unchanged tree (only the protoc-dependent ones)
#   4. VERIF_REPO=<worktree> ./run.sh <check> quick --no-evidence  -> expected exit 1 + VIOLATION
#   5. everything recorded under /verif/seeded/<PROP>-<VARIANT>/
set -u
export GOFLAGS=-mod=mod GOPROXY=off GOSUMDB=off GOTOOLCHAIN=local
P="$1"; V="$2"; shift 2
CHECKS="${*:-$P}"
SRC="${SEED_ROOT:-/tmp/seed}/$P-out/$V"
OUT="/verif/seeded/$P-$V"
WT="/tmp/seedv/$P-$V"
[ -f "$SRC/patch.diff" ] || { echo "no $SRC/patch.diff"; exit 2; }
mkdir -p "$OUT" /tmp/seedv
rm -rf "$OUT/demo"; cp -r "$SRC/patch.diff" "$OUT/"; [ -d "$SRC/demo" ] && cp -r "$SRC/demo" "$OUT/demo"
git -C /repo worktree remove --force "$WT" 2>/dev/null
git -C /repo worktree add -q "$WT" HEAD || exit 2
if ! git -C "$WT" apply "$SRC/patch.diff"; then echo "PATCH DOES NOT APPLY"; git -C /repo worktree remove --force "$WT"; exit 2; fi
R="$OUT/confirm.log"; : > "$R"
echo "== build" | tee -a "$R"
(cd "$WT" && go build ./... ) >>"$R" 2>&1 && BUILD=ok || BUILD=FAIL
echo "build: $BUILD" | tee -a "$R"
echo "== demo with change (expect failure)" | tee -a "$R"
DEMO_WITH=skipped; DEMO_WITHOUT=skipped
if [ -x "$OUT/demo/run.sh" ] || [ -f "$OUT/demo/run.sh" ]; then
  (cd "$OUT/demo" && timeout 900 bash ./run.sh "$WT") >>"$R" 2>&1 && DEMO_WITH="PASS(unexpected)" || DEMO_WITH="FAIL(expected)"
  echo "== demo without change (expect pass)" | tee -a "$R"
  (cd "$OUT/demo" && timeout 900 bash ./run.sh /repo) >>"$R" 2>&1 && DEMO_WITHOUT="PASS(expected)" || DEMO_WITHOUT="FAIL(unexpected)"
fi
echo "demo with change: $DEMO_WITH; without: $DEMO_WITHOUT" | tee -a "$R"
echo "== goa tests in the changed tree" | tee -a "$R"
TESTS=skipped
if [ "${SEED_SKIP_TESTS:-0}" != "1" ]; then
  (cd "$WT" && go test -vet=off -count=1 -timeout 25m ./... 2>&1 | grep -v "^ok\|no test files" ) > "$OUT/tests_failing.txt" 2>&1
  # expected: only grpc/codegen (protoc missing) fails, exactly as on the unchanged tree
  if grep -q "^FAIL\|^---" "$OUT/tests_failing.txt" && grep "^FAIL" "$OUT/tests_failing.txt" | grep -v "grpc/codegen" | grep -q .; then TESTS="DIFFERENT-FROM-BASELINE"; else TESTS="same-as-baseline(only protoc-dependent grpc/codegen tests fail)"; fi
fi
echo "tests: $TESTS" | tee -a "$R"
RES=""
for C in $CHECKS; do
  echo "== check $C against the changed tree" | tee -a "$R"
  (cd /verif && VERIF_REPO="$WT" timeout 3600 ./run.sh "$C" quick --no-evidence) > "$OUT/check_$C.out" 2>&1; RC=$?
  NV=$(grep -c "^VIOLATION" "$OUT/check_$C.out")
  echo "check $C: exit=$RC violations=$NV" | tee -a "$R"
  grep -A1 "^VIOLATION" "$OUT/check_$C.out" | grep signature | head -5 | tee -a "$R"
  RES="$RES $C:exit=$RC:violations=$NV"
done
git -C /repo worktree remove --force "$WT"
# remove only this worktree's alternate-repo caches (other runs may be using theirs)
H=$(printf %s "$WT" | sha256sum | cut -c1-8)
T=$(echo "$WT" | cksum | cut -d' ' -f1)
rm -rf "/verif/.work/e2-alt-$H" "/verif/.work/alt-$T" /verif/bin/*.alt-$T 2>/dev/null
python3 - "$SRC/meta.json" "$OUT/meta.json" "$BUILD" "$DEMO_WITH" "$DEMO_WITHOUT" "$TESTS" "$RES" <<'EOF'
import json,sys
src,dst,build,dw,dwo,tests,res=sys.argv[1:8]
try: m=json.load(open(src))
except Exception as e: m={"note":"agent meta.json unreadable: %s"%e}
prev=None
try: prev=json.load(open(dst)).get("coordinator_confirmation",{}).get("goa_tests")
except Exception: pass
if tests=="skipped" and prev and prev.startswith("same-as-baseline"):
    tests=prev+" [confirmed in an earlier run of tools_seed_tests.sh]"
m["coordinator_confirmation"]={"build":build,"demo_with_change":dw,"demo_without_change":dwo,"goa_tests":tests,
  "checks_run":res.split(),"how":"tools_seed.sh: scratch worktree of /repo HEAD + patch, VERIF_REPO=<worktree> ./run.sh <check> quick --no-evidence"}
json.dump(m,open(dst,"w"),indent=1)
EOF
echo "RESULT $P-$V build=$BUILD demo_with=$DEMO_WITH demo_without=$DEMO_WITHOUT tests=$TESTS checks:$RES"

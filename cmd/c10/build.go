package main

import (
	"fmt"
	"sort"
	"strings"

	"verif/core"
	"verif/e2/check"
	"verif/e2/pipe"
	"verif/e2/spec"
)

// built is one family after the pipeline: the main corpus plus, when the generator failed on
// some multi-method designs, a second corpus in which every method of those designs has a
// design of its own (so that the failure is attributed to the method that causes it and the
// other methods are still executed).
type built struct {
	Family  check.Family
	Corpora []*pipe.Corpus
}

func firstLine(s string) string {
	if i := strings.IndexByte(s, '\n'); i >= 0 {
		return s[:i]
	}
	return s
}

// buildFamily is check.BuildFamily for gRPC designs: only the "gen" command is run (the
// example server main that goa writes for a gRPC-only design is outside C10), and designs on
// which the generator fails are split into one-method designs.
func buildFamily(c *core.Ctx, f check.Family) (*built, error) {
	acc, rej, err := pipe.Filter(f.Cases)
	if err != nil {
		return nil, err
	}
	c.Note("family_"+f.Name+"_cases", len(f.Cases))
	c.Note("family_"+f.Name+"_accepted_by_goa", len(acc))
	if len(rej) > 0 {
		var ex []string
		idx := make([]int, 0, len(rej))
		for i := range rej {
			idx = append(idx, i)
		}
		sort.Ints(idx)
		for _, i := range idx {
			r := rej[i]
			if r.Panic != "" || r.Timeout || r.Stage == "crash" {
				c.AddNote("family_"+f.Name+"_eval_crashes", 1)
			}
			if len(ex) < 8 {
				ex = append(ex, fmt.Sprintf("%v: %s", f.Cases[i].M.Feat, firstLine(r.Error+r.Panic)))
			}
		}
		c.Note("family_"+f.Name+"_rejected_examples", ex)
	}
	ps, pd := f.PerService, f.PerDesign
	if ps == 0 {
		ps = 8
	}
	if pd == 0 {
		pd = 1
	}
	b := &built{Family: f}
	specs := spec.Pack(acc, ps, pd, f.Name)
	corpus, err := pipe.Build(f.Name, specs, pipe.Options{Cmds: "gen"})
	if err != nil {
		return nil, err
	}
	b.Corpora = append(b.Corpora, corpus)
	// isolate the methods of multi-method designs on which the generator failed
	var iso []spec.MethodCase
	failed := map[string]bool{}
	for _, d := range corpus.Designs {
		if d.Gen.OK {
			continue
		}
		n := 0
		for _, svc := range d.Spec.Services {
			n += len(svc.Methods)
		}
		if n < 2 {
			continue
		}
		for _, svc := range d.Spec.Services {
			for _, m := range svc.Methods {
				failed[m.Name] = true
			}
		}
	}
	if len(failed) > 0 {
		for _, mc := range acc {
			if failed[mc.M.Name] {
				mc.Own = true
				iso = append(iso, mc)
			}
		}
		c2, err := pipe.Build(f.Name+"-iso", spec.Pack(iso, 1, 1, f.Name+"-iso"), pipe.Options{Cmds: "gen"})
		if err != nil {
			return nil, err
		}
		b.Corpora = append(b.Corpora, c2)
	}
	designs, linked, excluded := 0, 0, 0
	for i, cp := range b.Corpora {
		for _, d := range cp.Designs {
			if i == 0 && !d.Gen.OK && len(b.Corpora) > 1 && methodCount(d.Spec) > 1 {
				continue // re-examined one method at a time in the second corpus
			}
			designs++
			if d.Linked {
				linked++
			}
			excluded += len(d.Excluded)
		}
	}
	c.AddNote("designs_total", int64(designs))
	c.AddNote("designs_linked_total", int64(linked))
	c.AddNote("method_cases_total", int64(len(f.Cases)))
	c.AddNote("method_cases_accepted_by_goa_total", int64(len(acc)))
	c.Note("family_"+f.Name+"_designs", designs)
	c.Note("family_"+f.Name+"_designs_linked", linked)
	c.Note("family_"+f.Name+"_methods_excluded_uncompilable", excluded)
	c.Note("family_"+f.Name+"_cached", corpus.Cached)
	return b, nil
}

func methodCount(s *spec.Spec) int {
	n := 0
	for _, svc := range s.Services {
		n += len(svc.Methods)
	}
	return n
}

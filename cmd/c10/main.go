// C10 — gRPC definitions are well formed and messages round-trip payloads.
package main

import (
	"os"
	"strings"

	"verif/core"
	"verif/e2/check"
	"verif/e2/families"
)

func rules(c *core.Ctx) {
	// Every design declares the same protocol buffer names (package s0, message M0Request, ...);
	// the driver links the pb packages of all designs of a family into one binary, so the global
	// protobuf registry must tolerate the name clashes. Messages keep their own descriptors; only
	// the lookup-by-name registry (not used by grpc's codec) skips the later registrations.
	os.Setenv("GOLANG_PROTOBUF_REGISTRATION_CONFLICT", "ignore")
	c.Rule("designs: gRPC families over (types) every protobuf-mappable primitive, arrays, maps over every key kind, nested collections, aliases, user types, self-reference, inline objects, OneOf unions x {payload, result} x {required, optional, default, whole payload}; " +
		"(field numbers) orders, gaps, multi-byte tags, largest, around and inside the reserved range, out of range, negative, duplicate / missing at top level and in nested types, union alternatives; " +
		"(partition) one attribute in request metadata / response headers / trailers x type x requiredness, renamed keys, everything in metadata; (streaming) the four kinds x element shape x non-streamed payload shape; " +
		"(validation) keyword x position in message / metadata; every case filtered through goa's own DSL evaluation. " +
		"Per accepted design: generator run with the stand-in protoc on PATH, every generated .proto parsed again by the check and compared with the design (field numbers, uniqueness, one rpc per method, stream qualifiers). " +
		"Per method: every candidate value of the type menus (complete product for <= 2 attributes), classified by the reference validator: valid -> generated client -> grpc over bufconn -> generated server -> stub must receive an equal payload / the caller an equal result; " +
		"invalid -> stub not invoked and client error; streaming: all sequences of length 0..2 over 2 values (thorough 0..3 over 3) plus every valid value once, per direction; " +
		"one case = (method, value or sequence); non-trivial = value set; every case is one end-to-end execution")
	c.Assume("protoc is a stand-in (verif/cmd/protoc, engine E5): hand-written strict proto3 parser for the subset goa emits + protodesc.NewFile validation + reserved-range and JSON-name checks from the language guide; real protoc diagnostics (style warnings, other language features) are not reproduced")
	c.Assume("<name>.pb.go is genuine protoc-gen-go v1.35.1 output (compiler/protogen + internal_gengo run in-process); <name>_grpc.pb.go is written by a stand-in generator reproducing protoc-gen-go-grpc v1.5 output for google.golang.org/grpc v1.67.1")
	c.Assume("transport: real grpc.Server and grpc.ClientConn over an in-memory bufconn listener (no sockets); a recovery interceptor turns handler panics into observations")
	c.Assume("nil and empty collections are equal; an unset attribute with a design default arrives as the default; zero of a defaulted primitive (non-pointer field) may arrive as zero or default")
	c.Assume("gRPC metadata values are restricted to printable ASCII by the protocol: other strings are outside the alphabet of attributes mapped to metadata / headers / trailers")
	c.Assume("collections that are nil where required or empty where length-validated are asserted neither valid nor invalid (nil and empty are the same value)")
	c.Assume("the pb packages of all designs of a family are linked into one driver binary with GOLANG_PROTOBUF_REGISTRATION_CONFLICT=ignore (designs reuse protocol buffer names; messages keep their own descriptors)")
	c.Assume("only the gen command is run: the example server goa writes for a gRPC-only design is outside this property")
}

func run(c *core.Ctx) {
	rules(c)
	st := &protoStats{}
	for _, f := range families.GRPC(c.Thorough()) {
		if only := os.Getenv("C10_FAMILY"); only != "" && !strings.HasPrefix(f.Name, only) {
			continue
		}
		if c.Expired() {
			c.Incomplete("deadline reached before family " + f.Name)
			break
		}
		runFamily(c, f, st, "")
	}
	c.Note("proto_files_parsed", st.files)
	c.Note("proto_messages_checked", st.messages)
	c.Note("proto_fields_checked", st.fields)
	c.Note("proto_rpcs_checked", st.rpcs)
	c.Note("bounds", "quick: stream sequences <= 2 over 2 values; thorough: <= 3 over 3 values, full header/trailer type menu, self-referential array type")
}

// runFamily builds a family and applies the oracles; onlyMethod (method names are unique within
// a family) restricts the run to one method when replaying.
func runFamily(c *core.Ctx, f check.Family, st *protoStats, onlyMethod string) {
	b, err := buildFamily(c, f)
	if err != nil {
		c.HarnessError("%s: %v", f.Name, err)
		return
	}
	for i, corpus := range b.Corpora {
		for _, d := range corpus.Designs {
			if onlyMethod != "" {
				has := false
				for _, svc := range d.Spec.Services {
					for _, m := range svc.Methods {
						if m.Name == onlyMethod {
							has = true
						}
					}
				}
				for k := range d.Excluded {
					if strings.HasPrefix(k, onlyMethod+" ") {
						has = true
					}
				}
				if !has {
					continue
				}
			}
			checkDesign(c, corpus.Family, d, i == 0 && len(b.Corpora) > 1, st)
		}
		if corpus.Driver == "" {
			continue
		}
		var extra []string
		if onlyMethod != "" {
			extra = append(extra, "-method", onlyMethod)
		}
		if err := check.RunMode(c, corpus, "C10", extra...); err != nil {
			c.HarnessError("%s: %v", corpus.Family, err)
		}
	}
}

// replay re-executes the design (and method) of a replay file.
func replay(c *core.Ctx, path string) {
	rules(c)
	var cs struct {
		Corpus string `json:"corpus"`
		Design string `json:"design"`
		Method string `json:"method"`
	}
	if err := core.ReplayCase(path, &cs); err != nil {
		c.HarnessError("replay: %v", err)
		return
	}
	st := &protoStats{}
	for _, thorough := range []bool{false, true} {
		for _, f := range families.GRPC(thorough) {
			if f.Name == cs.Corpus || f.Name+"-iso" == cs.Corpus {
				runFamily(c, f, st, cs.Method)
				return
			}
		}
	}
	c.HarnessError("replay: unknown corpus %q", cs.Corpus)
}

func main() { core.Main("C10", run, replay) }

// C10 — gRPC definitions are well formed and messages round-trip payloads.
package main

import (
	"os"
	"strings"

	"verif/core"
	"verif/e2/check"
	"verif/e2/families"
	"verif/e2/spec"
)

func rules(c *core.Ctx) {
	// Every design declares the same protocol buffer names (package s0, message M0Request, ...);
	// the driver links the pb packages of all designs of a family into one binary, so the global
	// protobuf registry must tolerate the name clashes. Messages keep their own descriptors; only
	// the lookup-by-name registry (not used by grpc's codec) skips the later registrations.
	os.Setenv("GOLANG_PROTOBUF_REGISTRATION_CONFLICT", "ignore")
	c.Rule("designs: gRPC families over (types) every protobuf-mappable primitive, arrays, maps over every key kind, nested collections, aliases, user types, self-reference, inline objects, OneOf unions, messages holding both a user type with a union of its own (directly / in an array / in a map / as a union alternative) and a union of their own in both attribute orders x {payload, result} x {required, optional, default, whole payload}; " +
		"(field numbers) orders, gaps, multi-byte tags, largest, around and inside the reserved range, out of range, negative, duplicate / missing at top level and in nested types, union alternatives, and next to a credential attribute (security scheme jwt / apikey / basic x credential declared first, in the middle, last x numbers right, duplicate, missing); " +
		"(partition) one attribute in request metadata / response headers / trailers x type x requiredness, renamed keys, everything in metadata; (streaming) the four kinds x element shape x non-streamed payload shape; " +
		"(validation) keyword x position in message / metadata; required attributes x shape x message attributes {inferred, listed, listed in part} on the request side and {inferred, listed, only a required one listed, only the optional one listed} on the response side (Response Message DSL); every case filtered through goa's own DSL evaluation. " +
		"Per accepted design: generator run with the stand-in protoc on PATH, every generated .proto parsed again by the check and compared with the design (field numbers, uniqueness, one rpc per method, stream qualifiers). " +
		"Per method: every candidate value of the type menus (complete product for <= 2 attributes; arrays and maps additionally hold every element and key candidate once as a one-element collection), classified by the reference validator: valid -> generated client -> grpc over bufconn -> generated server -> stub must receive an equal payload / the caller an equal result; " +
		"invalid -> stub not invoked and client error; a result lacking a required field returned by the service (response-side validation cases) -> client error, no result for the caller; a required scalar attribute is not declared optional in the .proto; streaming: all sequences of length 0..2 over 2 values (thorough 0..3 over 3) plus every valid value once, per direction; " +
		"one case = (method, value or sequence); non-trivial = value set; every case is one end-to-end execution")
	c.Rule("validated streams (family g-streamval): " + spec.GRPCStreamValidationDoc)
	c.Rule("client reuse (family g-reuse): " + spec.GRPCReuseDoc)
	c.Assume("protoc is a stand-in (verif/cmd/protoc, engine E5): hand-written strict proto3 parser for the subset goa emits + protodesc.NewFile validation + reserved-range and JSON-name checks from the language guide; real protoc diagnostics (style warnings, other language features) are not reproduced")
	c.Assume("<name>.pb.go is genuine protoc-gen-go v1.35.1 output (compiler/protogen + internal_gengo run in-process); <name>_grpc.pb.go is written by a stand-in generator reproducing protoc-gen-go-grpc v1.5 output for google.golang.org/grpc v1.67.1")
	c.Assume("transport: real grpc.Server and grpc.ClientConn over an in-memory bufconn listener (no sockets); a recovery interceptor turns handler panics into observations")
	c.Assume("nil and empty collections are equal; an unset attribute with a design default arrives as the default; zero of a defaulted primitive (non-pointer field) may arrive as zero or default")
	c.Assume("gRPC metadata values are restricted to printable ASCII by the protocol: other strings are outside the alphabet of attributes mapped to metadata / headers / trailers")
	c.Assume("collections that are nil where required or empty where length-validated are asserted neither valid nor invalid (nil and empty are the same value)")
	c.Assume("the pb packages of all designs of a family are linked into one driver binary with GOLANG_PROTOBUF_REGISTRATION_CONFLICT=ignore (designs reuse protocol buffer names; messages keep their own descriptors)")
	c.Assume("a credential attribute without a field number travels as request metadata under a key goa chooses (not asserted); credential values containing white space are outside the alphabet (the scheme prefix of \"<scheme> <credentials>\" is removed by design: C06)")
	c.Assume("only the gen command is run: the example server goa writes for a gRPC-only design is outside this property")
	c.Assume("gRPC streams do not transmit the view of a multi-view result: the service selects it with the server stream's SetView and the caller of the generated client stream states the same view with the client stream's SetView")
	c.Assume("validated streams: Int / UInt numbers beyond 32 bits are replaced by the 32-bit extremes (the 32-bit mapping of Int is reported by the g-types family)")
	c.Assume("client reuse: the stand-in <svc>_grpc.pb.go holds two implementations of the protocol buffer client interface, New<Svc>Client in the shape of protoc-gen-go-grpc v1.5 (every method copies its call options) and New<Svc>ClientV13 in the shape of the plugin up to v1.3 (options handed to the connection as received); " +
		"the generated NewClient hard-wires the first, the harness stores the second into the generated client's grpccli field (of the interface type) for the pb-stub=v1.3 configurations; nothing else of the generated client is replaced")
	c.Assume("client reuse: a call is held either inside the service method or in a client interceptor of the connection (before the RPC starts) by waiting on a channel; schedules are fixed by the harness, no timing is involved; " +
		"with google.golang.org/grpc v1.67.1 the options of a call are copied when the RPC starts, so a client that shares option memory between calls is observable only while a call waits in an interceptor behind a v1.3-style stub")
}

func run(c *core.Ctx) {
	rules(c)
	st := &protoStats{}
	for _, f := range families.GRPC(c.Thorough()) {
		if only := os.Getenv("C10_FAMILY"); only != "" && !strings.HasPrefix(f.Name, only) {
			continue
		}
		if c.Expired() {
			c.Incomplete("deadline reached before family " + f.Name)
			break
		}
		runFamily(c, f, st, "")
	}
	c.Note("proto_files_parsed", st.files)
	c.Note("proto_messages_checked", st.messages)
	c.Note("proto_fields_checked", st.fields)
	c.Note("proto_rpcs_checked", st.rpcs)
	c.Note("bounds", "quick: stream sequences <= 2 over 2 values; thorough: <= 3 over 3 values, full header/trailer type menu, self-referential array type; "+
		"validated streams: sequences of length 0..3 over {valid, invalid} in both tiers (thorough: 10 keywords instead of 5); client reuse: letter sequences of length 1..3 and all 2-call overlaps in both tiers (thorough: 5 option-slice shapes x 2 stub styles instead of 1 x 2, one more service)")
	c.Note("menu_validated_streams", map[string]any{
		"sides": "payload (kinds client, bidi), result (kinds server, bidi)", "shapes": []string{"primitive", "array", "map", "user"},
		"keywords_quick":          []string{"enum_string", "min_int", "exmax_int", "maxlen_string", "pattern_string", "maxlen_array (array)", "maxlen_map (map)"},
		"keywords_thorough_added": []string{"max_float64", "exmin_float64", "minlen_string", "minmax_int32", "format_ipv4"},
		"result_kinds":            "side payload: client {none, plain, rt2, rt1}, bidi {plain, rt2, rt1}; side result: plain, and for shape user rt2 (views default, tiny), rt1",
		"patterns":                "15 sequences of length 0..3 over {V, I}; I once per distinct violated rule set (<= 3); multi-view results under every view",
		"methods":                 len(spec.GRPCStreamValidation(c.Thorough()))})
	c.Note("menu_client_reuse", map[string]any{
		"client_option_slices_quick": []string{"len 1 cap 8"}, "client_option_slices_thorough": []string{"none", "len 1 cap 1", "len 1 cap 3", "len 1 cap 8", "len 2 cap 8"},
		"pb_stub_styles": []string{"v1.5 (copies call options)", "v1.3 (hands call options on)"},
		"letters":        "2 value variants per method of the service (multi-view result: views default / alt)",
		"sequences":      "all of length 1..3 over the letters: n + n^2 + n^3 per service (n = 8 letters with 4 executable methods: 584)",
		"overlaps":       "all ordered letter pairs x held in {service method, client interceptor} x schedules {nested, a-first, b-first}: 6 n^2 per service (384 with 8 letters)",
		"methods":        len(spec.GRPCReuse(c.Thorough()))})
}

// runFamily builds a family and applies the oracles; onlyMethod (method names are unique within
// a family) restricts the run to one method when replaying.
func runFamily(c *core.Ctx, f check.Family, st *protoStats, onlyMethod string) {
	b, err := buildFamily(c, f)
	if err != nil {
		c.HarnessError("%s: %v", f.Name, err)
		return
	}
	for i, corpus := range b.Corpora {
		for _, d := range corpus.Designs {
			if onlyMethod != "" {
				has := false
				for _, svc := range d.Spec.Services {
					for _, m := range svc.Methods {
						if m.Name == onlyMethod {
							has = true
						}
					}
				}
				for k := range d.Excluded {
					if strings.HasPrefix(k, onlyMethod+" ") {
						has = true
					}
				}
				if !has {
					continue
				}
			}
			checkDesign(c, corpus.Family, d, i == 0 && len(b.Corpora) > 1, st)
		}
		if corpus.Driver == "" {
			continue
		}
		var extra []string
		if onlyMethod != "" {
			extra = append(extra, "-method", onlyMethod)
		}
		if err := check.RunMode(c, corpus, "C10", extra...); err != nil {
			c.HarnessError("%s: %v", corpus.Family, err)
		}
	}
}

// replay re-executes the design (and method) of a replay file.
func replay(c *core.Ctx, path string) {
	rules(c)
	var cs struct {
		Corpus string `json:"corpus"`
		Design string `json:"design"`
		Method string `json:"method"`
	}
	if err := core.ReplayCase(path, &cs); err != nil {
		c.HarnessError("replay: %v", err)
		return
	}
	st := &protoStats{}
	for _, thorough := range []bool{false, true} {
		for _, f := range families.GRPC(thorough) {
			if f.Name == cs.Corpus || f.Name+"-iso" == cs.Corpus {
				runFamily(c, f, st, cs.Method)
				return
			}
		}
	}
	c.HarnessError("replay: unknown corpus %q", cs.Corpus)
}

func main() { core.Main("C10", run, replay) }

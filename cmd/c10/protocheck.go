package main

import (
	"encoding/json"
	"fmt"
	"os"
	"path/filepath"
	"regexp"
	"sort"
	"strings"

	"verif/core"
	"verif/e2/pipe"
	"verif/e2/spec"
	"verif/e5/protoparse"
)

func norm(s string) string {
	s = strings.ToLower(s)
	s = strings.ReplaceAll(s, "_", "")
	s = strings.ReplaceAll(s, "-", "")
	return s
}

// featString renders the method features used in signatures in a fixed order (same order as
// the driver's c10Feat).
func featString(f map[string]string, keys ...string) string {
	if len(keys) == 0 {
		keys = []string{"family", "side", "loc", "type", "req", "tags", "shape", "valid", "pos", "stream", "payload"}
	}
	var parts []string
	for _, k := range keys {
		if v, ok := f[k]; ok {
			parts = append(parts, k+"="+v)
		}
	}
	return strings.Join(parts, " ")
}

// failureReason classifies the generator's error text.
func failureReason(g pipe.GenResult) (kind, reason string) {
	txt := g.Error + " " + g.Panic
	switch {
	case g.Timeout || g.Stage == "crash":
		// the process died (fatal error such as a stack overflow) or was killed at the pipeline's
		// two-minute limit; which of the two happens first depends on the machine load, so both
		// are one class
		return "generator-failed", "crash-or-timeout"
	case g.Panic != "":
		return "generator-failed", "panic"
	case !strings.Contains(txt, "failed to run protoc"):
		return "generator-failed", "error"
	case strings.Contains(txt, "conflicting fields"):
		return "proto-invalid", "duplicate-field-number"
	case strings.Contains(txt, "is already defined"):
		return "proto-invalid", "duplicate-name"
	case strings.Contains(txt, "reserved for the protocol buffer"):
		return "proto-invalid", "reserved-field-number"
	case strings.Contains(txt, "invalid number") || strings.Contains(txt, "cannot be greater than"):
		return "proto-invalid", "field-number-out-of-range"
	case strings.Contains(txt, "is not defined"):
		return "proto-invalid", "unresolved-type"
	case strings.Contains(txt, "JSON name"):
		return "proto-invalid", "json-name-conflict"
	case strings.Contains(txt, "invalid map"), strings.Contains(txt, "key in map fields"):
		return "proto-invalid", "invalid-map-key"
	case regexp.MustCompile(`\.proto:\d+:\d+: `).MatchString(txt):
		return "proto-invalid", "syntax"
	}
	return "proto-invalid", "other"
}

type protoStats struct {
	files, messages, fields, rpcs int64
}

func typeClassOf(f map[string]string) string {
	t := f["type"]
	switch {
	case t == "":
		return "none"
	case t == "string":
		return "string"
	case t == "bytes":
		return "bytes"
	case strings.HasPrefix(t, "arr_"):
		return "array"
	case strings.HasPrefix(t, "map_"):
		return "map"
	case strings.HasPrefix(t, "alias_"):
		return "alias"
	case strings.HasPrefix(t, "user_"), strings.HasPrefix(t, "recursive"), strings.HasPrefix(t, "holder_"), t == "inline_object":
		return "object"
	case strings.HasPrefix(t, "union"):
		return "union"
	}
	return "scalar"
}

// typeClassFor is typeClassOf except in the streaming family, whose "type" feature is the
// shape of the streamed element (the compile failures there depend on the non-streamed payload).
func typeClassFor(f map[string]string) string {
	if f["family"] == "G-stream" {
		return "any"
	}
	return typeClassOf(f)
}

var identRe = regexp.MustCompile(`[A-Za-z_][A-Za-z0-9_.]*`)

// diagClass abstracts compiler diagnostics into a short stable class.
func diagClass(diags []string) string {
	seen := map[string]bool{}
	var out []string
	for _, d := range diags {
		d = strings.TrimSpace(d)
		if i := strings.Index(d, " ("); i > 0 {
			d = d[:i]
		}
		switch {
		case strings.HasPrefix(d, "undefined: "):
		case strings.HasPrefix(d, "cannot use "):
			d = "cannot-use-type-mismatch"
		case strings.HasPrefix(d, "cannot convert "):
			d = "cannot-convert"
		case strings.HasPrefix(d, "declared and not used"):
			d = "declared-and-not-used"
		case strings.Contains(d, "redeclared"):
			d = "redeclared"
		default:
			if len(d) > 40 {
				d = d[:40]
			}
		}
		d = strings.ReplaceAll(d, " ", "_")
		if !seen[d] {
			seen[d] = true
			out = append(out, d)
		}
	}
	sort.Strings(out)
	if len(out) > 3 {
		out = out[:3]
	}
	return strings.Join(out, "|")
}

// checkDesign applies clause (a) of the statement to one design of a corpus: the generator
// succeeded, and the generated .proto files, parsed independently of protoc, give every
// attribute its designed field number, use no number or name twice in a message and declare
// one rpc per method with the designed stream qualifiers. It also reports the methods whose
// generated gRPC code does not compile (no round trip is possible for them).
func checkDesign(c *core.Ctx, family string, d *pipe.Design, isolatedElsewhere bool, st *protoStats) {
	methods := 0
	var only *spec.Method
	for _, svc := range d.Spec.Services {
		for _, m := range svc.Methods {
			methods++
			only = m
		}
	}
	if !d.Gen.OK {
		if methods != 1 {
			if !isolatedElsewhere {
				c.HarnessError("%s/%s: generator failed on a %d-method design that was not isolated: %s", family, d.Name, methods, firstLine(d.Gen.Error+d.Gen.Panic))
			}
			return
		}
		c.Exec(1)
		c.State(fmt.Sprintf("%s/%s/gen", family, d.Name), true)
		kind, reason := failureReason(d.Gen)
		c.Outcome(kind + " reason=" + reason)
		sig := fmt.Sprintf("C10 %s reason=%s %s", kind, reason, featString(only.Feat))
		what := fmt.Sprintf("goa accepted the design (DSL evaluation and validation passed) but the generator failed at stage %q: %s", d.Gen.Stage, firstLine(d.Gen.Error+d.Gen.Panic))
		if d.Gen.Timeout {
			what = "goa accepted the design but the generator did not return within the pipeline's two-minute limit"
		} else if d.Gen.Stage == "crash" {
			what = "goa accepted the design but the generator process died without reporting a result (fatal error, e.g. stack overflow): " + firstLine(d.Gen.Error)
		}
		c.Violation(sig, what, map[string]any{"corpus": family, "design": d.Name, "method": only.Name, "feat": only.Feat, "mode": "proto", "spec": d.Spec}, nil)
		return
	}
	c.Exec(1)
	c.Outcome("generated")
	// the design as generated: methods whose code did not compile were removed by the pipeline
	// and the design regenerated without them (spec.json is what the generator last saw)
	genSpec := d.Spec
	if b, err := os.ReadFile(filepath.Join(d.Dir, "spec.json")); err == nil {
		var s2 spec.Spec
		if json.Unmarshal(b, &s2) == nil && len(s2.Services) > 0 {
			genSpec = &s2
		}
	}
	// uncompilable methods
	exKeys := make([]string, 0, len(d.Excluded))
	for key := range d.Excluded {
		exKeys = append(exKeys, key)
	}
	sort.Strings(exKeys)
	for _, key := range exKeys {
		diags := d.Excluded[key]
		feat := map[string]string{}
		for _, kv := range strings.Fields(key)[1:] {
			if i := strings.IndexByte(kv, '='); i > 0 {
				feat[kv[:i]] = kv[i+1:]
			}
		}
		c.Outcome("method-uncompilable")
		sig := fmt.Sprintf("C10 uncompilable %s type-class=%s diag=%s", featString(feat, "family", "loc", "stream", "payload", "shape", "pos"), typeClassFor(feat), diagClass(diags))
		c.Violation(sig, fmt.Sprintf("the gRPC code goa generated for the method does not compile, so no payload or result can make the round trip: %s", strings.Join(diags, "; ")),
			map[string]any{"corpus": family, "design": d.Name, "method": strings.Fields(key)[0], "feat": feat, "mode": "compile", "diagnostics": diags}, nil)
	}
	if !d.Linked && len(d.BuildDiags) > 0 {
		// diagnostics that could not be tied to one method: attributed to the methods of the last
		// generated version of the design that were not excluded individually
		excluded := map[string]bool{}
		for key := range d.Excluded {
			excluded[strings.Fields(key)[0]] = true
		}
		for _, svc := range genSpec.Services {
			for _, m := range svc.Methods {
				if excluded[m.Name] {
					continue
				}
				c.Outcome("design-uncompilable")
				var msgs []string
				for _, l := range d.BuildDiags {
					if i := strings.Index(l, ": "); i >= 0 {
						msgs = append(msgs, l[i+2:])
					}
				}
				sig := fmt.Sprintf("C10 uncompilable %s type-class=%s diag=%s", featString(m.Feat, "family", "loc", "stream", "payload", "shape", "pos"), typeClassFor(m.Feat), diagClass(msgs))
				c.Violation(sig, fmt.Sprintf("the gRPC code goa generated for the design does not compile: %s", strings.Join(firstN(d.BuildDiags, 4), "; ")),
					map[string]any{"corpus": family, "design": d.Name, "method": m.Name, "feat": m.Feat, "mode": "compile", "diagnostics": firstN(d.BuildDiags, 8)}, nil)
			}
		}
	}
	if d.GlueError != "" {
		c.HarnessError("%s/%s: glue: %s", family, d.Name, d.GlueError)
	}
	// .proto files
	protos, _ := filepath.Glob(filepath.Join(d.Dir, "gen", "grpc", "*", "pb", "*.proto"))
	byDir := map[string][]string{}
	for _, p := range protos {
		dir := filepath.Base(filepath.Dir(filepath.Dir(p)))
		byDir[norm(dir)] = append(byDir[norm(dir)], p)
	}
	for _, svc := range genSpec.Services {
		files := byDir[norm(svc.Name)]
		report := func(m *spec.Method, sig, what string, extra map[string]any) {
			cs := map[string]any{"corpus": family, "design": d.Name, "service": svc.Name, "mode": "proto", "proto_files": files}
			if m != nil {
				cs["method"], cs["feat"] = m.Name, m.Feat
			}
			for k, v := range extra {
				cs[k] = v
			}
			c.Violation(sig, what, cs, nil)
		}
		if len(files) != 1 {
			var m0 *spec.Method
			if len(svc.Methods) > 0 {
				m0 = svc.Methods[0]
			}
			report(m0, fmt.Sprintf("C10 proto-file-count n=%d", len(files)), fmt.Sprintf("service %s has gRPC endpoints but %d .proto files were generated", svc.Name, len(files)), nil)
			continue
		}
		src, err := os.ReadFile(files[0])
		if err != nil {
			c.HarnessError("%s: %v", files[0], err)
			continue
		}
		pf, err := protoparse.Parse(filepath.Base(files[0]), string(src))
		st.files++
		if err != nil {
			report(nil, "C10 proto-invalid reason=syntax (independent parse)", fmt.Sprintf("the generated file is not well-formed proto3: %v", err), nil)
			continue
		}
		checkProto(c, family, d, genSpec, svc, pf, st, report)
	}
}

func firstN(l []string, n int) []string {
	if len(l) > n {
		return l[:n]
	}
	return l
}

// allMessages flattens nested messages (qualified by their parents' names).
func allMessages(ms []*protoparse.Message, prefix string, into map[string]*protoparse.Message) {
	for _, m := range ms {
		into[prefix+m.Name] = m
		allMessages(m.Nested, prefix+m.Name+".", into)
	}
}

func lastName(t string) string {
	if i := strings.LastIndexByte(t, '.'); i >= 0 {
		return t[i+1:]
	}
	return t
}

func checkProto(c *core.Ctx, family string, d *pipe.Design, sp *spec.Spec, svc *spec.Service, pf *protoparse.File, st *protoStats,
	report func(m *spec.Method, sig, what string, extra map[string]any)) {
	msgs := map[string]*protoparse.Message{}
	allMessages(pf.Messages, "", msgs)
	// no number or name used twice in a message
	names := make([]string, 0, len(msgs))
	for n := range msgs {
		names = append(names, n)
	}
	sort.Strings(names)
	for _, n := range names {
		m := msgs[n]
		st.messages++
		byNum := map[uint64]string{}
		byName := map[string]bool{}
		for _, f := range m.Fields {
			st.fields++
			if other, dup := byNum[f.Number]; dup {
				report(nil, "C10 proto duplicate-field-number (independent parse)", fmt.Sprintf("message %s uses field number %d for %q and %q", n, f.Number, other, f.Name), nil)
			}
			byNum[f.Number] = f.Name
			if byName[f.Name] {
				report(nil, "C10 proto duplicate-field-name (independent parse)", fmt.Sprintf("message %s declares field %q twice", n, f.Name), nil)
			}
			byName[f.Name] = true
		}
	}
	// one service, one rpc per method with the designed stream qualifiers
	if len(pf.Services) != 1 {
		report(nil, fmt.Sprintf("C10 proto service-count n=%d", len(pf.Services)), fmt.Sprintf("%d service definitions in %s", len(pf.Services), pf.Path), nil)
		return
	}
	ps := pf.Services[0]
	st.rpcs += int64(len(ps.RPCs))
	if len(ps.RPCs) != len(svc.Methods) {
		report(nil, "C10 proto rpc-count", fmt.Sprintf("service %s has %d methods but the definition declares %d rpcs", svc.Name, len(svc.Methods), len(ps.RPCs)), nil)
	}
	for _, m := range svc.Methods {
		c.State(fmt.Sprintf("%s/%s/%s/%s/proto", family, d.Name, svc.Name, m.Name), true)
		var rpcs []*protoparse.RPC
		for _, r := range ps.RPCs {
			if norm(r.Name) == norm(m.Name) {
				rpcs = append(rpcs, r)
			}
		}
		feat := featString(m.Feat, "family", "stream", "payload")
		if len(rpcs) != 1 {
			report(m, fmt.Sprintf("C10 proto rpc-per-method %s n=%d", feat, len(rpcs)), fmt.Sprintf("method %s has %d rpc declarations", m.Name, len(rpcs)), nil)
			continue
		}
		r := rpcs[0]
		wantIn, wantOut := m.StreamPayload != nil, m.StreamResult != nil
		if r.InStream != wantIn || r.OutStream != wantOut {
			report(m, fmt.Sprintf("C10 proto stream-direction %s designed=%v/%v observed=%v/%v", feat, wantIn, wantOut, r.InStream, r.OutStream),
				fmt.Sprintf("rpc %s: designed client-stream=%v server-stream=%v, declared client-stream=%v server-stream=%v", r.Name, wantIn, wantOut, r.InStream, r.OutStream), nil)
		}
		c.Outcome(fmt.Sprintf("rpc-ok stream=%v/%v", r.InStream, r.OutStream))
		// field numbers
		inT, outT := m.Payload, m.Result
		inMeta := map[string]bool{}
		if m.StreamPayload != nil {
			inT = m.StreamPayload
		} else if m.GRPC != nil {
			for _, mp := range m.GRPC.Metadata {
				inMeta[mp.Attr] = true
			}
		}
		outMeta := map[string]bool{}
		if m.StreamResult != nil {
			outT = m.StreamResult
		} else if m.GRPC != nil {
			for _, mp := range m.GRPC.Headers {
				outMeta[mp.Attr] = true
			}
			for _, mp := range m.GRPC.Trailers {
				outMeta[mp.Attr] = true
			}
		}
		for _, side := range []struct {
			t    *spec.Type
			msg  string
			meta map[string]bool
			name string
		}{{inT, r.In, inMeta, "request"}, {outT, r.Out, outMeta, "response"}} {
			pm := msgs[lastName(side.msg)]
			if pm == nil {
				report(m, fmt.Sprintf("C10 proto message-missing %s side=%s", feat, side.name), fmt.Sprintf("rpc %s refers to message %s which the file does not define", r.Name, side.msg), nil)
				continue
			}
			if side.t == nil {
				continue
			}
			e := sp.Eff(side.t)
			if e.K != spec.KObject {
				continue // wrapped into a single "field": no designed number
			}
			checkAttrs(sp, msgs, pm, e.Attrs, e.Required, side.meta, map[string]bool{}, func(sig, what string) {
				report(m, fmt.Sprintf("C10 proto %s %s in=%s", sig, featString(m.Feat, "family"), side.name), what, nil)
			}, c)
		}
	}
}

// checkAttrs compares the fields of message pm with the designed attributes.
func checkAttrs(sp *spec.Spec, msgs map[string]*protoparse.Message, pm *protoparse.Message, attrs []*spec.Attr, required []string, skip map[string]bool, visited map[string]bool,
	fail func(sig, what string), c *core.Ctx) {
	if visited[pm.Name] {
		return
	}
	visited[pm.Name] = true
	find := func(name string) *protoparse.Field {
		for _, f := range pm.Fields {
			if norm(f.Name) == norm(name) {
				return f
			}
		}
		return nil
	}
	for _, a := range attrs {
		if skip[a.Name] {
			continue
		}
		if a.T.K == spec.KUnion {
			for _, alt := range a.T.Attrs {
				f := find(alt.Name)
				switch {
				case f == nil:
					fail("attribute-missing at=union-alternative", fmt.Sprintf("message %s has no field for alternative %q of union %q", pm.Name, alt.Name, a.Name))
				case f.Oneof == "":
					fail("union-alternative-outside-oneof", fmt.Sprintf("message %s: field %q of union %q is not inside a oneof", pm.Name, alt.Name, a.Name))
				case alt.Tag != 0 && f.Number != uint64(alt.Tag):
					fail(fmt.Sprintf("field-number at=union-alternative designed=%d observed=%d", alt.Tag, f.Number), fmt.Sprintf("message %s: alternative %q of union %q was given number %d in the design, the definition says %d", pm.Name, alt.Name, a.Name, alt.Tag, f.Number))
				default:
					c.Outcome("field-number-ok at=union-alternative")
				}
			}
			continue
		}
		f := find(a.Name)
		if f == nil && a.Sec != "" && a.Tag == 0 {
			// a credential attribute without a designed field number: goa sends it as request
			// metadata unless the design maps it into the message
			c.Outcome("credential-attribute-in-metadata")
			continue
		}
		if f == nil {
			fail("attribute-missing at=field", fmt.Sprintf("message %s has no field for attribute %q", pm.Name, a.Name))
			continue
		}
		if a.Tag != 0 {
			if f.Number != uint64(a.Tag) {
				fail(fmt.Sprintf("field-number at=field designed=%d observed=%d", a.Tag, f.Number), fmt.Sprintf("message %s: attribute %q was given number %d in the design, the definition says %d", pm.Name, a.Name, a.Tag, f.Number))
			} else {
				c.Outcome("field-number-ok at=field")
			}
		}
		// requiredness: proto3 can say it for singular scalar fields only ("optional" = presence is
		// tracked, the field may be absent); an attribute the design requires is not declared optional
		if ae := sp.Eff(a.T); spec.IsPrimitive(ae.K) && ae.K != spec.KBytes {
			isReq := false
			for _, r := range required {
				if r == a.Name {
					isReq = true
				}
			}
			if isReq && f.Label == "optional" {
				fail("required-attribute-declared-optional at=field", fmt.Sprintf("message %s: attribute %q is required in the design, the definition declares the field optional", pm.Name, a.Name))
			} else if isReq {
				c.Outcome("requiredness-ok at=field")
			}
		}
		// nested user types
		t := a.T
		for t != nil && (t.K == spec.KArray || t.K == spec.KMap) {
			t = t.Elem
		}
		if t == nil || (t.K != spec.KUser && t.K != spec.KObject) {
			continue
		}
		e := sp.Eff(t)
		if e.K != spec.KObject {
			continue
		}
		tn := f.Type
		if f.IsMap {
			tn = f.MapValue
		}
		nm := msgs[lastName(tn)]
		if nm == nil || (t.K == spec.KUser && norm(nm.Name) != norm(t.Ref)) {
			continue // reached through a wrapper message: not followed
		}
		checkAttrs(sp, msgs, nm, e.Attrs, e.Required, nil, visited, fail, c)
	}
}

// C08 — result views expose exactly the attributes of the selected view.
package main

import (
	"verif/core"
	"verif/e2/check"
	"verif/e2/families"
)

func run(c *core.Ctx) {
	c.Rule("designs: result types with 1-3 views: every non-empty subset of three attributes as second view, three views with required attributes, nested result type with per-view overrides (incl. array of nested), collection, view fixed in the design, single view; " +
		"per method: value menu {all attributes set, required only, zero values} x every view name the stub returns {each defined view, empty, undefined} x response tampering of the goa-view label {each defined view, undefined, removed}; " +
		"one case = (method, value, view or tampered label); every case is one end-to-end execution; non-trivial = all")
	c.Assume("when the service itself returns an undefined view name the statement promises nothing about the response: only 'the client does not get a result' is required (the generated server panics there, observed as an aborted connection)")
	c.Assume("relabelling a response with another DEFINED view or removing the label is recorded, not asserted (validation under the labelled view may legitimately succeed or fail)")
	corpus, err := check.BuildFamily(c, families.Views(c.Thorough()))
	if err != nil {
		c.HarnessError("%v", err)
		return
	}
	if err := check.RunMode(c, corpus, "C08"); err != nil {
		c.HarnessError("%v", err)
	}
}

func main() { core.Main("C08", run, nil) }

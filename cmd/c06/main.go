// C06 — secured methods run only after a security requirement is satisfied.
package main

import (
	"verif/core"
	"verif/e2/check"
	"verif/e2/families"
)

func run(c *core.Ctx) {
	c.Rule("designs: requirement structures of 1-3 alternatives x 1-2 schemes over {Basic, APIKey in header, APIKey in query, JWT, OAuth2} (quick: all single conjunctions, all ordered pairs over a reduced menu, two triples; thorough: all 15 conjunctions, all pairs and triples over the reduced menu) " +
		"declared at method / service / API level, with method override, NoSecurity, service-over-API and no security at all, explicit and implicit JWT header mapping; " +
		"per method: every accept/reject vector of the recording Auther's callbacks (2^k, keyed by scheme) x the credential menu; one case = (method, vector, credential set); non-trivial = the method has an effective requirement")
	c.Assume("the reference verdict is the OR over requirements of the AND over their schemes; rejected callbacks return a plain error 'reject <scheme>'")
	c.Assume("all credential attributes are required and non-empty (empty credentials are C02 delivery classes)")
	corpus, err := check.BuildFamily(c, families.Security(c.Thorough()))
	if err != nil {
		c.HarnessError("%v", err)
		return
	}
	if err := check.RunMode(c, corpus, "C06"); err != nil {
		c.HarnessError("%v", err)
	}
}

func main() { core.Main("C06", run, nil) }

package main

// The reference model of C15. Plain Go and the standard library only; nothing here calls goa.
//
//   - refMediaType: what media type a header value names (RFC 7231 section 3.1.1.1: type "/" subtype,
//     case-insensitive, optional parameters after ';').
//   - refFormat: which body format a media type announces (exact names documented by
//     goa's encoder/decoder comments, plus the structured-syntax suffixes of RFC 6839).
//   - refEncode / refDecode: the four boring codecs (encoding/json, encoding/xml,
//     encoding/gob, raw text).
//   - canon: canonical rendering of a value used for equality (pointers dereferenced, nil
//     and empty slices/maps identified).

import (
	"bytes"
	"encoding/gob"
	"encoding/hex"
	"encoding/json"
	"encoding/xml"
	"fmt"
	"reflect"
	"sort"
	"strconv"
	"strings"
)

const (
	fJSON = "json"
	fXML  = "xml"
	fGob  = "gob"
	fText = "text"
)

var allFormats = []string{fJSON, fXML, fGob, fText}

var exactFormatName = map[string]bool{fJSON: true, fXML: true, fGob: true, fText: true}

// exactFormat maps the five media types goa documents as supported to their body format.
var exactFormat = map[string]string{
	"application/json": fJSON,
	"application/xml":  fXML,
	"application/gob":  fGob,
	"text/html":        fText,
	"text/plain":       fText,
}

func isTokenChar(r rune) bool {
	if r <= 0x20 || r >= 0x7f {
		return false
	}
	return !strings.ContainsRune(`()<>@,;:\"/[]?={}`, r)
}

func isToken(s string) bool {
	if s == "" {
		return false
	}
	for _, r := range s {
		if !isTokenChar(r) {
			return false
		}
	}
	return true
}

// mediaType is the reference parse of one media type / media range.
type mediaType struct {
	WellFormed bool   // type "/" subtype with token syntax and well-formed parameters
	Name       string // lower-cased "type/subtype" (valid when WellFormed)
	HasParams  bool
	QZero      bool // carries q=0 (Accept only)
	BareSuffix bool // goa's own tests use "+json" style names without a slash
}

// refMediaType parses a single media type (no comma list).
func refMediaType(s string) mediaType {
	var m mediaType
	parts := strings.Split(s, ";")
	name := strings.ToLower(strings.Trim(parts[0], " \t"))
	slash := strings.IndexByte(name, '/')
	if slash < 0 {
		if strings.HasPrefix(name, "+") && isToken(name) {
			m.BareSuffix = true
			m.Name = name
		}
		return m
	}
	if !isToken(name[:slash]) || !isToken(name[slash+1:]) {
		return m
	}
	m.Name = name
	m.WellFormed = true
	seen := map[string]bool{}
	for _, p := range parts[1:] {
		m.HasParams = true
		p = strings.Trim(p, " \t")
		eq := strings.IndexByte(p, '=')
		if eq <= 0 || !isToken(p[:eq]) {
			m.WellFormed = false
			return m
		}
		if k := strings.ToLower(p[:eq]); seen[k] {
			m.WellFormed = false // the same parameter twice: broken syntax
			return m
		} else {
			seen[k] = true
		}
		val := p[eq+1:]
		if strings.HasPrefix(val, `"`) {
			if len(val) < 2 || !strings.HasSuffix(val, `"`) {
				m.WellFormed = false
				return m
			}
		} else if !isToken(val) {
			m.WellFormed = false
			return m
		}
		if strings.EqualFold(p[:eq], "q") {
			q := strings.Trim(val, `"`)
			if strings.Trim(q, "0.") == "" {
				m.QZero = true
			}
		}
	}
	return m
}

// suffixOf returns the structured-syntax suffix of a media type name ("json" for
// "application/vnd.api+json"), or "".
func suffixOf(name string) string {
	if i := strings.LastIndexByte(name, '+'); i >= 0 {
		return name[i+1:]
	}
	return ""
}

// refFormat says which body format a response Content-Type header announces:
// json/xml/gob/text, "default" (a well-formed type that names none of them: the statement's
// fallback is JSON), "none" (no header) or "unparsable".
func refFormat(header string) string {
	if header == "" {
		return "none"
	}
	m := refMediaType(header)
	if !m.WellFormed {
		return "unparsable"
	}
	if f, ok := exactFormat[m.Name]; ok {
		return f
	}
	switch suffixOf(m.Name) {
	case "json":
		return fJSON
	case "xml":
		return fXML
	case "gob":
		return fGob
	}
	return "default"
}

// headerClass abstracts a Content-Type header value for signatures: the exact supported name,
// "vendor+<suffix>", "vendor" (no suffix), with ";params" appended when it has parameters.
func headerClass(h string) string {
	if h == "" {
		return "none"
	}
	m := refMediaType(h)
	if m.BareSuffix {
		return "bare" + m.Name
	}
	if !m.WellFormed && m.Name == "" {
		return "unparsable"
	}
	var c string
	if _, ok := exactFormat[m.Name]; ok {
		c = m.Name
	} else if s := suffixOf(m.Name); s != "" {
		switch s {
		case "json", "xml", "gob", "html", "txt":
			c = "vendor+" + s
		default:
			c = "vendor+other"
		}
	} else {
		c = "vendor"
	}
	if m.HasParams {
		c += ";params"
	}
	if !m.WellFormed {
		c += "(malformed-params)"
	}
	return c
}

// headerRelation tells how the final header relates to the pre-set one.
func headerRelation(preset, header string) string {
	switch {
	case preset == "":
		return "set"
	case header == preset:
		return "preset-kept"
	case header == preset+"+json" || header == preset+"+xml":
		return "preset+suffix-appended"
	}
	return "replaced"
}

// ---- codecs ----

func refEncode(format string, v any) ([]byte, error) {
	var buf bytes.Buffer
	switch format {
	case fJSON:
		if err := json.NewEncoder(&buf).Encode(v); err != nil {
			return nil, err
		}
	case fXML:
		if r, ok := v.(interface{ xmlRoot() string }); ok {
			// harness-owned mirror of a goa type: written under the documented element name
			if err := xml.NewEncoder(&buf).EncodeElement(v, xml.StartElement{Name: xml.Name{Local: r.xmlRoot()}}); err != nil {
				return nil, err
			}
		} else if err := xml.NewEncoder(&buf).Encode(v); err != nil {
			return nil, err
		}
	case fGob:
		if err := gob.NewEncoder(&buf).Encode(v); err != nil {
			return nil, err
		}
	case fText:
		switch c := v.(type) {
		case string:
			buf.WriteString(c)
		case *string:
			if c == nil {
				return nil, fmt.Errorf("nil string pointer")
			}
			buf.WriteString(*c)
		case []byte:
			buf.Write(c)
		default:
			return nil, fmt.Errorf("text cannot carry %T", v)
		}
	default:
		return nil, fmt.Errorf("unknown format %q", format)
	}
	return buf.Bytes(), nil
}

// refDecode decodes body into target (a pointer) with the codec of the format.
func refDecode(format string, body []byte, target any) (err error) {
	defer func() {
		if r := recover(); r != nil {
			err = fmt.Errorf("codec panic: %v", r)
		}
	}()
	switch format {
	case fJSON:
		return json.NewDecoder(bytes.NewReader(body)).Decode(target)
	case fXML:
		return xml.NewDecoder(bytes.NewReader(body)).Decode(target)
	case fGob:
		return gob.NewDecoder(bytes.NewReader(body)).Decode(target)
	case fText:
		switch c := target.(type) {
		case *string:
			*c = string(body)
		case *[]byte:
			*c = append([]byte{}, body...)
		default:
			return fmt.Errorf("text cannot be loaded into %T", target)
		}
		return nil
	}
	return fmt.Errorf("unknown format %q", format)
}

// ---- equality ----

// canon renders v canonically: pointers are dereferenced, nil and empty slices / maps are the
// same, map keys are sorted, byte slices are hex.
func canon(v any) string {
	if m, ok := v.(*errMirror); ok && m != nil { // same rendering as the generic path, without reflection
		return "errMirror{Name=" + strconv.Quote(m.Name) + ",ID=" + strconv.Quote(m.ID) + ",Message=" + strconv.Quote(m.Message) +
			",Temporary=" + strconv.FormatBool(m.Temporary) + ",Timeout=" + strconv.FormatBool(m.Timeout) + ",Fault=" + strconv.FormatBool(m.Fault) + "}"
	}
	var sb strings.Builder
	canonValue(&sb, reflect.ValueOf(v))
	return sb.String()
}

func canonValue(sb *strings.Builder, v reflect.Value) {
	if !v.IsValid() {
		sb.WriteString("nil")
		return
	}
	switch v.Kind() {
	case reflect.Ptr, reflect.Interface:
		if v.IsNil() {
			sb.WriteString("nil")
			return
		}
		canonValue(sb, v.Elem())
	case reflect.String:
		fmt.Fprintf(sb, "%q", v.String())
	case reflect.Slice:
		if v.Type().Elem().Kind() == reflect.Uint8 {
			sb.WriteString("0x" + hex.EncodeToString(v.Bytes()))
			return
		}
		sb.WriteByte('[')
		for i := 0; i < v.Len(); i++ {
			if i > 0 {
				sb.WriteByte(',')
			}
			canonValue(sb, v.Index(i))
		}
		sb.WriteByte(']')
	case reflect.Map:
		keys := v.MapKeys()
		sort.Slice(keys, func(i, j int) bool { return fmt.Sprint(keys[i]) < fmt.Sprint(keys[j]) })
		sb.WriteString("map{")
		for i, k := range keys {
			if i > 0 {
				sb.WriteByte(',')
			}
			canonValue(sb, k)
			sb.WriteByte(':')
			canonValue(sb, v.MapIndex(k))
		}
		sb.WriteByte('}')
	case reflect.Struct:
		sb.WriteString(v.Type().Name() + "{")
		for i := 0; i < v.NumField(); i++ {
			if i > 0 {
				sb.WriteByte(',')
			}
			sb.WriteString(v.Type().Field(i).Name + "=")
			canonValue(sb, v.Field(i))
		}
		sb.WriteByte('}')
	default:
		fmt.Fprintf(sb, "%v", v.Interface())
	}
}

// ---- expectations derived from the statement ----

// acceptExpectation derives from the property statement what an Accept value (with no
// designed content type) obliges the encoder to do:
//
//	"json"   missing or unrecognised preference: fall back to JSON
//	<format> a single media range naming exactly one supported type (case-insensitive,
//	         optional well-formed parameters, not q=0): that type
//	""       the statement is silent (lists, wildcards, suffixed vendor types, q=0, odd syntax)
//
// The second return value is the media type name that must be announced when it is exact.
func acceptExpectation(accept string, set bool) (format string, class string) {
	if !set || accept == "" {
		return fJSON, "absent"
	}
	if strings.Contains(accept, ",") {
		recognised := false
		for _, part := range strings.Split(accept, ",") {
			if rangeMentionsSupported(part) {
				recognised = true
			}
		}
		if recognised {
			return "", "list"
		}
		return fJSON, "unrecognised"
	}
	m := refMediaType(accept)
	if m.WellFormed {
		if f, ok := exactFormat[m.Name]; ok {
			if m.QZero {
				return "", "q0"
			}
			switch {
			case accept == m.Name:
				return f, "exact"
			case m.HasParams:
				return f, "exact+params"
			}
			return f, "exact-case/space-variant"
		}
	}
	if rangeMentionsSupported(accept) {
		return "", "wildcard-or-suffix"
	}
	return fJSON, "unrecognised"
}

// rangeMentionsSupported reports whether a media range could be read as asking for one of the
// supported formats: it names a supported type, a wildcard, or a known structured suffix.
func rangeMentionsSupported(r string) bool {
	name := strings.ToLower(strings.Trim(strings.SplitN(r, ";", 2)[0], " \t"))
	if _, ok := exactFormat[name]; ok {
		return true
	}
	if strings.Contains(name, "*") {
		return true
	}
	switch suffixOf(name) {
	case "json", "xml", "gob", "html", "txt":
		return true
	}
	return false
}

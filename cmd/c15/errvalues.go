package main

// Values that carry their OWN marshalling code inside goa. In /repo/http and /repo/pkg (the run-time
// packages whose values goa itself sends through these encoders) exactly one type implements an
// encoding interface (json / xml / gob / text / binary Marshaler or Unmarshaler):
// (*goahttp.ErrorResponse).MarshalXML. It is the body of every error that is not described in the
// design, built by goahttp.NewErrorResponse from a goa.ServiceError and written by
// goahttp.ErrorEncoder. (The other Marshal* methods of the repository belong to the OpenAPI
// document types of the generator, which never travel through ResponseEncoder.)
//
// Menus (complete products, every element is one entry of the value menu of the response product):
//
//	direct:     *goahttp.ErrorResponse handed to Encoder.Encode as generated code hands over a body:
//	            8 flag combinations (timeout x temporary x fault) x text variety
//	error path: goahttp.ErrorEncoder(encoder, nil)(ctx, w, err), as server_handler_init.go.tpl and
//	            error_encoder.go.tpl call it, with err built from a goa.ServiceError:
//	            8 flag combinations x text variety x construction (the *ServiceError itself, wrapped
//	            with %w, ...) plus errors that are no ServiceError at all
//
// The reference side never touches goa's type: errMirror is a harness-owned struct with the
// documented wire names and no methods, so encoding/json, encoding/xml and encoding/gob treat it
// with their default rules.

import (
	"errors"
	"fmt"
	"net/http"
	"reflect"
	"strings"

	goahttp "goa.design/goa/v3/http"
	goa "goa.design/goa/v3/pkg"
)

// errMirror mirrors the documented wire shape of goahttp.ErrorResponse (field names of the json
// and xml tags, gob by Go field name). It has no methods.
type errMirror struct {
	Name      string `json:"name" xml:"name"`
	ID        string `json:"id" xml:"id"`
	Message   string `json:"message" xml:"message"`
	Temporary bool   `json:"temporary" xml:"temporary"`
	Timeout   bool   `json:"timeout" xml:"timeout"`
	Fault     bool   `json:"fault" xml:"fault"`
}

// xmlRoot: the reference XML codec writes the mirror under the documented element name
// (goahttp.ErrorResponseXMLName is "error"); reading accepts any root element.
func (errMirror) xmlRoot() string { return "error" }

// mirrorOf copies a value decoded by goa into the mirror, field by field.
func mirrorOf(v any) any {
	switch e := v.(type) {
	case *goahttp.ErrorResponse:
		if e == nil {
			return v
		}
		return &errMirror{Name: e.Name, ID: e.ID, Message: e.Message, Temporary: e.Temporary, Timeout: e.Timeout, Fault: e.Fault}
	case goahttp.ErrorResponse:
		return mirrorOf(&e)
	}
	return v
}

// refStatus is the documented mapping from the characteristics of an error to the status of
// its response (goa's error handling documentation and the comment of ErrorResponse.StatusCode:
// unsupported media type 415; fault 500; timeout and temporary 504; timeout 408; temporary 503;
// otherwise 400).
func refStatus(m *errMirror) int {
	switch {
	case m.Name == "unsupported_media_type":
		return http.StatusUnsupportedMediaType
	case m.Fault:
		return http.StatusInternalServerError
	case m.Timeout && m.Temporary:
		return http.StatusGatewayTimeout
	case m.Timeout:
		return http.StatusRequestTimeout
	case m.Temporary:
		return http.StatusServiceUnavailable
	}
	return http.StatusBadRequest
}

type errText struct {
	ID                 string
	Name, EID, Message string
	Quick              bool
}

// errTexts: "with and without ID / Name / Message variety". Markup characters make the XML and
// JSON escapers work; "umt" carries the one name the status mapping looks at.
var errTexts = []errText{
	{"full", "boom", "abc123", "it <broke> & \"burned\"", true},
	{"empty", "", "", "", true},
	{"umt", "unsupported_media_type", "id-415", "unsupported media type x/y", false},
	{"unicode", "héllo", "世界-1", "tab\there ]]> {\"a\":1}", false},
}

type errFlags struct{ Timeout, Temporary, Fault bool }

func allFlags() []errFlags {
	var out []errFlags
	for i := 0; i < 8; i++ {
		out = append(out, errFlags{Timeout: i&4 != 0, Temporary: i&2 != 0, Fault: i&1 != 0})
	}
	return out
}

func b2i(b bool) int {
	if b {
		return 1
	}
	return 0
}

func (f errFlags) id() string {
	return fmt.Sprintf("to%d-tmp%d-f%d", b2i(f.Timeout), b2i(f.Temporary), b2i(f.Fault))
}

func (f errFlags) differ() string {
	if f.Timeout != f.Temporary {
		return "timeout!=temporary"
	}
	return "timeout==temporary"
}

// errConstruction builds the error handed to the error encoder around a ServiceError.
type errConstruction struct {
	ID    string
	Quick bool
	// Build returns the error and the messages the response may carry besides the
	// ServiceError's own (the text of the wrapper is an equally faithful rendering).
	Build func(se *goa.ServiceError) (err error, altMessages []string)
}

var errConstructions = []errConstruction{
	{"svc", true, func(se *goa.ServiceError) (error, []string) { return se, nil }},
	{"wrapped", true, func(se *goa.ServiceError) (error, []string) {
		err := fmt.Errorf("while serving: %w", se)
		return err, []string{err.Error()}
	}},
	{"wrapped-twice", false, func(se *goa.ServiceError) (error, []string) {
		inner := fmt.Errorf("inner: %w", se)
		err := fmt.Errorf("outer: %w", inner)
		return err, []string{err.Error(), inner.Error()}
	}},
	{"joined", false, func(se *goa.ServiceError) (error, []string) {
		err := errors.Join(errors.New("unrelated"), se)
		return err, []string{err.Error()}
	}},
	{"newserviceerror", false, func(se *goa.ServiceError) (error, []string) {
		// the public constructor: wraps an original error, draws a random ID (overwritten:
		// the field is exported)
		n := goa.NewServiceError(errors.New(se.Message), se.Name, se.Timeout, se.Temporary, se.Fault)
		n.ID = se.ID
		return n, nil
	}},
	{"with-field", false, func(se *goa.ServiceError) (error, []string) {
		f := "payload.field"
		se.Field = &f // validation errors point at a field; ErrorResponse has no such member
		return se, nil
	}},
}

func errorValues() []valueSpec {
	var out []valueSpec
	// direct: *goahttp.ErrorResponse through Encoder.Encode
	for _, tx := range errTexts {
		for _, fl := range allFlags() {
			tx, fl := tx, fl
			mirror := func() any {
				return &errMirror{Name: tx.Name, ID: tx.EID, Message: tx.Message, Temporary: fl.Temporary, Timeout: fl.Timeout, Fault: fl.Fault}
			}
			out = append(out, valueSpec{
				ID: "errresp/" + tx.ID + "/" + fl.id(), Kind: "errresp", Quick: tx.Quick, Deep: !tx.Quick,
				Make: func() any {
					return &goahttp.ErrorResponse{Name: tx.Name, ID: tx.EID, Message: tx.Message, Temporary: fl.Temporary, Timeout: fl.Timeout, Fault: fl.Fault}
				},
				Target:    func() any { return new(goahttp.ErrorResponse) },
				Orig:      func() []any { return []any{mirror()} },
				RefTarget: func() any { return new(errMirror) },
				Norm:      mirrorOf,
			})
		}
	}
	// error path: goa.ServiceError through goahttp.ErrorEncoder
	for _, k := range errConstructions {
		for _, tx := range errTexts {
			for _, fl := range allFlags() {
				k, tx, fl := k, tx, fl
				build := func() (error, []string) {
					return k.Build(&goa.ServiceError{Name: tx.Name, ID: tx.EID, Message: tx.Message, Timeout: fl.Timeout, Temporary: fl.Temporary, Fault: fl.Fault})
				}
				out = append(out, valueSpec{
					ID: "svcerr/" + k.ID + "/" + tx.ID + "/" + fl.id(), Kind: "svcerr-" + k.ID, Quick: k.Quick && tx.Quick, Deep: !(k.Quick && tx.Quick),
					Err:    func() error { e, _ := build(); return e },
					Make:   func() any { e, _ := build(); return e },
					Target: func() any { return new(goahttp.ErrorResponse) },
					Orig: func() []any {
						_, alt := build()
						all := []any{&errMirror{Name: tx.Name, ID: tx.EID, Message: tx.Message, Temporary: fl.Temporary, Timeout: fl.Timeout, Fault: fl.Fault}}
						for _, m := range alt {
							all = append(all, &errMirror{Name: tx.Name, ID: tx.EID, Message: m, Temporary: fl.Temporary, Timeout: fl.Timeout, Fault: fl.Fault})
						}
						return all
					},
					RefTarget: func() any { return new(errMirror) },
					Norm:      mirrorOf,
				})
			}
		}
	}
	// errors that are no ServiceError: "encoded as a permanent internal server error" (ErrorEncoder's
	// comment): fault, neither timeout nor temporary, the error text as message; the name and the
	// freshly drawn ID are goa's choice ("*" = any).
	for _, p := range []struct {
		id, msg string
		quick   bool
	}{{"plain", "plain <failure> & more", true}, {"plain-empty", "", false}} {
		p := p
		out = append(out, valueSpec{
			ID: "svcerr/" + p.id, Kind: "svcerr-plain", Quick: p.quick, Deep: !p.quick, AnyNameID: true,
			Err:       func() error { return errors.New(p.msg) },
			Make:      func() any { return errors.New(p.msg) },
			Target:    func() any { return new(goahttp.ErrorResponse) },
			Orig:      func() []any { return []any{&errMirror{Name: "*", ID: "*", Message: p.msg, Fault: true}} },
			RefTarget: func() any { return new(errMirror) },
			Norm:      mirrorOf,
		})
	}
	return out
}

// ---- helpers of the oracle over values with a harness-owned original ----

// origs returns the acceptable originals (canonical form) of a value: what the peer must recover.
func (v *valueSpec) origs() []any {
	if v.Orig != nil {
		return v.Orig()
	}
	return []any{v.Make()}
}

func (v *valueSpec) refTarget() any {
	if v.RefTarget != nil {
		return v.RefTarget()
	}
	return v.Target()
}

// norm maps a target filled by goa's decoder (or by a reference codec) to the form of the
// originals; values whose name and ID are goa's choice get them blanked to "*".
func (v *valueSpec) norm(t any) any {
	if v.Norm != nil {
		t = v.Norm(t)
	}
	if v.AnyNameID {
		if m, ok := t.(*errMirror); ok && m != nil {
			c := *m
			c.Name, c.ID = "*", "*"
			return &c
		}
	}
	return t
}

// matches reports whether the filled target equals one of the acceptable originals.
func (v *valueSpec) matches(t any) bool {
	got := canon(v.norm(t))
	wants := v.wants
	if wants == nil {
		wants = canonAll(v.origs())
	}
	for _, w := range wants {
		if w == got {
			return true
		}
	}
	return false
}

func canonAll(vs []any) []string {
	out := make([]string, len(vs))
	for i, o := range vs {
		out[i] = canon(o)
	}
	return out
}

// diffFields names the struct fields in which got differs from the (first) original; "" for
// values that are not structs.
func (v *valueSpec) diffFields(t any) string {
	a, b := reflect.ValueOf(v.origs()[0]), reflect.ValueOf(v.norm(t))
	for a.Kind() == reflect.Ptr && !a.IsNil() {
		a = a.Elem()
	}
	for b.Kind() == reflect.Ptr && !b.IsNil() {
		b = b.Elem()
	}
	if a.Kind() != reflect.Struct || b.Kind() != reflect.Struct || a.Type() != b.Type() {
		return ""
	}
	var names []string
	for i := 0; i < a.NumField(); i++ {
		var x, y strings.Builder
		canonValue(&x, a.Field(i))
		canonValue(&y, b.Field(i))
		if x.String() != y.String() {
			names = append(names, a.Type().Field(i).Name)
		}
	}
	return strings.Join(names, ",")
}

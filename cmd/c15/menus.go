package main

// The alphabets of C15. Every menu is a fixed list built deterministically; quick is a
// subset of thorough; replay always resolves against the thorough menus.

import (
	"fmt"
	"strings"
)

// ---------------------------------------------------------------------------------------
// values

// Child and Body mimic a generated response/request body type: pointer fields for optional
// attributes, json and xml tags, a nested user type and an array.
type Child struct {
	ID    int    `form:"id" json:"id" xml:"id"`
	Label string `form:"label" json:"label" xml:"label"`
}

type Body struct {
	Name  string   `form:"name" json:"name" xml:"name"`
	Count *int     `form:"count,omitempty" json:"count,omitempty" xml:"count,omitempty"`
	Note  *string  `form:"note,omitempty" json:"note,omitempty" xml:"note,omitempty"`
	Tags  []string `form:"tags,omitempty" json:"tags,omitempty" xml:"tags,omitempty"`
	Child *Child   `form:"child,omitempty" json:"child,omitempty" xml:"child,omitempty"`
}

type valueSpec struct {
	ID   string
	Kind string // struct | string | pstring | bytes | map | errresp | svcerr-<construction> | nil-pstring
	// Make builds a fresh value exactly as generated code hands it to Encoder.Encode.
	Make func() any
	// Target builds a fresh pointer the peer decodes into (`var body T; Decode(&body)`).
	Target func() any
	// NoValue marks the nil *string: there is no value to recover, only "no panic" applies.
	NoValue bool
	Quick   bool

	// Err, when set, makes the value an error answered through the default error path
	// goahttp.ErrorEncoder(encoder, nil)(ctx, w, Err()) instead of Encoder.Encode(Make()).
	Err func() error
	// Orig lists the acceptable originals in harness-owned types (what the peer must recover);
	// default: Make(). RefTarget is the pointer the REFERENCE codecs decode into (default Target());
	// Norm maps a filled Target / RefTarget to the form of the originals (default identity).
	Orig      func() []any
	RefTarget func() any
	Norm      func(any) any
	// AnyNameID: the name and the ID of the response are goa's choice (errors that are no ServiceError).
	AnyNameID bool
	// Deep: an error value outside the quick menus (rarer texts and constructions). Thorough explores
	// these in a product of their own (P4) instead of multiplying the full header menus by them.
	Deep bool

	wants []string // canon of every acceptable original (filled by allValues)
}

func sp(s string) *string { return &s }
func ip(i int) *int       { return &i }

func stringValue(id, s string, quick bool) []valueSpec {
	return []valueSpec{
		{ID: "string/" + id, Kind: "string", Make: func() any { return s }, Target: func() any { return new(string) }, Quick: quick},
		{ID: "pstring/" + id, Kind: "pstring", Make: func() any { return sp(s) }, Target: func() any { return new(string) }, Quick: quick},
	}
}

func bytesValue(id string, b []byte, quick bool) valueSpec {
	return valueSpec{ID: "bytes/" + id, Kind: "bytes", Make: func() any { return append([]byte{}, b...) }, Target: func() any { return new([]byte) }, Quick: quick}
}

func structValue(id string, mk func() *Body, quick bool) valueSpec {
	return valueSpec{ID: "struct/" + id, Kind: "struct", Make: func() any { return mk() }, Target: func() any { return new(Body) }, Quick: quick}
}

func mapValue(id string, m map[string]string, quick bool) valueSpec {
	return valueSpec{ID: "map/" + id, Kind: "map", Make: func() any {
		c := map[string]string{}
		for k, v := range m {
			c[k] = v
		}
		return c
	}, Target: func() any { return new(map[string]string) }, Quick: quick}
}

func allValues() []valueSpec {
	var out []valueSpec
	out = append(out, structValue("full", func() *Body {
		return &Body{Name: "goa", Count: ip(3), Note: sp("a <note> & \"more\""), Tags: []string{"x", "y z"}, Child: &Child{ID: 7, Label: "kid"}}
	}, true))
	out = append(out, stringValue("plain", "hello world", true)...)
	out = append(out, bytesValue("plain", []byte("raw bytes"), true))
	out = append(out, mapValue("two", map[string]string{"a": "1", "b": "two"}, true))
	out = append(out, errorValues()...) // errvalues.go: goahttp.ErrorResponse directly and through the default error path
	out = append(out, valueSpec{ID: "pstring/nil", Kind: "nil-pstring", NoValue: true, Quick: true,
		Make: func() any { return (*string)(nil) }, Target: func() any { return new(string) }})
	// thorough extras
	out = append(out, structValue("minimal", func() *Body { return &Body{Name: "n"} }, false))
	out = append(out, structValue("zero", func() *Body { return &Body{} }, false))
	out = append(out, structValue("unicode", func() *Body {
		return &Body{Name: "héllo 世界", Note: sp("tab\there"), Tags: []string{"only"}, Child: &Child{ID: -1, Label: ""}}
	}, false))
	out = append(out, structValue("markup", func() *Body {
		return &Body{Name: `{"name":"json"}`, Note: sp("<name>xml</name>"), Count: ip(-42), Tags: []string{"a", "b", "c"}}
	}, false))
	out = append(out, stringValue("empty", "", false)...)
	out = append(out, stringValue("jsonish", `{"a":1}`, false)...)
	out = append(out, stringValue("quoted", `"quoted"`, false)...)
	out = append(out, stringValue("xmlish", `<string>x</string>`, false)...)
	out = append(out, stringValue("unicode", "héllo 世界 \U0001F600", false)...)
	out = append(out, stringValue("spaces", "  padded\twith\nnewline ", false)...)
	out = append(out, stringValue("number", "12345", false)...)
	out = append(out, bytesValue("empty", []byte{}, false))
	out = append(out, bytesValue("binary", []byte{0, 1, 2, 0xff, 0xfe, '<', '"', '\n'}, false))
	out = append(out, bytesValue("jsonish", []byte(`{"a":1}`), false))
	out = append(out, mapValue("empty", map[string]string{}, false))
	out = append(out, mapValue("one", map[string]string{"k": "v <&>"}, false))
	for i := range out {
		out[i].wants = canonAll(out[i].origs())
	}
	return out
}

func pick(vs []valueSpec, thorough bool) []valueSpec {
	if thorough {
		return vs
	}
	var out []valueSpec
	for _, v := range vs {
		if v.Quick {
			out = append(out, v)
		}
	}
	return out
}

func valueByID(id string) *valueSpec {
	switch id { // names used by replay files written before the error menus were completed
	case "errresp/fault":
		id = "errresp/full/to0-tmp0-f1"
	case "errresp/timeout":
		id = "errresp/empty/to1-tmp1-f0"
	}
	for _, v := range allValues() {
		if v.ID == id {
			v := v
			return &v
		}
	}
	return nil
}

// ---------------------------------------------------------------------------------------
// strings

type strItem struct {
	S     string
	Quick bool
}

type strMenu struct {
	items []strItem
	seen  map[string]bool
}

func (m *strMenu) add(quick bool, ss ...string) {
	if m.seen == nil {
		m.seen = map[string]bool{}
	}
	for _, s := range ss {
		if m.seen[s] {
			if quick {
				for i := range m.items {
					if m.items[i].S == s {
						m.items[i].Quick = true
					}
				}
			}
			continue
		}
		m.seen[s] = true
		m.items = append(m.items, strItem{s, quick})
	}
}

func (m *strMenu) list(thorough bool) []string {
	var out []string
	for _, it := range m.items {
		if thorough || it.Quick {
			out = append(out, it.S)
		}
	}
	return out
}

var supported = []string{"application/json", "application/xml", "application/gob", "text/html", "text/plain"}
var suffixes = []string{"+json", "+xml", "+gob", "+html", "+txt"}

func caseVariants(s string) []string {
	title := strings.ToUpper(s[:1]) + s[1:]
	if i := strings.IndexByte(s, '/'); i >= 0 && i+1 < len(s) {
		title = strings.ToUpper(s[:1]) + s[1:i+1] + strings.ToUpper(s[i+1:i+2]) + s[i+2:]
	}
	return []string{s, strings.ToUpper(s), title}
}

// acceptMenu: "" is the absent header (the generated handler stores r.Header.Get("Accept"),
// i.e. the empty string, under AcceptTypeKey).
func acceptMenu() *strMenu {
	m := &strMenu{}
	m.add(true, "")
	m.add(true, supported...)
	m.add(true,
		"application/json; charset=utf-8", "application/xml; charset=utf-8", "text/plain; charset=utf-8",
		"application/gob;q=0.5", "application/xml;q=0.9", "application/json;q=0", "text/html;level=1;q=0.7",
		"application/xml, application/json", "application/json, application/xml",
		"application/xml;q=0.9, application/json;q=0.8", "application/gob, text/plain;q=0.1",
		"text/html, application/xhtml+xml, application/xml;q=0.9, */*;q=0.8",
		"*/*", "application/*", "text/*", "*/*;q=0.1",
		"application/vnd.api+json", "application/vnd.api+xml", "application/vnd.api+gob",
		"application/vnd.api+html", "application/vnd.api+txt", "application/vnd.api",
		"APPLICATION/XML", "Application/Json", "TEXT/PLAIN", "application/vnd.API+XML",
		" application/xml ", "application/xml;",
		"image/png", "application/x-www-form-urlencoded", "garbage", "bad type/x y", "a/b;;", "/", ";q=1", ",", "+xml",
	)
	// thorough: every supported type x case x whitespace x parameters
	spaces := [][2]string{{"", ""}, {" ", ""}, {"", " "}, {" ", " "}, {"\t", "\t"}}
	params := []string{"", ";q=1", "; q=0.5", ";q=0.0", ";charset=utf-8", "; charset=UTF-8; q=0.1", ";", `; charset="utf-8"`, "; charset"}
	for _, s := range supported {
		for _, cv := range caseVariants(s) {
			for _, sp := range spaces {
				for _, p := range params {
					m.add(false, sp[0]+cv+p+sp[1])
				}
			}
		}
	}
	// thorough: every ordered pair of supported types, plain and with both q orders and spacing
	for _, a := range supported {
		for _, b := range supported {
			if a == b {
				continue
			}
			m.add(false, a+", "+b, a+","+b, a+";q=0.2, "+b+";q=0.9", a+";q=0.9, "+b+";q=0.2", a+" , "+b+";q=0")
		}
	}
	// thorough: triples in rotation, wildcards with q, suffixed vendor types in case variants
	for i := range supported {
		a, b, c := supported[i], supported[(i+1)%5], supported[(i+2)%5]
		m.add(false, a+", "+b+", "+c, a+";q=0.1, "+b+";q=0.5, "+c+";q=0.9", "*/*;q=0.1, "+a, a+", */*;q=0.1", "application/*, "+a+";q=0.5")
	}
	for _, sfx := range suffixes {
		for _, cv := range caseVariants("application/vnd.api" + sfx) {
			m.add(false, cv, cv+"; charset=utf-8", cv+";q=0.3", cv+", application/json")
		}
		m.add(false, sfx, "application/ld"+sfx, "text/x"+sfx)
	}
	m.add(false, "*", "*/json", "application/json/extra", "application/json xml", "application/json;;q=1", "application/json; q", "=", "\"application/json\"",
		"application/jsonx", "xapplication/json", "application/json+xml", "application/xml+json", "text/xml", "text/json", "json", "xml",
		"application/octet-stream", "multipart/form-data; boundary=x", strings.Repeat("a", 300)+"/"+strings.Repeat("b", 300))
	return m
}

// designedItem is a content type fixed in the design (value stored under ContentTypeKey by the
// generated response encoder). Kind is assigned by construction, not by asking goa:
// absent | json | xml | gob | text (exact or suffixed / with parameters / case variants) |
// unknown (well-formed, names no supported format) | malformed (not a media type).
type designedItem struct {
	S     string
	Kind  string
	Quick bool
}

func designedMenu(thorough bool) []designedItem {
	var out []designedItem
	seen := map[string]bool{}
	add := func(quick bool, kind string, ss ...string) {
		for _, s := range ss {
			if seen[s] {
				continue
			}
			seen[s] = true
			out = append(out, designedItem{s, kind, quick})
		}
	}
	add(true, "absent", "")
	add(true, fJSON, "application/json", "application/vnd.api+json", "application/json; charset=utf-8", "application/vnd.api+json; version=1", "Application/JSON", "+json")
	add(true, fXML, "application/xml", "application/vnd.api+xml", "application/xml; charset=utf-8")
	add(true, fGob, "application/gob", "application/vnd.api+gob")
	add(true, fText, "text/html", "text/plain", "application/vnd.api+html", "application/vnd.api+txt", "text/plain; charset=utf-8")
	add(true, "unknown", "application/vnd.goa.error", "image/png", "application/vnd.api", "text/xml")
	add(true, "malformed", "bad type/x y", "a/b;;", "/")
	// thorough
	for _, s := range supported {
		for _, cv := range caseVariants(s) {
			add(false, exactFormat[s], cv, cv+"; charset=utf-8", cv+";q=1", " "+cv+" ", cv+`; charset="utf-8"; x=y`)
		}
	}
	kinds := map[string]string{"+json": fJSON, "+xml": fXML, "+gob": fGob, "+html": fText, "+txt": fText}
	for _, sfx := range suffixes {
		for _, cv := range caseVariants("application/vnd.api" + sfx) {
			add(false, kinds[sfx], cv, cv+"; charset=utf-8")
		}
		add(false, kinds[sfx], sfx, sfx+"; charset=utf-8", "application/ld"+sfx, "text/x"+sfx, "application/vnd.goa.example"+sfx+"; view=default")
	}
	add(false, "unknown", "text/xml", "text/csv", "application/octet-stream", "application/x-www-form-urlencoded", "multipart/form-data; boundary=x",
		"application/vnd.goa.example; view=default", "application/jsonx", "application/json+foo", "x/y", "*/*", "application/*")
	add(false, "malformed", "garbage", "application/json; charset", "application/json;;", ";", "application/json xml", "application/", "/json", "a b", "application/json, application/xml", " ", "=", "application/json; =x")
	if thorough {
		return out
	}
	var q []designedItem
	for _, d := range out {
		if d.Quick {
			q = append(q, d)
		}
	}
	return q
}

// presetMenu: Content-Type header already present on the ResponseWriter before the generated
// encoder runs (a user middleware set it). "" = none.
func presetMenu() *strMenu {
	m := &strMenu{}
	m.add(true, "",
		"application/json", "application/xml", "application/vnd.api",
		"application/vnd.api+xml", "application/vnd.api+json", "application/vnd.api+gob",
		"application/vnd.api; charset=utf-8", "application/json; charset=utf-8", "text/plain; charset=utf-8",
		"text/plain", "application/octet-stream", "bad type/x y")
	m.add(false, "application/gob", "text/html", "text/html; charset=utf-8", "application/xml; charset=utf-8",
		"application/vnd.api+json; charset=utf-8", "application/vnd.api+xml; charset=utf-8", "application/vnd.api+html", "application/vnd.api+txt",
		"application/vnd.api+foo", "Application/Vnd.Api+XML", "APPLICATION/JSON", "application/vnd.api; version=1+2", "application/vnd.api;charset=utf-8",
		"application/vnd.api; charset=\"utf-8\"", "image/svg+xml", "application/ld+json", "application/problem+json", "application/problem+xml",
		"+json", "+xml", "a/b;;", "garbage", " application/vnd.api ", "application/vnd.api;")
	return m
}

// requestCTMenu: the request Content-Type header. "" = absent.
func requestCTMenu() *strMenu {
	m := &strMenu{}
	m.add(true, "")
	m.add(true, supported...)
	m.add(true, "application/json; charset=utf-8", "application/xml; charset=utf-8", "application/gob; x=y", "text/plain; charset=utf-8", "text/html; charset=UTF-8",
		"APPLICATION/JSON", "Application/Xml", "TEXT/PLAIN", " application/json ",
		"application/vnd.api+json", "application/vnd.api+xml", "application/vnd.api+gob", "application/vnd.api+html", "application/vnd.api+txt",
		"application/vnd.api", "image/png", "application/x-www-form-urlencoded", "multipart/form-data; boundary=x", "application/octet-stream", "text/xml", "text/csv", "*/*",
		"bad type/x y", "a/b;;", "/", ";", "garbage", "application/json, application/xml", "application/json; charset", "application/foo",
		// unsupported media types with broken syntax: the name before the first ';' decides -> 415
		"application/yaml", "application/yaml; charset", "application/msgpack; v=1; =", "multipart/form-data; boundary=a; boundary=b",
		"application/", "application/x/yaml", ";;", "application/vnd.api;;", "image/png; q", "application/yaml, application/json", "text/csv; charset=\"utf-8",
		// supported names with broken parameters: that format or 415, never another format
		"application/xml; charset", "application/gob;;", "text/plain; =x", "text/html; a=1; a=2", "APPLICATION/XML; charset", "application/json;",
		"application/vnd.api+json; charset", "application/vnd.api+xml;;", " ")
	spaces := [][2]string{{"", ""}, {" ", ""}, {"", " "}, {"\t", "\t"}}
	params := []string{"", ";charset=utf-8", "; charset=UTF-8", `; charset="utf-8"`, "; a=b; c=d", ";", "; charset", ";;"}
	for _, s := range supported {
		for _, cv := range caseVariants(s) {
			for _, sp := range spaces {
				for _, p := range params {
					m.add(false, sp[0]+cv+p+sp[1])
				}
			}
		}
	}
	for _, sfx := range suffixes {
		for _, cv := range caseVariants("application/vnd.api" + sfx) {
			m.add(false, cv, cv+"; charset=utf-8")
		}
		m.add(false, sfx, "application/ld"+sfx, "text/x"+sfx)
	}
	// thorough: every base type x every broken tail, and structural breakage of the name
	tails := []string{"; charset", ";;", "; =", "; v=1; =", "; a=1; a=2", "; charset=", "; charset=\"utf-8", " ;", "; q", "; charset=utf-8;;", ";=;"}
	bases := append([]string{"application/yaml", "application/msgpack", "application/vnd.api", "multipart/form-data", "image/png", "text/csv",
		"application/x-www-form-urlencoded", "application/octet-stream", "text/xml", "application/vnd.api+json", "application/vnd.api+xml", "application/vnd.api+gob"}, supported...)
	for _, b := range bases {
		for _, t := range tails {
			m.add(false, b+t, strings.ToUpper(b)+t)
		}
		m.add(false, b+"/", b+"/x", b+", application/json", "application/json, "+b, b+" application/json", "/"+b)
	}
	m.add(false, "application//json", "application/json/", "; charset=utf-8", "=;", ",", ";;;", "/;", "application/yaml,application/json; charset", "\t")
	m.add(false, "application/jsonx", "xapplication/json", "application/json+xml", "application/xml+json", "text/json", "json", "xml", "application/json/extra",
		"application/json xml", "application/", "/json", "=", " ", "application/json; =x", "application/x-gob", "application/x-json", "text/x-plain", "text/*", "application/*",
		strings.Repeat("a", 300)+"/"+strings.Repeat("b", 300), "application/json%", "%s/%d")
	return m
}

// requestBody is one body sent to the request decoder: the reference encoding of a value in a
// format, or a fixed irregular body.
type requestBody struct {
	ID     string
	Format string // json|xml|gob|text|empty|garbage
	Bytes  []byte
}

func requestBodies(v valueSpec, thorough bool) []requestBody {
	var out []requestBody
	for _, f := range allFormats {
		b, err := refEncode(f, v.Make())
		if err != nil {
			continue // the format cannot carry this value
		}
		out = append(out, requestBody{ID: f, Format: f, Bytes: b})
	}
	out = append(out, requestBody{ID: "empty", Format: "empty", Bytes: nil})
	if thorough {
		out = append(out,
			requestBody{ID: "garbage", Format: "garbage", Bytes: []byte("\x00\x01 not a body {<")},
			requestBody{ID: "json-null", Format: "garbage", Bytes: []byte("null\n")},
			requestBody{ID: "json-then-trailing", Format: "garbage", Bytes: []byte("{\"name\":\"t\"} trailing")},
		)
	}
	return out
}

func short(s string) string {
	if len(s) > 60 {
		return fmt.Sprintf("%s...(%d bytes)", s[:40], len(s))
	}
	return s
}

// C15 — response and request bodies are encoded as the Content-Type announces.
//
// Alphabet (see menus.go): Accept header values (absent, each supported type, parameters,
// q-values, comma lists, wildcards, +json/+xml/+gob/+html/+txt vendor types, upper case,
// whitespace, garbage); content types fixed in the design and handed over through
// goahttp.ContentTypeKey (absent, the five supported types, suffixed vendor types, parameters,
// case variants, unknown, malformed); Content-Type headers already present on the
// ResponseWriter (none, plain, vendor without / with suffix, with parameters, unparsable);
// values (struct with json/xml tags, string, *string, []byte, map[string]string, nil *string, and
// the one run-time type of goa with marshalling code of its own, errvalues.go:
// *goahttp.ErrorResponse for all 8 timeout x temporary x fault combinations x text variety, handed
// to Encoder.Encode directly AND produced by the default error path
// goahttp.ErrorEncoder(encoder, nil) from goa.ServiceError values - the error itself, wrapped with
// %w, wrapped twice, joined, built by NewServiceError, carrying a Field - and from errors that are
// no ServiceError). Request side: Content-Type menu x body (the value in every
// format that can carry it, empty, garbage) x target type x Accept of the error answer.
//
// Bound: the COMPLETE product of the menus (quick: base menus; thorough: systematic case /
// whitespace / parameter / q-order variants and more values). One execution = the real
// goahttp.ResponseEncoder + Encode + goahttp.ResponseDecoder + Decode (response side) or
// goahttp.RequestDecoder + Decode + goahttp.ErrorEncoder (request side), invoked exactly as the
// generated code invokes them.
//
// Oracle (from the statement only, reference model in ref.go):
//   - never a panic; a nil Encoder returned to generated code is a panic;
//   - if Encode returns no error, ResponseDecoder applied to the recorded response recovers a
//     value equal to the original, and a header announcing json/xml/gob/text sits on a body that
//     the reference codec of that format reads back to the original;
//   - missing / unrecognised Accept and unknown / malformed designed types give a JSON body; a
//     single media range naming a supported type gives that type;
//   - an Encode error is legitimate (XML cannot carry a map, text only strings and bytes);
//   - error responses: the original is a harness-owned mirror struct (documented wire names, no
//     methods), compared field by field; on the default error path the status written agrees
//     with the error's flags and with the flags the body carries (documented mapping: 415
//     unsupported media type, 500 fault, 504 timeout+temporary, 408 timeout, 503 temporary, 400);
//   - requests: absent Content-Type and supported media types decode exactly as the reference
//     codec of the announced format does (same value, or both fail, never 415); unsupported
//     media types - decided by the name before the first ';', however broken the rest of the
//     header is - are answered with 415 and never decoded; a supported name with broken
//     parameters, a suffixed vendor type or a blank header may be
//     415 or the announced format, nothing else.
package main

import (
	"fmt"
	"sync"

	"verif/core"
)

type acceptItem struct {
	S      string
	KeySet bool
}

type counters struct {
	mu       sync.Mutex
	outcomes map[string]int64
}

func (k *counters) merge(local map[string]int64) {
	k.mu.Lock()
	for o, n := range local {
		k.outcomes[o] += n
	}
	k.mu.Unlock()
}

// selfCheckValues verifies the premise of the equality oracle: every menu value survives every
// reference codec that can carry it (so a lost value is goa's doing, not the codec's).
func selfCheckValues(c *core.Ctx, values []valueSpec) {
	carried := map[string]int{}
	for i := range values {
		v := &values[i]
		if v.NoValue {
			continue
		}
		orig := v.origs()[0]
		want := canon(orig)
		for _, f := range allFormats {
			b, err := refEncode(f, orig)
			if err != nil {
				continue
			}
			carried[f]++
			t := v.refTarget()
			if err := refDecode(f, b, t); err != nil || canon(v.norm(t)) != want {
				c.HarnessError("menu value %s does not survive the reference %s codec (err=%v got=%s want=%s)", v.ID, f, err, canon(t), want)
			}
			if got := sniff(b, v); got != f {
				c.HarnessError("menu value %s: %s body is also readable as %s; formats not distinguishable", v.ID, f, got)
			}
		}
	}
	c.Note("values_carried_by_format", carried)
}

type dz struct {
	designedItem
	KeySet bool
}

// responseProduct explores the complete product accepts x dzs x presets x values, except the
// (accept, designed) pairs for which skip returns true (already covered by another product).
func responseProduct(c *core.Ctx, k *counters, tag string, accepts []acceptItem, dzs []dz, presets []string, values []valueSpec, skip func(a acceptItem, d dz) bool) {
	nshards := len(accepts) * len(dzs)
	var stopped, total int64
	var smu sync.Mutex
	core.Parallel(nshards, func(si int) {
		a := accepts[si/len(dzs)]
		d := dzs[si%len(dzs)]
		if skip != nil && skip(a, d) {
			return
		}
		if c.Expired() {
			smu.Lock()
			stopped++
			smu.Unlock()
			return
		}
		local := map[string]int64{}
		var execs int64
		for pi, p := range presets {
			key := fmt.Sprintf("resp|a=%q|k=%v|d=%q|dk=%v|p=%q", a.S, a.KeySet, d.S, d.KeySet, p)
			c.State(key, a.S != "" || d.S != "" || p != "")
			for vi := range values {
				v := &values[vi]
				rc := respCase{Side: "response", Accept: a.S, AcceptKey: a.KeySet, Designed: d.S, DesignedKey: d.KeySet, DesignedKind: d.Kind, Preset: p, Value: v.ID}
				outcome, fails := checkResponse(rc, v)
				execs++
				local[outcome]++
				if (si*31+pi*7+vi)%97 == 0 {
					c.Sample(rc)
				}
				for _, f := range fails {
					sig := f.sig
					rcc, vv := rc, v
					c.Violation(sig, f.what, rcc, func() bool {
						_, again := checkResponse(rcc, vv)
						for _, g := range again {
							if g.sig == sig {
								return true
							}
						}
						return false
					})
				}
			}
		}
		c.Exec(execs)
		for o := range local {
			c.Outcome("response: " + o)
		}
		k.merge(prefix("response: ", local))
		smu.Lock()
		total += execs
		smu.Unlock()
	})
	c.Note("response_product_"+tag, fmt.Sprintf("accept %d x designed %d x preset %d x value %d, executed %d (pairs covered by another product skipped)", len(accepts), len(dzs), len(presets), len(values), total))
	if stopped > 0 {
		c.Incomplete(fmt.Sprintf("response product %s: deadline reached, %d of %d (accept, designed) shards not explored", tag, stopped, nshards))
	}
}

func acceptItems(thorough bool) []acceptItem {
	var accepts []acceptItem
	for _, a := range acceptMenu().list(thorough) {
		accepts = append(accepts, acceptItem{a, true})
	}
	if thorough {
		accepts = append(accepts, acceptItem{"", false}) // AcceptTypeKey missing from the context
	}
	return accepts
}

func designedItems(thorough bool) []dz {
	var dzs []dz
	for _, d := range designedMenu(thorough) {
		dzs = append(dzs, dz{d, d.S != ""})
	}
	if thorough {
		dzs = append(dzs, dz{designedItem{"", "absent", false}, true}) // ContentTypeKey present but empty
	}
	return dzs
}

func runResponses(c *core.Ctx, k *counters) {
	baseA, baseD, baseP, baseV := acceptItems(false), designedItems(false), presetMenu().list(false), pick(allValues(), false)
	c.Note("response_base_menus", fmt.Sprintf("accept %d, designed %d, preset %d, value %d", len(baseA), len(baseD), len(baseP), len(baseV)))
	if !c.Thorough() {
		responseProduct(c, k, "base", baseA, baseD, baseP, baseV, nil)
		return
	}
	fullA, fullD, fullP := acceptItems(true), designedItems(true), presetMenu().list(true)
	var fullV, deepV []valueSpec
	for _, v := range pick(allValues(), true) {
		if v.Deep {
			deepV = append(deepV, v)
		} else {
			fullV = append(fullV, v)
		}
	}
	c.Note("response_full_menus", fmt.Sprintf("accept %d, designed %d, preset %d, value %d (+ %d rarer error values explored in P4)", len(fullA), len(fullD), len(fullP), len(fullV), len(deepV)))
	inBaseA := map[acceptItem]bool{}
	for _, a := range baseA {
		inBaseA[a] = true
	}
	// P1: every designed type under the base Accept menu, all pre-sets, all values (contains quick).
	responseProduct(c, k, "P1_baseAccept_x_fullDesigned_x_fullPreset_x_fullValue", baseA, fullD, fullP, fullV, nil)
	// P2: every Accept value where Accept decides (no designed type), all pre-sets, all values.
	var absent []dz
	for _, d := range fullD {
		if d.S == "" {
			absent = append(absent, d)
		}
	}
	responseProduct(c, k, "P2_fullAccept_x_absentDesigned_x_fullPreset_x_fullValue", fullA, absent, fullP, fullV,
		func(a acceptItem, d dz) bool { return inBaseA[a] })
	// P3: every Accept against every designed type (Accept must not disturb a designed type) under
	// the pre-sets that exercise each SetContentType branch and one value per wire shape.
	p3P := []string{"", "application/vnd.api", "application/vnd.api+xml", "application/vnd.api; charset=utf-8"}
	var p3V []valueSpec
	for _, v := range fullV {
		if v.ID == "struct/full" || v.ID == "string/plain" || v.ID == "pstring/nil" {
			p3V = append(p3V, v)
		}
	}
	responseProduct(c, k, "P3_fullAccept_x_fullDesigned_x_4Preset_x_3Value", fullA, fullD, p3P, p3V,
		func(a acceptItem, d dz) bool { return inBaseA[a] || d.S == "" })
	// P4: the rarer error values (texts unsupported_media_type / unicode, ServiceErrors wrapped twice,
	// joined, built by NewServiceError, carrying a Field, an empty plain error) under the complete base
	// product of the header menus (the quick product, which selects every encoder under every header relation).
	responseProduct(c, k, "P4_baseAccept_x_baseDesigned_x_basePreset_x_rarerErrorValues", baseA, baseD, baseP, deepV, nil)
}

func prefix(p string, m map[string]int64) map[string]int64 {
	out := map[string]int64{}
	for k, v := range m {
		out[p+k] = v
	}
	return out
}

func requestValues(thorough bool) []valueSpec {
	var out []valueSpec
	for _, v := range pick(allValues(), thorough) {
		switch v.Kind {
		case "struct", "string", "bytes", "map":
			out = append(out, v)
		}
	}
	return out
}

func runRequests(c *core.Ctx, k *counters) {
	thorough := c.Thorough()
	values := requestValues(thorough)
	type ctItem struct {
		S   string
		Set bool
	}
	var cts []ctItem
	for _, s := range requestCTMenu().list(thorough) {
		cts = append(cts, ctItem{s, s != ""})
	}
	if thorough {
		cts = append(cts, ctItem{"", true}) // header present but empty
	}
	accepts := []string{"", "application/xml"}
	if thorough {
		accepts = []string{"", "application/json", "application/xml", "application/gob", "text/plain", "garbage"}
	}
	c.Note("request_content_type_menu", len(cts))
	c.Note("request_values", len(values))
	c.Note("request_error_accept_menu", len(accepts))
	nbodies := 0
	for _, v := range values {
		nbodies += len(requestBodies(v, thorough))
	}
	c.Note("request_bodies_total", nbodies)
	c.Note("request_product", len(cts)*nbodies*len(accepts))
	core.Parallel(len(cts), func(ci int) {
		ct := cts[ci]
		local := map[string]int64{}
		var execs int64
		for vi := range values {
			v := &values[vi]
			for _, b := range requestBodies(*v, thorough) {
				_, _, class := requestExpectation(ct.S, ct.Set)
				c.State(fmt.Sprintf("req|ct=%q|set=%v|body=%s|v=%s", ct.S, ct.Set, b.ID, v.ID), class != "absent" || b.Format != fJSON)
				for ai, acc := range accepts {
					rc := reqCase{Side: "request", ContentType: ct.S, CTSet: ct.Set, BodyID: b.ID, BodyBytes: b.Bytes, Value: v.ID, Accept: acc}
					outcome, fails := checkRequest(rc, v)
					execs++
					local[outcome]++
					if (ci*13+vi*5+ai)%61 == 0 && b.Format == fJSON {
						c.Sample(rc)
					}
					for _, f := range fails {
						sig := f.sig
						rcc, vv := rc, v
						c.Violation(sig, f.what, rcc, func() bool {
							_, again := checkRequest(rcc, vv)
							for _, g := range again {
								if g.sig == sig {
									return true
								}
							}
							return false
						})
					}
				}
			}
		}
		c.Exec(execs)
		for o := range local {
			c.Outcome("request: " + o)
		}
		k.merge(prefix("request: ", local))
	})
	// client -> server
	local := map[string]int64{}
	all := pick(allValues(), thorough)
	for i := range all {
		v := &all[i]
		if v.NoValue || v.Err != nil {
			continue
		}
		c.State("client|v="+v.ID, true)
		outcome, fails := checkClientServer(v)
		c.Exec(1)
		local[outcome]++
		c.Outcome("request: " + outcome)
		for _, f := range fails {
			c.Violation(f.sig, f.what, map[string]string{"side": "client", "value": v.ID}, nil)
		}
	}
	k.merge(prefix("request: ", local))
}

func run(c *core.Ctx) {
	c.Rule("complete product Accept x designed content type (ContentTypeKey) x pre-set response Content-Type x value; one (Accept, designed, pre-set) triple is one state, " +
		"one value pushed through the real ResponseEncoder/Encode/ResponseDecoder/Decode under it is one transition; non-trivial = at least one of the three headers present. " +
		"Request side: one (Content-Type, body, target type) is one state, one RequestDecoder/Decode (+ErrorEncoder answer) per Accept is one transition; non-trivial = anything but absent Content-Type with a JSON body.")
	c.Assume("trusted: encoding/json, encoding/xml, encoding/gob and net/http/httptest of the Go standard library (used as reference codecs and as recorder)")
	c.Assume("equality: pointers dereferenced, nil and empty slices/maps identified (gob and omitempty drop empties); menu values are checked at start-up to survive every reference codec that can carry them, and to be readable in one format only")
	c.Assume("values avoid what the codecs themselves cannot carry faithfully: carriage returns and invalid UTF-8 (XML/JSON), pointers to zero values (gob)")
	c.Assume("the structured-syntax suffixes +json/+xml/+gob announce json/xml/gob (RFC 6839 style); +html/+txt and unknown types carry no independent format claim, only the round trip through goa's decoder is required for them")
	c.Assume("media types are case-insensitive and parameters do not change the type (RFC 7231 3.1.1.1): a single well-formed media range naming a supported type counts as that type; lists, wildcards, q=0 and suffixed Accept values carry no expectation beyond consistency")
	c.Assume("nil *string has no value to recover: only the absence of a panic is required for it")
	c.Assume("error responses: the wire shape of goahttp.ErrorResponse is its documented one (name, id, message, temporary, timeout, fault; XML root element free); " +
		"the response of an error carries the Name, ID, flags and Message of the goa.ServiceError found in its chain (for a wrapped error the wrapper's text is accepted as message too); " +
		"an error that is no ServiceError is a fault with the error text as message, name and ID being goa's choice; status mapping as documented for ErrorResponse.StatusCode")
	k := &counters{outcomes: map[string]int64{}}
	kinds := map[string]int{}
	for _, v := range pick(allValues(), c.Thorough()) {
		kinds[v.Kind]++
	}
	c.Note("values_by_kind", kinds)
	c.Note("error_value_menus", fmt.Sprintf("flags 8 (timeout x temporary x fault) x texts %d x {direct *ErrorResponse, %d constructions through ErrorEncoder} + 2 non-ServiceError errors; quick: texts full/empty, constructions svc/wrapped, 1 plain error",
		len(errTexts), len(errConstructions)))
	selfCheckValues(c, allValues())
	runResponses(c, k)
	runRequests(c, k)
	c.Note("outcome_counts", k.outcomes)
	if c.Thorough() {
		c.Note("bounds", "thorough: union of three complete products over the full menus (systematic case/whitespace/parameter/q-order variants, all values, missing context keys): "+
			"P1 base Accept x full designed x full pre-set x full values; P2 full Accept x absent designed x full pre-set x full values; P3 full Accept x full designed x 4 pre-sets x 3 values; "+
			"P4 base Accept x base designed x base pre-set x the rarer error values (all 8 flag combinations x 4 texts x {direct, 6 ServiceError constructions} + plain errors, minus those already in the full values); "+
			"request side: complete product of the full Content-Type menu x all bodies (incl. garbage) x 6 Accept values")
	} else {
		c.Note("bounds", "quick: complete product of the base menus (every class of the design's alphabet at least once) with one value per kind, and for error responses all 8 flag combinations x {full, empty} texts x {direct, ServiceError, wrapped ServiceError} + a plain error")
	}
}

func replay(c *core.Ctx, path string) {
	var probe struct {
		Side  string `json:"side"`
		Value string `json:"value"`
	}
	if err := core.ReplayCase(path, &probe); err != nil {
		c.HarnessError("cannot load replay %s: %v", path, err)
		return
	}
	v := valueByID(probe.Value)
	if v == nil {
		c.HarnessError("replay %s: unknown value %q", path, probe.Value)
		return
	}
	var outcome string
	var fails []failure
	switch probe.Side {
	case "response":
		var rc respCase
		_ = core.ReplayCase(path, &rc)
		obs := execResponse(rc, v)
		outcome, fails = judgeResponse(rc, v, obs)
		fmt.Printf("replay response accept=%q designed=%q preset=%q value=%s\n  -> panic=%q nil-encoder=%v encode-error=%v Content-Type=%q body=%q\n",
			rc.Accept, rc.Designed, rc.Preset, rc.Value, obs.Panic, obs.NilEnc, obs.EncErr, obs.Header, short(string(obs.Body)))
		for _, f := range fails {
			c.Violation(f.sig, f.what, rc, nil)
		}
	case "request":
		var rc reqCase
		_ = core.ReplayCase(path, &rc)
		obs := execRequest(rc, v)
		outcome, fails = judgeRequest(rc, v, obs)
		fmt.Printf("replay request Content-Type=%q set=%v body=%s value=%s accept=%q\n  -> panic=%q err=%v status=%d written=%d decoded=%s\n",
			rc.ContentType, rc.CTSet, rc.BodyID, rc.Value, rc.Accept, obs.Panic, obs.Err, obs.Status, obs.Code, short(obs.Decoded))
		for _, f := range fails {
			c.Violation(f.sig, f.what, rc, nil)
		}
	case "client":
		outcome, fails = checkClientServer(v)
		for _, f := range fails {
			c.Violation(f.sig, f.what, probe, nil)
		}
	default:
		c.HarnessError("replay %s: unknown side %q", path, probe.Side)
		return
	}
	c.Exec(1)
	fmt.Printf("  outcome=%s failures=%d\n", outcome, len(fails))
	for _, f := range fails {
		fmt.Printf("  %s: %s\n", f.sig, f.what)
	}
}

func main() { core.Main("C15", run, replay) }

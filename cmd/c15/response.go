package main

// Response side: Accept x designed content type x pre-set Content-Type x value, executed
// exactly as the generated server does (server_handler_init.go.tpl + response_encoder.go.tpl +
// partial/response.go.tpl):
//
//	ctx := context.WithValue(r.Context(), goahttp.AcceptTypeKey, r.Header.Get("Accept"))
//	ctx = context.WithValue(ctx, goahttp.ContentTypeKey, "<designed>")   // only when designed
//	enc := encoder(ctx, w)
//	w.WriteHeader(200)
//	return enc.Encode(body)
//
// and decoded exactly as the generated client does: `decoder(resp).Decode(&body)`.

import (
	"context"
	"fmt"
	"net/http"
	"net/http/httptest"
	"runtime/debug"
	"strings"

	goahttp "goa.design/goa/v3/http"
)

type respCase struct {
	Side         string `json:"side"`
	Accept       string `json:"accept"`
	AcceptKey    bool   `json:"accept_key_set"`
	Designed     string `json:"designed_content_type"`
	DesignedKey  bool   `json:"designed_key_set"`
	DesignedKind string `json:"designed_kind"`
	Preset       string `json:"preset_content_type"`
	Value        string `json:"value"`
}

type respObs struct {
	EncType string // %T of the Encoder returned by ResponseEncoder (observed, used in signatures only)
	Panic   string
	Origin  string // where a panic was raised: goa | stdlib-codec | caller
	NilEnc  bool
	EncErr  error
	Header  string
	Body    []byte
	Code    int
	resp    *http.Response
}

// execResponse runs the real goa encoder the way generated code does.
func execResponse(rc respCase, v *valueSpec) (obs respObs) {
	w := httptest.NewRecorder()
	defer func() {
		if r := recover(); r != nil {
			obs.Panic = fmt.Sprint(r)
			obs.Origin = "caller"
			if !obs.NilEnc {
				obs.Origin = panicOrigin(string(debug.Stack()))
			}
		}
		obs.Header = w.Header().Get("Content-Type")
		obs.Body = w.Body.Bytes()
		obs.Code = w.Code
		obs.resp = w.Result()
	}()
	if rc.Preset != "" {
		w.Header().Set("Content-Type", rc.Preset)
	}
	ctx := context.Background()
	if rc.AcceptKey {
		ctx = context.WithValue(ctx, goahttp.AcceptTypeKey, rc.Accept)
	}
	if rc.DesignedKey {
		ctx = context.WithValue(ctx, goahttp.ContentTypeKey, rc.Designed)
	}
	var encoder func(context.Context, http.ResponseWriter) goahttp.Encoder = goahttp.ResponseEncoder
	enc := encoder(ctx, w)
	obs.NilEnc = enc == nil
	obs.EncType = fmt.Sprintf("%T", enc)
	body := v.Make()
	w.WriteHeader(http.StatusOK)
	obs.EncErr = enc.Encode(body)
	return obs
}

// panicOrigin finds the function that raised the panic in a debug.Stack() taken inside the
// recovering deferred function: the first non-runtime frame below the "panic(" frame.
func panicOrigin(stack string) string {
	lines := strings.Split(stack, "\n")
	i := 0
	for ; i < len(lines); i++ {
		if strings.HasPrefix(lines[i], "panic(") {
			break
		}
	}
	for i += 2; i < len(lines); i += 2 {
		fn := lines[i]
		if strings.HasPrefix(fn, "runtime.") {
			continue
		}
		switch {
		case strings.HasPrefix(fn, "goa.design/goa/v3/"):
			return "goa"
		case strings.HasPrefix(fn, "encoding/"):
			return "stdlib-codec"
		}
		return "caller"
	}
	return "unknown"
}

// goaDecodeResponse is the client half: goahttp.ResponseDecoder picks a decoder from the
// response's Content-Type header.
func goaDecodeResponse(resp *http.Response, target any) (err error, panicked string) {
	defer func() {
		if r := recover(); r != nil {
			panicked = fmt.Sprint(r)
		}
	}()
	return goahttp.ResponseDecoder(resp).Decode(target), ""
}

// sniff returns the format in which body is an encoding of want (by the reference codecs), or "?".
func sniff(body []byte, v *valueSpec, want string) string {
	for _, f := range allFormats {
		t := v.Target()
		if err := refDecode(f, body, t); err == nil && canon(t) == want {
			return f
		}
	}
	return "?"
}

type failure struct{ sig, what string }

// judgeResponse applies the oracle. It returns the outcome class and the failures.
func judgeResponse(rc respCase, v *valueSpec, obs respObs) (outcome string, fails []failure) {
	add := func(sig, what string) {
		fails = append(fails, failure{sig, fmt.Sprintf("%s [accept=%q key=%v designed=%q preset=%q value=%s -> Content-Type=%q body=%q]",
			what, rc.Accept, rc.AcceptKey, rc.Designed, rc.Preset, rc.Value, obs.Header, short(string(obs.Body)))})
	}
	presetC := headerClass(rc.Preset)
	announced := refFormat(obs.Header)

	// 1. never a panic
	if obs.Panic != "" {
		if obs.NilEnc {
			add(fmt.Sprintf("response designed=%s encoder=nil caller-panics", rc.DesignedKind),
				"ResponseEncoder returned a nil Encoder; generated code calls enc.Encode(body) and panics: "+obs.Panic)
			return "PANIC nil-encoder", fails
		}
		if v.NoValue && obs.Origin == "stdlib-codec" {
			// encoding/gob documents that nil pointers are not permitted and reports it by
			// panicking: the value is legitimately un-encodable, goa's code is not involved.
			return "novalue refused by stdlib codec (panic raised in encoding/*) announced=" + announced, fails
		}
		add(fmt.Sprintf("response panic origin=%s encoder=%s value=%s", obs.Origin, obs.EncType, v.Kind), "encoder panicked: "+obs.Panic)
		return "PANIC " + v.Kind, fails
	}

	// expectation from the statement (fallback / exact Accept)
	expect, acceptClass := "", "design-fixed"
	if !rc.DesignedKey || rc.Designed == "" {
		expect, acceptClass = acceptExpectation(rc.Accept, rc.AcceptKey)
	} else if rc.DesignedKind == "unknown" || rc.DesignedKind == "malformed" {
		expect = fJSON
	}

	if v.NoValue {
		// nil *string: nothing to recover; only the absence of a panic is required
		if obs.EncErr != nil {
			return "novalue encode-error", fails
		}
		return "novalue encoded announced=" + announced, fails
	}

	// 2. an encoder returning an error is legitimate (XML cannot carry a map, text only strings
	// and bytes) - except where the statement demands JSON, which can carry every menu value.
	if obs.EncErr != nil {
		if expect == fJSON {
			add(fmt.Sprintf("response accept=%s designed=%s expected=json-fallback observed=encode-error", acceptClass, rc.DesignedKind),
				"JSON fallback expected but the chosen encoder failed: "+obs.EncErr.Error())
			return "VIOLATION fallback", fails
		}
		return fmt.Sprintf("encode-error value=%s announced=%s", v.Kind, announced), fails
	}

	want := canon(v.Make())
	bodyFmt := sniff(obs.Body, v, want)

	// 3. round trip through the library's response decoder reading the header that was set
	target := v.Target()
	derr, dpanic := goaDecodeResponse(obs.resp, target)
	roundtrip := "ok"
	switch {
	case dpanic != "":
		roundtrip = "decoder-panic"
	case derr != nil:
		roundtrip = "decode-error"
	case canon(target) != want:
		roundtrip = "different-value"
	}
	// 3b. independent reading of the header: a header announcing json/xml/gob/text must sit on
	// a body in that format.
	reference := "n/a"
	if _, known := map[string]bool{fJSON: true, fXML: true, fGob: true, fText: true}[announced]; known {
		t := v.Target()
		if err := refDecode(announced, obs.Body, t); err == nil && canon(t) == want {
			reference = "ok"
		} else {
			reference = "mismatch"
		}
	}
	if roundtrip != "ok" || reference == "mismatch" {
		dev := "roundtrip-fails"
		if roundtrip == "ok" {
			dev = "decoder-shares-misreading"
		} else if roundtrip == "decoder-panic" {
			dev = "decoder-panics"
		}
		detail := fmt.Sprintf("the body is %s but the Content-Type header announces %s (pre-set %s, header %s): ResponseDecoder round trip: %s",
			bodyFmt, announced, presetC, headerRelation(rc.Preset, obs.Header), roundtrip)
		if derr != nil {
			detail += " (" + derr.Error() + ")"
		} else if roundtrip == "different-value" {
			detail += fmt.Sprintf(" (decoded %s, original %s)", short(canon(target)), short(want))
		}
		add(fmt.Sprintf("response header=%s announced=%s body=%s %s", headerRelation(rc.Preset, obs.Header), announced, bodyFmt, dev), detail)
		outcome = "VIOLATION mismatch"
	}

	// 4. fallback to JSON / exact Accept honoured
	if expect != "" && bodyFmt != expect {
		add(fmt.Sprintf("response accept=%s designed=%s expected-body=%s body=%s", acceptClass, rc.DesignedKind, expect, bodyFmt),
			fmt.Sprintf("the statement requires a %s body here, the body is %s", expect, bodyFmt))
		outcome = "VIOLATION expectation"
	}
	if expect != "" && expect != fJSON && rc.Preset == "" && announced != expect {
		add(fmt.Sprintf("response accept=%s expected-announced=%s announced=%s", acceptClass, expect, announced),
			fmt.Sprintf("an exactly supported Accept must yield that type; the header announces %s", announced))
		outcome = "VIOLATION expectation"
	}
	if outcome == "" {
		outcome = fmt.Sprintf("ok body=%s announced=%s header=%s", bodyFmt, announced, headerRelation(rc.Preset, obs.Header))
	}
	return outcome, fails
}

func checkResponse(rc respCase, v *valueSpec) (string, []failure) {
	return judgeResponse(rc, v, execResponse(rc, v))
}

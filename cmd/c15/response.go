package main

// Response side: Accept x designed content type x pre-set Content-Type x value, executed
// exactly as the generated server does (server_handler_init.go.tpl + response_encoder.go.tpl +
// partial/response.go.tpl):
//
//	ctx := context.WithValue(r.Context(), goahttp.AcceptTypeKey, r.Header.Get("Accept"))
//	ctx = context.WithValue(ctx, goahttp.ContentTypeKey, "<designed>")   // only when designed
//	enc := encoder(ctx, w)
//	w.WriteHeader(200)
//	return enc.Encode(body)
//
// and decoded exactly as the generated client does: `decoder(resp).Decode(&body)`.

import (
	"context"
	"fmt"
	"net/http"
	"net/http/httptest"
	"runtime/debug"
	"strings"

	goahttp "goa.design/goa/v3/http"
)

type respCase struct {
	Side         string `json:"side"`
	Accept       string `json:"accept"`
	AcceptKey    bool   `json:"accept_key_set"`
	Designed     string `json:"designed_content_type"`
	DesignedKey  bool   `json:"designed_key_set"`
	DesignedKind string `json:"designed_kind"`
	Preset       string `json:"preset_content_type"`
	Value        string `json:"value"`
}

type respObs struct {
	EncType string // %T of the Encoder returned by ResponseEncoder (observed, used in signatures only)
	Panic   string
	Origin  string // where a panic was raised: goa | stdlib-codec | caller
	NilEnc  bool
	ErrPath bool // the value went through goahttp.ErrorEncoder
	EncErr  error
	Header  string
	Body    []byte
	Code    int
	resp    *http.Response
}

// execResponse runs the real goa encoder the way generated code does.
func execResponse(rc respCase, v *valueSpec) (obs respObs) {
	w := httptest.NewRecorder()
	defer func() {
		if r := recover(); r != nil {
			obs.Panic = fmt.Sprint(r)
			obs.Origin = "caller"
			if !obs.NilEnc {
				obs.Origin = panicOrigin(string(debug.Stack()))
			}
		}
		obs.Header = w.Header().Get("Content-Type")
		obs.Body = w.Body.Bytes()
		obs.Code = w.Code
		obs.resp = w.Result()
	}()
	if rc.Preset != "" {
		w.Header().Set("Content-Type", rc.Preset)
	}
	ctx := context.Background()
	if rc.AcceptKey {
		ctx = context.WithValue(ctx, goahttp.AcceptTypeKey, rc.Accept)
	}
	if rc.DesignedKey {
		ctx = context.WithValue(ctx, goahttp.ContentTypeKey, rc.Designed)
	}
	// the encoder function handed to generated code is the library's; the wrapper only observes
	// what it returns
	var encoder func(context.Context, http.ResponseWriter) goahttp.Encoder = func(ctx context.Context, w http.ResponseWriter) goahttp.Encoder {
		enc := goahttp.ResponseEncoder(ctx, w)
		obs.NilEnc = enc == nil
		obs.EncType = fmt.Sprintf("%T", enc)
		return enc
	}
	if v.Err != nil {
		// default error path (server_handler_init.go.tpl / error_encoder.go.tpl): the formatter is
		// nil, i.e. goahttp.NewErrorResponse; the status is written by the error encoder
		obs.ErrPath = true
		encodeError := goahttp.ErrorEncoder(encoder, nil)
		obs.EncErr = encodeError(ctx, w, v.Err())
		return obs
	}
	enc := encoder(ctx, w)
	body := v.Make()
	w.WriteHeader(http.StatusOK)
	obs.EncErr = enc.Encode(body)
	return obs
}

// panicOrigin finds the function that raised the panic in a debug.Stack() taken inside the
// recovering deferred function: the first non-runtime frame below the "panic(" frame.
func panicOrigin(stack string) string {
	lines := strings.Split(stack, "\n")
	i := 0
	for ; i < len(lines); i++ {
		if strings.HasPrefix(lines[i], "panic(") {
			break
		}
	}
	for i += 2; i < len(lines); i += 2 {
		fn := lines[i]
		if strings.HasPrefix(fn, "runtime.") {
			continue
		}
		switch {
		case strings.HasPrefix(fn, "goa.design/goa/v3/"):
			return "goa"
		case strings.HasPrefix(fn, "encoding/"):
			return "stdlib-codec"
		}
		return "caller"
	}
	return "unknown"
}

// goaDecodeResponse is the client half: goahttp.ResponseDecoder picks a decoder from the
// response's Content-Type header.
func goaDecodeResponse(resp *http.Response, target any) (err error, panicked string) {
	defer func() {
		if r := recover(); r != nil {
			panicked = fmt.Sprint(r)
		}
	}()
	return goahttp.ResponseDecoder(resp).Decode(target), ""
}

// sniff returns the format in which body is an encoding of the original (by the reference
// codecs), or "?".
func sniff(body []byte, v *valueSpec) string { return sniffFirst(body, v, "") }

// sniffFirst tries the format `first` before the others. The answer does not depend on the order:
// the menu values are checked at start-up to be readable as the original in one format only.
func sniffFirst(body []byte, v *valueSpec, first string) string {
	for i := -1; i < len(allFormats); i++ {
		f := first
		if i >= 0 {
			f = allFormats[i]
			if f == first {
				continue
			}
		} else if exactFormatName[first] == false {
			continue
		}
		t := v.refTarget()
		if err := refDecode(f, body, t); err == nil && v.matches(t) {
			return f
		}
	}
	return "?"
}

// readable returns the first format whose reference codec reads body into the value's type at
// all (whatever the value), and the value read.
func readable(body []byte, v *valueSpec, first string) (string, any) {
	for _, f := range append([]string{first}, allFormats...) {
		t := v.refTarget()
		if err := refDecode(f, body, t); err == nil {
			return f, v.norm(t)
		}
	}
	return "", nil
}

type failure struct{ sig, what string }

// judgeResponse applies the oracle. It returns the outcome class and the failures.
func judgeResponse(rc respCase, v *valueSpec, obs respObs) (outcome string, fails []failure) {
	add := func(sig, what string) {
		fails = append(fails, failure{sig, fmt.Sprintf("%s [accept=%q key=%v designed=%q preset=%q value=%s -> Content-Type=%q body=%q]",
			what, rc.Accept, rc.AcceptKey, rc.Designed, rc.Preset, rc.Value, obs.Header, short(string(obs.Body)))})
	}
	presetC := headerClass(rc.Preset)
	announced := refFormat(obs.Header)

	// 1. never a panic
	if obs.Panic != "" {
		if obs.NilEnc {
			add(fmt.Sprintf("response designed=%s encoder=nil caller-panics", rc.DesignedKind),
				"ResponseEncoder returned a nil Encoder; generated code calls enc.Encode(body) and panics: "+obs.Panic)
			return "PANIC nil-encoder", fails
		}
		if v.NoValue && obs.Origin == "stdlib-codec" {
			// encoding/gob documents that nil pointers are not permitted and reports it by
			// panicking: the value is legitimately un-encodable, goa's code is not involved.
			return "novalue refused by stdlib codec (panic raised in encoding/*) announced=" + announced, fails
		}
		add(fmt.Sprintf("response panic origin=%s encoder=%s value=%s", obs.Origin, obs.EncType, v.Kind), "encoder panicked: "+obs.Panic)
		return "PANIC " + v.Kind, fails
	}

	// expectation from the statement (fallback / exact Accept)
	expect, acceptClass := "", "design-fixed"
	if !rc.DesignedKey || rc.Designed == "" {
		expect, acceptClass = acceptExpectation(rc.Accept, rc.AcceptKey)
	} else if rc.DesignedKind == "unknown" || rc.DesignedKind == "malformed" {
		expect = fJSON
	}

	// 1b. default error path: the status written by the error encoder agrees with the
	// characteristics of the error (documented mapping, refStatus)
	statusNote := ""
	if orig, ok := v.origs()[0].(*errMirror); ok && obs.ErrPath {
		statusNote = fmt.Sprintf(" status=%d", obs.Code)
		if ws := refStatus(orig); obs.Code != ws {
			add(fmt.Sprintf("response error-path status-written=%d error-flags-say=%d", obs.Code, ws),
				fmt.Sprintf("the error encoder answered %d; the error (timeout=%v temporary=%v fault=%v name=%q) maps to %d", obs.Code, orig.Timeout, orig.Temporary, orig.Fault, orig.Name, ws))
			outcome = "VIOLATION status"
		}
	}

	if v.NoValue {
		// nil *string: nothing to recover; only the absence of a panic is required
		if obs.EncErr != nil {
			return "novalue encode-error", fails
		}
		return "novalue encoded announced=" + announced, fails
	}

	// 2. an encoder returning an error is legitimate (XML cannot carry a map, text only strings
	// and bytes) - except where the statement demands JSON, which can carry every menu value.
	if obs.EncErr != nil {
		if expect == fJSON {
			add(fmt.Sprintf("response accept=%s designed=%s expected=json-fallback observed=encode-error", acceptClass, rc.DesignedKind),
				"JSON fallback expected but the chosen encoder failed: "+obs.EncErr.Error())
			return "VIOLATION fallback", fails
		}
		if outcome != "" {
			return outcome, fails
		}
		return fmt.Sprintf("encode-error value=%s announced=%s%s", v.Kind, announced, statusNote), fails
	}

	want := canon(v.origs()[0])
	bodyFmt := sniffFirst(obs.Body, v, announced)

	// 3. round trip through the library's response decoder reading the header that was set
	target := v.Target()
	derr, dpanic := goaDecodeResponse(obs.resp, target)
	roundtrip := "ok"
	anotherValue := false // reported: the body is a well-formed document carrying another value
	switch {
	case dpanic != "":
		roundtrip = "decoder-panic"
	case derr != nil:
		roundtrip = "decode-error"
	case !v.matches(target):
		roundtrip = "different-value"
	}
	// 3b. independent reading of the header: a header announcing json/xml/gob/text must sit on
	// a body in that format.
	reference := "n/a"
	if exactFormatName[announced] {
		// (the body is the original in at most one format, checked at start-up: the reference codec
		// of the announced format recovers the original iff that format is the one sniffed)
		if bodyFmt == announced {
			reference = "ok"
		} else {
			reference = "mismatch"
		}
	}
	if roundtrip != "ok" || reference == "mismatch" {
		dev := "roundtrip-fails"
		if roundtrip == "ok" {
			dev = "decoder-shares-misreading"
		} else if roundtrip == "decoder-panic" {
			dev = "decoder-panics"
		}
		detail := fmt.Sprintf("the body is %s but the Content-Type header announces %s (pre-set %s, header %s): ResponseDecoder round trip: %s",
			bodyFmt, announced, presetC, headerRelation(rc.Preset, obs.Header), roundtrip)
		if derr != nil {
			detail += " (" + derr.Error() + ")"
		} else if roundtrip == "different-value" {
			detail += fmt.Sprintf(" (decoded %s, original %s)", canon(v.norm(target)), want)
		}
		sig := fmt.Sprintf("response header=%s announced=%s body=%s %s", headerRelation(rc.Preset, obs.Header), announced, bodyFmt, dev)
		if bodyFmt == "?" {
			// the body is the original in NO format: say what it is instead, field by field
			// (the header plays no part in that: one signature whatever was announced)
			if f, got := readable(obs.Body, v, announced); f != "" {
				anotherValue = true
				sig = fmt.Sprintf("response body-carries-another-value written-as=%s value=%s differs=%s", f, strings.SplitN(v.Kind, "-", 2)[0], v.diffFields(got))
				detail += fmt.Sprintf("; the reference %s codec reads the body as %s", f, canon(got))
			}
		}
		add(sig, detail)
		outcome = "VIOLATION mismatch"
	}

	// 3c. default error path: the status written agrees with the flags the body carries
	// (a body that IS the original in some format carries the original's flags: covered by 1b)
	if obs.ErrPath && bodyFmt == "?" {
		if f, got := readable(obs.Body, v, announced); f != "" {
			if m, ok := got.(*errMirror); ok && m != nil {
				// (for errors that are no ServiceError norm blanked the name: flags only)
				if bs := refStatus(m); bs != obs.Code {
					add(fmt.Sprintf("response error-path status-written=%d body(%s)-says=%d", obs.Code, f, bs),
						fmt.Sprintf("the answer has status %d but its %s body (timeout=%v temporary=%v fault=%v name=%q) describes a %d error", obs.Code, f, m.Timeout, m.Temporary, m.Fault, m.Name, bs))
					outcome = "VIOLATION status"
				}
			}
		}
	}

	// 4. fallback to JSON / exact Accept honoured
	// (a body that the reference codec of the expected format reads into the value's type IS in the
	// expected format; that it carries another value is reported above, once, not per Accept class)
	if expect != "" && bodyFmt == "?" && anotherValue {
		if f, _ := readable(obs.Body, v, expect); f == expect {
			bodyFmt = expect + "(another value)"
		}
	}
	if expect != "" && bodyFmt != expect && bodyFmt != expect+"(another value)" {
		add(fmt.Sprintf("response accept=%s designed=%s expected-body=%s body=%s", acceptClass, rc.DesignedKind, expect, bodyFmt),
			fmt.Sprintf("the statement requires a %s body here, the body is %s", expect, bodyFmt))
		outcome = "VIOLATION expectation"
	}
	if expect != "" && expect != fJSON && rc.Preset == "" && announced != expect {
		add(fmt.Sprintf("response accept=%s expected-announced=%s announced=%s", acceptClass, expect, announced),
			fmt.Sprintf("an exactly supported Accept must yield that type; the header announces %s", announced))
		outcome = "VIOLATION expectation"
	}
	if outcome == "" {
		outcome = fmt.Sprintf("ok body=%s announced=%s header=%s%s", bodyFmt, announced, headerRelation(rc.Preset, obs.Header), statusNote)
	}
	return outcome, fails
}

func checkResponse(rc respCase, v *valueSpec) (string, []failure) {
	return judgeResponse(rc, v, execResponse(rc, v))
}

package main

// Request side: Content-Type menu x body x target type through goahttp.RequestDecoder, wrapped
// exactly as request_decoder.go.tpl does, and the error answered exactly as
// server_handler_init.go.tpl does (goahttp.ErrorEncoder(encoder, formatter) with the default
// formatter NewErrorResponse).

import (
	"bytes"
	"context"
	"errors"
	"fmt"
	"io"
	"net/http"
	"net/http/httptest"
	"strings"

	goahttp "goa.design/goa/v3/http"
	goa "goa.design/goa/v3/pkg"
)

type reqCase struct {
	Side        string `json:"side"`
	ContentType string `json:"content_type"`
	CTSet       bool   `json:"content_type_set"`
	BodyID      string `json:"body"`
	BodyBytes   []byte `json:"body_bytes"`
	Value       string `json:"value"`
	Accept      string `json:"accept"`
}

// requestExpectation: what the statement obliges the request decoder to do for a Content-Type.
// The media type named before the first ';' decides (RFC 7231 3.1.1.1: type "/" subtype,
// case-insensitive; parameters never change the type):
//
//	must     the format the body MUST be decoded as (absent header -> json; a well-formed
//	         header naming a supported type -> that type); a 415 here is a violation
//	allowed  when must is empty and the class is not "unsupported*": the only format the body may
//	         be decoded as, the alternative being a 415 - never another format. This covers a
//	         supported name followed by broken parameters ("application/json; charset"), suffixed
//	         vendor types (the statement does not say whether +json is "supported") and a
//	         whitespace-only header (as good as absent: json or 415)
//	class    "unsupported" (well-formed) / "unsupported-malformed" (broken syntax): the name
//	         before the first ';' is none of the supported types (including no name at all,
//	         "application/", "application/x/yaml", comma lists): MUST be answered with 415 and
//	         never decoded, whatever else is wrong with the header
func requestExpectation(ct string, set bool) (must string, allowed []string, class string) {
	if !set || ct == "" {
		return fJSON, nil, "absent"
	}
	if strings.Trim(ct, " \t") == "" {
		return "", []string{fJSON}, "blank"
	}
	m := refMediaType(ct)
	name := strings.ToLower(strings.Trim(strings.SplitN(ct, ";", 2)[0], " \t"))
	bySuffix := func(tag string) (string, []string, string, bool) {
		switch suffixOf(name) {
		case "json":
			return "", []string{fJSON}, "suffix+json" + tag, true
		case "xml":
			return "", []string{fXML}, "suffix+xml" + tag, true
		case "gob":
			return "", []string{fGob}, "suffix+gob" + tag, true
		case "html", "txt":
			return "", []string{fText}, "suffix+text" + tag, true
		}
		return "", nil, "", false
	}
	if m.WellFormed {
		if f, ok := exactFormat[m.Name]; ok {
			switch {
			case ct == m.Name:
				return f, nil, "exact"
			case m.HasParams:
				return f, nil, "exact+params"
			}
			return f, nil, "exact-case/space-variant"
		}
		if mu, al, cl, ok := bySuffix(""); ok {
			return mu, al, cl
		}
		return "", nil, "unsupported"
	}
	// broken syntax somewhere: the name before the first ';' still decides
	if f, ok := exactFormat[name]; ok {
		return "", []string{f}, "supported+malformed-params"
	}
	if mu, al, cl, ok := bySuffix("+malformed-params"); ok {
		return mu, al, cl
	}
	return "", nil, "unsupported-malformed"
}

type reqObs struct {
	Panic      string
	Err        error // after the generated wrapping
	RawErr     error
	Status     int    // NewErrorResponse(ctx, err).StatusCode()
	Code       int    // status written by ErrorEncoder
	ErrName    string // name recovered from the encoded error response ("" if not decodable)
	ErrEncoded bool
	Decoded    string // canon of the target after a successful decode
}

func execRequest(rc reqCase, v *valueSpec) (obs reqObs) {
	defer func() {
		if r := recover(); r != nil {
			obs.Panic = fmt.Sprint(r)
		}
	}()
	r := httptest.NewRequest(http.MethodPost, "http://example.test/", bytes.NewReader(rc.BodyBytes))
	r.Header.Del("Content-Type")
	if rc.CTSet {
		r.Header["Content-Type"] = []string{rc.ContentType}
	}
	if rc.Accept != "" {
		r.Header.Set("Accept", rc.Accept)
	}
	var decoder func(*http.Request) goahttp.Decoder = goahttp.RequestDecoder
	target := v.Target()
	// request_decoder.go.tpl (MustHaveBody variant)
	err := decoder(r).Decode(target)
	obs.RawErr = err
	if err != nil {
		if err == io.EOF {
			err = goa.MissingPayloadError()
		} else {
			var gerr *goa.ServiceError
			if errors.As(err, &gerr) {
				err = gerr
			} else {
				err = goa.DecodePayloadError(err.Error())
			}
		}
	}
	obs.Err = err
	if err == nil {
		obs.Decoded = canon(target)
		return obs
	}
	// server_handler_init.go.tpl
	ctx := context.WithValue(r.Context(), goahttp.AcceptTypeKey, r.Header.Get("Accept"))
	obs.Status = goahttp.NewErrorResponse(ctx, err).StatusCode()
	w := httptest.NewRecorder()
	encodeError := goahttp.ErrorEncoder(goahttp.ResponseEncoder, nil)
	eerr := encodeError(ctx, w, err)
	obs.Code = w.Code
	if eerr == nil {
		obs.ErrEncoded = true
		var er goahttp.ErrorResponse
		if derr, p := goaDecodeResponse(w.Result(), &er); derr == nil && p == "" {
			obs.ErrName = er.Name
		}
	}
	return obs
}

func judgeRequest(rc reqCase, v *valueSpec, obs reqObs) (outcome string, fails []failure) {
	must, allowed, class := requestExpectation(rc.ContentType, rc.CTSet)
	add := func(sig, what string) {
		fails = append(fails, failure{sig, fmt.Sprintf("%s [Content-Type=%q set=%v body=%s(%q) target=%s accept=%q]",
			what, rc.ContentType, rc.CTSet, rc.BodyID, short(string(rc.BodyBytes)), v.Kind, rc.Accept)})
	}
	if obs.Panic != "" {
		add(fmt.Sprintf("request panic ct=%s body=%s target=%s", class, bodyClass(rc), v.Kind), "request decoding panicked: "+obs.Panic)
		return "PANIC", fails
	}
	is415 := obs.Err != nil && obs.Status == http.StatusUnsupportedMediaType
	observed := "decoded"
	if obs.Err != nil {
		observed = fmt.Sprintf("error-%d", obs.Status)
	}
	// the answer written by the server must carry the same status as NewErrorResponse computes,
	// and a 415 answer that could be encoded must say so
	if obs.Err != nil && obs.Code != obs.Status {
		add(fmt.Sprintf("request error-status written=%d computed=%d", obs.Code, obs.Status), "ErrorEncoder wrote a status different from ErrorResponse.StatusCode()")
	}
	if is415 && obs.ErrEncoded && obs.ErrName != goa.UnsupportedMediaType {
		add("request 415-body name-lost", fmt.Sprintf("the 415 answer decodes to error name %q", obs.ErrName))
	}
	ref := func(f string) (string, error) {
		t := v.Target()
		if err := refDecode(f, rc.BodyBytes, t); err != nil {
			return "", err
		}
		return canon(t), nil
	}
	switch {
	case must != "":
		want, rerr := ref(must)
		switch {
		case is415:
			add(fmt.Sprintf("request ct=%s(%s) observed=415", class, must), "a supported media type was answered with 415")
			return "VIOLATION", fails
		case rerr != nil && obs.Err == nil:
			add(fmt.Sprintf("request ct=%s(%s) body=%s reference=error observed=decoded", class, must, bodyClass(rc)),
				fmt.Sprintf("the body is not %s (reference: %v) but was decoded to %s", must, rerr, short(obs.Decoded)))
			return "VIOLATION", fails
		case rerr == nil && obs.Err != nil:
			add(fmt.Sprintf("request ct=%s(%s) body=%s reference=decoded observed=%s", class, must, bodyClass(rc), observed),
				fmt.Sprintf("the body is valid %s for the target but decoding failed: %v", must, obs.Err))
			return "VIOLATION", fails
		case rerr == nil && obs.Decoded != want:
			add(fmt.Sprintf("request ct=%s(%s) body=%s different-value", class, must, bodyClass(rc)),
				fmt.Sprintf("decoded %s, the %s reading of the body is %s", short(obs.Decoded), must, short(want)))
			return "VIOLATION", fails
		}
		return fmt.Sprintf("ct=%s(%s) body=%s -> %s", class, must, bodyClass(rc), observed), fails
	case strings.HasPrefix(class, "unsupported"):
		if !is415 {
			add(fmt.Sprintf("request ct=%s observed=%s must-be-415", class, observed),
				"the media type named before the first ';' is not supported: the request must be answered with 415, not decoded as something else")
			return "VIOLATION", fails
		}
		return "ct=" + class + " -> 415", fails
	default: // supported name with broken parameters / suffixed type / blank: 415, or decoded exactly as the one allowed format says
		if is415 {
			return fmt.Sprintf("ct=%s -> 415", class), fails
		}
		for _, f := range allowed {
			want, rerr := ref(f)
			if rerr != nil && obs.Err != nil {
				return fmt.Sprintf("ct=%s body=%s -> %s (as %s)", class, bodyClass(rc), observed, f), fails
			}
			if rerr == nil && obs.Err == nil && obs.Decoded == want {
				return fmt.Sprintf("ct=%s body=%s -> decoded as %s", class, bodyClass(rc), f), fails
			}
		}
		add(fmt.Sprintf("request ct=%s observed=%s not-415-nor-announced-format", class, observed),
			fmt.Sprintf("neither a 415 nor a decoding according to %v (decoded %s, err %v)", allowed, short(obs.Decoded), obs.Err))
		return "VIOLATION", fails
	}
}

func bodyClass(rc reqCase) string { return rc.BodyID }

func checkRequest(rc reqCase, v *valueSpec) (string, []failure) {
	return judgeRequest(rc, v, execRequest(rc, v))
}

// checkClientServer: the client half of "request bodies follow the same rule": the body written
// by goahttp.RequestEncoder is announced by the Content-Type it sets, so goahttp.RequestDecoder
// recovers the value.
func checkClientServer(v *valueSpec) (outcome string, fails []failure) {
	defer func() {
		if r := recover(); r != nil {
			fails = append(fails, failure{"request client-encoder panic value=" + v.Kind, fmt.Sprint(r)})
			outcome = "PANIC"
		}
	}()
	req, err := http.NewRequest(http.MethodPost, "http://example.test/", nil)
	if err != nil {
		panic(err)
	}
	var encoder func(*http.Request) goahttp.Encoder = goahttp.RequestEncoder
	if err := encoder(req).Encode(v.Make()); err != nil {
		return "client encode-error", nil
	}
	target := v.Target()
	if err := goahttp.RequestDecoder(req).Decode(target); err != nil {
		return "VIOLATION", []failure{{"request client-encoder roundtrip decode-error value=" + v.Kind,
			fmt.Sprintf("RequestEncoder announced %q; RequestDecoder failed: %v", req.Header.Get("Content-Type"), err)}}
	}
	if canon(target) != canon(v.Make()) {
		return "VIOLATION", []failure{{"request client-encoder roundtrip different-value value=" + v.Kind,
			fmt.Sprintf("RequestEncoder announced %q; decoded %s", req.Header.Get("Content-Type"), short(canon(target)))}}
	}
	return "client->server ok announced=" + refFormat(req.Header.Get("Content-Type")), nil
}

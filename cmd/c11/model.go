package main

// Test roots / expressions that log every callback of the real eval engine, the case
// executor (runCase) and the oracle. Everything here runs against the real global
// eval.Context, therefore strictly sequentially inside one process.

import (
	"errors"
	"fmt"
	"sort"
	"strings"

	"goa.design/goa/v3/eval"
)

// Phases, in the order required by the property statement.
const (
	phDSL = iota
	phPrepare
	phValidate
	phFinalize
	nPhases
)

var phaseName = [nPhases]string{"DSL", "Prepare", "Validate", "Finalize"}

// Behaviour menu of one root (see behName). Every initial root owns three expression
// sets S0=[x0] S1=[x1] S2=[x2]; the acting expression is x1 unless stated.
const (
	bPlain            = iota
	bAppendSame       // x1's DSL appends a new expression to S1, the set being executed
	bAppendLater      // x1's DSL appends a new expression to S2 (not yet executed)
	bAppendEarlier    // x1's DSL appends a new expression to S0 (already executed)
	bAppendLaterChain // x1 appends y to S2; y's DSL appends z as a new set S3
	bRegister         // x1's DSL registers a new root without dependencies
	bRegisterDepSelf  // ... a new root that depends on the registering root
	bRegisterDepOther // ... a new root that depends on another initial root (n >= 2)
	bRegisterChain    // ... a new root whose own expression registers a further root depending on it
	bDSLError         // x1's DSL reports an error
	bDSLErrorTwo      // x0's and x2's DSL report an error each
	bValError         // x1.Validate returns one error
	bValMulti         // x1.Validate returns two errors at once (eval.ValidationErrors)
	bValErrorTwo      // x0.Validate and x2.Validate return one error each (two different sets)
	bRootValError     // the root's own Validate returns an error
	bValErrorSameSet  // S1 holds two expressions x1, x1b from the start; both fail validation
	nBehaviours
)

var behName = [nBehaviours]string{
	"plain", "append-same-set", "append-later-set", "append-earlier-set", "append-later-chain",
	"register-root", "register-root-dep-registrar", "register-root-dep-other", "register-root-chain",
	"dsl-error", "dsl-error-two-exprs", "validate-error", "validate-two-errors-one-expr", "validate-error-two-exprs",
	"root-validate-error", "validate-error-two-exprs-same-set",
}

// behValid says whether behaviour b exists for a design of n initial roots.
func behValid(n, b int) bool { return b != bRegisterDepOther || n >= 2 }

// caseSpec is one executable case; it is also the replay format.
type caseSpec struct {
	Family string `json:"family"`
	N      int    `json:"n"`
	// Edges: bit i*N+j set <=> root i depends on root j (DependsOn lists dependencies by
	// increasing j). Diagonal bits (self-dependency) only occur in the self-loop family.
	Edges uint64 `json:"edges"`
	Order []int  `json:"registration_order"`
	Beh   []int  `json:"behaviours,omitempty"` // per root, index into the behaviour menu; nil = all plain
	// Cap, when set, replaces the uniform three-set roots by the given roots and expression
	// sets (capability families, see caps.go); Beh is then unused.
	Cap  *capSpec `json:"capabilities,omitempty"`
	capc *capCase // compact form of Cap used by the enumeration
	// Human readable duplicates (ignored on replay).
	EdgeList string   `json:"edge_list,omitempty"`
	BehNames []string `json:"behaviour_names,omitempty"`
}

func (cs caseSpec) describe() caseSpec {
	var el []string
	for i := 0; i < cs.N; i++ {
		for j := 0; j < cs.N; j++ {
			if cs.Edges>>(uint(i*cs.N+j))&1 == 1 {
				el = append(el, fmt.Sprintf("r%d->r%d", i, j))
			}
		}
	}
	cs.EdgeList = strings.Join(el, " ")
	cs.BehNames = nil
	for _, b := range cs.Beh {
		cs.BehNames = append(cs.BehNames, behName[b])
	}
	cs.Order = append([]int{}, cs.Order...)
	cs.Beh = append([]int{}, cs.Beh...)
	if len(cs.Beh) == 0 {
		cs.Beh = nil
	}
	if cs.capc != nil {
		cs.Cap = cs.capc.spec()
	}
	return cs
}

type event struct {
	phase int
	root  *troot
	expr  *texpr // nil: callback on the root itself
}

type harness struct {
	log       []event
	roots     []*troot // every root successfully registered, initial ones first
	exprs     []*texpr // every expression attached to a set of a registered root
	dslTokens []string // tokens of errors actually reported through eval.ReportError
	valTokens []string // tokens of errors actually returned from a Validate callback
	// capability families: the errors the case is built to report (execution / validation)
	expDSLTokens []string
	expValTokens []string
	infra        []string // harness problems (never a violation)
}

// troot implements eval.Root, eval.Preparer, eval.Validator, eval.Finalizer.
type troot struct {
	h      *harness
	name   string
	class  string    // "initial-root" | "registered-root" | "cap-root"
	caps   uint8     // optional interfaces the registered value implements (capP|capV|capF)
	self   eval.Root // the value handed to eval.Register
	deps   []*troot
	sets   []eval.ExpressionSet
	valErr bool
	count  [nPhases]int
}

func (r *troot) EvalName() string { return r.name }

// WalkSets hands the root's own slices to the engine, lazily (a set appended or grown
// before the walk reaches it is seen), which is the most favourable way for the engine.
func (r *troot) WalkSets(w eval.SetWalker) {
	for i := 0; i < len(r.sets); i++ {
		w(r.sets[i])
	}
}

func (r *troot) DependsOn() []eval.Root {
	out := make([]eval.Root, len(r.deps))
	for i, d := range r.deps {
		out[i] = d.self
	}
	return out
}
func (r *troot) Packages() []string { return nil }

func (r *troot) record(ph int) {
	r.count[ph]++
	r.h.log = append(r.h.log, event{phase: ph, root: r})
}
func (r *troot) Prepare() { r.record(phPrepare) }
func (r *troot) Validate() error {
	r.record(phValidate)
	if r.valErr {
		tok := "<<validate:" + r.name + ">>"
		r.h.valTokens = append(r.h.valTokens, tok)
		return errors.New(tok)
	}
	return nil
}
func (r *troot) Finalize() { r.record(phFinalize) }

// texpr implements eval.Expression, eval.Source, eval.Preparer, eval.Validator, eval.Finalizer.
type texpr struct {
	h       *harness
	root    *troot
	name    string
	class   string // subject class used in signatures
	caps    uint8  // optional interfaces the value placed in the set implements
	before  []int  // capability families: the symbols that precede the entry in its set
	where   []int  // capability families: the symbols of the whole set
	act     func() // extra work done by the DSL function
	dslErr  bool
	valErrs int
	count   [nPhases]int
}

func (e *texpr) EvalName() string { return e.name }
func (e *texpr) record(ph int) {
	e.count[ph]++
	e.h.log = append(e.h.log, event{phase: ph, root: e.root, expr: e})
}
func (e *texpr) DSL() func() {
	return func() {
		e.record(phDSL)
		if e.dslErr {
			tok := "<<dsl:" + e.name + ">>"
			e.h.dslTokens = append(e.h.dslTokens, tok)
			eval.ReportError("%s", tok)
		}
		if e.act != nil {
			e.act()
		}
	}
}
func (e *texpr) Prepare() { e.record(phPrepare) }
func (e *texpr) Validate() error {
	e.record(phValidate)
	switch e.valErrs {
	case 1:
		tok := "<<validate:" + e.name + ">>"
		e.h.valTokens = append(e.h.valTokens, tok)
		return errors.New(tok)
	case 2:
		ve := &eval.ValidationErrors{}
		for _, s := range []string{"a", "b"} {
			tok := "<<validate:" + e.name + ":" + s + ">>"
			e.h.valTokens = append(e.h.valTokens, tok)
			ve.Add(e, "%s", tok)
		}
		return ve
	}
	return nil
}
func (e *texpr) Finalize() { e.record(phFinalize) }

func (h *harness) newExpr(r *troot, name, class string) *texpr {
	e := &texpr{h: h, root: r, name: name, class: class, caps: capAll}
	h.exprs = append(h.exprs, e)
	return e
}

// registerDuring registers a brand new root from inside a DSL function.
func (h *harness) registerDuring(name string, deps []*troot, exprAct func(n *troot) func()) *troot {
	n := &troot{h: h, name: name, class: "registered-root", deps: deps, caps: capRoot}
	n.self = n
	if err := eval.Register(n); err != nil {
		h.infra = append(h.infra, "eval.Register during execution failed: "+err.Error())
		return nil
	}
	h.roots = append(h.roots, n)
	x := h.newExpr(n, name+".x", "registered-root-expr")
	if exprAct != nil {
		x.act = exprAct(n)
	}
	n.sets = []eval.ExpressionSet{{x}}
	return n
}

// build creates the initial roots of a case (not yet registered).
func (h *harness) build(cs caseSpec) []*troot {
	roots := make([]*troot, cs.N)
	for i := range roots {
		roots[i] = &troot{h: h, name: fmt.Sprintf("r%d", i), class: "initial-root", caps: capRoot}
		roots[i].self = roots[i]
	}
	for i, r := range roots {
		for j := 0; j < cs.N; j++ {
			if cs.Edges>>(uint(i*cs.N+j))&1 == 1 {
				r.deps = append(r.deps, roots[j])
			}
		}
		var x [3]*texpr
		for k := range x {
			x[k] = h.newExpr(r, fmt.Sprintf("%s.x%d", r.name, k), "initial-expr")
			r.sets = append(r.sets, eval.ExpressionSet{x[k]})
		}
		b := bPlain
		if i < len(cs.Beh) {
			b = cs.Beh[i]
		}
		r := r
		switch b {
		case bAppendSame:
			x[1].act = func() {
				r.sets[1] = append(r.sets[1], h.newExpr(r, r.name+".y", "appended-expr target=same-set"))
			}
		case bAppendLater:
			x[1].act = func() {
				r.sets[2] = append(r.sets[2], h.newExpr(r, r.name+".y", "appended-expr target=later-set"))
			}
		case bAppendEarlier:
			x[1].act = func() {
				r.sets[0] = append(r.sets[0], h.newExpr(r, r.name+".y", "appended-expr target=earlier-set"))
			}
		case bAppendLaterChain:
			x[1].act = func() {
				y := h.newExpr(r, r.name+".y", "appended-expr target=later-set")
				y.act = func() {
					r.sets = append(r.sets, eval.ExpressionSet{h.newExpr(r, r.name+".z", "appended-expr target=new-later-set")})
				}
				r.sets[2] = append(r.sets[2], y)
			}
		case bRegister:
			x[1].act = func() { h.registerDuring(r.name+".N", nil, nil) }
		case bRegisterDepSelf:
			x[1].act = func() { h.registerDuring(r.name+".N", []*troot{r}, nil) }
		case bRegisterDepOther:
			other := roots[(i+1)%cs.N]
			x[1].act = func() { h.registerDuring(r.name+".N", []*troot{other}, nil) }
		case bRegisterChain:
			x[1].act = func() {
				h.registerDuring(r.name+".N", nil, func(n *troot) func() {
					return func() { h.registerDuring(r.name+".M", []*troot{n}, nil) }
				})
			}
		case bDSLError:
			x[1].dslErr = true
		case bDSLErrorTwo:
			x[0].dslErr, x[2].dslErr = true, true
		case bValError:
			x[1].valErrs = 1
		case bValMulti:
			x[1].valErrs = 2
		case bValErrorTwo:
			x[0].valErrs, x[2].valErrs = 1, 1
		case bRootValError:
			r.valErr = true
		case bValErrorSameSet:
			x1b := h.newExpr(r, r.name+".x1b", "initial-expr")
			r.sets[1] = append(r.sets[1], x1b)
			x[1].valErrs, x1b.valErrs = 1, 1
		}
	}
	return roots
}

type failure struct{ sig, what string }

type result struct {
	fails   []failure
	outcome string
	infra   []string
}

func (res *result) add(sig, format string, a ...any) {
	for _, f := range res.fails {
		if f.sig == sig {
			return // one failure per signature per case
		}
	}
	res.fails = append(res.fails, failure{sig, fmt.Sprintf(format, a...)})
}

// runCase executes one case on the real engine and applies the oracle.
func runCase(cs caseSpec) *result {
	res := &result{}
	if cs.capc == nil && cs.Cap != nil { // replay file
		cc, err := cs.Cap.compact()
		if err != nil || len(cc.sets) != cs.N {
			res.infra = append(res.infra, fmt.Sprintf("bad capability case: %v", err))
			return res
		}
		cs.capc = cc
	}
	cyclic := refCyclic(cs.N, cs.Edges)
	ckind := ""
	if cyclic {
		ckind = "multi-root-cycle"
		if !refCyclic(cs.N, stripDiagonal(cs.N, cs.Edges)) {
			ckind = "self-dependency-only"
		}
	}

	strict := cs.capc != nil // capability family
	eval.Reset()
	h := &harness{}
	var initial []*troot
	if strict {
		initial = h.buildCaps(cs)
	} else {
		initial = h.build(cs)
	}
	// Partial registration (len(Order) < N): the design consists of the registered roots and
	// of everything they depend on, directly or not; a root that is neither does not exist
	// (its expressions are never handed to the engine and nothing is expected of them).
	present := initial
	if !strict && len(cs.Order) < cs.N {
		in := make([]bool, cs.N)
		var mark func(i int)
		mark = func(i int) {
			if in[i] {
				return
			}
			in[i] = true
			for j := 0; j < cs.N; j++ {
				if cs.Edges>>(uint(i*cs.N+j))&1 == 1 {
					mark(j)
				}
			}
		}
		for _, i := range cs.Order {
			mark(i)
		}
		present = nil
		induced := cs.Edges
		for i, r := range initial {
			if in[i] {
				present = append(present, r)
				continue
			}
			for j := 0; j < cs.N; j++ {
				induced &^= 1<<uint(i*cs.N+j) | 1<<uint(j*cs.N+i)
			}
		}
		kept := h.exprs[:0]
		for _, e := range h.exprs {
			for _, r := range present {
				if e.root == r {
					kept = append(kept, e)
				}
			}
		}
		h.exprs = kept
		cyclic = refCyclic(cs.N, induced)
	}
	registered := map[*troot]bool{}
	for _, i := range cs.Order {
		if err := eval.Register(initial[i].self); err != nil {
			res.infra = append(res.infra, "eval.Register failed: "+err.Error())
			return res
		}
		h.roots = append(h.roots, initial[i])
		registered[initial[i]] = true
	}
	for _, r := range present {
		if !registered[r] {
			r.class = "dependency-only-root"
			for _, e := range h.exprs {
				if e.root == r {
					e.class = "dependency-only-root-expr"
				}
			}
			h.roots = append(h.roots, r)
		}
	}

	// ---- 1. Context.Roots(): the order in which roots will be processed -------------
	got, err := eval.Context.Roots()
	switch {
	case cyclic && err == nil:
		res.add("cycle-not-reported api=Roots kind="+ckind,
			"the dependency graph has a cycle (%s) but Context.Roots() returned no error (order %s)", ckind, rootNames(got))
	case !cyclic && err != nil:
		res.add("acyclic-graph-rejected api=Roots", "acyclic dependency graph but Context.Roots() returned error %q", err)
	case !cyclic:
		checkOrder(res, present, got)
	}

	// ---- 2. RunDSL --------------------------------------------------------------------
	h.log = h.log[:0]
	rerr := eval.RunDSL()
	res.infra = append(res.infra, h.infra...)

	if cyclic {
		if rerr == nil {
			res.add("cycle-not-reported api=RunDSL kind="+ckind,
				"the dependency graph has a cycle (%s) but RunDSL returned nil", ckind)
		}
		if len(h.log) > 0 {
			res.add("callbacks-run-on-cyclic-design kind="+ckind+" first="+phaseName[h.log[0].phase],
				"%d phase callbacks ran although the dependency graph has a cycle (%s)", len(h.log), ckind)
		}
		if strict {
			res.infra = append(res.infra, "capability families only hold acyclic graphs")
		}
		if len(res.fails) > 0 {
			res.outcome = fmt.Sprintf("n=%d cyclic:VIOLATION", cs.N)
		} else {
			res.outcome = fmt.Sprintf("n=%d cyclic:error-no-callbacks", cs.N)
		}
		return res
	}

	// A design failed a phase when an error was reported in it; in the capability families
	// also when the case is built to report one (so a failure that the engine skips is not
	// taken for a valid design).
	failedExec := len(h.dslTokens) > 0 || len(h.expDSLTokens) > 0
	failedVal := len(h.valTokens) > 0 || (!failedExec && len(h.expValTokens) > 0)

	// every DSL function executed exactly once, then (on designs that did not fail) every
	// expression and root that has the capability prepared, validated, finalized exactly
	// once; finalize never on a failed design. Only the first missing phase of a subject is
	// reported.
	// When RunDSL returns an error that contains none of the errors reported by (or built
	// into) the callbacks, the run ended on an error of the engine's own making: that is
	// reported below (error-returned-on-valid-design / errors-not-returned) and the
	// Prepare/Validate/Finalize callbacks missing as a consequence are not listed again.
	foreignErr := false
	if rerr != nil {
		foreignErr = true
		msg := rerr.Error()
		for _, toks := range [][]string{h.dslTokens, h.valTokens, h.expDSLTokens, h.expValTokens} {
			for _, t := range toks {
				if strings.Contains(msg, t) {
					foreignErr = false
				}
			}
		}
	}

	type subject struct {
		class string
		name  string
		count *[nPhases]int
		caps  uint8
		root  *troot
		expr  *texpr
	}
	var subjects []subject
	for _, r := range h.roots {
		subjects = append(subjects, subject{r.class, r.name, &r.count, r.caps, r, nil})
	}
	for _, e := range h.exprs {
		subjects = append(subjects, subject{e.class, e.name, &e.count, e.caps, e.root, e})
	}
	for _, s := range subjects {
		missingReported := false
		pos := func(ph int) string { // capability families: where the entry sits in its set
			if s.expr == nil {
				return ""
			}
			return s.expr.position(ph)
		}
		ctx := ""
		if s.expr != nil && s.expr.where != nil {
			ctx = fmt.Sprintf(" [capabilities %s, entry %d of set %s]", capString(s.caps), len(s.expr.before), setText(s.expr.where))
		} else if strict {
			ctx = fmt.Sprintf(" [root capabilities %s]", capString(s.caps))
		}
		for ph := 0; ph < nPhases; ph++ {
			n := s.count[ph]
			has := s.caps>>uint(ph)&1 == 1
			required := false
			switch ph {
			case phDSL:
				required = has
			case phPrepare, phValidate:
				required = has && !failedExec
			case phFinalize:
				required = has && !failedExec && !failedVal
			}
			if strict && failedExec && n > 0 && (ph == phPrepare || ph == phValidate) {
				res.add(fmt.Sprintf("callback-after-failed-execution subject=%s phase=%s", s.class, phaseName[ph]),
					"%s received %s although the design failed execution%s", s.name, phaseName[ph], ctx)
			}
			if ph == phFinalize && (failedExec || failedVal) && n > 0 {
				why := "validation"
				if failedExec {
					why = "execution"
				}
				res.add("finalize-on-failed-design failed="+why+" subject="+s.class,
					"%s was finalized although the design failed %s%s", s.name, why, ctx)
			}
			if n > 1 {
				res.add(fmt.Sprintf("callback-repeated subject=%s phase=%s%s", s.class, phaseName[ph], pos(ph)),
					"%s received %s %d times%s", s.name, phaseName[ph], n, ctx)
			}
			if required && n == 0 && !missingReported && !(foreignErr && ph != phDSL) {
				missingReported = true
				var later []string
				for q := ph + 1; q < nPhases; q++ {
					later = append(later, fmt.Sprintf("%s=%d", phaseName[q], s.count[q]))
				}
				res.add(fmt.Sprintf("callback-missing subject=%s phase=%s%s", s.class, phaseName[ph], pos(ph)),
					"%s (%s) never received %s (later phases: %s); deps of its root: %s%s",
					s.name, s.class, phaseName[ph], strings.Join(later, " "), depsOf(s.root), ctx)
			}
		}
	}

	// phase barrier over the whole log
	var minIdx, maxIdx [nPhases]int
	for ph := range minIdx {
		minIdx[ph], maxIdx[ph] = -1, -1
	}
	for i, ev := range h.log {
		if minIdx[ev.phase] < 0 {
			minIdx[ev.phase] = i
		}
		maxIdx[ev.phase] = i
	}
	for ph := 0; ph+1 < nPhases; ph++ {
		for q := ph + 1; q < nPhases; q++ {
			if maxIdx[ph] >= 0 && minIdx[q] >= 0 && minIdx[q] < maxIdx[ph] {
				ev, late := h.log[minIdx[q]], h.log[maxIdx[ph]]
				res.add(fmt.Sprintf("phase-barrier-violated %s-before-end-of-%s", phaseName[q], phaseName[ph]),
					"%s of %s ran (log position %d) before %s of %s (position %d)",
					phaseName[q], evName(ev), minIdx[q], phaseName[ph], evName(late), maxIdx[ph])
			}
		}
	}

	// dependency order inside every phase: all callbacks of a dependency precede all
	// callbacks of the dependent root
	type span struct{ first, last [nPhases]int }
	spans := make(map[*troot]*span, len(h.roots))
	for _, r := range h.roots {
		sp := &span{}
		for ph := range sp.first {
			sp.first[ph], sp.last[ph] = -1, -1
		}
		spans[r] = sp
	}
	for i, ev := range h.log {
		sp := spans[ev.root]
		if sp == nil {
			res.infra = append(res.infra, "callback on a root that was never registered: "+ev.root.name)
			continue
		}
		if sp.first[ev.phase] < 0 {
			sp.first[ev.phase] = i
		}
		sp.last[ev.phase] = i
	}
	for _, r := range h.roots {
		for _, d := range r.deps {
			sr, sd := spans[r], spans[d]
			if sd == nil {
				continue
			}
			for ph := 0; ph < nPhases; ph++ {
				if sd.last[ph] >= 0 && sr.first[ph] >= 0 && sr.first[ph] < sd.last[ph] {
					res.add(fmt.Sprintf("dependency-order-violated api=RunDSL phase=%s dependent=%s", phaseName[ph], r.class),
						"%s depends on %s but a %s callback of %s ran before the last %s callback of %s",
						r.name, d.name, phaseName[ph], r.name, phaseName[ph], d.name)
				}
			}
		}
	}

	// all errors of the failing phase are returned together; success returns nil
	checkTokens := func(phase string, toks []string) {
		if len(toks) == 0 {
			return
		}
		if rerr == nil {
			res.add("errors-not-returned phase="+phase+" returned=nil", "%d %s errors were reported (%s) but RunDSL returned nil", len(toks), phase, strings.Join(toks, " "))
			return
		}
		msg := rerr.Error()
		var missing []string
		for _, t := range toks {
			if !strings.Contains(msg, t) {
				missing = append(missing, t)
			}
		}
		if len(missing) > 0 {
			res.add("errors-not-returned phase="+phase+" returned=partial",
				"%d of %d %s errors are missing from the error returned by RunDSL: %s; returned: %q", len(missing), len(toks), phase, strings.Join(missing, " "), msg)
		}
	}
	checkTokens("DSL", union(h.dslTokens, h.expDSLTokens))
	if failedExec {
		checkTokens("Validate", h.valTokens)
	} else {
		checkTokens("Validate", union(h.valTokens, h.expValTokens))
	}
	if !failedExec && !failedVal && rerr != nil {
		res.add("error-returned-on-valid-design", "no error was reported in any phase but RunDSL returned %q", rerr)
	}

	kind := fmt.Sprintf("n=%d dag", cs.N)
	if strict {
		kind = fmt.Sprintf("caps n=%d nil-entry=%v", cs.N, cs.capc.hasNil())
	}
	switch {
	case len(res.fails) > 0:
		res.outcome = kind + ":VIOLATION"
	case failedExec:
		res.outcome = kind + ":execution-failed-errors-returned"
	case failedVal:
		res.outcome = kind + ":validation-failed-errors-returned"
	default:
		res.outcome = kind + ":all-four-phases"
	}
	return res
}

// union: a followed by the elements of b not in a.
func union(a, b []string) []string {
	if len(b) == 0 {
		return a
	}
	out := append([]string{}, a...)
	for _, x := range b {
		dup := false
		for _, y := range out {
			if x == y {
				dup = true
				break
			}
		}
		if !dup {
			out = append(out, x)
		}
	}
	return out
}

func depsOf(r *troot) string {
	var d []string
	for _, x := range r.deps {
		d = append(d, x.name)
	}
	if len(d) == 0 {
		return "none"
	}
	return strings.Join(d, ",")
}

func evName(ev event) string {
	if ev.expr != nil {
		return ev.expr.name
	}
	return "root " + ev.root.name
}

func rootNames(rs []eval.Root) string {
	var s []string
	for _, r := range rs {
		s = append(s, r.EvalName())
	}
	return "[" + strings.Join(s, " ") + "]"
}

// checkOrder validates the order returned by Context.Roots() for an acyclic graph:
// exactly the registered roots, each once, every dependency before its dependents.
func checkOrder(res *result, initial []*troot, got []eval.Root) {
	pos := map[*troot]int{}
	for i, g := range got {
		var tr *troot
		rt, ok := g.(rooter)
		if ok {
			tr = rt.base()
		}
		if !ok {
			res.add("order-membership api=Roots problem=foreign", "Roots() returned a root that was never registered: %s", g.EvalName())
			continue
		}
		if _, dup := pos[tr]; dup {
			res.add("order-membership api=Roots problem=duplicate", "Roots() lists %s more than once: %s", tr.name, rootNames(got))
			continue
		}
		pos[tr] = i
	}
	for _, r := range initial {
		if _, ok := pos[r]; !ok {
			res.add("order-membership api=Roots problem=missing", "Roots() does not list root %s (registered, or a dependency of a registered root): %s", r.name, rootNames(got))
		}
	}
	for _, r := range initial {
		for _, d := range r.deps {
			pr, ok1 := pos[r]
			pd, ok2 := pos[d]
			if ok1 && ok2 && pd > pr {
				res.add("dependency-order-violated api=Roots", "%s depends on %s but Roots() returned %s", r.name, d.name, rootNames(got))
			}
		}
	}
}

// ---- reference definitions (independent of goa) ---------------------------------------

// refCyclic: a dependency graph has a cycle iff repeatedly removing roots all of whose
// dependencies have been removed does not remove every root. A self-dependency is a cycle
// of length one (the root can never be removed).
func refCyclic(n int, edges uint64) bool {
	removed := make([]bool, n)
	left := n
	for progress := true; progress && left > 0; {
		progress = false
		for i := 0; i < n; i++ {
			if removed[i] {
				continue
			}
			free := true
			for j := 0; j < n; j++ {
				if edges>>(uint(i*n+j))&1 == 1 && !removed[j] {
					free = false
					break
				}
			}
			if free {
				removed[i] = true
				left--
				progress = true
			}
		}
	}
	return left > 0
}

func stripDiagonal(n int, edges uint64) uint64 {
	for i := 0; i < n; i++ {
		edges &^= 1 << uint(i*n+i)
	}
	return edges
}

func sortedKeys[V any](m map[string]V) []string {
	out := make([]string, 0, len(m))
	for k := range m {
		out = append(out, k)
	}
	sort.Strings(out)
	return out
}

package main

// Capability dimension: which of the optional eval interfaces an expression implements is
// part of the enumerated space. An entry of an expression set is either nil (the four phase
// walkers of the engine tolerate nil entries) or an expression implementing a non-empty
// subset of {Source, Preparer, Validator, Finalizer}; it behaves ok, reports an error while
// its DSL executes (needs Source) or returns an error from Validate (needs Validator).
// Interface satisfaction is static in Go, therefore one concrete type per subset (15 for
// expressions, 8 for roots: a root always is an eval.Root and optionally Preparer, Validator,
// Finalizer). All of them delegate to one *texpr / *troot that logs the callbacks.

import (
	"fmt"
	"sort"
	"strconv"
	"strings"

	"goa.design/goa/v3/eval"
)

const (
	capS    = 1 << phDSL
	capP    = 1 << phPrepare
	capV    = 1 << phValidate
	capF    = 1 << phFinalize
	capAll  = capS | capP | capV | capF
	capRoot = capP | capV | capF
)

var capLetter = [nPhases]byte{'S', 'P', 'V', 'F'}

func capString(m uint8) string {
	var b []byte
	for ph := 0; ph < nPhases; ph++ {
		if m>>uint(ph)&1 == 1 {
			b = append(b, capLetter[ph])
		}
	}
	return string(b)
}

// ---- expression types, one per capability subset -------------------------------------

type xN struct{ t *texpr }

func (x xN) EvalName() string { return x.t.name }

type xS struct{ t *texpr }

func (x xS) DSL() func() { return x.t.DSL() }

type xP struct{ t *texpr }

func (x xP) Prepare() { x.t.Prepare() }

type xV struct{ t *texpr }

func (x xV) Validate() error { return x.t.Validate() }

type xF struct{ t *texpr }

func (x xF) Finalize() { x.t.Finalize() }

type (
	eS struct {
		xN
		xS
	}
	eP struct {
		xN
		xP
	}
	eSP struct {
		xN
		xS
		xP
	}
	eV struct {
		xN
		xV
	}
	eSV struct {
		xN
		xS
		xV
	}
	ePV struct {
		xN
		xP
		xV
	}
	eSPV struct {
		xN
		xS
		xP
		xV
	}
	eF struct {
		xN
		xF
	}
	eSF struct {
		xN
		xS
		xF
	}
	ePF struct {
		xN
		xP
		xF
	}
	eSPF struct {
		xN
		xS
		xP
		xF
	}
	eVF struct {
		xN
		xV
		xF
	}
	eSVF struct {
		xN
		xS
		xV
		xF
	}
	ePVF struct {
		xN
		xP
		xV
		xF
	}
	eSPVF struct {
		xN
		xS
		xP
		xV
		xF
	}
)

// wrapExpr returns a value implementing eval.Expression and exactly the optional interfaces
// named by t.caps.
func wrapExpr(t *texpr) eval.Expression {
	n, s, p, v, f := xN{t}, xS{t}, xP{t}, xV{t}, xF{t}
	switch t.caps {
	case capS:
		return eS{n, s}
	case capP:
		return eP{n, p}
	case capS | capP:
		return eSP{n, s, p}
	case capV:
		return eV{n, v}
	case capS | capV:
		return eSV{n, s, v}
	case capP | capV:
		return ePV{n, p, v}
	case capS | capP | capV:
		return eSPV{n, s, p, v}
	case capF:
		return eF{n, f}
	case capS | capF:
		return eSF{n, s, f}
	case capP | capF:
		return ePF{n, p, f}
	case capS | capP | capF:
		return eSPF{n, s, p, f}
	case capV | capF:
		return eVF{n, v, f}
	case capS | capV | capF:
		return eSVF{n, s, v, f}
	case capP | capV | capF:
		return ePVF{n, p, v, f}
	case capAll:
		return eSPVF{n, s, p, v, f}
	}
	panic(fmt.Sprintf("c11: no expression type for capability set %04b", t.caps))
}

// ---- root types, one per subset of {Preparer, Validator, Finalizer} ------------------------

type rooter interface{ base() *troot }

func (r *troot) base() *troot { return r }

type yR struct{ r *troot }

func (y yR) EvalName() string          { return y.r.name }
func (y yR) WalkSets(w eval.SetWalker) { y.r.WalkSets(w) }
func (y yR) DependsOn() []eval.Root    { return y.r.DependsOn() }
func (y yR) Packages() []string        { return nil }
func (y yR) base() *troot              { return y.r }

type yP struct{ r *troot }

func (y yP) Prepare() { y.r.Prepare() }

type yV struct{ r *troot }

func (y yV) Validate() error { return y.r.Validate() }

type yF struct{ r *troot }

func (y yF) Finalize() { y.r.Finalize() }

type (
	rP struct {
		yR
		yP
	}
	rV struct {
		yR
		yV
	}
	rPV struct {
		yR
		yP
		yV
	}
	rF struct {
		yR
		yF
	}
	rPF struct {
		yR
		yP
		yF
	}
	rVF struct {
		yR
		yV
		yF
	}
	rPVF struct {
		yR
		yP
		yV
		yF
	}
)

func wrapRoot(r *troot) eval.Root {
	b, p, v, f := yR{r}, yP{r}, yV{r}, yF{r}
	switch r.caps {
	case 0:
		return b
	case capP:
		return rP{b, p}
	case capV:
		return rV{b, v}
	case capP | capV:
		return rPV{b, p, v}
	case capF:
		return rF{b, f}
	case capP | capF:
		return rPF{b, p, f}
	case capV | capF:
		return rVF{b, v, f}
	case capRoot:
		return rPVF{b, p, v, f}
	}
	panic(fmt.Sprintf("c11: no root type for capability set %04b", r.caps))
}

// implemented reports the optional interfaces a value really satisfies (harness self-check).
func implemented(v any) uint8 {
	var m uint8
	if _, ok := v.(eval.Source); ok {
		m |= capS
	}
	if _, ok := v.(eval.Preparer); ok {
		m |= capP
	}
	if _, ok := v.(eval.Validator); ok {
		m |= capV
	}
	if _, ok := v.(eval.Finalizer); ok {
		m |= capF
	}
	return m
}

// capSelfCheck verifies that every wrapper type implements exactly its capability set.
func capSelfCheck() error {
	for m := uint8(1); m <= capAll; m++ {
		if got := implemented(wrapExpr(&texpr{caps: m})); got != m {
			return fmt.Errorf("expression type for %s implements %s", capString(m), capString(got))
		}
	}
	for m := uint8(0); m <= capAll; m++ {
		if m&capS != 0 {
			continue
		}
		if got := implemented(wrapRoot(&troot{caps: m})); got != m {
			return fmt.Errorf("root type for %s implements %s", capString(m), capString(got))
		}
	}
	return nil
}

// ---- alphabet ----------------------------------------------------------------------------

// symbol is one entry of an expression set.
type symbol struct {
	isNil    bool
	caps     uint8
	failExec bool // the DSL function reports one error
	failVal  bool // Validate returns one error
	name     string
}

// symTable: nil, the 15 capability subsets behaving ok, the 8 subsets with Source failing in
// execution, the 8 subsets with Validator failing validation (32 symbols).
var symTable = func() []symbol {
	t := []symbol{{isNil: true, name: "nil"}}
	for m := uint8(1); m <= capAll; m++ {
		t = append(t, symbol{caps: m, name: capString(m)})
	}
	for m := uint8(1); m <= capAll; m++ {
		if m&capS != 0 {
			t = append(t, symbol{caps: m, failExec: true, name: capString(m) + "!x"})
		}
	}
	for m := uint8(1); m <= capAll; m++ {
		if m&capV != 0 {
			t = append(t, symbol{caps: m, failVal: true, name: capString(m) + "!v"})
		}
	}
	return t
}()

// rootKindTable: a root always is an eval.Root; the 8 subsets of {P,V,F} behaving ok, then
// the 4 subsets with Validator whose Validate fails (12 kinds). Kind 0 is the uniform root
// used when the root capabilities are not a dimension of the family: RPVF.
var rootKindTable = func() []symbol {
	t := []symbol{{caps: capRoot, name: "R" + capString(capRoot)}}
	for m := uint8(0); m <= capAll; m++ {
		if m&capS == 0 && m != capRoot {
			t = append(t, symbol{caps: m, name: "R" + capString(m)})
		}
	}
	for m := uint8(0); m <= capAll; m++ {
		if m&capS == 0 && m&capV != 0 {
			t = append(t, symbol{caps: m, failVal: true, name: "R" + capString(m) + "!v"})
		}
	}
	return t
}()

func symNames(t []symbol) []string {
	out := make([]string, len(t))
	for i, s := range t {
		out[i] = s.name
	}
	return out
}

func lookupSym(t []symbol, name string) (int, error) {
	for i, s := range t {
		if s.name == name {
			return i, nil
		}
	}
	return 0, fmt.Errorf("unknown symbol %q", name)
}

// capCase is the compact form of the capability part of a case; capSpec its replay form.
type capCase struct {
	rootKinds []int     // per root: index into rootKindTable
	sets      [][][]int // per root, per set: indices into symTable
}

type capRootSpec struct {
	Kind string     `json:"kind"`
	Sets [][]string `json:"sets"`
}

type capSpec struct {
	Roots []capRootSpec `json:"roots"`
}

func (cc *capCase) spec() *capSpec {
	sp := &capSpec{}
	for i, sets := range cc.sets {
		rs := capRootSpec{Kind: rootKindTable[cc.rootKinds[i]].name, Sets: make([][]string, len(sets))}
		for si, set := range sets {
			rs.Sets[si] = make([]string, len(set))
			for ei, s := range set {
				rs.Sets[si][ei] = symTable[s].name
			}
		}
		sp.Roots = append(sp.Roots, rs)
	}
	return sp
}

func (sp *capSpec) compact() (*capCase, error) {
	cc := &capCase{}
	for _, rs := range sp.Roots {
		k, err := lookupSym(rootKindTable, rs.Kind)
		if err != nil {
			return nil, err
		}
		cc.rootKinds = append(cc.rootKinds, k)
		sets := make([][]int, len(rs.Sets))
		for si, set := range rs.Sets {
			sets[si] = make([]int, len(set))
			for ei, name := range set {
				s, err := lookupSym(symTable, name)
				if err != nil {
					return nil, err
				}
				sets[si][ei] = s
			}
		}
		cc.sets = append(cc.sets, sets)
	}
	return cc, nil
}

// key is the canonical text of the capability part (state key, messages).
func (cc *capCase) key() string {
	var sb strings.Builder
	for i, sets := range cc.sets {
		if i > 0 {
			sb.WriteByte(' ')
		}
		sb.WriteString(rootKindTable[cc.rootKinds[i]].name)
		for _, set := range sets {
			sb.WriteByte('[')
			for ei, s := range set {
				if ei > 0 {
					sb.WriteByte(' ')
				}
				sb.WriteString(symTable[s].name)
			}
			sb.WriteByte(']')
		}
	}
	return sb.String()
}

func (cc *capCase) entries() int {
	n := 0
	for _, sets := range cc.sets {
		for _, set := range sets {
			n += len(set)
		}
	}
	return n
}

func (cc *capCase) hasNil() bool {
	for _, sets := range cc.sets {
		for _, set := range sets {
			for _, s := range set {
				if symTable[s].isNil {
					return true
				}
			}
		}
	}
	return false
}

// buildCaps creates the roots of a capability case (not yet registered).
func (h *harness) buildCaps(cs caseSpec) []*troot {
	cc := cs.capc
	roots := make([]*troot, cs.N)
	for i := range roots {
		k := rootKindTable[cc.rootKinds[i]]
		r := &troot{h: h, name: "r" + strconv.Itoa(i), class: "cap-root", caps: k.caps, valErr: k.failVal}
		r.self = wrapRoot(r)
		if k.failVal {
			h.expValTokens = append(h.expValTokens, "<<validate:"+r.name+">>")
		}
		roots[i] = r
	}
	for i, r := range roots {
		for j := 0; j < cs.N; j++ {
			if cs.Edges>>(uint(i*cs.N+j))&1 == 1 {
				r.deps = append(r.deps, roots[j])
			}
		}
		for si, set := range cc.sets[i] {
			es := make(eval.ExpressionSet, len(set))
			for ei, s := range set {
				sym := symTable[s]
				if sym.isNil {
					continue // es[ei] stays the nil interface
				}
				e := h.newExpr(r, r.name+".s"+strconv.Itoa(si)+".e"+strconv.Itoa(ei), "cap-expr")
				e.caps = sym.caps
				e.dslErr = sym.failExec
				e.before = set[:ei]
				e.where = set
				if sym.failExec {
					h.expDSLTokens = append(h.expDSLTokens, "<<dsl:"+e.name+">>")
				}
				if sym.failVal {
					e.valErrs = 1
					h.expValTokens = append(h.expValTokens, "<<validate:"+e.name+">>")
				}
				es[ei] = wrapExpr(e)
			}
			r.sets = append(r.sets, es)
		}
	}
	return roots
}

// position of an entry inside its set relative to phase ph (a feature of the input that
// goes into signatures): preceded by a nil entry, preceded by an entry that does not take
// part in the phase, or neither.
func (e *texpr) position(ph int) string {
	if e.where == nil {
		return ""
	}
	for _, s := range e.before {
		if symTable[s].isNil {
			return " pos=after-nil"
		}
	}
	for _, s := range e.before {
		if symTable[s].caps>>uint(ph)&1 == 0 {
			return " pos=after-entry-without-" + phaseName[ph]
		}
	}
	return " pos=plain"
}

func setText(set []int) string {
	n := make([]string, len(set))
	for i, s := range set {
		n[i] = symTable[s].name
	}
	return "[" + strings.Join(n, " ") + "]"
}

// ---- enumeration ---------------------------------------------------------------------------

// capBlock is a contiguous index range of a capability family: one layout (number of roots,
// number of sets per root, length of every set), one dependency edge set, and every
// assignment of symbols to the entries (x every assignment of root kinds when kinds is set).
type capBlock struct {
	edges  uint64
	layout [][]int // per root: the lengths of its sets
	total  int
	kinds  bool
	size   int64
	start  int64
}

// compositions yields every way to write total as an ordered sum of bins terms >= 0.
func compositions(total, bins int, yield func([]int)) {
	cur := make([]int, bins)
	var rec func(i, left int)
	rec = func(i, left int) {
		if i == bins-1 {
			cur[i] = left
			yield(cur)
			return
		}
		for v := 0; v <= left; v++ {
			cur[i] = v
			rec(i+1, left-v)
		}
	}
	rec(0, total)
}

func pow(b, e int) int64 {
	r := int64(1)
	for ; e > 0; e-- {
		r *= int64(b)
	}
	return r
}

// capFamily: nroots roots, each with 1 or 2 expression sets, every distribution of `total`
// entries (0..maxTotal(setsPerRoot)) over the sets (sets may be empty), every acyclic
// dependency relation between the roots, every symbol assignment; with kinds also every
// root-kind assignment. Blocks are ordered by total so that the first failing case is small.
func capFamily(name string, nroots int, kinds bool, maxTotal func(setsPerRoot []int) int) family {
	edgeSets := []uint64{0}
	if nroots == 2 {
		edgeSets = []uint64{0, 1 << 1, 1 << 2} // none, r0->r1, r1->r0 (bit i*N+j: i depends on j)
	}
	var blocks []capBlock
	shapes := [][]int{{1}, {2}} // number of sets per root
	if nroots == 2 {
		shapes = [][]int{{1, 1}, {2, 1}, {1, 2}, {2, 2}}
	}
	for _, shape := range shapes {
		bins := 0
		for _, s := range shape {
			bins += s
		}
		for total := 0; total <= maxTotal(shape); total++ {
			compositions(total, bins, func(c []int) {
				layout := make([][]int, nroots)
				p := 0
				for i, s := range shape {
					layout[i] = append([]int{}, c[p:p+s]...)
					p += s
				}
				for _, e := range edgeSets {
					b := capBlock{edges: e, layout: layout, total: total, kinds: kinds}
					b.size = pow(len(symTable), total)
					if kinds {
						b.size *= pow(len(rootKindTable), nroots)
					}
					blocks = append(blocks, b)
				}
			})
		}
	}
	sort.SliceStable(blocks, func(i, j int) bool { return blocks[i].total < blocks[j].total })
	var size int64
	for i := range blocks {
		blocks[i].start = size
		size += blocks[i].size
	}
	orders := allOrders(nroots)
	return family{name: name, n: nroots, orders: orders, size: size, at: func(idx int64) caseSpec {
		bi := sort.Search(len(blocks), func(i int) bool { return blocks[i].start+blocks[i].size > idx })
		b := &blocks[bi]
		v := idx - b.start
		cc := &capCase{rootKinds: make([]int, nroots), sets: make([][][]int, nroots)}
		if b.kinds {
			for i := 0; i < nroots; i++ {
				cc.rootKinds[i] = int(v % int64(len(rootKindTable)))
				v /= int64(len(rootKindTable))
			}
		}
		flat := make([]int, b.total)
		for i := b.total - 1; i >= 0; i-- { // first entry = most significant digit
			flat[i] = int(v % int64(len(symTable)))
			v /= int64(len(symTable))
		}
		p := 0
		for i, lens := range b.layout {
			cc.sets[i] = make([][]int, len(lens))
			for si, l := range lens {
				cc.sets[i][si] = flat[p : p+l : p+l]
				p += l
			}
		}
		return caseSpec{Family: name, N: nroots, Edges: b.edges, capc: cc}
	}}
}

func upTo(n int) func([]int) int { return func([]int) int { return n } }

// capFamilies lists the capability families of a tier.
func capFamilies(tier string) []family {
	oneSetEach := func(shape []int) bool {
		for _, s := range shape {
			if s != 1 {
				return false
			}
		}
		return true
	}
	if tier == "thorough" {
		return []family{
			capFamily("caps-1root", 1, false, upTo(4)),
			capFamily("caps-2roots", 2, false, upTo(3)),
			capFamily("caps-rootkinds-1root", 1, true, upTo(3)),
			capFamily("caps-rootkinds-2roots", 2, true, func(shape []int) int {
				if oneSetEach(shape) {
					return 2
				}
				return 1
			}),
		}
	}
	return []family{
		capFamily("caps-1root", 1, false, upTo(3)),
		capFamily("caps-2roots", 2, false, func(shape []int) int {
			if oneSetEach(shape) {
				return 3
			}
			return 2
		}),
		capFamily("caps-rootkinds-1root", 1, true, upTo(2)),
		capFamily("caps-rootkinds-2roots", 2, true, upTo(1)),
	}
}

// C11 — DSL evaluation runs in global phases and dependency order.
//
// Alphabet: test roots implementing eval.Root (+Preparer/Validator/Finalizer), each owning
// three expression sets of expressions implementing eval.Source/Preparer/Validator/Finalizer
// that log every callback; a dependency relation between the roots (DependsOn); a
// registration order (eval.Register); one behaviour per root out of a menu of 16 (append an
// expression to the executing / a later / an earlier set, register a new root while
// executing with and without dependencies, report errors in the DSL or Validate phase, ...).
//
// Bound (complete inside it, nothing sampled):
//
//	quick:    every directed graph without self-dependency on 1..4 roots and every DAG on 5
//	          roots x every registration order; every graph with >= 1 self-dependency on
//	          1..3 roots x every order; every graph on 1..3 roots x every order x every
//	          behaviour vector; 4 roots: every DAG x every order x 1 non-plain root.
//	          Capability families (caps.go): an entry of an expression set is nil or an
//	          expression implementing one of the 15 non-empty subsets of {Source, Preparer,
//	          Validator, Finalizer}, behaving ok / failing execution / failing validation
//	          (32 symbols); 1-2 roots x 1-2 sets per root (sets may be empty) x the acyclic
//	          graphs x all orders x every symbol sequence with <= 3 entries in total (2 roots
//	          with 2 sets: <= 2); the roots' own {Preparer, Validator, Finalizer} subsets
//	          (12 kinds) x <= 2 entries (2 roots: <= 1).
//	thorough: + 5 roots: every cyclic graph that becomes acyclic by removing one edge x all
//	          120 orders; self-dependency graphs on 4 roots; 4 roots: every DAG x every
//	          order x 2 non-plain roots; 5 roots: every labelled DAG x {identity, reversed}
//	          order x 1 non-plain root; 6 roots: every labelled DAG x {identity, reversed}
//	          order (all labellings x a fixed order = all shapes x all relative orders).
//	          Capability families: 1 root <= 4 entries, 2 roots <= 3 entries; root kinds
//	          x <= 3 entries (2 roots: <= 2 with one set per root, <= 1 otherwise).
//
// Oracle (from the property statement only, reference definitions in model.go): the order
// returned by Context.Roots() lists each registered root once with every dependency before
// its dependents; a graph with a cycle makes Roots() and RunDSL() return an error and no
// callback runs; otherwise every DSL function (also of expressions appended and roots
// registered while executing) runs exactly once, then every Prepare, then every Validate,
// then every Finalize (barrier over the complete callback log), per phase all callbacks of a
// dependency precede those of the dependent root, every error reported in the failing phase
// is contained in the error returned by RunDSL, Finalize never runs on a design that failed
// execution or validation, a design without errors returns nil. Capability families: a
// callback is expected exactly for the interfaces the entry implements, nil entries change
// nothing, and no Prepare/Validate runs after a failed execution.
//
// eval.Context is process-global, therefore cases run sequentially inside worker
// subprocesses of this same binary (hidden first argument -c11-worker), one per core, each
// taking the configurations whose index is congruent to its shard number.
package main

import (
	"bytes"
	"encoding/json"
	"fmt"
	"os"
	"os/exec"
	"runtime"
	"sort"
	"strconv"
	"strings"
	"sync"
	"time"

	"verif/core"
)

// ---- enumeration of the bounded space (shared by parent and workers) ----------------

type family struct {
	name    string
	n       int
	orders  [][]int
	configs func(yield func(edges uint64, beh []int) bool)
	// indexed families (capability dimension): size configurations, at(i) decodes the i-th
	// (mixed radix, so every worker jumps straight to its share); configs is nil then.
	size int64
	at   func(idx int64) caseSpec
}

func allOrders(n int) [][]int {
	var out [][]int
	core.Permutations(n, func(p []int) bool {
		out = append(out, append([]int{}, p...))
		return true
	})
	return out
}

// offDiag lists the bit positions i*n+j, i != j, row-major.
func offDiag(n int) []uint {
	var pos []uint
	for i := 0; i < n; i++ {
		for j := 0; j < n; j++ {
			if i != j {
				pos = append(pos, uint(i*n+j))
			}
		}
	}
	return pos
}

func spread(m uint64, pos []uint) uint64 {
	var e uint64
	for b, p := range pos {
		if m>>uint(b)&1 == 1 {
			e |= 1 << p
		}
	}
	return e
}

// graphsNoSelf enumerates every directed graph without self-dependency on n roots.
func graphsNoSelf(n int, keep func(edges uint64) bool) func(func(uint64) bool) {
	return func(yield func(uint64) bool) {
		pos := offDiag(n)
		for m := uint64(0); m < 1<<uint(len(pos)); m++ {
			e := spread(m, pos)
			if keep != nil && !keep(e) {
				continue
			}
			if !yield(e) {
				return
			}
		}
	}
}

func isDAG(n int) func(uint64) bool { return func(e uint64) bool { return !refCyclic(n, e) } }

// cyclicOneBackEdge keeps the cyclic graphs that become acyclic when one edge is removed.
func cyclicOneBackEdge(n int) func(uint64) bool {
	return func(e uint64) bool {
		if !refCyclic(n, e) {
			return false
		}
		for b := uint(0); b < uint(n*n); b++ {
			if e>>b&1 == 1 && !refCyclic(n, e&^(1<<b)) {
				return true
			}
		}
		return false
	}
}

// behVectors enumerates the behaviour vectors of n roots with minNonPlain..maxNonPlain
// non-plain entries (generated directly: position by position, plain first).
func behVectors(n, minNonPlain, maxNonPlain int, yield func(beh []int) bool) {
	beh := make([]int, n)
	var rec func(i, np int) bool
	rec = func(i, np int) bool {
		if i == n {
			if np < minNonPlain {
				return true
			}
			return yield(beh)
		}
		for b := 0; b < nBehaviours; b++ {
			if !behValid(n, b) || (b != bPlain && np == maxNonPlain) {
				continue
			}
			beh[i] = b
			d := 0
			if b != bPlain {
				d = 1
			}
			if !rec(i+1, np+d) {
				return false
			}
		}
		return true
	}
	rec(0, 0)
}

func graphFamily(name string, n int, orders [][]int, keep func(uint64) bool) family {
	return family{name: name, n: n, orders: orders, configs: func(yield func(uint64, []int) bool) {
		graphsNoSelf(n, keep)(func(e uint64) bool { return yield(e, nil) })
	}}
}

func selfLoopFamily(n int) family {
	return family{name: fmt.Sprintf("selfdep-n%d", n), n: n, orders: allOrders(n), configs: func(yield func(uint64, []int) bool) {
		diag := stripDiagonal(n, 1<<uint(n*n)-1) ^ (1<<uint(n*n) - 1)
		for e := uint64(0); e < 1<<uint(n*n); e++ {
			if e&diag == 0 {
				continue
			}
			if !yield(e, nil) {
				return
			}
		}
	}}
}

func behFamily(name string, n, minNonPlain, maxNonPlain int, keep func(uint64) bool) family {
	return family{name: name, n: n, orders: allOrders(n), configs: func(yield func(uint64, []int) bool) {
		graphsNoSelf(n, keep)(func(e uint64) bool {
			cont := true
			behVectors(n, minNonPlain, maxNonPlain, func(beh []int) bool {
				cont = yield(e, beh)
				return cont
			})
			return cont
		})
	}}
}

// partialOrders: every registration sequence over every non-empty proper subset of n roots.
func partialOrders(n int) [][]int {
	var out [][]int
	for mask := 1; mask < 1<<uint(n)-1; mask++ {
		var sub []int
		for i := 0; i < n; i++ {
			if mask>>uint(i)&1 == 1 {
				sub = append(sub, i)
			}
		}
		for _, p := range allOrders(len(sub)) {
			o := make([]int, len(p))
			for k, x := range p {
				o[k] = sub[x]
			}
			out = append(out, o)
		}
	}
	return out
}

// partialFamily: only some of the roots are registered up front, the others are reached
// through DependsOn alone (or not at all: they are then not part of the design). Every DAG
// x every partial registration sequence x every behaviour vector (the behaviour that
// registers a root depending on ANOTHER initial root is left out: it would change which
// roots exist while the design executes).
func partialFamily(n int) family {
	return family{name: fmt.Sprintf("partial-registration-n%d-dags", n), n: n, orders: partialOrders(n), configs: func(yield func(uint64, []int) bool) {
		graphsNoSelf(n, isDAG(n))(func(e uint64) bool {
			cont := true
			behVectors(n, 0, n, func(beh []int) bool {
				for _, b := range beh {
					if b == bRegisterDepOther {
						return true
					}
				}
				cont = yield(e, beh)
				return cont
			})
			return cont
		})
	}}
}

// dag6Family: every labelled DAG on 6 roots, generated as (topological order, subset of
// forward edges) and kept only when the order is the lexicographically smallest
// topological order of the graph (so each DAG appears exactly once).
func dag6Family() family {
	const n = 6
	id := []int{0, 1, 2, 3, 4, 5}
	rev := []int{5, 4, 3, 2, 1, 0}
	return family{name: "dag-n6", n: n, orders: [][]int{id, rev}, configs: func(yield func(uint64, []int) bool) {
		for _, p := range allOrdersLex(n) {
			// position k of p may depend on positions < k
			var slots []uint
			for a := 0; a < n; a++ {
				for b := 0; b < a; b++ {
					slots = append(slots, uint(p[a]*n+p[b]))
				}
			}
			for m := uint64(0); m < 1<<uint(len(slots)); m++ {
				e := spread(m, slots)
				if !isSmallestTopo(n, e, p) {
					continue
				}
				if !yield(e, nil) {
					return
				}
			}
		}
	}}
}

func allOrdersLex(n int) [][]int {
	out := allOrders(n)
	sort.Slice(out, func(i, j int) bool {
		for k := range out[i] {
			if out[i][k] != out[j][k] {
				return out[i][k] < out[j][k]
			}
		}
		return false
	})
	return out
}

// isSmallestTopo: greedy smallest-label-first topological order equals p.
func isSmallestTopo(n int, edges uint64, p []int) bool {
	var done uint64
	for k := 0; k < n; k++ {
		pick := -1
		for i := 0; i < n && pick < 0; i++ {
			if done>>uint(i)&1 == 1 {
				continue
			}
			free := true
			for j := 0; j < n; j++ {
				if edges>>uint(i*n+j)&1 == 1 && done>>uint(j)&1 == 0 {
					free = false
					break
				}
			}
			if free {
				pick = i
			}
		}
		if pick != p[k] {
			return false
		}
		done |= 1 << uint(pick)
	}
	return true
}

func families(tier string) []family {
	var fs []family
	for n := 1; n <= 4; n++ {
		fs = append(fs, graphFamily(fmt.Sprintf("graphs-n%d", n), n, allOrders(n), nil))
	}
	fs = append(fs, graphFamily("graphs-n5-dags", 5, allOrders(5), isDAG(5)))
	for n := 1; n <= 3; n++ {
		fs = append(fs, selfLoopFamily(n))
	}
	for n := 1; n <= 3; n++ {
		fs = append(fs, behFamily(fmt.Sprintf("behaviours-n%d", n), n, 1, n, nil))
	}
	fs = append(fs, behFamily("behaviours-n4-dags-1-nonplain", 4, 1, 1, isDAG(4)))
	fs = append(fs, partialFamily(2), partialFamily(3))
	if tier == "thorough" {
		fs = append(fs, graphFamily("graphs-n5-cyclic-one-back-edge", 5, allOrders(5), cyclicOneBackEdge(5)))
		fs = append(fs, selfLoopFamily(4))
		fs = append(fs, behFamily("behaviours-n4-dags-2-nonplain", 4, 2, 2, isDAG(4)))
		b5 := behFamily("behaviours-n5-dags-1-nonplain", 5, 1, 1, isDAG(5))
		b5.orders = [][]int{{0, 1, 2, 3, 4}, {4, 3, 2, 1, 0}}
		fs = append(fs, b5)
		fs = append(fs, dag6Family())
	}
	fs = append(fs, capFamilies(tier)...)
	if only := os.Getenv("C11_ONLY"); only != "" { // development aid; the run is then marked incomplete
		var sel []family
		for _, f := range fs {
			if strings.Contains(f.name, only) {
				sel = append(sel, f)
			}
		}
		fs = sel
	}
	return fs
}

func boundsText(tier string) string {
	s := "graphs without self-dependency: n<=4 all 2^(n(n-1)) graphs x all n! registration orders, n=5 all 29281 DAGs x 120 orders; " +
		"self-dependency graphs: n<=3 all x all orders; behaviour menu (16): n<=3 all graphs x all orders x all behaviour vectors, " +
		"n=4 all DAGs x 24 orders x vectors with 1 non-plain root; partial registration: n=2,3 all DAGs x every registration sequence over every non-empty proper subset " +
		"of the roots (the rest is reached through DependsOn only, or is not part of the design) x all behaviour vectors without register-root-dep-other"
	s += "; capability families (set entry = nil or one of the 15 non-empty subsets of {Source,Preparer,Validator,Finalizer} behaving ok / failing execution / failing validation: 32 symbols; " +
		"1-2 roots, 1-2 expression sets per root, sets may be empty; 2 roots: the 3 acyclic dependency relations x both registration orders): "
	if tier == "thorough" {
		s += "1 root: every design with <= 4 entries in total; 2 roots: every design with <= 3 entries; root kinds (12: subsets of {P,V,F} ok / failing validation) as a further dimension: " +
			"1 root <= 3 entries, 2 roots <= 2 entries with one set per root, <= 1 entry otherwise"
	} else {
		s += "1 root: every design with <= 3 entries in total; 2 roots: every design with <= 3 entries with one set per root, <= 2 entries otherwise; " +
			"root kinds (12: subsets of {P,V,F} ok / failing validation) as a further dimension: 1 root <= 2 entries, 2 roots <= 1 entry"
	}
	if tier == "thorough" {
		s += "; n=5 all cyclic graphs that are acyclic after removing one edge x 120 orders; self-dependency graphs n=4; " +
			"n=4 all DAGs x 24 orders x behaviour vectors with 2 non-plain roots; n=5 all labelled DAGs x {identity, reversed} order x 1 non-plain root; " +
			"n=6 all 3781503 labelled DAGs x {identity, reversed} registration order"
	}
	return s
}

func stateKey(f *family, edges uint64, beh []int) string {
	return fmt.Sprintf("%s e=%x b=%v", f.name, edges, beh)
}

func stateKeyOf(f *family, cs caseSpec) string {
	if cs.capc != nil {
		return f.name + " e=" + strconv.FormatUint(cs.Edges, 16) + " " + cs.capc.key()
	}
	return stateKey(f, cs.Edges, cs.Beh)
}

// ---- worker ----------------------------------------------------------------------------

type famResult struct {
	Name     string `json:"name"`
	Configs  int64  `json:"configs"`
	Cases    int64  `json:"cases"`
	Complete bool   `json:"complete"`
	Frontier string `json:"frontier,omitempty"`
}

type violRec struct {
	Sig   string   `json:"sig"`
	What  string   `json:"what"`
	Case  caseSpec `json:"case"`
	Count int64    `json:"count"`
	Fam   int      `json:"fam"`
	Cfg   int64    `json:"cfg"`
	Ord   int      `json:"ord"`
}

type workerOut struct {
	Fams     []famResult      `json:"fams"`
	Outcomes map[string]int64 `json:"outcomes"`
	Viols    []*violRec       `json:"viols"`
	Infra    []string         `json:"infra"`
}

func workerMain(args []string) {
	if len(args) != 4 {
		fmt.Fprintln(os.Stderr, "c11 worker: bad arguments")
		os.Exit(2)
	}
	k, _ := strconv.Atoi(args[0])
	K, _ := strconv.Atoi(args[1])
	tier := args[2]
	dl, _ := strconv.ParseInt(args[3], 10, 64)
	deadline := time.Unix(0, dl)
	out := workerOut{Outcomes: map[string]int64{}}
	viols := map[string]*violRec{}
	expired := false
	for fi, f := range families(tier) {
		f := f
		fr := famResult{Name: f.name, Complete: true}
		var idx int64 = -1
		runCfg := func(cs caseSpec) bool {
			if expired || (fr.Configs%64 == 0 && time.Now().After(deadline)) {
				expired = true
				fr.Complete = false
				fr.Frontier = fmt.Sprintf("stopped at configuration #%d (%s)", idx, stateKeyOf(&f, cs))
				return false
			}
			for oi, ord := range f.orders {
				cs.Order = ord
				res := runCase(cs)
				fr.Cases++
				out.Outcomes[res.outcome]++
				if len(res.infra) > 0 && len(out.Infra) < 5 {
					out.Infra = append(out.Infra, fmt.Sprintf("%+v: %v", cs.describe(), res.infra))
				}
				for _, fl := range res.fails {
					v := viols[fl.sig]
					if v == nil {
						v = &violRec{Sig: fl.sig, What: fl.what, Case: cs.describe(), Fam: fi, Cfg: idx, Ord: oi}
						viols[fl.sig] = v
					}
					v.Count++
				}
			}
			fr.Configs++
			return true
		}
		if f.at != nil {
			for idx = int64(k); idx < f.size; idx += int64(K) {
				if !runCfg(f.at(idx)) {
					break
				}
			}
		} else {
			f.configs(func(edges uint64, beh []int) bool {
				idx++
				if idx%int64(K) != int64(k) {
					return true
				}
				return runCfg(caseSpec{Family: f.name, N: f.n, Edges: edges, Beh: beh})
			})
		}
		out.Fams = append(out.Fams, fr)
	}
	for _, s := range sortedKeys(viols) {
		out.Viols = append(out.Viols, viols[s])
	}
	b, err := json.Marshal(out)
	if err != nil {
		fmt.Fprintln(os.Stderr, "c11 worker:", err)
		os.Exit(2)
	}
	os.Stdout.Write(b)
}

// ---- parent ------------------------------------------------------------------------------

func hasSig(cs caseSpec, sig string) bool {
	res := runCase(cs)
	for _, f := range res.fails {
		if f.sig == sig {
			return true
		}
	}
	return false
}

func run(c *core.Ctx) {
	c.Rule("one state = one configuration (family, number of roots, dependency edge set, behaviour vector; capability families: dependency edge set, kind of every root, " +
		"number and length of its expression sets, symbol of every entry); one transition = one execution of " +
		"Context.Roots() or RunDSL() on the real global eval.Context for a configuration under one registration order (2 per case: Roots, RunDSL); " +
		"every configuration of the stated bound is run under every registration order of the family; non-trivial = at least one dependency edge or one non-plain behaviour " +
		"(capability families: at least one set entry)")
	c.Assume("a self-dependency (root listed in its own DependsOn) is a dependency cycle of length one: 'everything a root depends on comes before it' cannot be satisfied, so the statement leaves only 'reported as an error'")
	c.Assume("DependsOn only names registered roots; dependencies are listed by increasing root index; test roots hand their own slices to the SetWalker lazily (a set grown before the walk reaches it is visible)")
	c.Assume("'returned together' is decided by substring search of unique tokens in RunDSL's error text; errors expected are those actually reported during the run (eval.ReportError called / Validate returned non-nil)")
	c.Assume("after a failed DSL phase only 'no Finalize' is asserted (the statement is silent about Prepare/Validate then); roots themselves are expressions: their Prepare/Validate/Finalize are expected like any other expression's")
	c.Assume("capability families: the value placed in an expression set implements exactly the optional eval interfaces of its symbol (checked at start by type assertion on all 15+8 test types); " +
		"a case built to report an error counts as failed in that phase even when the engine never runs the reporting callback; " +
		"in these families Prepare/Validate callbacks after a failed execution are reported too (the run returns the errors of the failing phase, DESIGN C11 oracle)")
	if err := capSelfCheck(); err != nil {
		c.HarnessError("capability test types: %v", err)
		return
	}
	c.Note("bounds", boundsText(c.Tier()))
	c.Note("capability_alphabet", map[string]any{"set_entry_symbols": symNames(symTable), "root_kinds": symNames(rootKindTable),
		"legend": "S=Source (has a DSL) P=Preparer V=Validator F=Finalizer; !x = the DSL reports an error; !v = Validate returns an error; nil = nil entry; R = eval.Root"})
	c.Note("behaviour_menu", behName[:])

	if os.Getenv("C11_ONLY") != "" {
		c.Incomplete("C11_ONLY=" + os.Getenv("C11_ONLY") + " restricts the run to some families")
	}
	K := runtime.GOMAXPROCS(0)
	if K > 16 {
		K = 16
	}
	outs := make([]workerOut, K)
	errs := make([]error, K)
	var wg sync.WaitGroup
	for k := 0; k < K; k++ {
		wg.Add(1)
		go func(k int) {
			defer wg.Done()
			cmd := exec.Command(os.Args[0], "-c11-worker", strconv.Itoa(k), strconv.Itoa(K), c.Tier(), strconv.FormatInt(c.Deadline().UnixNano(), 10))
			cmd.Env = append(os.Environ(), "GOMAXPROCS=2", "GOGC=400")
			var stdout, stderr bytes.Buffer
			cmd.Stdout, cmd.Stderr = &stdout, &stderr
			if err := cmd.Run(); err != nil {
				errs[k] = fmt.Errorf("worker %d: %v: %s", k, err, stderr.String())
				return
			}
			if err := json.Unmarshal(stdout.Bytes(), &outs[k]); err != nil {
				errs[k] = fmt.Errorf("worker %d: bad output: %v", k, err)
			}
		}(k)
	}
	wg.Wait()
	c.Note("workers", K)
	for _, err := range errs {
		if err != nil {
			c.HarnessError("%v", err)
		}
	}
	for _, err := range errs {
		if err != nil {
			return
		}
	}

	// coverage: states are registered by re-enumerating the same space here, and the number
	// of configurations the workers report must match exactly.
	fams := families(c.Tier())
	perFamily := map[string]any{}
	for fi := range fams {
		f := &fams[fi]
		var done, cases int64
		complete := true
		for k := range outs {
			if fi >= len(outs[k].Fams) || outs[k].Fams[fi].Name != f.name {
				c.HarnessError("worker %d did not report family %s", k, f.name)
				return
			}
			fr := outs[k].Fams[fi]
			done += fr.Configs
			cases += fr.Cases
			if !fr.Complete {
				complete = false
				c.Incomplete(fmt.Sprintf("family %s shard %d/%d: %s", f.name, k, K, fr.Frontier))
			}
		}
		var total int64
		if complete && f.at != nil {
			for total = 0; total < f.size; total++ {
				cs := f.at(total)
				c.State(stateKeyOf(f, cs), cs.capc.entries() > 0)
				if total%61 == 1 {
					cs.Order = f.orders[len(f.orders)-1]
					c.Sample(cs.describe())
				}
			}
			if total != done || cases != total*int64(len(f.orders)) {
				c.HarnessError("family %s: workers ran %d configurations / %d cases, enumeration has %d x %d orders", f.name, done, cases, total, len(f.orders))
			}
		} else if complete {
			f.configs(func(edges uint64, beh []int) bool {
				total++
				c.State(stateKey(f, edges, beh), edges != 0 || beh != nil)
				if total%61 == 1 { // offer a deterministic subset; core keeps a dozen
					c.Sample(caseSpec{Family: f.name, N: f.n, Edges: edges, Order: f.orders[len(f.orders)-1], Beh: beh}.describe())
				}
				return true
			})
			if total != done || cases != total*int64(len(f.orders)) {
				c.HarnessError("family %s: workers ran %d configurations / %d cases, enumeration has %d x %d orders", f.name, done, cases, total, len(f.orders))
			}
		}
		c.Exec(2 * cases)
		perFamily[f.name] = map[string]any{"configurations": done, "registration_orders": len(f.orders), "cases": cases, "complete": complete}
	}
	c.Note("families", perFamily)

	for k := range outs {
		for _, s := range outs[k].Infra {
			c.HarnessError("worker %d: %s", k, s)
		}
		for _, o := range sortedKeys(outs[k].Outcomes) {
			for i := int64(0); i < outs[k].Outcomes[o]; i++ {
				c.Outcome(o)
			}
		}
	}

	// violations: per signature the first case in enumeration order (deterministic), counts summed
	merged := map[string]*violRec{}
	for k := range outs {
		for _, v := range outs[k].Viols {
			m := merged[v.Sig]
			if m == nil {
				cp := *v
				merged[v.Sig] = &cp
				continue
			}
			cnt := m.Count + v.Count
			if v.Fam < m.Fam || (v.Fam == m.Fam && (v.Cfg < m.Cfg || (v.Cfg == m.Cfg && v.Ord < m.Ord))) {
				cp := *v
				m = &cp
				merged[v.Sig] = m
			}
			m.Count = cnt
		}
	}
	for _, sig := range sortedKeys(merged) {
		v := merged[sig]
		cs := v.Case
		if !hasSig(cs, sig) {
			c.HarnessError("violation %q reported by a worker does not reproduce in the parent process: %s", sig, v.What)
			continue
		}
		c.Violation(sig, fmt.Sprintf("%s [family=%s n=%d edges={%s} registration=%v %s]", v.What, cs.Family, cs.N, cs.EdgeList, cs.Order, designText(cs)),
			cs, func() bool { return hasSig(cs, sig) })
		for i := int64(1); i < v.Count; i++ {
			c.Violation(sig, "", nil, nil)
		}
	}
}

// designText describes the roots' contents of a described case.
func designText(d caseSpec) string {
	if d.Cap != nil {
		if cc, err := d.Cap.compact(); err == nil {
			return "roots=" + cc.key()
		}
	}
	return fmt.Sprintf("behaviours=%v", d.BehNames)
}

func replay(c *core.Ctx, path string) {
	var cs caseSpec
	if err := core.ReplayCase(path, &cs); err != nil || cs.N == 0 || len(cs.Order) != cs.N {
		c.HarnessError("cannot load replay case %s: %v", path, err)
		return
	}
	res := runCase(cs)
	c.Exec(2)
	d := cs.describe()
	fmt.Printf("replay family=%s n=%d edges={%s} registration=%v %s outcome=%s failures=%d\n",
		d.Family, d.N, d.EdgeList, d.Order, designText(d), res.outcome, len(res.fails))
	for _, s := range res.infra {
		c.HarnessError("%s", s)
	}
	for _, f := range res.fails {
		fmt.Printf("  %s: %s\n", f.sig, f.what)
		c.Violation(f.sig, f.what, d, nil)
	}
}

func main() {
	if len(os.Args) > 1 && os.Args[1] == "-c11-worker" {
		workerMain(os.Args[2:])
		return
	}
	core.Main("C11", run, replay)
}

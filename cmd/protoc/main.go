// protoc is the stand-in protocol buffer compiler of the verification harness (engine E5).
// goa's gRPC generator shells out to `protoc`; the real compiler and protoc-gen-go-grpc are
// not available offline, so the harness puts this executable first on PATH. It accepts the
// command line goa uses:
//
//	protoc FILE.proto --proto_path DIR --go_out DIR --go-grpc_out DIR
//	       --go_opt=paths=source_relative --go-grpc_opt=paths=source_relative [-I DIR]...
//
// and (1) parses FILE.proto with a strict proto3 parser for the subset goa emits, (2) validates
// the resulting descriptor with protodesc.NewFile, (3) writes the genuine protoc-gen-go message
// code and (4) a stand-in for protoc-gen-go-grpc's service glue. Any error is printed on
// stderr and the exit status is 1, as with the real compiler.
package main

import (
	"fmt"
	"os"
	"strings"

	"verif/e5/compile"
)

func main() {
	opt, err := parseArgs(os.Args[1:])
	if err != nil {
		fmt.Fprintln(os.Stderr, err)
		os.Exit(1)
	}
	if opt == nil {
		return
	}
	if err := compile.Run(*opt); err != nil {
		fmt.Fprintln(os.Stderr, err)
		os.Exit(1)
	}
}

func parseArgs(args []string) (*compile.Options, error) {
	opt := &compile.Options{}
	for i := 0; i < len(args); i++ {
		a := args[i]
		value := func(name string) (string, error) {
			if eq := strings.IndexByte(a, '='); eq >= 0 {
				return a[eq+1:], nil
			}
			if i+1 >= len(args) {
				return "", fmt.Errorf("Missing value for flag: %s", name)
			}
			i++
			return args[i], nil
		}
		name := a
		if eq := strings.IndexByte(a, '='); eq >= 0 && strings.HasPrefix(a, "-") {
			name = a[:eq]
		}
		switch {
		case a == "--version":
			fmt.Println("libprotoc 0.0.0-verif-standin")
			return nil, nil
		case name == "--proto_path" || name == "-I":
			v, err := value(name)
			if err != nil {
				return nil, err
			}
			opt.ProtoPaths = append(opt.ProtoPaths, splitPaths(v)...)
		case strings.HasPrefix(a, "-I") && len(a) > 2 && !strings.HasPrefix(a, "--"):
			opt.ProtoPaths = append(opt.ProtoPaths, splitPaths(a[2:])...)
		case name == "--go_out":
			v, err := value(name)
			if err != nil {
				return nil, err
			}
			// "--go_out=param1,param2:dir" form
			if c := strings.LastIndexByte(v, ':'); c >= 0 {
				opt.GoOpts = append(opt.GoOpts, strings.Split(v[:c], ",")...)
				v = v[c+1:]
			}
			opt.GoOut = v
		case name == "--go-grpc_out":
			v, err := value(name)
			if err != nil {
				return nil, err
			}
			if c := strings.LastIndexByte(v, ':'); c >= 0 {
				opt.GoGRPCOpts = append(opt.GoGRPCOpts, strings.Split(v[:c], ",")...)
				v = v[c+1:]
			}
			opt.GoGRPCOut = v
		case name == "--go_opt":
			v, err := value(name)
			if err != nil {
				return nil, err
			}
			opt.GoOpts = append(opt.GoOpts, v)
		case name == "--go-grpc_opt":
			v, err := value(name)
			if err != nil {
				return nil, err
			}
			opt.GoGRPCOpts = append(opt.GoGRPCOpts, v)
		case strings.HasPrefix(a, "-"):
			return nil, fmt.Errorf("Unknown flag: %s", name)
		default:
			opt.Files = append(opt.Files, a)
		}
	}
	for _, o := range opt.GoGRPCOpts {
		// protoc-gen-go-grpc knows paths=, module=, M<file>=<pkg>, require_unimplemented_servers=
		if !(strings.HasPrefix(o, "paths=") || strings.HasPrefix(o, "module=") || strings.HasPrefix(o, "M") || o == "require_unimplemented_servers=true") {
			return nil, fmt.Errorf("--go-grpc_out: protoc-gen-go-grpc: unknown or unsupported parameter %q (stand-in)", o)
		}
	}
	return opt, nil
}

func splitPaths(v string) []string {
	var out []string
	for _, p := range strings.Split(v, string(os.PathListSeparator)) {
		if p != "" {
			out = append(out, p)
		}
	}
	return out
}

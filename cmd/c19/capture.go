package main

// Part D — ResponseCapture (and the Log middleware that reports its fields).
//
// Alphabet of handler operations on the writer it is given: WriteHeader(200), WriteHeader(404),
// WriteHeader(500), Write(""), Write("a"), Write("hello"), Flush (when the writer is a Flusher).
// Bound: every sequence of length 0..3 (thorough: 0..5) — this contains "WriteHeader then k
// writes", "k writes only", "nothing", "WriteHeader twice", "Flush" and all their mixtures.
// Observation points: direct (CaptureResponse around a recorder), log (the Log middleware's
// "status"/"bytes" values), server (thorough: a real net/http server and client).
// Oracle: StatusCode / ContentLength equal the status and the number of body bytes the
// underlying writer actually put out (what the recorder / the real client saw). When nothing at
// all reached the underlying writer the status is not asserted.

import (
	"encoding/json"
	"fmt"
	"net/http"
	"net/http/httptest"
	"strings"

	httpm "goa.design/goa/v3/http/middleware"

	"verif/core"
)

var captureOps = []string{"WH200", "WH404", "WH500", "W0", "W1", "W5", "FL"}

type captureCase struct {
	Via string   `json:"via"` // direct | log | server
	Ops []string `json:"ops"`
}

// spyWriter sits under the capture and tells whether anything reached the real writer.
type spyWriter struct {
	rec   *httptest.ResponseRecorder
	calls int
}

func (s *spyWriter) Header() http.Header         { return s.rec.Header() }
func (s *spyWriter) WriteHeader(code int)        { s.calls++; s.rec.WriteHeader(code) }
func (s *spyWriter) Write(b []byte) (int, error) { s.calls++; return s.rec.Write(b) }
func (s *spyWriter) Flush()                      { s.calls++; s.rec.Flush() }

func applyOps(w http.ResponseWriter, ops []string) {
	for _, op := range ops {
		switch op {
		case "WH200":
			w.WriteHeader(200)
		case "WH404":
			w.WriteHeader(404)
		case "WH500":
			w.WriteHeader(500)
		case "W0":
			_, _ = w.Write([]byte{})
		case "W1":
			_, _ = w.Write([]byte("a"))
		case "W5":
			_, _ = w.Write([]byte("hello"))
		case "FL":
			if f, ok := w.(http.Flusher); ok {
				f.Flush()
			}
		}
	}
}

type recLogger struct{ lines [][]any }

func (l *recLogger) Log(kv ...any) error { l.lines = append(l.lines, kv); return nil }

func (l *recLogger) last(key string) (any, bool) {
	if len(l.lines) == 0 {
		return nil, false
	}
	kv := l.lines[len(l.lines)-1]
	for i := 0; i+1 < len(kv); i += 2 {
		if kv[i] == key {
			return kv[i+1], true
		}
	}
	return nil, false
}

type captureObs struct {
	Reported      bool // capture fields could be read
	Status, Bytes int  // what ResponseCapture / the log line reports
	Committed     bool // something reached the underlying writer / the wire
	WroteStatus   int  // status actually written
	WroteBytes    int  // body bytes actually written
}

func execCapture(cs captureCase) (captureObs, error) {
	var o captureObs
	switch cs.Via {
	case "direct":
		spy := &spyWriter{rec: httptest.NewRecorder()}
		rc := httpm.CaptureResponse(spy)
		applyOps(rc, cs.Ops)
		o = captureObs{Reported: true, Status: rc.StatusCode, Bytes: rc.ContentLength, Committed: spy.calls > 0, WroteStatus: spy.rec.Code, WroteBytes: spy.rec.Body.Len()}
	case "log":
		spy := &spyWriter{rec: httptest.NewRecorder()}
		lg := &recLogger{}
		h := httpm.Log(lg)(http.HandlerFunc(func(w http.ResponseWriter, r *http.Request) { applyOps(w, cs.Ops) }))
		h.ServeHTTP(spy, httptest.NewRequest("GET", "/capture", nil))
		o = captureObs{Committed: spy.calls > 0, WroteStatus: spy.rec.Code, WroteBytes: spy.rec.Body.Len()}
		st, ok1 := lg.last("status")
		by, ok2 := lg.last("bytes")
		si, ok3 := st.(int)
		bi, ok4 := by.(int)
		if !(ok1 && ok2 && ok3 && ok4) {
			return o, fmt.Errorf("Log middleware did not log integer status/bytes: %v", lg.lines)
		}
		o.Reported, o.Status, o.Bytes = true, si, bi
	case "server":
		return execCaptureReal(cs)
	default:
		return o, fmt.Errorf("unknown via %q", cs.Via)
	}
	return o, nil
}

// committedBy names the first operation that puts the status line out (HTTP semantics, used for
// the signature only — the oracle itself compares with what the underlying writer saw).
func committedBy(ops []string) (first string, laterWH bool) {
	for i, op := range ops {
		switch {
		case strings.HasPrefix(op, "WH"):
			first = "writeheader"
		case strings.HasPrefix(op, "W"):
			first = "write"
		case op == "FL":
			first = "flush"
		}
		if first != "" {
			for _, later := range ops[i+1:] {
				if strings.HasPrefix(later, "WH") {
					laterWH = true
				}
			}
			return
		}
	}
	return "nothing", false
}

func checkCapture(cs captureCase) (fails []failure, outcome string) {
	o, err := execCapture(cs)
	if err != nil {
		return []failure{{"capture via=" + cs.Via + " observed=harness-error", err.Error()}}, "error"
	}
	desc, _ := json.Marshal(cs)
	first, laterWH := committedBy(cs.Ops)
	if o.Committed {
		if o.Status != o.WroteStatus {
			reported := "other-code"
			switch {
			case o.Status == 0:
				reported = "zero"
			case laterWH:
				reported = "code-of-a-later-writeheader"
			}
			fails = append(fails, failure{
				fmt.Sprintf("capture via=%s field=status committed-by=%s later-writeheader=%v reported=%s", cs.Via, first, laterWH, reported),
				fmt.Sprintf("ResponseCapture reports status %d, status actually written is %d [case %s]", o.Status, o.WroteStatus, desc)})
		}
	}
	if o.Bytes != o.WroteBytes {
		fails = append(fails, failure{
			fmt.Sprintf("capture via=%s field=bytes committed-by=%s", cs.Via, first),
			fmt.Sprintf("ResponseCapture reports %d bytes, %d bytes were actually written [case %s]", o.Bytes, o.WroteBytes, desc)})
	}
	return fails, fmt.Sprintf("capture via=%s committed-by=%s later-writeheader=%v wrote-status=%d body-empty=%v", cs.Via, first, laterWH, o.WroteStatus*b2i(o.Committed), o.WroteBytes == 0)
}

func b2i(b bool) int {
	if b {
		return 1
	}
	return 0
}

func runCaptureVia(c *core.Ctx, via string, maxLen int) int64 {
	var cases int64
	for n := 0; n <= maxLen; n++ {
		core.Sequences(len(captureOps), n, func(seq []int) bool {
			ops := make([]string, len(seq))
			for i, k := range seq {
				ops[i] = captureOps[k]
			}
			cs := captureCase{Via: via, Ops: ops}
			first, _ := committedBy(ops)
			c.State("capture:"+via+":"+strings.Join(ops, ","), first != "nothing")
			fails, outcome := checkCapture(cs)
			c.Exec(1)
			noteOutcome(c, outcome)
			cases++
			if cases%61 == 0 {
				c.Sample(replayCase{Part: "capture", Capture: &cs})
			}
			if len(fails) > 0 {
				cc := cs
				report(c, fails, replayCase{Part: "capture", Capture: &cc}, func() []failure { f, _ := checkCapture(cc); return f })
			}
			return !c.Expired()
		})
	}
	return cases
}

func runCapture(c *core.Ctx) {
	maxLen := 3
	if c.Thorough() {
		maxLen = 5
	}
	var cases int64
	for _, via := range []string{"direct", "log"} {
		cases += runCaptureVia(c, via, maxLen)
	}
	if c.Expired() {
		c.Incomplete("capture: deadline reached")
	}
	c.Note("capture_cases", cases)
	c.Note("capture_bounds", fmt.Sprintf("ops %v, every sequence of length 0..%d, via direct and via Log", captureOps, maxLen))
}

package main

// Part D — ResponseCapture (and the Log middleware that reports its fields).
//
// Alphabet of handler operations on the writer it is given: WriteHeader(200), WriteHeader(404),
// WriteHeader(500), Write of 0 / 1 / 5 bytes, Flush (when the writer is a Flusher), the
// informational / upgrade codes WriteHeader(100), (102), (103), (101) and the statuses that do
// not allow a body, WriteHeader(204), (304).
// Bound: every sequence of length 0..3 over the 13 operations (thorough: 0..5 over the first
// seven, 0..4 over all) — this contains "WriteHeader then k writes", "k writes only",
// "nothing", "WriteHeader twice", "Flush", "1xx then final", "several 1xx then final", "1xx then
// Write without WriteHeader", "101 alone", "204/304 then a body" and all their mixtures.
// Observation points: direct (CaptureResponse around a recorder), log (the Log middleware's
// "status"/"bytes" values), server / server-log (the same two behind a real net/http server
// and client). httptest.ResponseRecorder does not model informational responses (it takes the
// first WriteHeader, 1xx included, as the status) nor the refusal of a body after 204/304, so
// every sequence containing such an operation is observed over the real server — in the quick
// tier too; sequences without one use the recorder (and, thorough, the real server as well).
// The underlying ResponseWriter is part of the explored environment:
//   - short writers (model, in process): a writer that accepts k bytes in total and then nothing
//     (the connection broke after k bytes) for every cut-off point k in 0..n, n = the bytes the
//     sequence tries to write, and a writer that accepts at most k bytes of each call for every
//     k in 0..(longest write); every sequence of length 0..3 (thorough 0..4) over modelOps,
//     observed directly and through the Log middleware;
//   - refusals produced by net/http itself (real server and client): bodies written after
//     WriteHeader(204) / (304) / 1xx, and writes beyond a Content-Length the handler declared
//     (menu declaredLengths) — every sequence of length 0..3 (thorough 0..4) over the ops.
//     A spy between the capture and net/http's writer records what each Write returned.
// Oracle: StatusCode / ContentLength equal the final status and the number of body bytes
// actually put out: ContentLength == the sum of the counts the underlying writer returned ==
// what the recorder / the real client received. When the handler itself never committed a
// final status (nothing, or only 1xx) the status is not asserted; after a 101 the connection
// is no longer HTTP: the byte count is compared with what net/http's writer accepted only.

import (
	"encoding/json"
	"fmt"
	"io"
	"net/http"
	"net/http/httptest"
	"strconv"
	"strings"
	"sync"

	httpm "goa.design/goa/v3/http/middleware"

	"verif/core"
)

// WH<code> = WriteHeader(code), W<n> = Write of n bytes, FL = Flush.
var captureOps = []string{"WH200", "WH404", "WH500", "W0", "W1", "W5", "FL", "WH100", "WH102", "WH103", "WH101", "WH204", "WH304"}

const plainOps = 7 // captureOps[:plainOps] are the operations the recorder models faithfully

// modelOps is the handler alphabet against the short-writer models (W12: a longer write, so
// that a cut-off can fall inside, at the edge of and between writes).
var modelOps = []string{"WH200", "WH404", "WH500", "W0", "W1", "W5", "W12", "FL"}

// declaredOps is the handler alphabet when the handler declared a Content-Length first.
var declaredOps = []string{"WH200", "WH404", "WH204", "WH304", "WH103", "W0", "W1", "W5", "FL"}

// declaredLengths: 0 (every byte is beyond), 3 (W1 W1 W1 fills it, W5 overruns), 5 (= W5),
// 6 (= W5 W1 = W1 W5).
var declaredLengths = []int{0, 3, 5, 6}

func isInformational(op string) bool { return op == "WH100" || op == "WH102" || op == "WH103" }

// needsRealServer: the sequence contains an operation whose effect only net/http produces
// (informational / upgrade responses, statuses that do not allow a body).
func needsRealServer(ops []string) bool {
	for _, op := range ops {
		if isInformational(op) || op == "WH101" || op == "WH204" || op == "WH304" {
			return true
		}
	}
	return false
}

// writerModel is a model of the environment under the capture: a writer that accepts fewer
// bytes than it is given. Kind "total": K bytes are accepted over the whole response, then
// none (broken connection); kind "percall": at most K bytes of every call are accepted.
type writerModel struct {
	Kind string `json:"kind"`
	K    int    `json:"k"`
}

type captureCase struct {
	Via      string       `json:"via"` // direct | log | server | server-log
	Ops      []string     `json:"ops"`
	Declared *int         `json:"declared,omitempty"` // Content-Length header the handler sets before the operations
	Writer   *writerModel `json:"writer,omitempty"`   // direct | log: the writer under the capture (nil: httptest.ResponseRecorder)
}

func (cs captureCase) key() string {
	k := strings.Join(cs.Ops, ",")
	if cs.Declared != nil {
		k += "|cl=" + strconv.Itoa(*cs.Declared)
	}
	if cs.Writer != nil {
		k += fmt.Sprintf("|%s=%d", cs.Writer.Kind, cs.Writer.K)
	}
	return k
}

// acceptLog is what a spy under the capture saw: calls made, bytes offered to Write and the
// sum of the counts Write returned.
type acceptLog struct{ calls, attempted, accepted int }

// spyWriter sits under the capture, in front of a recorder.
type spyWriter struct {
	rec *httptest.ResponseRecorder
	acceptLog
}

func (s *spyWriter) Header() http.Header  { return s.rec.Header() }
func (s *spyWriter) WriteHeader(code int) { s.calls++; s.rec.WriteHeader(code) }
func (s *spyWriter) Write(b []byte) (int, error) {
	s.calls++
	n, err := s.rec.Write(b)
	s.attempted += len(b)
	s.accepted += n
	return n, err
}
func (s *spyWriter) Flush() { s.calls++; s.rec.Flush() }

// wireSpy sits under the capture, in front of the real net/http response writer.
type wireSpy struct {
	http.ResponseWriter
	acceptLog
}

func (s *wireSpy) WriteHeader(code int) { s.calls++; s.ResponseWriter.WriteHeader(code) }
func (s *wireSpy) Write(b []byte) (int, error) {
	s.calls++
	n, err := s.ResponseWriter.Write(b)
	s.attempted += len(b)
	s.accepted += n
	return n, err
}
func (s *wireSpy) Flush() {
	s.calls++
	if f, ok := s.ResponseWriter.(http.Flusher); ok {
		f.Flush()
	}
}

// shortWriter is the model writer: like net/http it puts the status out with the first
// WriteHeader(final) / Write / Flush; it keeps the bytes it accepted.
type shortWriter struct {
	hdr    http.Header
	m      writerModel
	status int
	body   []byte
	acceptLog
}

func (s *shortWriter) Header() http.Header { return s.hdr }
func (s *shortWriter) commit(code int) {
	if s.status == 0 {
		s.status = code
	}
}
func (s *shortWriter) WriteHeader(code int) { s.calls++; s.commit(code) }
func (s *shortWriter) Flush()               { s.calls++; s.commit(200) }
func (s *shortWriter) Write(b []byte) (int, error) {
	s.calls++
	s.commit(200)
	n := len(b)
	switch s.m.Kind {
	case "total":
		if room := s.m.K - s.accepted; n > room {
			n = room
		}
	case "percall":
		if n > s.m.K {
			n = s.m.K
		}
	}
	if n < 0 {
		n = 0
	}
	s.body = append(s.body, b[:n]...)
	s.attempted += len(b)
	s.accepted += n
	if n < len(b) {
		return n, io.ErrShortWrite
	}
	return n, nil
}

const payload = "hello, world. hello, world. hello, world."

func applyOps(w http.ResponseWriter, ops []string) {
	for _, op := range ops {
		switch {
		case op == "FL":
			if f, ok := w.(http.Flusher); ok {
				f.Flush()
			}
		case strings.HasPrefix(op, "WH"):
			if code, err := strconv.Atoi(op[2:]); err == nil {
				w.WriteHeader(code)
			}
		case strings.HasPrefix(op, "W"):
			if n, err := strconv.Atoi(op[1:]); err == nil && n <= len(payload) {
				_, _ = w.Write([]byte(payload[:n]))
			}
		}
	}
}

// attemptedBytes is the number of body bytes the sequence offers to Write.
func attemptedBytes(ops []string) (total, longest int) {
	for _, op := range ops {
		if strings.HasPrefix(op, "W") && !strings.HasPrefix(op, "WH") {
			n, _ := strconv.Atoi(op[1:])
			total += n
			if n > longest {
				longest = n
			}
		}
	}
	return
}

// handle is the handler of a case: declare the length (if any), then perform the operations.
func (cs captureCase) handle(w http.ResponseWriter) {
	if cs.Declared != nil {
		w.Header().Set("Content-Length", strconv.Itoa(*cs.Declared))
	}
	applyOps(w, cs.Ops)
}

// recLogger records log lines; notify (optional) receives one token per line.
type recLogger struct {
	mu     sync.Mutex
	lines  [][]any
	notify chan struct{}
}

func (l *recLogger) Log(kv ...any) error {
	l.mu.Lock()
	l.lines = append(l.lines, kv)
	l.mu.Unlock()
	if l.notify != nil {
		l.notify <- struct{}{}
	}
	return nil
}

func (l *recLogger) reset() { l.mu.Lock(); l.lines = nil; l.mu.Unlock() }

func (l *recLogger) last(key string) (any, bool) {
	l.mu.Lock()
	defer l.mu.Unlock()
	if len(l.lines) == 0 {
		return nil, false
	}
	kv := l.lines[len(l.lines)-1]
	for i := 0; i+1 < len(kv); i += 2 {
		if kv[i] == key {
			return kv[i+1], true
		}
	}
	return nil, false
}

type captureObs struct {
	Reported      bool // capture fields could be read
	Status, Bytes int  // what ResponseCapture / the log line reports
	Committed     bool // something reached the underlying writer / the wire
	WroteStatus   int  // status actually written
	WroteBytes    int  // body bytes actually written (recorder / model: kept by the writer; server: received by the client)
	BytesUnknown  bool // 101: the body is not an HTTP body any more
	Attempted     int  // body bytes the capture offered to the underlying writer
	Accepted      int  // sum of the counts the underlying writer's Write returned
	Truncated     bool // server: the client's read ended before the declared length
}

// under builds the writer under the capture for the in-process observation points and returns
// a function reading what it saw.
func (cs captureCase) under() (http.ResponseWriter, func(o *captureObs)) {
	if cs.Writer != nil {
		sw := &shortWriter{hdr: http.Header{}, m: *cs.Writer}
		return sw, func(o *captureObs) {
			o.Committed, o.WroteStatus, o.WroteBytes = sw.calls > 0, sw.status, len(sw.body)
			o.Attempted, o.Accepted = sw.attempted, sw.accepted
		}
	}
	spy := &spyWriter{rec: httptest.NewRecorder()}
	return spy, func(o *captureObs) {
		o.Committed, o.WroteStatus, o.WroteBytes = spy.calls > 0, spy.rec.Code, spy.rec.Body.Len()
		o.Attempted, o.Accepted = spy.attempted, spy.accepted
	}
}

func execCapture(cs captureCase) (captureObs, error) {
	var o captureObs
	switch cs.Via {
	case "direct":
		w, read := cs.under()
		rc := httpm.CaptureResponse(w)
		cs.handle(rc)
		o = captureObs{Reported: true, Status: rc.StatusCode, Bytes: rc.ContentLength}
		read(&o)
	case "log":
		under, read := cs.under()
		lg := &recLogger{}
		h := httpm.Log(lg)(http.HandlerFunc(func(w http.ResponseWriter, r *http.Request) { cs.handle(w) }))
		h.ServeHTTP(under, httptest.NewRequest("GET", "/capture", nil))
		read(&o)
		st, ok1 := lg.last("status")
		by, ok2 := lg.last("bytes")
		si, ok3 := st.(int)
		bi, ok4 := by.(int)
		if !(ok1 && ok2 && ok3 && ok4) {
			return o, fmt.Errorf("Log middleware did not log integer status/bytes: %v", lg.lines)
		}
		o.Reported, o.Status, o.Bytes = true, si, bi
	case "server", "server-log":
		return execCaptureReal(cs)
	default:
		return o, fmt.Errorf("unknown via %q", cs.Via)
	}
	return o, nil
}

// committedBy names the first operation that puts the final status line out (HTTP semantics,
// used for the signature and for "did the handler commit a status at all" — the oracle itself
// compares with what the underlying writer / the client saw). after1xx: informational
// responses were sent before it; laterWH: WriteHeader is called again afterwards.
func committedBy(ops []string) (first string, after1xx, laterWH bool) {
	for i, op := range ops {
		switch {
		case isInformational(op):
			after1xx = true
			continue
		case op == "WH101":
			first = "writeheader-101"
		case strings.HasPrefix(op, "WH"):
			first = "writeheader"
		case strings.HasPrefix(op, "W"):
			first = "write"
		case op == "FL":
			first = "flush"
		}
		if first != "" {
			for _, later := range ops[i+1:] {
				if strings.HasPrefix(later, "WH") {
					laterWH = true
				}
			}
			return
		}
	}
	return "nothing", after1xx, false
}

func checkCapture(cs captureCase) (fails []failure, outcome string) {
	o, err := execCapture(cs)
	if err != nil {
		return []failure{{"capture via=" + cs.Via + " observed=harness-error", err.Error()}}, "error"
	}
	desc, _ := json.Marshal(cs)
	first, after1xx, laterWH := committedBy(cs.Ops)
	if o.Committed {
		if o.Status != o.WroteStatus {
			reported := "other-code"
			switch {
			case o.Status == 0:
				reported = "zero"
			case o.Status >= 100 && o.Status < 200 && o.Status != 101:
				reported = "informational-code"
			case laterWH:
				reported = "code-of-a-later-writeheader"
			}
			fails = append(fails, failure{
				fmt.Sprintf("capture via=%s field=status committed-by=%s after-1xx=%v later-writeheader=%v reported=%s", cs.Via, first, after1xx, laterWH, reported),
				fmt.Sprintf("ResponseCapture reports status %d, status actually written is %d [case %s]", o.Status, o.WroteStatus, desc)})
		}
	}
	// refusal: why the underlying writer took fewer bytes than it was offered (observed)
	refusal := "none"
	if o.Accepted < o.Attempted {
		switch {
		case cs.Writer != nil:
			refusal = "short-write"
		case o.WroteStatus == 204 || o.WroteStatus == 304 || o.WroteStatus == 101:
			refusal = "status-without-body"
		case cs.Declared != nil && o.Attempted > *cs.Declared:
			refusal = "beyond-content-length"
		default:
			refusal = "other"
		}
	}
	env := ""
	if cs.Writer != nil {
		env = " writer=short-" + cs.Writer.Kind
	}
	if cs.Declared != nil {
		env += " content-length=declared"
	}
	{
		// the three counts of the statement: reported == accepted by the underlying writer ==
		// received. accepted != received would be the environment contradicting itself (never
		// observed in the explored space; it is an outcome class, not a verdict on goa). After a
		// 101 the client cannot read an HTTP body: only reported == accepted is judged (net/http
		// refuses body writes through the ResponseWriter after 101).
		sent := o.WroteBytes
		if o.BytesUnknown {
			sent = o.Accepted
		} else if o.Accepted != o.WroteBytes {
			refusal += "+accepted-differs-from-received"
			sent = o.Accepted
		}
		if o.Bytes != sent {
			sig := fmt.Sprintf("capture via=%s field=bytes committed-by=%s after-1xx=%v", cs.Via, first, after1xx)
			if refusal != "none" {
				// the underlying writer refused bytes: the class is the environment and the
				// refusal, not how the status was committed
				dir := "fewer-than-sent"
				if o.Bytes > sent {
					dir = "more-than-sent"
				}
				sig = fmt.Sprintf("capture via=%s field=bytes%s refusal=%s reported=%s", cs.Via, env, refusal, dir)
			} else if env != "" {
				sig += env
			}
			fails = append(fails, failure{sig,
				fmt.Sprintf("ResponseCapture reports %d bytes; %d bytes were offered to the underlying writer, it accepted %d, %d were actually written/received [case %s]", o.Bytes, o.Attempted, o.Accepted, o.WroteBytes, desc)})
		}
	}
	return fails, fmt.Sprintf("capture via=%s%s committed-by=%s after-1xx=%v later-writeheader=%v wrote-status=%d body-empty=%v refusal=%s truncated=%v", cs.Via, env, first, after1xx, laterWH, o.WroteStatus*b2i(o.Committed), o.WroteBytes == 0, refusal, o.Truncated)
}

func b2i(b bool) int {
	if b {
		return 1
	}
	return 0
}

// captureVariant is one environment under which every sequence is observed.
type captureVariant struct {
	Declared *int
	// writers returns the writer models for a sequence (nil entry = recorder); nil func = recorder only
	writers func(ops []string) []*writerModel
}

// runCaptureVia enumerates every sequence of length 0..maxLen over ops; filter (may be nil)
// selects the sequences observed at this point.
func runCaptureVia(c *core.Ctx, via string, ops []string, maxLen int, filter func(ops []string) bool, v captureVariant) int64 {
	var cases int64
	for n := 0; n <= maxLen; n++ {
		core.Sequences(len(ops), n, func(seq []int) bool {
			sel := make([]string, len(seq))
			for i, k := range seq {
				sel[i] = ops[k]
			}
			if filter != nil && !filter(sel) {
				return true
			}
			writers := []*writerModel{nil}
			if v.writers != nil {
				writers = v.writers(sel)
			}
			for _, wm := range writers {
				cs := captureCase{Via: via, Ops: sel, Declared: v.Declared, Writer: wm}
				first, _, _ := committedBy(sel)
				c.State("capture:"+via+":"+cs.key(), first != "nothing")
				fails, outcome := checkCapture(cs)
				if outcome == "error" {
					c.HarnessError("capture case %s via %s: %s", cs.key(), via, fails[0].What)
					return false
				}
				c.Exec(1)
				noteOutcome(c, outcome)
				cases++
				if cases%199 == 0 {
					c.Sample(replayCase{Part: "capture", Capture: &cs})
				}
				if len(fails) > 0 {
					cc := cs
					report(c, fails, replayCase{Part: "capture", Capture: &cc}, func() []failure { f, _ := checkCapture(cc); return f })
				}
			}
			return !c.Expired()
		})
	}
	return cases
}

// shortWriters: every cut-off point of a writer that breaks after k bytes (k in 0..n, n = the
// bytes the sequence offers; k = n is the writer that never refuses) and every per-call cap k
// in 0..longest write. A sequence that offers no byte gets one writer of each kind.
func shortWriters(ops []string) []*writerModel {
	total, longest := attemptedBytes(ops)
	var out []*writerModel
	for k := 0; k <= total; k++ {
		out = append(out, &writerModel{Kind: "total", K: k})
	}
	for k := 0; k <= longest; k++ {
		out = append(out, &writerModel{Kind: "percall", K: k})
	}
	return out
}

func runCapture(c *core.Ctx) {
	defer closeCaptureServer()
	plainLen, allLen, modelLen, declLen := 3, 3, 3, 3
	if c.Thorough() {
		plainLen, allLen, modelLen, declLen = 5, 4, 4, 4
	}
	var cases, modelCases, declCases int64
	for _, via := range []string{"direct", "log"} {
		cases += runCaptureVia(c, via, captureOps[:plainOps], plainLen, nil, captureVariant{})
		// the short-writer models under the capture
		n := runCaptureVia(c, via, modelOps, modelLen, nil, captureVariant{writers: shortWriters})
		modelCases += n
		cases += n
	}
	// sequences with informational / upgrade / no-body codes: only a real server shows the
	// final status and refuses the body
	serverFilter := needsRealServer
	if c.Thorough() {
		serverFilter = nil // thorough: every sequence also over the real server
	}
	for _, via := range []string{"server", "server-log"} {
		cases += runCaptureVia(c, via, captureOps, allLen, serverFilter, captureVariant{})
		// the handler declared a Content-Length first
		for _, d := range declaredLengths {
			n := runCaptureVia(c, via, declaredOps, declLen, nil, captureVariant{Declared: intp(d)})
			declCases += n
			cases += n
		}
	}
	if c.Expired() {
		c.Incomplete("capture: deadline reached")
	}
	c.Note("capture_cases", cases)
	c.Note("capture_cases_short_writer_models", modelCases)
	c.Note("capture_cases_declared_content_length", declCases)
	c.Note("capture_bounds", fmt.Sprintf("ops %v: every sequence of length 0..%d over the first %d via direct and via Log (recorder); every sequence of length 0..%d over all %d that %s via a real server (capture and Log), a spy under the capture recording what net/http's Write returned",
		captureOps, plainLen, plainOps, allLen, len(captureOps), map[bool]string{true: "exists", false: "contains a 1xx/101/204/304 operation"}[c.Thorough()]))
	c.Note("capture_short_writer_bounds", fmt.Sprintf("model writers under the capture, via direct and via Log: every sequence of length 0..%d over %v x {writer that accepts k bytes in total then nothing, every k in 0..n (n = bytes the sequence offers); writer that accepts at most k bytes per call, every k in 0..longest write}; a refused Write returns the count it took and io.ErrShortWrite",
		modelLen, modelOps))
	c.Note("capture_declared_bounds", fmt.Sprintf("real net/http server and client, via capture and via Log: handler sets Content-Length to each of %v, then every sequence of length 0..%d over %v (writes beyond the declared length and after 204/304 are refused by net/http, shorter bodies end in a truncated read at the client)",
		declaredLengths, declLen, declaredOps))
}

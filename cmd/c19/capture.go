package main

// Part D — ResponseCapture (and the Log middleware that reports its fields).
//
// Alphabet of handler operations on the writer it is given: WriteHeader(200), WriteHeader(404),
// WriteHeader(500), Write(""), Write("a"), Write("hello"), Flush (when the writer is a Flusher),
// and the informational / upgrade codes WriteHeader(100), (102), (103), (101).
// Bound: every sequence of length 0..3 over the 11 operations (thorough: 0..5 over the first
// seven, 0..4 over all eleven) — this contains "WriteHeader then k writes", "k writes only",
// "nothing", "WriteHeader twice", "Flush", "1xx then final", "several 1xx then final", "1xx then
// Write without WriteHeader", "101 alone" and all their mixtures.
// Observation points: direct (CaptureResponse around a recorder), log (the Log middleware's
// "status"/"bytes" values), server / server-log (the same two behind a real net/http server
// and client). httptest.ResponseRecorder does not model informational responses (it takes the
// first WriteHeader, 1xx included, as the status), so every sequence containing a 1xx/101
// operation is observed over the real server — in the quick tier too; sequences without one
// use the recorder (and, thorough, the real server as well).
// Oracle: StatusCode / ContentLength equal the final status and the number of body bytes
// actually put out (what the recorder / the real client saw). When the handler itself never
// committed a final status (nothing, or only 1xx) the status is not asserted; after a 101 the
// connection is no longer HTTP and the byte count is not asserted.

import (
	"encoding/json"
	"fmt"
	"net/http"
	"net/http/httptest"
	"strings"
	"sync"

	httpm "goa.design/goa/v3/http/middleware"

	"verif/core"
)

var captureOps = []string{"WH200", "WH404", "WH500", "W0", "W1", "W5", "FL", "WH100", "WH102", "WH103", "WH101"}

const plainOps = 7 // captureOps[:plainOps] are the operations the recorder models faithfully

func isInformational(op string) bool { return op == "WH100" || op == "WH102" || op == "WH103" }

func needsRealServer(ops []string) bool {
	for _, op := range ops {
		if isInformational(op) || op == "WH101" {
			return true
		}
	}
	return false
}

type captureCase struct {
	Via string   `json:"via"` // direct | log | server | server-log
	Ops []string `json:"ops"`
}

// spyWriter sits under the capture and tells whether anything reached the real writer.
type spyWriter struct {
	rec   *httptest.ResponseRecorder
	calls int
}

func (s *spyWriter) Header() http.Header         { return s.rec.Header() }
func (s *spyWriter) WriteHeader(code int)        { s.calls++; s.rec.WriteHeader(code) }
func (s *spyWriter) Write(b []byte) (int, error) { s.calls++; return s.rec.Write(b) }
func (s *spyWriter) Flush()                      { s.calls++; s.rec.Flush() }

func applyOps(w http.ResponseWriter, ops []string) {
	for _, op := range ops {
		switch op {
		case "WH200":
			w.WriteHeader(200)
		case "WH404":
			w.WriteHeader(404)
		case "WH500":
			w.WriteHeader(500)
		case "WH100":
			w.WriteHeader(100)
		case "WH102":
			w.WriteHeader(102)
		case "WH103":
			w.WriteHeader(103)
		case "WH101":
			w.WriteHeader(101)
		case "W0":
			_, _ = w.Write([]byte{})
		case "W1":
			_, _ = w.Write([]byte("a"))
		case "W5":
			_, _ = w.Write([]byte("hello"))
		case "FL":
			if f, ok := w.(http.Flusher); ok {
				f.Flush()
			}
		}
	}
}

// recLogger records log lines; notify (optional) receives one token per line.
type recLogger struct {
	mu     sync.Mutex
	lines  [][]any
	notify chan struct{}
}

func (l *recLogger) Log(kv ...any) error {
	l.mu.Lock()
	l.lines = append(l.lines, kv)
	l.mu.Unlock()
	if l.notify != nil {
		l.notify <- struct{}{}
	}
	return nil
}

func (l *recLogger) reset() { l.mu.Lock(); l.lines = nil; l.mu.Unlock() }

func (l *recLogger) last(key string) (any, bool) {
	l.mu.Lock()
	defer l.mu.Unlock()
	if len(l.lines) == 0 {
		return nil, false
	}
	kv := l.lines[len(l.lines)-1]
	for i := 0; i+1 < len(kv); i += 2 {
		if kv[i] == key {
			return kv[i+1], true
		}
	}
	return nil, false
}

type captureObs struct {
	Reported      bool // capture fields could be read
	Status, Bytes int  // what ResponseCapture / the log line reports
	Committed     bool // something reached the underlying writer / the wire
	WroteStatus   int  // status actually written
	WroteBytes    int  // body bytes actually written
	BytesUnknown  bool // 101: the body is not an HTTP body any more
}

func execCapture(cs captureCase) (captureObs, error) {
	var o captureObs
	switch cs.Via {
	case "direct":
		spy := &spyWriter{rec: httptest.NewRecorder()}
		rc := httpm.CaptureResponse(spy)
		applyOps(rc, cs.Ops)
		o = captureObs{Reported: true, Status: rc.StatusCode, Bytes: rc.ContentLength, Committed: spy.calls > 0, WroteStatus: spy.rec.Code, WroteBytes: spy.rec.Body.Len()}
	case "log":
		spy := &spyWriter{rec: httptest.NewRecorder()}
		lg := &recLogger{}
		h := httpm.Log(lg)(http.HandlerFunc(func(w http.ResponseWriter, r *http.Request) { applyOps(w, cs.Ops) }))
		h.ServeHTTP(spy, httptest.NewRequest("GET", "/capture", nil))
		o = captureObs{Committed: spy.calls > 0, WroteStatus: spy.rec.Code, WroteBytes: spy.rec.Body.Len()}
		st, ok1 := lg.last("status")
		by, ok2 := lg.last("bytes")
		si, ok3 := st.(int)
		bi, ok4 := by.(int)
		if !(ok1 && ok2 && ok3 && ok4) {
			return o, fmt.Errorf("Log middleware did not log integer status/bytes: %v", lg.lines)
		}
		o.Reported, o.Status, o.Bytes = true, si, bi
	case "server", "server-log":
		return execCaptureReal(cs)
	default:
		return o, fmt.Errorf("unknown via %q", cs.Via)
	}
	return o, nil
}

// committedBy names the first operation that puts the final status line out (HTTP semantics,
// used for the signature and for "did the handler commit a status at all" — the oracle itself
// compares with what the underlying writer / the client saw). after1xx: informational
// responses were sent before it; laterWH: WriteHeader is called again afterwards.
func committedBy(ops []string) (first string, after1xx, laterWH bool) {
	for i, op := range ops {
		switch {
		case isInformational(op):
			after1xx = true
			continue
		case op == "WH101":
			first = "writeheader-101"
		case strings.HasPrefix(op, "WH"):
			first = "writeheader"
		case strings.HasPrefix(op, "W"):
			first = "write"
		case op == "FL":
			first = "flush"
		}
		if first != "" {
			for _, later := range ops[i+1:] {
				if strings.HasPrefix(later, "WH") {
					laterWH = true
				}
			}
			return
		}
	}
	return "nothing", after1xx, false
}

func checkCapture(cs captureCase) (fails []failure, outcome string) {
	o, err := execCapture(cs)
	if err != nil {
		return []failure{{"capture via=" + cs.Via + " observed=harness-error", err.Error()}}, "error"
	}
	desc, _ := json.Marshal(cs)
	first, after1xx, laterWH := committedBy(cs.Ops)
	if o.Committed {
		if o.Status != o.WroteStatus {
			reported := "other-code"
			switch {
			case o.Status == 0:
				reported = "zero"
			case o.Status >= 100 && o.Status < 200 && o.Status != 101:
				reported = "informational-code"
			case laterWH:
				reported = "code-of-a-later-writeheader"
			}
			fails = append(fails, failure{
				fmt.Sprintf("capture via=%s field=status committed-by=%s after-1xx=%v later-writeheader=%v reported=%s", cs.Via, first, after1xx, laterWH, reported),
				fmt.Sprintf("ResponseCapture reports status %d, status actually written is %d [case %s]", o.Status, o.WroteStatus, desc)})
		}
	}
	if !o.BytesUnknown && o.Bytes != o.WroteBytes {
		fails = append(fails, failure{
			fmt.Sprintf("capture via=%s field=bytes committed-by=%s after-1xx=%v", cs.Via, first, after1xx),
			fmt.Sprintf("ResponseCapture reports %d bytes, %d bytes were actually written [case %s]", o.Bytes, o.WroteBytes, desc)})
	}
	return fails, fmt.Sprintf("capture via=%s committed-by=%s after-1xx=%v later-writeheader=%v wrote-status=%d body-empty=%v", cs.Via, first, after1xx, laterWH, o.WroteStatus*b2i(o.Committed), o.WroteBytes == 0)
}

func b2i(b bool) int {
	if b {
		return 1
	}
	return 0
}

// runCaptureVia enumerates every sequence of length 0..maxLen over captureOps[:nops]; filter
// (may be nil) selects the sequences observed at this point.
func runCaptureVia(c *core.Ctx, via string, nops, maxLen int, filter func(ops []string) bool) int64 {
	var cases int64
	for n := 0; n <= maxLen; n++ {
		core.Sequences(nops, n, func(seq []int) bool {
			ops := make([]string, len(seq))
			for i, k := range seq {
				ops[i] = captureOps[k]
			}
			if filter != nil && !filter(ops) {
				return true
			}
			cs := captureCase{Via: via, Ops: ops}
			first, _, _ := committedBy(ops)
			c.State("capture:"+via+":"+strings.Join(ops, ","), first != "nothing")
			fails, outcome := checkCapture(cs)
			c.Exec(1)
			noteOutcome(c, outcome)
			cases++
			if cases%61 == 0 {
				c.Sample(replayCase{Part: "capture", Capture: &cs})
			}
			if len(fails) > 0 {
				cc := cs
				report(c, fails, replayCase{Part: "capture", Capture: &cc}, func() []failure { f, _ := checkCapture(cc); return f })
			}
			return !c.Expired()
		})
	}
	return cases
}

func runCapture(c *core.Ctx) {
	defer closeCaptureServer()
	plainLen, allLen := 3, 3
	if c.Thorough() {
		plainLen, allLen = 5, 4
	}
	var cases int64
	for _, via := range []string{"direct", "log"} {
		cases += runCaptureVia(c, via, plainOps, plainLen, nil)
	}
	// sequences with informational / upgrade codes: only a real server shows the final status
	serverFilter := needsRealServer
	if c.Thorough() {
		serverFilter = nil // thorough: every sequence also over the real server
	}
	for _, via := range []string{"server", "server-log"} {
		cases += runCaptureVia(c, via, len(captureOps), allLen, serverFilter)
	}
	if c.Expired() {
		c.Incomplete("capture: deadline reached")
	}
	c.Note("capture_cases", cases)
	c.Note("capture_bounds", fmt.Sprintf("ops %v: every sequence of length 0..%d over the first %d via direct and via Log (recorder); every sequence of length 0..%d over all %d that %s via a real server (capture and Log)",
		captureOps, plainLen, plainOps, allLen, len(captureOps), map[bool]string{true: "exists", false: "contains a 1xx/101 operation"}[c.Thorough()]))
}

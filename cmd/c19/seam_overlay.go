//go:build c19overlay

package main

import "goa.design/goa/v3/middleware"

// Built by the driver with the overlay that adds middleware.VerifSetIntn.
const haveSeam = true

func installIntn(f func(int) int) { middleware.VerifSetIntn(f) }

package main

// Part C — call chains through traced clients (explicit-state, breadth first by depth).
//
// Hop kinds (4): h = HTTP server behind Trace; H = HTTP server behind RequestID -> Log -> Trace;
// U = gRPC unary server behind UnaryRequestID -> UnaryServerTrace; S = gRPC stream server behind
// StreamRequestID -> StreamCanceler -> StreamServerTrace. A hop's handler calls the next hop with
// goa's traced client for the next hop's transport (WrapDoer / UnaryClientTrace /
// StreamClientTrace) using the context it received; the last hop calls a sink of its own
// transport, so that the client side of every hop is exercised. Every sequence of kinds of
// length 1..4 (4^d) x per-hop sampling {0,100}^d x inbound {none, trace, trace+parent} x ID
// functions {default, per-hop counters}. Successor of a chain = the chain extended by one hop,
// re-executed from scratch on fresh middleware instances.
// State = (kinds, sampling, inbound, idfuncs, normalised (trace, span, parent) of every hop).
// Invariants: per hop the single-hop oracle against what arrived on the wire; a traced hop's
// client forwards trace and span; consequently one trace ID along the chain from the first
// traced hop on, parent(i+1) = span(i), span(i+1) fresh. Request-ID propagation along chains is
// not claimed by the statement and not asserted.

import (
	"context"
	"encoding/json"
	"fmt"
	"net/http"
	"sort"
	"strings"

	grpcm "goa.design/goa/v3/grpc/middleware"
	httpm "goa.design/goa/v3/http/middleware"
	"goa.design/goa/v3/middleware"
	"google.golang.org/grpc"
	"google.golang.org/grpc/metadata"

	"verif/core"
)

type chainCase struct {
	Kinds    string `json:"kinds"`    // one letter per hop: h H U S
	Sampling []int  `json:"sampling"` // per hop: 0 | 100
	Inbound  string `json:"inbound"`  // none | trace | trace+parent
	IDFuncs  string `json:"id_funcs"` // default | counters
	// Forward[i]: hop i's handler behaves like a gateway — it copies everything it received
	// (incoming metadata / request headers) into the outgoing context / request before calling
	// the traced client, so stale trace-id / parent-span-id entries are already there.
	Forward []bool `json:"forward,omitempty"`
	Real    bool   `json:"real,omitempty"`
}

type hopRecord struct {
	Kind     string   `json:"kind"`
	Arrivals int      `json:"arrivals"`
	Wire     wireObs  `json:"wire"`
	Ctx      traceObs `json:"ctx"`
}

type chainResult struct {
	Hops        []hopRecord `json:"hops"`
	Sink        wireObs     `json:"sink"`
	SinkCalls   int         `json:"sink_calls"`
	Transitions int         `json:"-"`
}

type doerFunc func(*http.Request) (*http.Response, error)

func (f doerFunc) Do(r *http.Request) (*http.Response, error) { return f(r) }

func family(kind byte) string {
	switch kind {
	case 'h', 'H':
		return "http"
	case 'U', 'u':
		return "grpc-unary"
	}
	return "grpc-stream"
}

type chainRun struct {
	cs      chainCase
	servers []*server
	res     chainResult
}

// arrive is the wire: hop i (or the sink when i == len) receives exactly these headers / metadata.
func (r *chainRun) arrive(i int, hdr http.Header, md metadata.MD) {
	var w wireObs
	if hdr != nil {
		w = wireFromHeader(hdr)
	} else {
		w = wireFromMD(md)
	}
	if i == len(r.servers) {
		r.res.Sink = w
		r.res.SinkCalls++
		return
	}
	h := &r.res.Hops[i]
	h.Arrivals++
	h.Wire = w
	r.res.Transitions++
	r.servers[i].serve(hdr, md, func(ctx context.Context) {
		observeTrace(ctx, &h.Ctx)
		r.forward(i, ctx, hdr)
	})
}

// forward is the handler of hop i calling the next hop (or the sink) through goa's traced client.
func (r *chainRun) forward(i int, ctx context.Context, inHdr http.Header) {
	fam := family(r.cs.Kinds[i])
	if i+1 < len(r.cs.Kinds) {
		fam = family(r.cs.Kinds[i+1])
	}
	r.res.Transitions++
	gateway := i < len(r.cs.Forward) && r.cs.Forward[i]
	// what the handler received, in both shapes
	var received [][2]string
	if gateway {
		received = receivedPairs(ctx, inHdr)
		if fam != "http" {
			ctx = forwardToOutgoing(ctx, received)
		}
	}
	switch fam {
	case "http":
		req, err := http.NewRequestWithContext(ctx, "GET", "http://next.hop"+httpPath, nil)
		if err != nil {
			panic(err)
		}
		for _, kv := range received {
			req.Header.Add(kv[0], kv[1])
		}
		doer := httpm.WrapDoer(doerFunc(func(q *http.Request) (*http.Response, error) {
			r.arrive(i+1, q.Header.Clone(), nil)
			return &http.Response{StatusCode: 200, Body: http.NoBody, Header: http.Header{}}, nil
		}))
		_, _ = doer.Do(req)
	case "grpc-unary":
		_ = grpcm.UnaryClientTrace()(ctx, grpcMethod, "req", nil, nil,
			func(ctx context.Context, method string, req, reply any, cc *grpc.ClientConn, opts ...grpc.CallOption) error {
				md, ok := metadata.FromOutgoingContext(ctx)
				if !ok {
					md = nil
				}
				r.arrive(i+1, nil, md)
				return nil
			})
	default:
		_, _ = grpcm.StreamClientTrace()(ctx, &grpc.StreamDesc{StreamName: "Check", ServerStreams: true, ClientStreams: true}, nil, grpcMethod,
			func(ctx context.Context, desc *grpc.StreamDesc, cc *grpc.ClientConn, method string, opts ...grpc.CallOption) (grpc.ClientStream, error) {
				md, ok := metadata.FromOutgoingContext(ctx)
				if !ok {
					md = nil
				}
				r.arrive(i+1, nil, md)
				return nil, nil
			})
	}
}

// receivedPairs lists what a handler received from its caller: the request headers (HTTP hop)
// or the incoming metadata (gRPC hop), in a deterministic order.
func receivedPairs(ctx context.Context, inHdr http.Header) [][2]string {
	var out [][2]string
	src := map[string][]string(inHdr)
	if inHdr == nil {
		md, _ := metadata.FromIncomingContext(ctx)
		src = md
	}
	keys := make([]string, 0, len(src))
	for k := range src {
		keys = append(keys, k)
	}
	sort.Strings(keys)
	for _, k := range keys {
		if strings.HasPrefix(k, ":") {
			continue
		}
		for _, v := range src[k] {
			out = append(out, [2]string{k, v})
		}
	}
	return out
}

// forwardToOutgoing is the gateway pattern for gRPC clients: everything received goes into the
// outgoing metadata of the context handed to the traced client.
func forwardToOutgoing(ctx context.Context, pairs [][2]string) context.Context {
	md := metadata.MD{}
	for _, kv := range pairs {
		md.Append(kv[0], kv[1])
	}
	return metadata.NewOutgoingContext(ctx, md)
}

func hopOptions(cs chainCase, i int) []middleware.TraceOption {
	opts := []middleware.TraceOption{middleware.SamplingPercent(cs.Sampling[i])}
	if cs.IDFuncs == "counters" {
		tf, sf, _ := counterIDs(fmt.Sprintf("hop%d-", i))
		opts = append(opts, middleware.TraceIDFunc(tf), middleware.SpanIDFunc(sf))
	}
	return opts
}

func execChain(cs chainCase) chainResult {
	if cs.Real {
		return execChainReal(cs)
	}
	r := &chainRun{cs: cs}
	r.res.Hops = make([]hopRecord, len(cs.Kinds))
	for i := range cs.Kinds {
		r.res.Hops[i].Kind = string(cs.Kinds[i])
		s := newServer(string(cs.Kinds[i]), hopOptions(cs, i))
		defer s.cleanup()
		r.servers = append(r.servers, s)
	}
	w := wireFor(cs.Inbound)
	if family(cs.Kinds[0]) == "http" {
		r.arrive(0, w.header(), nil)
	} else {
		r.arrive(0, nil, w.md())
	}
	return r.res
}

func judgeChain(cs chainCase, res chainResult) (fails []failure) {
	desc, _ := json.Marshal(cs)
	obs, _ := json.Marshal(res)
	mode := "in-process"
	if cs.Real {
		mode = "real-servers"
	}
	add := func(sig, what string) {
		fails = append(fails, failure{"chain mode=" + mode + " " + sig, what + " [case " + string(desc) + " observed " + string(obs) + "]"})
	}
	seen := idSet{inTrace: true, inParent: true}
	var prev *hopRecord
	checkClient := func(from *hopRecord, to string, w wireObs, reached int) {
		client := family(to[0])
		if to == "sink" {
			client = family(from.Kind[0])
		}
		sig := fmt.Sprintf("side=client client=%s", client)
		if reached != 1 {
			add(fmt.Sprintf("%s observed=next-hop-reached-%d-times", sig, reached), fmt.Sprintf("the call after hop kind %s reached its target %d times", from.Kind, reached))
			return
		}
		if !from.Ctx.traced() {
			return // nothing to forward: the statement is silent
		}
		switch {
		case !w.HasTrace || w.Trace == "":
			add(sig+" observed=trace-not-forwarded", fmt.Sprintf("traced client after %s did not forward trace %q", from.Kind, from.Ctx.Trace))
		case w.Trace != from.Ctx.Trace:
			add(sig+" observed=trace-changed", fmt.Sprintf("traced client forwarded trace %q, current trace is %q", w.Trace, from.Ctx.Trace))
		}
		switch {
		case !w.HasParent || w.Parent == "":
			add(sig+" observed=span-not-forwarded", fmt.Sprintf("traced client after %s did not forward the current span %q", from.Kind, from.Ctx.Span))
		case w.Parent != from.Ctx.Span:
			add(sig+" observed=span-wrong", fmt.Sprintf("traced client forwarded span %q, current span is %q", w.Parent, from.Ctx.Span))
		}
	}
	for i := range res.Hops {
		h := &res.Hops[i]
		if i == 0 {
			if h.Arrivals != 1 {
				add(fmt.Sprintf("side=harness observed=first-hop-reached-%d-times", h.Arrivals), "first hop not reached exactly once")
				return
			}
		} else {
			checkClient(prev, h.Kind, h.Wire, h.Arrivals)
			if h.Arrivals != 1 {
				return
			}
		}
		exp := expAlways
		if cs.Sampling[i] == 0 {
			exp = expNever
		}
		for _, d := range judgeServer(h.Wire, h.Ctx, exp, seen) {
			add(fmt.Sprintf("side=server hop=%s sampling=%d arriving=%s observed=%s", h.Kind, cs.Sampling[i], h.Wire.class(), d.Sig), fmt.Sprintf("hop %d: %s", i, d.What))
		}
		// the statement's end-to-end reading, independent of the wire observation
		if prev != nil && prev.Ctx.traced() {
			edge := family(prev.Kind[0]) + "->" + family(h.Kind[0])
			switch {
			case !h.Ctx.traced() || h.Ctx.Trace != prev.Ctx.Trace:
				add("end-to-end edge="+edge+" observed=trace-not-shared", fmt.Sprintf("hop %d has trace %q, its caller %q", i, h.Ctx.Trace, prev.Ctx.Trace))
			case h.Ctx.Parent != prev.Ctx.Span:
				add("end-to-end edge="+edge+" observed=parent-is-not-callers-span", fmt.Sprintf("hop %d has parent %q, its caller's span is %q", i, h.Ctx.Parent, prev.Ctx.Span))
			}
		}
		prev = h
	}
	checkClient(prev, "sink", res.Sink, res.SinkCalls)
	return fails
}

// normalise renames identifiers by order of first appearance (canonical state).
func normalise(res chainResult) string {
	names := map[string]string{"": "-"}
	name := func(s string, has bool) string {
		if !has {
			return "_"
		}
		if n, ok := names[s]; ok {
			return n
		}
		n := fmt.Sprintf("i%d", len(names))
		names[s] = n
		return n
	}
	names[inTrace], names[inParent] = "Tin", "Pin"
	var sb strings.Builder
	for _, h := range res.Hops {
		fmt.Fprintf(&sb, "(%s,%s,%s)", name(h.Ctx.Trace, h.Ctx.HasTrace), name(h.Ctx.Span, h.Ctx.HasSpan), name(h.Ctx.Parent, h.Ctx.HasParent))
	}
	fmt.Fprintf(&sb, "sink(%s,%s)", name(res.Sink.Trace, res.Sink.HasTrace), name(res.Sink.Parent, res.Sink.HasParent))
	return sb.String()
}

func checkChain(cs chainCase) (fails []failure, outcome string, state string, transitions int) {
	res := execChain(cs)
	fails = judgeChain(cs, res)
	state = normalise(res)
	traced := 0
	for _, h := range res.Hops {
		if h.Ctx.traced() {
			traced++
		}
	}
	gw := 0
	for _, f := range cs.Forward {
		if f {
			gw++
		}
	}
	return fails, fmt.Sprintf("chain depth=%d inbound=%s traced-hops=%d gateway-hops=%d sink-got-trace=%v", len(cs.Kinds), cs.Inbound, traced, gw, res.Sink.HasTrace), state, res.Transitions
}

// forwardVectors returns the per-hop gateway flags to explore for a depth: every vector when
// full, else all-plain and all-gateway. All-plain comes first.
func forwardVectors(depth int, full bool) [][]bool {
	if !full {
		all := make([]bool, depth)
		for i := range all {
			all[i] = true
		}
		return [][]bool{make([]bool, depth), all}
	}
	var out [][]bool
	core.Sequences(2, depth, func(seq []int) bool {
		v := make([]bool, depth)
		for i, b := range seq {
			v[i] = b == 1
		}
		out = append(out, v)
		return true
	})
	return out
}

func runChains(c *core.Ctx) {
	kinds := "hHUS"
	maxDepth := 4 // the property's bound; the thorough tier goes one hop further
	if c.Thorough() {
		maxDepth = 5
	}
	inbounds := []string{"none", "trace", "trace+parent"}
	idfuncs := []string{"default", "counters"}
	// gateway behaviour: the complete {plain, gateway}^depth product up to this depth, beyond it
	// only the two uniform vectors
	fullForwardDepth := 3
	if c.Thorough() {
		fullForwardDepth = 4
	}
	levels := map[string]any{}
	var cases int64
	for depth := 1; depth <= maxDepth; depth++ {
		if c.Expired() {
			c.Incomplete(fmt.Sprintf("chains: stopped before depth %d", depth))
			return
		}
		var levelCases, levelTrans int64
		states := map[string]bool{}
		core.Sequences(len(kinds), depth, func(seq []int) bool {
			ks := make([]byte, depth)
			for i, k := range seq {
				ks[i] = kinds[k]
			}
			core.Sequences(2, depth, func(sm []int) bool {
				sampling := make([]int, depth)
				for i, s := range sm {
					sampling[i] = 100 * (1 - s) // all-100 first
				}
				for _, in := range inbounds {
					for _, idf := range idfuncs {
						for _, fw := range forwardVectors(depth, depth <= fullForwardDepth) {
							cs := chainCase{Kinds: string(ks), Sampling: sampling, Inbound: in, IDFuncs: idf, Forward: fw}
							fails, outcome, state, n := checkChain(cs)
							key, _ := json.Marshal(cs)
							c.State("chain:"+string(key)+state, depth >= 2)
							states[state] = true
							c.Exec(int64(n))
							noteOutcome(c, outcome)
							cases++
							levelCases++
							levelTrans += int64(n)
							if cases%509 == 0 {
								c.Sample(replayCase{Part: "chain", Chain: &cs})
							}
							if len(fails) > 0 {
								cc := cs
								report(c, fails, replayCase{Part: "chain", Chain: &cc}, func() []failure { f, _, _, _ := checkChain(cc); return f })
							}
						}
					}
				}
				return true
			})
			return !c.Expired()
		})
		levels[fmt.Sprintf("depth_%d", depth)] = map[string]int64{"chains": levelCases, "transitions": levelTrans, "distinct_identifier_shapes": int64(len(states))}
	}
	c.Note("chain_levels", levels)
	c.Note("chain_bounds", fmt.Sprintf("hop kinds %q, depth 1..%d complete, sampling {0,100} per hop, inbound %v, id functions %v, per-hop gateway flag (handler forwards received headers/metadata): complete product up to depth %d, uniform vectors beyond", kinds, maxDepth, inbounds, idfuncs, fullForwardDepth))
}

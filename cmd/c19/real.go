package main

// Thorough tier: the same chain and capture oracles over real transports — a real net/http
// server (httptest.Server over loopback TCP) and a real grpc.Server on an in-memory bufconn
// listener, reached through real clients decorated with goa's traced clients. This validates
// the in-process wire assumption (headers / metadata set by the client side are what the server
// side reads).

import (
	"context"
	"encoding/json"
	"errors"
	"fmt"
	"io"
	"log"
	"net"
	"net/http"
	"net/http/httptest"
	"strconv"
	"strings"
	"sync"
	"time"

	grpcm "goa.design/goa/v3/grpc/middleware"
	httpm "goa.design/goa/v3/http/middleware"
	"goa.design/goa/v3/middleware"
	"google.golang.org/grpc"
	"google.golang.org/grpc/credentials/insecure"
	"google.golang.org/grpc/metadata"
	"google.golang.org/grpc/test/bufconn"
	"google.golang.org/protobuf/types/known/wrapperspb"

	"verif/core"
)

const routeHeader = "X-Verif-Route" // harness routing information carried by application code, not by goa

// realNet is one deployment: an HTTP server and a gRPC server whose middlewares use one
// sampling percentage.
type realNet struct {
	sampling int
	httpSrv  *httptest.Server
	grpcSrv  *grpc.Server
	conn     *grpc.ClientConn // with goa's client trace interceptors
	doer     httpm.Doer       // goa's traced doer around the real client
	cancel   context.CancelFunc

	mu    sync.Mutex
	runs  map[string]*chainResult
	cases map[string]chainCase
}

type chainAPI interface{}

// route = "<run id>|<hop index>|<kinds of the hops still to visit>"
func parseRoute(s string) (id string, hop int, rest string, err error) {
	p := strings.SplitN(s, "|", 3)
	if len(p) != 3 {
		return "", 0, "", fmt.Errorf("bad route %q", s)
	}
	hop, err = strconv.Atoi(p[1])
	return p[0], hop, p[2], err
}

func newRealNet(sampling int) (*realNet, error) {
	n := &realNet{sampling: sampling, runs: map[string]*chainResult{}, cases: map[string]chainCase{}}
	opts := []middleware.TraceOption{middleware.SamplingPercent(sampling)}
	ctx, cancel := context.WithCancel(context.Background())
	n.cancel = cancel

	// HTTP: /hop behind RequestID -> Log -> Trace, /sink bare
	mux := http.NewServeMux()
	stack := func(h http.Handler) http.Handler {
		return httpm.RequestID()(httpm.Log(nopLogger{})(httpm.Trace(opts...)(h)))
	}
	mux.Handle("/hop", stack(http.HandlerFunc(func(w http.ResponseWriter, r *http.Request) {
		n.hop(r.Context(), r.Header.Get(routeHeader), wireFromHeader(r.Header), r.Header)
		_, _ = w.Write([]byte("ok"))
	})))
	mux.HandleFunc("/sink", func(w http.ResponseWriter, r *http.Request) {
		n.sink(r.Header.Get(routeHeader), wireFromHeader(r.Header))
	})
	n.httpSrv = httptest.NewServer(mux)
	n.doer = httpm.WrapDoer(n.httpSrv.Client())

	// gRPC on bufconn
	lis := bufconn.Listen(1 << 20)
	n.grpcSrv = grpc.NewServer(
		grpc.ChainUnaryInterceptor(grpcm.UnaryRequestID(), grpcm.UnaryServerTrace(opts...)),
		grpc.ChainStreamInterceptor(grpcm.StreamRequestID(), grpcm.StreamCanceler(ctx), grpcm.StreamServerTrace(opts...)),
	)
	incoming := func(ctx context.Context) wireObs {
		md, _ := metadata.FromIncomingContext(ctx)
		return wireFromMD(md)
	}
	unary := func(name string, f func(ctx context.Context, route string)) grpc.MethodDesc {
		return grpc.MethodDesc{MethodName: name, Handler: func(srv any, ctx context.Context, dec func(any) error, ic grpc.UnaryServerInterceptor) (any, error) {
			in := new(wrapperspb.StringValue)
			if err := dec(in); err != nil {
				return nil, err
			}
			h := func(ctx context.Context, req any) (any, error) {
				f(ctx, req.(*wrapperspb.StringValue).Value)
				return wrapperspb.String("ok"), nil
			}
			if ic == nil {
				return h(ctx, in)
			}
			return ic(ctx, in, &grpc.UnaryServerInfo{Server: srv, FullMethod: "/verif.Chain/" + name}, h)
		}}
	}
	stream := func(name string, f func(ctx context.Context, route string)) grpc.StreamDesc {
		return grpc.StreamDesc{StreamName: name, ServerStreams: true, ClientStreams: true, Handler: func(srv any, ss grpc.ServerStream) error {
			in := new(wrapperspb.StringValue)
			if err := ss.RecvMsg(in); err != nil {
				return err
			}
			f(ss.Context(), in.Value)
			return ss.SendMsg(wrapperspb.String("ok"))
		}}
	}
	n.grpcSrv.RegisterService(&grpc.ServiceDesc{
		ServiceName: "verif.Chain",
		HandlerType: (*chainAPI)(nil),
		Methods: []grpc.MethodDesc{
			unary("Hop", func(ctx context.Context, route string) { n.hop(ctx, route, incoming(ctx), nil) }),
			unary("Sink", func(ctx context.Context, route string) { n.sink(route, incoming(ctx)) }),
		},
		Streams: []grpc.StreamDesc{
			stream("HopStream", func(ctx context.Context, route string) { n.hop(ctx, route, incoming(ctx), nil) }),
			stream("SinkStream", func(ctx context.Context, route string) { n.sink(route, incoming(ctx)) }),
		},
	}, struct{}{})
	go func() { _ = n.grpcSrv.Serve(lis) }()
	conn, err := grpc.NewClient("passthrough:///bufnet",
		grpc.WithContextDialer(func(ctx context.Context, _ string) (net.Conn, error) { return lis.DialContext(ctx) }),
		grpc.WithTransportCredentials(insecure.NewCredentials()),
		grpc.WithChainUnaryInterceptor(grpcm.UnaryClientTrace()),
		grpc.WithChainStreamInterceptor(grpcm.StreamClientTrace()))
	if err != nil {
		n.close()
		return nil, err
	}
	n.conn = conn
	return n, nil
}

func (n *realNet) close() {
	if n.conn != nil {
		_ = n.conn.Close()
	}
	n.cancel()
	n.grpcSrv.Stop()
	n.httpSrv.Close()
}

func (n *realNet) sink(route string, w wireObs) {
	id, _, _, err := parseRoute(route)
	if err != nil {
		return
	}
	n.mu.Lock()
	defer n.mu.Unlock()
	if r := n.runs[id]; r != nil {
		r.Sink = w
		r.SinkCalls++
	}
}

// hop is the application handler of every real hop: record, then call the next hop with the
// context received from goa's server middleware.
func (n *realNet) hop(ctx context.Context, route string, w wireObs, inHdr http.Header) {
	id, i, rest, err := parseRoute(route)
	if err != nil {
		return
	}
	n.mu.Lock()
	r := n.runs[id]
	if r == nil || i >= len(r.Hops) {
		n.mu.Unlock()
		return
	}
	h := &r.Hops[i]
	h.Arrivals++
	h.Wire = w
	observeTrace(ctx, &h.Ctx)
	r.Transitions += 2
	self := h.Kind
	cs := n.cases[id]
	n.mu.Unlock()
	var received [][2]string
	if i < len(cs.Forward) && cs.Forward[i] { // gateway: pass on everything received
		received = receivedPairs(ctx, inHdr)
	}
	if rest == "" {
		_ = n.call(ctx, family(self[0]), true, fmt.Sprintf("%s|%d|", id, i+1), received)
		return
	}
	_ = n.call(ctx, family(rest[0]), false, fmt.Sprintf("%s|%d|%s", id, i+1, rest[1:]), received)
}

// call performs one real client call with goa's traced client of the given transport.
func (n *realNet) call(ctx context.Context, fam string, sink bool, route string, received [][2]string) error {
	if received != nil && fam != "http" {
		ctx = forwardToOutgoing(ctx, received)
	}
	switch fam {
	case "http":
		path := "/hop"
		if sink {
			path = "/sink"
		}
		req, err := http.NewRequestWithContext(ctx, "GET", n.httpSrv.URL+path, nil)
		if err != nil {
			return err
		}
		for _, kv := range received {
			req.Header.Add(kv[0], kv[1])
		}
		req.Header.Set(routeHeader, route)
		resp, err := n.doer.Do(req)
		if err != nil {
			return err
		}
		_, _ = io.Copy(io.Discard, resp.Body)
		return resp.Body.Close()
	case "grpc-unary":
		m := "/verif.Chain/Hop"
		if sink {
			m = "/verif.Chain/Sink"
		}
		return n.conn.Invoke(ctx, m, wrapperspb.String(route), new(wrapperspb.StringValue))
	default:
		m := "/verif.Chain/HopStream"
		if sink {
			m = "/verif.Chain/SinkStream"
		}
		cs, err := n.conn.NewStream(ctx, &grpc.StreamDesc{ServerStreams: true, ClientStreams: true}, m)
		if err != nil {
			return err
		}
		if err := cs.SendMsg(wrapperspb.String(route)); err != nil {
			return err
		}
		if err := cs.CloseSend(); err != nil {
			return err
		}
		out := new(wrapperspb.StringValue)
		for {
			if err := cs.RecvMsg(out); err != nil {
				if err == io.EOF {
					return nil
				}
				return err
			}
		}
	}
}

var (
	realMu   sync.Mutex
	realNets = map[int]*realNet{}
	realSeq  int
	realErr  error
)

func getRealNet(sampling int) (*realNet, error) {
	realMu.Lock()
	defer realMu.Unlock()
	if n := realNets[sampling]; n != nil {
		return n, nil
	}
	n, err := newRealNet(sampling)
	if err != nil {
		return nil, err
	}
	realNets[sampling] = n
	return n, nil
}

func closeRealNets() {
	realMu.Lock()
	defer realMu.Unlock()
	for k, n := range realNets {
		n.close()
		delete(realNets, k)
	}
}

// execChainReal runs one chain over the real deployment whose sampling is cs.Sampling[0]
// (uniform along a real chain). The first request is sent by a plain client carrying the
// inbound identifiers as raw headers / metadata.
func execChainReal(cs chainCase) chainResult {
	n, err := getRealNet(cs.Sampling[0])
	if err != nil {
		realErr = err
		return chainResult{Hops: make([]hopRecord, len(cs.Kinds))}
	}
	realMu.Lock()
	realSeq++
	id := fmt.Sprintf("run%d", realSeq)
	realMu.Unlock()
	res := &chainResult{Hops: make([]hopRecord, len(cs.Kinds))}
	for i := range cs.Kinds {
		res.Hops[i].Kind = string(cs.Kinds[i])
	}
	n.mu.Lock()
	n.runs[id] = res
	n.cases[id] = cs
	n.mu.Unlock()
	w := wireFor(cs.Inbound)
	route := fmt.Sprintf("%s|0|%s", id, cs.Kinds[1:])
	ctx := context.Background()
	if family(cs.Kinds[0]) == "http" {
		req, _ := http.NewRequestWithContext(ctx, "GET", n.httpSrv.URL+"/hop", nil)
		for k, v := range w.header() {
			req.Header[k] = v
		}
		req.Header.Set(routeHeader, route)
		resp, err := n.httpSrv.Client().Do(req)
		if err != nil {
			realErr = err
		} else {
			_, _ = io.Copy(io.Discard, resp.Body)
			_ = resp.Body.Close()
		}
	} else {
		if md := w.md(); md != nil {
			ctx = metadata.NewOutgoingContext(ctx, md)
		}
		// the context carries no trace values: goa's client interceptors leave the metadata alone
		if err := n.call(ctx, family(cs.Kinds[0]), false, route, nil); err != nil {
			realErr = err
		}
	}
	n.mu.Lock()
	delete(n.runs, id)
	delete(n.cases, id)
	out := *res
	n.mu.Unlock()
	return out
}

// ---- capture over a real server -----------------------------------------------------------

var (
	capMu   sync.Mutex
	capSrv  *httptest.Server
	capLog  = &recLogger{notify: make(chan struct{}, 64)}
	capDone = make(chan struct{}, 64)
	capSeen = map[string]captureObs{}
)

// await takes n tokens from ch; the timeout is a harness watchdog, not an oracle.
func await(ch chan struct{}, n int, what string) error {
	for i := 0; i < n; i++ {
		select {
		case <-ch:
		case <-time.After(30 * time.Second):
			return fmt.Errorf("timed out waiting for %s", what)
		}
	}
	return nil
}

func captureServer() *httptest.Server {
	capMu.Lock()
	defer capMu.Unlock()
	if capSrv != nil {
		return capSrv
	}
	mux := http.NewServeMux()
	caseOf := func(r *http.Request) (cs captureCase, key string) {
		_ = json.Unmarshal([]byte(r.Header.Get("X-Verif-Case")), &cs)
		return cs, cs.key()
	}
	// /capture: the handler wraps its writer itself (a spy records what net/http's writer returns)
	mux.HandleFunc("/capture", func(w http.ResponseWriter, r *http.Request) {
		cs, key := caseOf(r)
		spy := &wireSpy{ResponseWriter: w}
		rc := httpm.CaptureResponse(spy)
		cs.handle(rc)
		capMu.Lock()
		capSeen[key] = captureObs{Reported: true, Status: rc.StatusCode, Bytes: rc.ContentLength, Attempted: spy.attempted, Accepted: spy.accepted}
		capMu.Unlock()
		capDone <- struct{}{}
	})
	// /log: the Log middleware wraps the writer and reports the capture's fields
	logged := httpm.Log(capLog)(http.HandlerFunc(func(w http.ResponseWriter, r *http.Request) {
		cs, _ := caseOf(r)
		cs.handle(w)
	}))
	mux.HandleFunc("/log", func(w http.ResponseWriter, r *http.Request) {
		_, key := caseOf(r)
		spy := &wireSpy{ResponseWriter: w}
		logged.ServeHTTP(spy, r)
		capMu.Lock()
		capSeen[key] = captureObs{Attempted: spy.attempted, Accepted: spy.accepted}
		capMu.Unlock()
		capDone <- struct{}{}
	})
	capSrv = httptest.NewUnstartedServer(mux)
	capSrv.Config.ErrorLog = log.New(io.Discard, "", 0) // "superfluous WriteHeader" lines are expected
	capSrv.Start()
	return capSrv
}

func closeCaptureServer() {
	capMu.Lock()
	defer capMu.Unlock()
	if capSrv != nil {
		capSrv.Close()
		capSrv = nil
	}
}

// execCaptureReal performs one real round trip (requests are issued one at a time).
func execCaptureReal(cs captureCase) (captureObs, error) {
	srv := captureServer()
	key := cs.key()
	path := "/capture"
	if cs.Via == "server-log" {
		path = "/log"
		capLog.reset()
	}
	req, _ := http.NewRequest("GET", srv.URL+path, nil)
	cj, _ := json.Marshal(cs)
	req.Header.Set("X-Verif-Case", string(cj))
	// a fresh connection per case: after a 101 the connection is not reusable
	tr := &http.Transport{DisableKeepAlives: true}
	defer tr.CloseIdleConnections()
	resp, err := (&http.Client{Transport: tr}).Do(req)
	if err != nil {
		return captureObs{}, err
	}
	var body []byte
	truncated := false
	if resp.StatusCode != http.StatusSwitchingProtocols {
		body, err = io.ReadAll(resp.Body)
		if errors.Is(err, io.ErrUnexpectedEOF) {
			// the handler declared more than it wrote: net/http closes the connection after what
			// was written; the bytes received are still what was sent
			truncated, err = true, nil
		}
	}
	_ = resp.Body.Close()
	if err != nil {
		return captureObs{}, err
	}
	var o captureObs
	if err := await(capDone, 1, "the handler for "+key); err != nil {
		return o, err
	}
	capMu.Lock()
	seen, ok := capSeen[key]
	delete(capSeen, key)
	capMu.Unlock()
	if !ok {
		return o, fmt.Errorf("real server handler left no observation for %s", key)
	}
	if cs.Via == "server-log" {
		// request line + response line; the latter is logged after the handler returned, possibly
		// after the client got the whole response
		if err := await(capLog.notify, 2, "the Log middleware's two lines for "+key); err != nil {
			return o, err
		}
		st, ok1 := capLog.last("status")
		by, ok2 := capLog.last("bytes")
		si, ok3 := st.(int)
		bi, ok4 := by.(int)
		if !(ok1 && ok2 && ok3 && ok4) {
			return o, fmt.Errorf("Log middleware did not log integer status/bytes for %s", key)
		}
		o = captureObs{Reported: true, Status: si, Bytes: bi, Attempted: seen.Attempted, Accepted: seen.Accepted}
	} else {
		o = seen
	}
	o.Truncated = truncated
	first, _, _ := committedBy(cs.Ops)
	o.Committed = first != "nothing" // otherwise net/http sends 200 by itself afterwards: not written by the handler, not asserted
	o.WroteStatus = resp.StatusCode
	o.WroteBytes = len(body)
	o.BytesUnknown = resp.StatusCode == http.StatusSwitchingProtocols
	return o, nil
}

func runReal(c *core.Ctx) {
	defer closeRealNets()
	kinds := "hUS" // h = HTTP hop (RequestID -> Log -> Trace), U = gRPC unary, S = gRPC stream
	var cases int64
	for depth := 1; depth <= 4; depth++ {
		core.Sequences(len(kinds), depth, func(seq []int) bool {
			ks := make([]byte, depth)
			for i, k := range seq {
				ks[i] = kinds[k]
			}
			for _, p := range []int{100, 0} {
				sampling := make([]int, depth)
				for i := range sampling {
					sampling[i] = p
				}
				for _, in := range []string{"none", "trace", "trace+parent"} {
					for _, fw := range forwardVectors(depth, false) {
						cs := chainCase{Kinds: string(ks), Sampling: sampling, Inbound: in, IDFuncs: "default", Forward: fw, Real: true}
						fails, outcome, state, n := checkChain(cs)
						if realErr != nil {
							c.HarnessError("real chain %s: %v", ks, realErr)
							return false
						}
						c.State(fmt.Sprintf("real-chain:%s:%d:%s:%v:%s", ks, p, in, fw[0], state), depth >= 2)
						c.Exec(int64(n))
						noteOutcome(c, "real "+outcome)
						cases++
						if cases%211 == 0 {
							c.Sample(replayCase{Part: "chain", Chain: &cs})
						}
						if len(fails) > 0 {
							cc := cs
							report(c, fails, replayCase{Part: "chain", Chain: &cc}, func() []failure { f, _, _, _ := checkChain(cc); return f })
						}
					}
				}
			}
			return !c.Expired()
		})
	}
	c.Note("real_chain_cases", cases)
	c.Note("real_chain_bounds", "real httptest.Server + real grpc.Server on bufconn: every kind sequence over {HTTP, gRPC unary, gRPC stream} of depth 1..4 x uniform sampling {100,0} x inbound {none, trace, trace+parent} x {no hop, every hop} forwards what it received (gateway)")
	if c.Expired() {
		c.Incomplete("real servers: deadline reached")
	}
}

package main

// Part B — samplers and the trace middleware on a single hop.
//
// Alphabet: sampler {fixed p in {0,1,50,99,100} (thorough: 0..100), adaptive (maxRate, sampleSize)
// in {1,2}x{1,2,3}} x discard pattern {none, matching, not matching} x ID functions {goa default,
// deterministic counters} x inbound {none, trace only, trace+parent span, parent span only} x
// transport {HTTP, gRPC unary, gRPC stream} x EVERY answer of the random source (0..99 for the
// fixed sampler; boundary answers of 0..9999 for the adaptive one, all of them when thorough).
// Oracle: with an inbound trace ID the handler's context keeps it, has the caller's span as
// parent and a fresh non-empty span != parent, whatever the sampler/discard says; without one:
// p=0 never traces, p=100 always traces (when not discarded), and whenever the request is traced
// trace and span are fresh and non-empty. Sample() for 0<p<100, adaptive decisions and discards
// are recorded as outcomes only.

import (
	"context"
	"encoding/json"
	"fmt"
	"net/http"
	"net/http/httptest"
	"regexp"

	grpcm "goa.design/goa/v3/grpc/middleware"
	httpm "goa.design/goa/v3/http/middleware"
	"goa.design/goa/v3/middleware"
	"google.golang.org/grpc"
	"google.golang.org/grpc/metadata"

	"verif/core"
)

const (
	inTrace  = "T.inbound"
	inParent = "P.inbound"
)

// wireObs is what a hop received on the wire (headers / incoming metadata).
type wireObs struct {
	HasTrace  bool   `json:"has_trace"`
	Trace     string `json:"trace,omitempty"`
	HasParent bool   `json:"has_parent"`
	Parent    string `json:"parent,omitempty"`
}

func (w wireObs) class() string {
	switch {
	case w.HasTrace && w.HasParent:
		return "trace+parent"
	case w.HasTrace:
		return "trace"
	case w.HasParent:
		return "parent-only"
	}
	return "none"
}

func wireFor(inbound string) wireObs {
	switch inbound {
	case "trace":
		return wireObs{HasTrace: true, Trace: inTrace}
	case "trace+parent":
		return wireObs{HasTrace: true, Trace: inTrace, HasParent: true, Parent: inParent}
	case "parent-only":
		return wireObs{HasParent: true, Parent: inParent}
	}
	return wireObs{}
}

func (w wireObs) header() http.Header {
	h := http.Header{}
	if w.HasTrace {
		h.Set(httpm.TraceIDHeader, w.Trace)
	}
	if w.HasParent {
		h.Set(httpm.ParentSpanIDHeader, w.Parent)
	}
	return h
}

func (w wireObs) md() metadata.MD {
	if !w.HasTrace && !w.HasParent {
		return nil
	}
	md := metadata.MD{}
	if w.HasTrace {
		md.Set(grpcm.TraceIDMetadataKey, w.Trace)
	}
	if w.HasParent {
		md.Set(grpcm.ParentSpanIDMetadataKey, w.Parent)
	}
	return md
}

func wireFromHeader(h http.Header) wireObs {
	var w wireObs
	if v, ok := h[http.CanonicalHeaderKey(httpm.TraceIDHeader)]; ok && len(v) > 0 {
		w.HasTrace, w.Trace = true, v[0]
	}
	if v, ok := h[http.CanonicalHeaderKey(httpm.ParentSpanIDHeader)]; ok && len(v) > 0 {
		w.HasParent, w.Parent = true, v[0]
	}
	return w
}

func wireFromMD(md metadata.MD) wireObs {
	var w wireObs
	if v := md.Get(grpcm.TraceIDMetadataKey); len(v) > 0 {
		w.HasTrace, w.Trace = true, v[0]
	}
	if v := md.Get(grpcm.ParentSpanIDMetadataKey); len(v) > 0 {
		w.HasParent, w.Parent = true, v[0]
	}
	return w
}

// traceObs is what the wrapped handler saw in its context.
type traceObs struct {
	Calls     int    `json:"calls"`
	HasTrace  bool   `json:"has_trace"`
	Trace     string `json:"trace,omitempty"`
	HasSpan   bool   `json:"has_span"`
	Span      string `json:"span,omitempty"`
	HasParent bool   `json:"has_parent"`
	Parent    string `json:"parent,omitempty"`
	BadType   bool   `json:"bad_type,omitempty"`
}

func (o traceObs) traced() bool { return o.HasTrace && o.Trace != "" }

func observeTrace(ctx context.Context, o *traceObs) {
	o.Calls++
	get := func(key any) (string, bool) {
		v := ctx.Value(key)
		if v == nil {
			return "", false
		}
		s, ok := v.(string)
		if !ok {
			o.BadType = true
		}
		return s, true
	}
	o.Trace, o.HasTrace = get(middleware.TraceIDKey)
	o.Span, o.HasSpan = get(middleware.TraceSpanIDKey)
	o.Parent, o.HasParent = get(middleware.TraceParentSpanIDKey)
}

// server is one hop's server side: the real goa middleware(s) of one transport.
type server struct {
	kind    string // h: HTTP Trace; H: HTTP RequestID->Log->Trace; u: gRPC unary; s: gRPC stream (U,S: with request-ID (+canceler))
	httpMW  func(http.Handler) http.Handler
	unary   grpc.UnaryServerInterceptor
	stream  grpc.StreamServerInterceptor
	cleanup func()
	// request sequences (serveOn): the HTTP middleware is mounted ONCE, as on a real server
	mounted http.Handler
	inner   func(ctx context.Context)
}

type nopLogger struct{}

func (nopLogger) Log(...any) error { return nil }

func chainUnary(a, b grpc.UnaryServerInterceptor) grpc.UnaryServerInterceptor {
	return func(ctx context.Context, req any, info *grpc.UnaryServerInfo, h grpc.UnaryHandler) (any, error) {
		return a(ctx, req, info, func(ctx context.Context, req any) (any, error) { return b(ctx, req, info, h) })
	}
}

func chainStream(a, b grpc.StreamServerInterceptor) grpc.StreamServerInterceptor {
	return func(srv any, ss grpc.ServerStream, info *grpc.StreamServerInfo, h grpc.StreamHandler) error {
		return a(srv, ss, info, func(srv any, ss grpc.ServerStream) error { return b(srv, ss, info, h) })
	}
}

func newServer(kind string, opts []middleware.TraceOption) *server {
	s := &server{kind: kind, cleanup: func() {}}
	switch kind {
	case "h":
		s.httpMW = httpm.Trace(opts...)
	case "H":
		rid, lg, tr := httpm.RequestID(httpm.UseXRequestIDHeaderOption(true)), httpm.Log(nopLogger{}), httpm.Trace(opts...)
		s.httpMW = func(h http.Handler) http.Handler { return rid(lg(tr(h))) }
	case "u":
		s.unary = grpcm.UnaryServerTrace(opts...)
	case "U":
		s.unary = chainUnary(grpcm.UnaryRequestID(grpcm.UseXRequestIDMetadataOption(true)), grpcm.UnaryServerTrace(opts...))
	case "s":
		s.stream = grpcm.StreamServerTrace(opts...)
	case "S":
		ctx, cancel := context.WithCancel(context.Background())
		s.cleanup = cancel
		s.stream = chainStream(grpcm.StreamRequestID(grpcm.UseXRequestIDMetadataOption(true)),
			chainStream(grpcm.StreamCanceler(ctx), grpcm.StreamServerTrace(opts...)))
	default:
		panic("unknown hop kind " + kind)
	}
	return s
}

func (s *server) isHTTP() bool { return s.kind == "h" || s.kind == "H" }

const (
	httpPath   = "/healthz"
	grpcMethod = "/svc.Health/Check"
)

// serve delivers one request carrying exactly the given headers (HTTP kinds) or incoming
// metadata (gRPC kinds; nil = no incoming metadata) and runs inner with the context the wrapped
// handler receives.
func (s *server) serve(hdr http.Header, md metadata.MD, inner func(ctx context.Context)) {
	switch {
	case s.httpMW != nil:
		h := s.httpMW(http.HandlerFunc(func(rw http.ResponseWriter, r *http.Request) {
			inner(r.Context())
			rw.WriteHeader(http.StatusOK)
			_, _ = rw.Write([]byte("ok"))
		}))
		req := httptest.NewRequest("GET", httpPath, nil)
		for k, v := range hdr {
			req.Header[k] = v
		}
		h.ServeHTTP(httptest.NewRecorder(), req)
	default:
		ctx := context.Background()
		if md != nil {
			ctx = metadata.NewIncomingContext(ctx, md)
		}
		if s.unary != nil {
			_, _ = s.unary(ctx, "req", &grpc.UnaryServerInfo{FullMethod: grpcMethod}, func(ctx context.Context, req any) (any, error) {
				inner(ctx)
				return "resp", nil
			})
		} else {
			_ = s.stream(nil, &fakeStream{ctx: ctx}, &grpc.StreamServerInfo{FullMethod: grpcMethod}, func(srv any, ss grpc.ServerStream) error {
				inner(ss.Context())
				return nil
			})
		}
	}
}

const (
	httpOtherPath   = "/items"
	grpcOtherMethod = "/svc.Items/List"
)

// serveOn delivers one request of a SEQUENCE: like serve, but the HTTP middleware wraps its
// handler once per server (state the middleware keeps between requests is then part of the
// execution) and the path / full method is chosen per request (discarded = matches reMatch).
func (s *server) serveOn(discarded bool, hdr http.Header, md metadata.MD, inner func(ctx context.Context)) {
	path, method := httpOtherPath, grpcOtherMethod
	if discarded {
		path, method = httpPath, grpcMethod
	}
	s.inner = inner
	switch {
	case s.httpMW != nil:
		if s.mounted == nil {
			s.mounted = s.httpMW(http.HandlerFunc(func(rw http.ResponseWriter, r *http.Request) {
				s.inner(r.Context())
				rw.WriteHeader(http.StatusOK)
				_, _ = rw.Write([]byte("ok"))
			}))
		}
		req := httptest.NewRequest("GET", path, nil)
		for k, v := range hdr {
			req.Header[k] = v
		}
		s.mounted.ServeHTTP(httptest.NewRecorder(), req)
	default:
		ctx := context.Background()
		if md != nil {
			ctx = metadata.NewIncomingContext(ctx, md)
		}
		if s.unary != nil {
			_, _ = s.unary(ctx, "req", &grpc.UnaryServerInfo{FullMethod: method}, func(ctx context.Context, req any) (any, error) {
				s.inner(ctx)
				return "resp", nil
			})
		} else {
			_ = s.stream(nil, &fakeStream{ctx: ctx}, &grpc.StreamServerInfo{FullMethod: method}, func(srv any, ss grpc.ServerStream) error {
				s.inner(ss.Context())
				return nil
			})
		}
	}
}

// expectation about sampling for a request without inbound trace ID.
const (
	expNone   = iota // statement silent (0<p<100, adaptive, discarded)
	expNever         // p = 0
	expAlways        // p = 100, not discarded
)

// judgeServer is the single-hop oracle: wire = what arrived, o = what the handler saw.
// It returns deviations as short "observed" classes with explanations.
func judgeServer(w wireObs, o traceObs, exp int, seen idSet) (dev []failure) {
	add := func(observed, what string) { dev = append(dev, failure{observed, what}) }
	if o.Calls != 1 {
		add(fmt.Sprintf("handler-calls-%d", o.Calls), fmt.Sprintf("wrapped handler called %d times", o.Calls))
		return
	}
	if o.BadType {
		add("id-not-string", "a trace identifier in the context is not a string")
		return
	}
	checkSpan := func() {
		switch {
		case !o.HasSpan || o.Span == "":
			add("span-missing", "traced request has no (or an empty) span ID")
		case w.HasParent && w.Parent != "" && o.Span == w.Parent:
			add("span-equals-parent", fmt.Sprintf("span %q is the caller's span", o.Span))
		case !seen.fresh(o.Span):
			add("span-not-fresh", fmt.Sprintf("span %q was seen before in this case", o.Span))
		}
	}
	if w.HasTrace && w.Trace != "" {
		switch {
		case !o.traced():
			add("inbound-trace-dropped", fmt.Sprintf("request arrived with trace %q, context has none", w.Trace))
			return
		case o.Trace != w.Trace:
			add("inbound-trace-replaced", fmt.Sprintf("request arrived with trace %q, context has %q", w.Trace, o.Trace))
		}
		if w.HasParent && w.Parent != "" {
			switch {
			case !o.HasParent || o.Parent == "":
				add("parent-not-recorded", fmt.Sprintf("caller's span %q is not recorded as parent", w.Parent))
			case o.Parent != w.Parent:
				add("parent-wrong", fmt.Sprintf("parent is %q, caller's span is %q", o.Parent, w.Parent))
			}
		}
		checkSpan()
		return
	}
	switch {
	case exp == expNever && o.traced():
		add("sampled-at-0", fmt.Sprintf("sampling 0%% but the request got trace %q", o.Trace))
	case exp == expAlways && !o.traced():
		add("not-sampled-at-100", "sampling 100% but the request is not traced")
	}
	if o.traced() {
		if !seen.fresh(o.Trace) {
			add("trace-not-fresh", fmt.Sprintf("new trace %q was seen before in this case", o.Trace))
		}
		checkSpan()
	}
	return
}

type traceCase struct {
	Transport  string `json:"transport"` // h | u | s
	Sampler    string `json:"sampler"`   // fixed | adaptive
	Percent    int    `json:"percent"`
	MaxRate    int    `json:"max_rate,omitempty"`
	SampleSize int    `json:"sample_size,omitempty"`
	Discard    string `json:"discard"`  // none | match | nomatch
	IDFuncs    string `json:"id_funcs"` // default | counters
	Inbound    string `json:"inbound"`  // none | trace | trace+parent | parent-only
	Answer     int    `json:"answer"`   // what the random source answers
	Requests   int    `json:"requests"` // consecutive identical requests through one middleware instance
	// Seq, when set, replaces Requests/Inbound: a sequence of DIFFERENT requests through one
	// mounted middleware instance; an element is "<d|n>:<inbound>", d = path / full method
	// matches the discard pattern, n = it does not.
	Seq []string `json:"sequence,omitempty"`
}

var (
	reMatch   = regexp.MustCompile(`(?i)health`)
	reNoMatch = regexp.MustCompile(`^/nomatch$`)
)

// counterIDs returns deterministic ID functions ("tid-1", "tid-2", ... / "sid-1", ...).
func counterIDs(prefix string) (trace, span middleware.IDFunc, used func() (int, int)) {
	var nt, ns int
	return func() string { nt++; return fmt.Sprintf("%stid-%d", prefix, nt) },
		func() string { ns++; return fmt.Sprintf("%ssid-%d", prefix, ns) },
		func() (int, int) { return nt, ns }
}

func samplerClass(sampler string, p int) string {
	switch {
	case sampler == "adaptive":
		return "adaptive"
	case p == 0:
		return "fixed-0"
	case p == 100:
		return "fixed-100"
	}
	return "fixed-mid"
}

func answerClass(a, p int) string {
	switch {
	case a == 0:
		return "min"
	case a == 99 || a == 9999:
		return "max"
	case a < p:
		return "below-p"
	}
	return "at-or-above-p"
}

func checkTrace(cs traceCase) (fails []failure, outcome string) {
	var opts []middleware.TraceOption
	if cs.Sampler == "adaptive" {
		opts = append(opts, middleware.MaxSamplingRate(cs.MaxRate), middleware.SampleSize(cs.SampleSize))
	} else {
		opts = append(opts, middleware.SamplingPercent(cs.Percent))
	}
	switch cs.Discard {
	case "match":
		opts = append(opts, middleware.DiscardFromTrace(reMatch))
	case "nomatch":
		opts = append(opts, middleware.DiscardFromTrace(reNoMatch))
	}
	used := func() (int, int) { return 0, 0 }
	if cs.IDFuncs == "counters" {
		var tf, sf middleware.IDFunc
		tf, sf, used = counterIDs("")
		opts = append(opts, middleware.TraceIDFunc(tf), middleware.SpanIDFunc(sf))
	}
	srv := newServer(cs.Transport, opts)
	defer srv.cleanup()
	w := wireFor(cs.Inbound)
	exp := expNone
	if cs.Sampler == "fixed" && cs.Discard != "match" {
		switch cs.Percent {
		case 0:
			exp = expNever
		case 100:
			exp = expAlways
		}
	}
	if cs.Sampler == "fixed" && cs.Percent == 0 {
		exp = expNever // 0% is exact whatever the discard list says
	}
	seen := idSet{inTrace: true, inParent: true}
	desc, _ := json.Marshal(cs)
	sc := samplerClass(cs.Sampler, cs.Percent)
	n := cs.Requests
	if n < 1 {
		n = 1
	}
	if len(cs.Seq) > 0 {
		// every request is judged on its own: what an earlier request was must not matter
		for i, el := range cs.Seq {
			disc, inbound := el[:1] == "d", el[2:]
			wi := wireFor(inbound)
			expi := expNone
			switch {
			case cs.Percent == 0:
				expi = expNever
			case cs.Percent == 100 && !disc:
				expi = expAlways
			}
			setAnswer(cs.Answer)
			var o traceObs
			srv.serveOn(disc, wi.header(), wi.md(), func(ctx context.Context) { observeTrace(ctx, &o) })
			for _, d := range judgeServer(wi, o, expi, seen) {
				prev := "first"
				if i > 0 {
					prev = "after=" + cs.Seq[i-1]
				}
				sig := fmt.Sprintf("trace-sequence transport=%s sampler=%s request=%s %s observed=%s", cs.Transport, sc, el, prev, d.Sig)
				fails = append(fails, failure{sig, fmt.Sprintf("request %d (%s) of the sequence %v: %s [case %s]", i, el, cs.Seq, d.What, desc)})
			}
			outcome = fmt.Sprintf("trace-sequence %s %s last=%s traced=%v", cs.Transport, sc, el, o.traced())
		}
		return fails, outcome
	}
	firstTraced := false
	for i := 0; i < n; i++ {
		setAnswer(cs.Answer)
		var o traceObs
		srv.serve(w.header(), w.md(), func(ctx context.Context) { observeTrace(ctx, &o) })
		calls := intnCalls()
		if i == 0 {
			firstTraced = o.traced()
		}
		for _, d := range judgeServer(w, o, exp, seen) {
			sig := fmt.Sprintf("trace transport=%s sampler=%s discard=%s inbound=%s observed=%s", cs.Transport, sc, cs.Discard, cs.Inbound, d.Sig)
			if d.Sig == "sampled-at-0" || d.Sig == "not-sampled-at-100" {
				sig += " answer=" + answerClass(cs.Answer, cs.Percent)
			}
			fails = append(fails, failure{sig, fmt.Sprintf("request %d: %s [case %s]", i, d.What, desc)})
		}
		if i == n-1 {
			nt, ns := used()
			switch {
			case cs.Sampler == "adaptive":
				// only the first request's decision is classified, and only where it cannot depend
				// on elapsed time (answer 0, or sample size not yet reached)
				first := "time-dependent"
				if cs.Answer == 0 || cs.SampleSize > 1 {
					first = fmt.Sprint(firstTraced)
				}
				outcome = fmt.Sprintf("trace %s adaptive inbound=%s discard=%s first-request-traced=%s", cs.Transport, cs.Inbound, cs.Discard, first)
			case sc == "fixed-mid":
				outcome = fmt.Sprintf("trace %s %s inbound=%s discard=%s answer<p=%v traced=%v intn=%d parent=%v idfuncs-used=%d/%d", cs.Transport, sc, cs.Inbound, cs.Discard, cs.Answer < cs.Percent, o.traced(), calls, o.HasParent, nt, ns)
			default:
				outcome = fmt.Sprintf("trace %s %s inbound=%s discard=%s traced=%v intn=%d parent=%v idfuncs-used=%d/%d", cs.Transport, sc, cs.Inbound, cs.Discard, o.traced(), calls, o.HasParent, nt, ns)
			}
		}
	}
	return fails, outcome
}

func runTrace(c *core.Ctx) {
	percents := []int{0, 1, 50, 99, 100}
	if c.Thorough() {
		percents = percents[:0]
		for p := 0; p <= 100; p++ {
			percents = append(percents, p)
		}
	}
	adaptiveAnswers := []int{0, 1, 2, 4999, 5000, 9998, 9999}
	transports := []string{"h", "u", "s"}
	discards := []string{"none", "match", "nomatch"}
	idfuncs := []string{"default", "counters"}
	inbounds := []string{"none", "trace", "trace+parent", "parent-only"}
	c.Note("trace_alphabet", map[string]any{"percents": len(percents), "answers_fixed": 100, "adaptive_params": "maxRate{1,2} x sampleSize{1,2,3}",
		"answers_adaptive": len(adaptiveAnswers), "transports": transports, "discards": discards, "id_funcs": idfuncs, "inbound": inbounds})
	var cases int64
	one := func(cs traceCase) {
		key, _ := json.Marshal(cs)
		c.State("trace:"+string(key), cs.Inbound != "none")
		fails, outcome := checkTrace(cs)
		c.Exec(int64(cs.Requests + len(cs.Seq)))
		noteOutcome(c, outcome)
		cases++
		if cases%4099 == 0 {
			c.Sample(replayCase{Part: "trace", Trace: &cs})
		}
		if len(fails) > 0 {
			cc := cs
			report(c, fails, replayCase{Part: "trace", Trace: &cc}, func() []failure { f, _ := checkTrace(cc); return f })
		}
	}
	for _, tr := range transports {
		for _, p := range percents {
			if c.Expired() {
				c.Incomplete(fmt.Sprintf("trace: stopped at transport=%s percent=%d", tr, p))
				return
			}
			for _, d := range discards {
				for _, idf := range idfuncs {
					for _, in := range inbounds {
						for a := 0; a < 100; a++ {
							one(traceCase{Transport: tr, Sampler: "fixed", Percent: p, Discard: d, IDFuncs: idf, Inbound: in, Answer: a, Requests: 1})
						}
					}
				}
			}
		}
		for _, rate := range []int{1, 2} {
			for _, size := range []int{1, 2, 3} {
				for _, d := range discards {
					for _, idf := range idfuncs {
						for _, in := range inbounds {
							for _, a := range adaptiveAnswers {
								for n := 1; n <= size+1; n++ {
									one(traceCase{Transport: tr, Sampler: "adaptive", MaxRate: rate, SampleSize: size, Discard: d, IDFuncs: idf, Inbound: in, Answer: a, Requests: n})
								}
							}
						}
					}
				}
			}
		}
	}
	// request sequences through one mounted middleware instance: every sequence of length
	// <= 3 over {discarded, other path} x {no inbound trace, inbound trace}, exact percentages
	alphabet := []string{"d:none", "n:none", "d:trace", "n:trace+parent"}
	var seqs [][]string
	var grow func(prefix []string)
	grow = func(prefix []string) {
		if len(prefix) > 0 {
			seqs = append(seqs, append([]string{}, prefix...))
		}
		if len(prefix) == 3 {
			return
		}
		for _, a := range alphabet {
			grow(append(prefix, a))
		}
	}
	grow(nil)
	var nseq int64
	for _, tr := range transports {
		for _, p := range []int{0, 100} {
			for _, sq := range seqs {
				one(traceCase{Transport: tr, Sampler: "fixed", Percent: p, Discard: "match", IDFuncs: "counters", Answer: 50, Seq: sq})
				nseq++
			}
		}
	}
	c.Note("trace_sequence_cases(one mounted instance, sequences <= 3 over 4 request kinds)", nseq)
	c.Note("trace_cases", cases)
}

// ---- samplers called directly -------------------------------------------------------------

type samplerCase struct {
	Kind       string `json:"kind"` // fixed | fixed-options | adaptive
	Percent    int    `json:"percent"`
	MaxRate    int    `json:"max_rate,omitempty"`
	SampleSize int    `json:"sample_size,omitempty"`
	Answer     int    `json:"answer"`
	Calls      int    `json:"calls"` // consecutive Sample() calls, the last one is judged
}

func checkSampler(cs samplerCase) (fails []failure, outcome string) {
	var s middleware.Sampler
	switch cs.Kind {
	case "fixed":
		s = middleware.NewFixedSampler(cs.Percent)
	case "fixed-options":
		s = middleware.NewTraceOptions(middleware.SamplingPercent(cs.Percent)).NewSampler()
	case "adaptive":
		s = middleware.NewAdaptiveSampler(cs.MaxRate, cs.SampleSize)
	}
	setAnswer(cs.Answer)
	var got bool
	for i := 0; i < cs.Calls; i++ {
		got = s.Sample()
	}
	calls := intnCalls()
	if cs.Kind == "adaptive" {
		switch {
		case cs.Calls < cs.SampleSize:
			return nil, fmt.Sprintf("sampler adaptive before-first-adjustment sampled=%v", got)
		case cs.Answer == 0:
			return nil, fmt.Sprintf("sampler adaptive adjusted answer=0 sampled=%v", got)
		}
		return nil, "sampler adaptive adjusted answer>0 (decision depends on elapsed time: not classified)"
	}
	desc, _ := json.Marshal(cs)
	switch {
	case cs.Percent == 0 && got:
		fails = append(fails, failure{fmt.Sprintf("sampler kind=%s percent=0 observed=sampled answer=%s", cs.Kind, answerClass(cs.Answer, 0)),
			fmt.Sprintf("Sample() is true at 0%% when the random source answers %d [case %s]", cs.Answer, desc)})
	case cs.Percent == 100 && !got:
		fails = append(fails, failure{fmt.Sprintf("sampler kind=%s percent=100 observed=not-sampled answer=%s", cs.Kind, answerClass(cs.Answer, 100)),
			fmt.Sprintf("Sample() is false at 100%% when the random source answers %d [case %s]", cs.Answer, desc)})
	}
	pc := "mid"
	if cs.Percent == 0 || cs.Percent == 100 {
		pc = fmt.Sprint(cs.Percent)
	}
	return fails, fmt.Sprintf("sampler %s p=%s sampled=%v iff-answer<p=%v intn-calls=%d", cs.Kind, pc, got, got == (cs.Answer < cs.Percent), calls)
}

func runSampler(c *core.Ctx) {
	var cases int64
	one := func(cs samplerCase) {
		key, _ := json.Marshal(cs)
		c.State("sampler:"+string(key), true)
		fails, outcome := checkSampler(cs)
		c.Exec(int64(cs.Calls))
		noteOutcome(c, outcome)
		cases++
		if cases%5003 == 0 {
			c.Sample(replayCase{Part: "sampler", Sampler: &cs})
		}
		if len(fails) > 0 {
			cc := cs
			report(c, fails, replayCase{Part: "sampler", Sampler: &cc}, func() []failure { f, _ := checkSampler(cc); return f })
		}
	}
	for _, kind := range []string{"fixed", "fixed-options"} {
		for p := 0; p <= 100; p++ {
			for a := 0; a < 100; a++ {
				for _, n := range []int{1, 3} {
					one(samplerCase{Kind: kind, Percent: p, Answer: a, Calls: n})
				}
			}
		}
	}
	answers := []int{0, 1, 2, 4999, 5000, 9998, 9999}
	if c.Thorough() {
		answers = answers[:0]
		for a := 0; a < 10000; a++ {
			answers = append(answers, a)
		}
	}
	for _, rate := range []int{1, 2, 3} {
		for _, size := range []int{1, 2, 3} {
			for _, a := range answers {
				for n := 1; n <= size+1; n++ {
					one(samplerCase{Kind: "adaptive", MaxRate: rate, SampleSize: size, Answer: a, Calls: n})
				}
			}
		}
	}
	c.Note("sampler_cases", cases)
	c.Note("sampler_bounds", fmt.Sprintf("fixed: every percent 0..100 x every answer 0..99 x {1,3} calls, via NewFixedSampler and via TraceOptions.NewSampler; adaptive: maxRate 1..3 x sampleSize 1..3 x %d answers x 1..size+1 calls (outcomes only)", len(answers)))
}

package main

// Driver half of the C19 check.
//
// The sampler's random source is the unexported package variable `intn` of
// goa.design/goa/v3/middleware. The check reaches it through an additive export file
// (`//go:build verif`) that is placed next to sampler.go with `go build -overlay`; /repo is
// never touched. `./run.sh C19 <tier>` builds this package without the `c19overlay` tag: that
// binary is only a driver which writes the overlay under /verif/.work/c19/, rebuilds this very
// package with `-tags verif,c19overlay -overlay ...` and replaces itself with the result.
// An overlay already present in GOFLAGS or named by VERIF_OVERLAY (how mutants and candidate
// patches are applied) is merged into the driver's overlay, not dropped.

import (
	"encoding/json"
	"fmt"
	"os"
	"os/exec"
	"path/filepath"
	"strings"
	"syscall"

	"verif/core"
)

const exportSrc = `//go:build verif

package middleware

// VerifSetIntn replaces the random source of the samplers (seam for the C19 check) and
// returns a function restoring the previous one.
func VerifSetIntn(f func(int) int) (restore func()) {
	old := intn
	intn = f
	return func() { intn = old }
}
`

func harnessFail(format string, a ...any) {
	fmt.Fprintf(os.Stderr, "HARNESS-ERROR C19: "+format+"\n", a...)
	os.Exit(2)
}

func driverMain() {
	root := core.Root()
	work := filepath.Join(root, ".work", "c19")
	if err := os.MkdirAll(work, 0o755); err != nil {
		harnessFail("mkdir %s: %v", work, err)
	}
	env, goflags := buildEnv()

	// merge an overlay given through GOFLAGS (mutants) into ours
	replace := map[string]string{}
	var kept []string
	fields := strings.Fields(goflags)
	if p := os.Getenv("VERIF_OVERLAY"); p != "" { // survives run.sh, which resets GOFLAGS
		fields = append(fields, "-overlay="+p)
	}
	for _, f := range fields {
		if p, ok := strings.CutPrefix(f, "-overlay="); ok {
			b, err := os.ReadFile(p)
			if err != nil {
				harnessFail("overlay %s from GOFLAGS: %v", p, err)
			}
			var o struct{ Replace map[string]string }
			if err := json.Unmarshal(b, &o); err != nil {
				harnessFail("overlay %s from GOFLAGS: %v", p, err)
			}
			for k, v := range o.Replace {
				replace[k] = v
			}
			continue
		}
		kept = append(kept, f)
	}
	env = setEnv(env, "GOFLAGS", strings.Join(kept, " "))

	// run.sh points the build at another goa tree (VERIF_REPO) through an alternate go.mod
	var modflag []string
	if mf := os.Getenv("VERIF_MODFILE"); mf != "" {
		modflag = []string{"-modfile=" + mf}
	}
	cmd := exec.Command("go", append(append([]string{"list"}, modflag...), "-f", "{{.Dir}}", "goa.design/goa/v3/middleware")...)
	cmd.Dir, cmd.Env, cmd.Stderr = root, env, os.Stderr
	out, err := cmd.Output()
	if err != nil {
		harnessFail("cannot locate goa.design/goa/v3/middleware: %v", err)
	}
	mwDir := strings.TrimSpace(string(out))

	suffix := fmt.Sprint(os.Getpid())
	exportFile := filepath.Join(work, "zz_verif_export.go")
	if err := writeAtomic(exportFile, []byte(exportSrc), suffix); err != nil {
		harnessFail("%v", err)
	}
	replace[filepath.Join(mwDir, "zz_verif_export.go")] = exportFile
	ob, _ := json.MarshalIndent(map[string]any{"Replace": replace}, "", " ")
	overlay := filepath.Join(work, "overlay."+suffix+".json")
	if err := os.WriteFile(overlay, ob, 0o644); err != nil {
		harnessFail("%v", err)
	}
	defer os.Remove(overlay)

	inner := filepath.Join(work, "c19.inner."+suffix)
	build := exec.Command("go", append(append([]string{"build"}, modflag...), "-tags", "verif,c19overlay", "-overlay", overlay, "-o", inner, "./cmd/c19")...)
	build.Dir, build.Env = root, env
	if log, err := build.CombinedOutput(); err != nil {
		os.Remove(overlay)
		fmt.Fprintf(os.Stderr, "%s", log)
		harnessFail("inner harness does not build against the goa tree (overlay %v): %v", replace, err)
	}
	os.Remove(overlay)
	fmt.Fprintf(os.Stderr, "C19 driver: inner harness built against %s\n", filepath.Dir(mwDir))
	// the inner binary is private to this run (concurrent runs against different trees must
	// not exec each other's build); it unlinks itself when it starts (see main)
	args := append([]string{inner}, os.Args[1:]...)
	if err := syscall.Exec(inner, args, os.Environ()); err != nil {
		harnessFail("exec %s: %v", inner, err)
	}
}

func writeAtomic(path string, b []byte, suffix string) error {
	tmp := path + "." + suffix
	if err := os.WriteFile(tmp, b, 0o644); err != nil {
		return err
	}
	return os.Rename(tmp, path)
}

// buildEnv returns the environment for the go tool: the offline settings of run.sh are added
// when the caller (e.g. a MANIFEST command running ./bin/c19 directly) did not set them.
func buildEnv() (env []string, goflags string) {
	env = os.Environ()
	goflags = os.Getenv("GOFLAGS")
	if !strings.Contains(goflags, "-mod=") {
		goflags = strings.TrimSpace("-mod=mod " + goflags)
	}
	for k, v := range map[string]string{"GOPROXY": "off", "GOSUMDB": "off", "GOTOOLCHAIN": "local"} {
		if os.Getenv(k) == "" {
			env = setEnv(env, k, v)
		}
	}
	return env, goflags
}

func setEnv(env []string, k, v string) []string {
	out := make([]string, 0, len(env)+1)
	for _, e := range env {
		if !strings.HasPrefix(e, k+"=") {
			out = append(out, e)
		}
	}
	return append(out, k+"="+v)
}

// C19 — request-ID and trace middlewares propagate identifiers end to end.
//
// Four exhaustively enumerated spaces, every element executed against the real goa middlewares
// (goa.design/goa/v3/{middleware,http/middleware,grpc/middleware}):
//
//	A reqid    option lists x configured header name spelling x spelling the client sends x limit x
//	           inbound header/metadata values, HTTP (net/http parser, real server) / gRPC unary / gRPC stream
//	B trace    sampler options x discard x ID functions x inbound trace headers x EVERY answer of
//	           the samplers' random source (seam `intn`, reached through a build overlay)
//	C chains   every call chain of depth 1..4 over 4 hop kinds (mixed transports), per-hop
//	           sampling 0/100, server middleware -> handler -> goa traced client -> next hop
//	D capture  every handler behaviour (sequences over WriteHeader/Write/Flush) behind
//	           ResponseCapture and behind the Log middleware that reports it, over every underlying
//	           writer of the environment menu (recorder, short writers, real net/http writer that
//	           refuses bodies after 204/304/101 and beyond a declared Content-Length)
//
// Oracle (from the property statement only): see the judge* functions; anything the statement
// is silent about (adaptive sampling decisions, intermediate percentages, discards, request-ID
// along chains, status when nothing was written) is recorded as an outcome, never asserted.
package main

import (
	crand "crypto/rand"
	"encoding/binary"
	"fmt"
	"os"
	"path/filepath"
	"strings"
	"sync/atomic"

	"verif/core"
)

type failure struct{ Sig, What string }

// ctrReader replaces crypto/rand.Reader: goa's shortID() then yields a deterministic sequence
// of distinct identifiers (environment answer put behind a seam; no randomness in the run).
type ctrReader struct{ n uint64 }

func (r *ctrReader) Read(p []byte) (int, error) {
	v := atomic.AddUint64(&r.n, 1)
	var b [8]byte
	binary.BigEndian.PutUint64(b[:], v)
	for i := range p {
		// low-order bytes last, so that a 6-byte read is injective for < 2^48 reads
		j := 8 - len(p) + i
		if j >= 0 {
			p[i] = b[j]
		} else {
			p[i] = 0
		}
	}
	return len(p), nil
}

// the intn seam: one preset answer, call count and last argument.
var seam struct{ answer, calls, lastN int64 }

func seamIntn(n int) int {
	atomic.AddInt64(&seam.calls, 1)
	atomic.StoreInt64(&seam.lastN, int64(n))
	a := int(atomic.LoadInt64(&seam.answer))
	if a >= n {
		a = n - 1
	}
	return a
}

func setAnswer(a int) { atomic.StoreInt64(&seam.answer, int64(a)); atomic.StoreInt64(&seam.calls, 0) }
func intnCalls() int  { return int(atomic.LoadInt64(&seam.calls)) }

func installSeams() {
	crand.Reader = &ctrReader{}
	installIntn(seamIntn)
}

// idSet is the freshness registry of one case: inbound identifiers plus everything issued so far.
type idSet map[string]bool

// fresh reports whether id was never seen in this case, and records it.
func (s idSet) fresh(id string) bool {
	if s[id] {
		return false
	}
	s[id] = true
	return true
}

// noteOutcome records an outcome class with core and in a per-part table that is written to the
// evidence notes (core omits its own table when there are more than 64 classes).
var outcomeTables = map[string]map[string]int64{}

func noteOutcome(c *core.Ctx, class string) {
	c.Outcome(class)
	part := class
	if i := strings.IndexByte(class, ' '); i > 0 {
		part = class[:i]
	}
	t := outcomeTables[part]
	if t == nil {
		t = map[string]int64{}
		outcomeTables[part] = t
	}
	t[class]++
}

type replayCase struct {
	Part    string       `json:"part"`
	ReqID   *reqidCase   `json:"reqid,omitempty"`
	Trace   *traceCase   `json:"trace,omitempty"`
	Sampler *samplerCase `json:"sampler,omitempty"`
	Chain   *chainCase   `json:"chain,omitempty"`
	Capture *captureCase `json:"capture,omitempty"`
}

// report turns oracle failures of one case into violations with a re-execution closure.
func report(c *core.Ctx, fails []failure, rc replayCase, again func() []failure) {
	for _, f := range fails {
		sig := f.Sig
		c.Violation(sig, f.What, rc, func() bool {
			for _, g := range again() {
				if g.Sig == sig {
					return true
				}
			}
			return false
		})
	}
}

func run(c *core.Ctx) {
	installSeams()
	c.Rule("four complete products, one state per distinct case: (A) request-ID option list x configured header name (5 spellings of 2 base names) x spelling the client sends x limit x inbound values x transport, " +
		"(B) trace options x inbound trace headers x transport x every answer of the sampler's random source, " +
		"(C) every call chain of depth 1..4 over the hop-kind alphabet x per-hop sampling x inbound (state = kinds + normalised (trace,span,parent) per hop), " +
		"(D) every sequence of response-writer operations up to the bound x observation point x underlying writer (recorder; short-writer models at every cut-off point; real net/http writer with a declared Content-Length / no-body status). One request through a goa middleware / traced client = one transition. " +
		"Non-trivial = an inbound identifier is present (A,B), the chain has >= 2 hops (C), the handler commits a response (D).")
	c.Assume("crypto/rand.Reader is replaced by a counter so that goa's shortID() is deterministic and injective; freshness is judged per case against inbound and earlier identifiers")
	c.Assume("the samplers' random source is the package variable middleware.intn, replaced through an additive //go:build verif export file injected with go build -overlay (/repo untouched)")
	c.Assume("which header is 'configured to trust' is the left-to-right fold of the option list as documented on the options: UseRequestIDOption(f) selects X-Request-Id and sets trust=f, RequestIDHeaderOption(n) selects n and sets trust=true, limit <= 0 means no limit")
	c.Assume("'truncated to the limit': the limit is a length and the length of a header / metadata value is its number of bytes (goa: 'truncating the request ID ... at the specified length', 'limiting x-request-id metadata length'), so the reference is the first min(len, limit) bytes of the inbound value, byte for byte, also when the cut falls inside a multi-byte character or the bytes are not UTF-8 (an earlier version of this check also accepted a rune-count truncation: that tolerance was not in the statement and is gone)")
	c.Assume("inbound values with bytes >= 0x80 (multi-byte UTF-8, Latin-1, opaque bytes): legal obs-text in HTTP field values, carried unchanged by net/http's parser, server and client (real parser for every case, real server for a sub-product); on gRPC they are placed in the incoming metadata.MD directly (metadata.Pairs accepts any byte string and the grpc-go server does not validate inbound values; grpc-go's own client refuses to send bytes outside 0x20..0x7E under a non '-bin' key, so such values arrive from other clients / proxies only)")
	c.Assume("the gRPC middleware documents the fixed key x-request-id, so gRPC + RequestIDHeaderOption(custom) gets only the weak oracle (ID is a truncation of an inbound value or fresh)")
	c.Assume("quick/chain hops are in-process: HTTP hops are handler.ServeHTTP on a fresh request carrying only the headers the traced client sent; gRPC hops are interceptors called directly, outgoing metadata of the client interceptor becomes the incoming metadata of the next hop (validated over real servers in the thorough tier)")
	c.Assume("what was 'actually written' is what the writer under the capture saw: the counts its Write returned (recorded by a harness spy) and what the httptest.ResponseRecorder kept / the real net/http client received; the short-writer models commit the status with the first WriteHeader(final)/Write/Flush as net/http does and answer a refused Write with (bytes taken, io.ErrShortWrite); HEAD requests (net/http accepts and discards the body) are not in the space; when the handler writes nothing the status is not asserted")
	c.Assume("HTTP request-ID cases are raw request text read by net/http's request parser (http.ReadRequest), which is what turns the client's spelling of a header name into the key a handler sees; a sub-product goes through a real net/http server and client; gRPC metadata is built with metadata.Pairs (grpc lower-cases keys); a custom name that differs from X-Request-Id only by its spelling designates the same header (header names are case-insensitive)")

	runReqID(c)
	runSampler(c)
	runTrace(c)
	runChains(c)
	runCapture(c)
	if c.Thorough() {
		runReal(c)
	}
	for part, t := range outcomeTables {
		c.Note("outcomes_"+part, t)
	}
}

func replay(c *core.Ctx, path string) {
	installSeams()
	var rc replayCase
	if err := core.ReplayCase(path, &rc); err != nil {
		c.HarnessError("cannot load replay %s: %v", path, err)
		return
	}
	var fails []failure
	var outcome string
	switch {
	case rc.ReqID != nil:
		fails, outcome = checkReqID(*rc.ReqID)
	case rc.Trace != nil:
		fails, outcome = checkTrace(*rc.Trace)
	case rc.Sampler != nil:
		fails, outcome = checkSampler(*rc.Sampler)
	case rc.Chain != nil:
		var n int
		fails, outcome, _, n = checkChain(*rc.Chain)
		_ = n
	case rc.Capture != nil:
		fails, outcome = checkCapture(*rc.Capture)
	default:
		c.HarnessError("replay %s: no case", path)
		return
	}
	c.Exec(1)
	fmt.Printf("replay part=%s outcome=%s failures=%d\n", rc.Part, outcome, len(fails))
	for _, f := range fails {
		fmt.Printf("  %s: %s\n", f.Sig, f.What)
		c.Violation(f.Sig, f.What, rc, nil)
	}
}

func main() {
	if !haveSeam {
		driverMain()
		return
	}
	// the driver built this binary for this run only
	if exe, err := os.Executable(); err == nil && strings.HasPrefix(filepath.Base(exe), "c19.inner.") {
		_ = os.Remove(exe)
	}
	core.Main("C19", run, replay)
}

//go:build !c19overlay

package main

// Built without the overlay: this binary is only the driver (see driver.go).
const haveSeam = false

func installIntn(func(int) int) {
	panic("c19: built without the overlay export; the driver must rebuild with -tags c19overlay")
}

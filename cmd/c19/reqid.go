package main

// Part A — request-ID middleware.
//
// Alphabet: option atoms U1=UseRequestID(true), U0=UseRequestID(false), C=RequestIDHeader(custom);
// option lists = every sequence of length 0..2 over the atoms (13), the limit option absent or
// present (first or last in the list) with limit from {0,1,len-1,len,len+1} (bytes and runes) of
// the inbound value; inbound: one header carries a value from {absent,"",short,longer,multi-byte},
// the other header is absent or carries a decoy; both placements; HTTP, gRPC unary, gRPC stream.
// Header-name dimension: the configured custom name is one of the spellings {canonical,
// upper-case last word ("...-ID"), all lower-case, all upper-case, mixed (case-swapped)} of two
// base names — "Custom-Id" and "X-Request-Id" itself (a custom name that only differs from the
// default by its spelling) — and the client sends the header that carries the value under each
// of the same five spellings of that header's name. HTTP requests are built as raw request
// text and read by net/http's own request parser (http.ReadRequest), so what the middleware
// sees is what a net/http server hands to a handler; a sub-product is also sent through a real
// net/http server by a real client (via=server). gRPC metadata is built with metadata.Pairs,
// the API through which grpc lower-cases keys.
// Every case is sent twice through the same middleware instance.
// Oracle: the handler's context carries a non-empty string request ID; it is the trusted
// inbound value truncated to the limit when the configuration trusts a header and that header
// carries a non-empty value, a fresh identifier (never seen, not derived from any inbound
// value) otherwise.

import (
	"bufio"
	"context"
	"encoding/json"
	"fmt"
	"io"
	"net/http"
	"net/http/httptest"
	"strings"
	"sync"
	"unicode"
	"unicode/utf8"

	grpcm "goa.design/goa/v3/grpc/middleware"
	httpm "goa.design/goa/v3/http/middleware"
	"goa.design/goa/v3/middleware"
	"google.golang.org/grpc"
	"google.golang.org/grpc/metadata"

	"verif/core"
)

type reqidCase struct {
	Transport  string   `json:"transport"` // http | grpc-unary | grpc-stream
	Opts       []string `json:"opts"`      // U1 | U0 | C, applied in order
	CustomName string   `json:"custom_name"`
	Limit      *int     `json:"limit"` // nil: no limit option
	LimitFirst bool     `json:"limit_first"`
	X          *string  `json:"x_request_id"` // value under X-Request-Id / x-request-id, nil = absent
	C          *string  `json:"custom"`       // value under the custom name, nil = absent
	// spelling of the header / metadata key names as the client sends them ("" = canonical
	// MIME form of X-Request-Id / of the custom name)
	SentX string `json:"sent_x,omitempty"`
	SentC string `json:"sent_c,omitempty"`
	Via   string `json:"via,omitempty"` // http only: "" = net/http request parser in process, "server" = real server and client
}

const defaultReqIDHeader = "X-Request-Id"

// spellingKinds is the menu of spellings of a header name (configured and sent).
var spellingKinds = []string{"canonical", "upper-suffix", "lower", "upper", "mixed"}

// spell returns the given spelling of a header name.
func spell(base, kind string) string {
	canon := http.CanonicalHeaderKey(base)
	switch kind {
	case "upper-suffix": // X-Request-ID
		i := strings.LastIndexByte(canon, '-')
		return canon[:i+1] + strings.ToUpper(canon[i+1:])
	case "lower":
		return strings.ToLower(canon)
	case "upper":
		return strings.ToUpper(canon)
	case "mixed": // x-rEQUEST-iD
		return strings.Map(func(r rune) rune {
			if unicode.IsUpper(r) {
				return unicode.ToLower(r)
			}
			return unicode.ToUpper(r)
		}, canon)
	}
	return canon
}

// spellingClass names the spelling of a header name for signatures and outcome classes.
func spellingClass(name string) string {
	if name == "" {
		return "unset"
	}
	for _, k := range spellingKinds {
		if spell(name, k) == name {
			return k
		}
	}
	return "other"
}

// aliasOfDefault: the custom name designates the default header (differs at most in spelling;
// header names are case-insensitive), so there is one inbound header, carried in slot X.
func (cs reqidCase) aliasOfDefault() bool {
	return strings.EqualFold(cs.CustomName, defaultReqIDHeader)
}

func (cs reqidCase) sentX() string {
	if cs.SentX != "" {
		return cs.SentX
	}
	return defaultReqIDHeader
}

func (cs reqidCase) sentC() string {
	if cs.SentC != "" {
		return cs.SentC
	}
	return http.CanonicalHeaderKey(cs.CustomName)
}

// rawRequest is the request as the client puts it on the wire.
func (cs reqidCase) rawRequest() string {
	var sb strings.Builder
	sb.WriteString("GET /x HTTP/1.1\r\nHost: verif.test\r\n")
	if cs.X != nil {
		sb.WriteString(cs.sentX() + ": " + *cs.X + "\r\n")
	}
	if cs.C != nil {
		sb.WriteString(cs.sentC() + ": " + *cs.C + "\r\n")
	}
	sb.WriteString("\r\n")
	return sb.String()
}

type reqidObs struct {
	Calls    int
	Present  bool
	IsString bool
	ID       string
}

type fakeStream struct {
	grpc.ServerStream
	ctx context.Context
}

func (f *fakeStream) Context() context.Context { return f.ctx }

func (cs reqidCase) options() []middleware.RequestIDOption {
	var out []middleware.RequestIDOption
	limit := func() {
		if cs.Limit == nil {
			return
		}
		if cs.Transport == "http" {
			out = append(out, httpm.XRequestHeaderLimitOption(*cs.Limit))
		} else {
			out = append(out, grpcm.XRequestMetadataLimitOption(*cs.Limit))
		}
	}
	if cs.LimitFirst {
		limit()
	}
	for _, a := range cs.Opts {
		switch a {
		case "U1", "U0":
			if cs.Transport == "http" {
				out = append(out, httpm.UseXRequestIDHeaderOption(a == "U1"))
			} else {
				out = append(out, grpcm.UseXRequestIDMetadataOption(a == "U1"))
			}
		case "C":
			if cs.Transport == "http" {
				out = append(out, httpm.RequestIDHeaderOption(cs.CustomName))
			} else {
				out = append(out, middleware.RequestIDHeaderOption(cs.CustomName))
			}
		}
	}
	if !cs.LimitFirst {
		limit()
	}
	return out
}

func observeReqID(ctx context.Context, o *reqidObs) {
	o.Calls++
	v := ctx.Value(middleware.RequestIDKey)
	if v == nil {
		return
	}
	o.Present = true
	o.ID, o.IsString = v.(string)
}

// execReqID sends the case's request n times through one middleware instance (real goa code).
func execReqID(cs reqidCase, n int) ([]reqidObs, error) {
	obs := make([]reqidObs, n)
	opts := cs.options()
	switch cs.Transport {
	case "http":
		mw := httpm.RequestID(opts...)
		for i := range obs {
			o := &obs[i]
			h := mw(http.HandlerFunc(func(w http.ResponseWriter, r *http.Request) { observeReqID(r.Context(), o) }))
			if cs.Via == "server" {
				if err := reqidOverServer(cs, h); err != nil {
					return nil, err
				}
				continue
			}
			// net/http's own request parser turns the wire text into the *http.Request a server
			// hands to its handler (header names in canonical form, whatever the client sent)
			req, err := http.ReadRequest(bufio.NewReader(strings.NewReader(cs.rawRequest())))
			if err != nil {
				return nil, fmt.Errorf("net/http does not parse the request: %v", err)
			}
			h.ServeHTTP(httptest.NewRecorder(), req)
		}
	case "grpc-unary", "grpc-stream":
		mkctx := func() context.Context {
			ctx := context.Background()
			if cs.X == nil && cs.C == nil {
				return ctx // no incoming metadata at all
			}
			// metadata.Pairs is how an application hands keys to grpc: it lower-cases them, which
			// is also the only form HTTP/2 carries
			var kv []string
			if cs.X != nil {
				kv = append(kv, cs.sentX(), *cs.X)
			}
			if cs.C != nil {
				kv = append(kv, cs.sentC(), *cs.C)
			}
			return metadata.NewIncomingContext(ctx, metadata.Pairs(kv...))
		}
		if cs.Transport == "grpc-unary" {
			ic := grpcm.UnaryRequestID(opts...)
			for i := range obs {
				o := &obs[i]
				_, _ = ic(mkctx(), "req", &grpc.UnaryServerInfo{FullMethod: "/svc.S/M"}, func(ctx context.Context, req any) (any, error) {
					observeReqID(ctx, o)
					return "resp", nil
				})
			}
		} else {
			ic := grpcm.StreamRequestID(opts...)
			for i := range obs {
				o := &obs[i]
				_ = ic(nil, &fakeStream{ctx: mkctx()}, &grpc.StreamServerInfo{FullMethod: "/svc.S/M"}, func(srv any, ss grpc.ServerStream) error {
					observeReqID(ss.Context(), o)
					return nil
				})
			}
		}
	}
	return obs, nil
}

// ---- the same request through a real net/http server and client ---------------------------

var reqidSrv struct {
	mu  sync.Mutex
	srv *httptest.Server
	cur http.Handler // handler of the case in flight (cases are sent one at a time)
}

func reqidServer() *httptest.Server {
	if reqidSrv.srv == nil {
		reqidSrv.srv = httptest.NewServer(http.HandlerFunc(func(w http.ResponseWriter, r *http.Request) {
			reqidSrv.mu.Lock()
			h := reqidSrv.cur
			reqidSrv.mu.Unlock()
			h.ServeHTTP(w, r)
		}))
	}
	return reqidSrv.srv
}

func closeReqidServer() {
	if reqidSrv.srv != nil {
		reqidSrv.srv.Close()
		reqidSrv.srv = nil
	}
}

func reqidOverServer(cs reqidCase, h http.Handler) error {
	srv := reqidServer()
	reqidSrv.mu.Lock()
	reqidSrv.cur = h
	reqidSrv.mu.Unlock()
	req, err := http.NewRequest("GET", srv.URL+"/x", nil)
	if err != nil {
		return err
	}
	// assigning the map entry keeps the spelling: net/http's client writes keys as they are
	if cs.X != nil {
		req.Header[cs.sentX()] = []string{*cs.X}
	}
	if cs.C != nil {
		req.Header[cs.sentC()] = []string{*cs.C}
	}
	resp, err := srv.Client().Do(req)
	if err != nil {
		return err
	}
	_, _ = io.Copy(io.Discard, resp.Body)
	return resp.Body.Close()
}

type truncation struct{ S, How string }

// truncations returns the identifiers accepted as "v truncated to limit".
func truncations(v string, limit int) []truncation {
	if limit <= 0 {
		return []truncation{{v, "whole"}}
	}
	var out []truncation
	add := func(s, how string) {
		if s == v {
			how = "whole"
		}
		for _, x := range out {
			if x.S == s {
				return
			}
		}
		out = append(out, truncation{s, how})
	}
	// bytes
	if len(v) > limit {
		add(v[:limit], "bytes")
	} else {
		add(v, "whole")
	}
	// runes
	if utf8.RuneCountInString(v) > limit {
		n, cut := 0, len(v)
		for i := range v {
			if n == limit {
				cut = i
				break
			}
			n++
		}
		add(v[:cut], "runes")
	} else {
		add(v, "whole")
	}
	// longest rune-aligned prefix within the byte limit
	if len(v) > limit {
		i := limit
		for i > 0 && !utf8.RuneStart(v[i]) {
			i--
		}
		if i > 0 {
			add(v[:i], "rune-aligned")
		}
	}
	return out
}

func valueClass(v *string) string {
	switch {
	case v == nil:
		return "absent"
	case *v == "":
		return "empty"
	case len(*v) != utf8.RuneCountInString(*v):
		return "multibyte"
	}
	return "ascii"
}

func limitClass(limit *int, v string) string {
	switch {
	case limit == nil:
		return "unset"
	case *limit == 0:
		return "zero"
	case *limit < len(v):
		return "below-len"
	case *limit == len(v):
		return "equal-len"
	}
	return "above-len"
}

// refConfig is the reference fold of the option list (documented option semantics).
func (cs reqidCase) refConfig() (trust bool, header string, limit int) {
	for _, a := range cs.Opts {
		switch a {
		case "U1":
			trust, header = true, "X-Request-Id"
		case "U0":
			trust, header = false, "X-Request-Id"
		case "C":
			trust, header = true, cs.CustomName
		}
	}
	if cs.Limit != nil && *cs.Limit > 0 {
		limit = *cs.Limit
	}
	return
}

func nonEmptyPrefixOf(id string, v *string) bool {
	return v != nil && id != "" && strings.HasPrefix(*v, id)
}

// checkReqID executes one case and applies the oracle.
func checkReqID(cs reqidCase) (fails []failure, outcome string) {
	obs, err := execReqID(cs, 2)
	if err != nil {
		return []failure{{"reqid transport=" + cs.Transport + " observed=harness-error", err.Error()}}, "error"
	}
	trust, header, limit := cs.refConfig()
	custom := trust && !strings.EqualFold(header, defaultReqIDHeader)
	var trusted *string
	if trust {
		if custom {
			trusted = cs.C
		} else {
			trusted = cs.X
		}
	}
	ambiguous := custom && cs.Transport != "http"
	hdrClass := "none"
	if trust {
		hdrClass = "default"
		if custom {
			hdrClass = "custom"
		}
	}
	tv := ""
	if trusted != nil {
		tv = *trusted
	}
	// the limit class is part of the signature only for truncation deviations
	nameClass := "default" // spelling class of the configured name of the trusted header
	if trust && header != defaultReqIDHeader {
		nameClass = spellingClass(header)
	}
	sigBase := fmt.Sprintf("reqid transport=%s trust=%v header=%s name=%s inbound=%s", cs.Transport, trust, hdrClass, nameClass, valueClass(trusted))
	desc, _ := json.Marshal(cs)
	add := func(observed, what string) {
		fails = append(fails, failure{sigBase + " observed=" + observed, what + " [case " + string(desc) + "]"})
	}
	addTrunc := func(observed, what, id string) {
		src := tv
		for _, v := range []*string{trusted, cs.X, cs.C} {
			if nonEmptyPrefixOf(id, v) {
				src = *v
				break
			}
		}
		add(observed+" limit="+limitClass(cs.Limit, src), what)
	}
	expect := "fresh"
	switch {
	case ambiguous:
		expect = "inbound-or-fresh(grpc-custom-name)"
	case trust && tv != "":
		expect = "inbound"
	}
	seen := idSet{}
	got := ""
	for i, o := range obs {
		switch {
		case o.Calls != 1:
			add(fmt.Sprintf("handler-calls-%d", o.Calls), fmt.Sprintf("request %d: wrapped handler called %d times", i, o.Calls))
			continue
		case !o.Present:
			add("id-missing", fmt.Sprintf("request %d: no request ID in the handler's context", i))
			continue
		case !o.IsString:
			add("id-not-string", fmt.Sprintf("request %d: request ID is not a string", i))
			continue
		case o.ID == "":
			add("id-empty", fmt.Sprintf("request %d: request ID is empty", i))
			continue
		}
		id := o.ID
		isTrunc := func(v *string) (bool, string) {
			if v == nil || *v == "" {
				return false, ""
			}
			for _, t := range truncations(*v, limit) {
				if t.S == id {
					return true, t.How
				}
			}
			return false, ""
		}
		derived := nonEmptyPrefixOf(id, cs.X) || nonEmptyPrefixOf(id, cs.C)
		var g string
		switch expect {
		case "inbound":
			ok, how := isTrunc(trusted)
			switch {
			case ok:
				g = "inbound-" + how
			case nonEmptyPrefixOf(id, trusted) && limit > 0 && len(id) > limit && utf8.RuneCountInString(id) > limit:
				g = "longer-than-limit"
				addTrunc(g, fmt.Sprintf("request %d: ID %q exceeds the limit %d (inbound %q)", i, id, limit, tv), id)
			case nonEmptyPrefixOf(id, trusted):
				g = "truncated-too-short"
				addTrunc(g, fmt.Sprintf("request %d: ID %q is a shorter prefix than the limit %d allows (inbound %q)", i, id, limit, tv), id)
			case derived:
				g = "other-header-used"
				add(g, fmt.Sprintf("request %d: ID %q comes from the header that is not the trusted one", i, id))
			default:
				g = "trusted-inbound-ignored"
				add(g, fmt.Sprintf("request %d: ID %q is not the trusted inbound value %q (limit %d)", i, id, tv, limit))
			}
		case "fresh":
			switch {
			case derived:
				g = "untrusted-inbound-used"
				add(g, fmt.Sprintf("request %d: ID %q is derived from an inbound value although no non-empty trusted value exists", i, id))
			case !seen.fresh(id):
				g = "not-fresh"
				add(g, fmt.Sprintf("request %d: ID %q was already issued to the previous request", i, id))
			default:
				g = "fresh"
			}
		default: // ambiguous: only the weak oracle
			okx, _ := isTrunc(cs.X)
			okc, _ := isTrunc(cs.C)
			switch {
			case okc:
				g = "custom-key-honoured"
			case okx:
				g = "x-request-id-honoured"
			case derived:
				g = "bad-truncation"
				addTrunc(g, fmt.Sprintf("request %d: ID %q is neither fresh nor an inbound value truncated to %d", i, id, limit), id)
			case !seen.fresh(id):
				g = "not-fresh"
				add(g, fmt.Sprintf("request %d: ID %q was already issued", i, id))
			default:
				g = "fresh"
			}
		}
		if i == 0 {
			got = g
		}
	}
	sent := "-" // spelling the client used for the header that carries the trusted value
	if trusted != nil {
		if custom {
			sent = spellingClass(cs.sentC())
		} else {
			sent = spellingClass(cs.sentX())
		}
	}
	via := ""
	if cs.Via != "" {
		via = " via=" + cs.Via
	}
	return fails, fmt.Sprintf("reqid %s%s expect=%s got=%s name=%s sent=%s", cs.Transport, via, expect, got, nameClass, sent)
}

func strp(s string) *string { return &s }
func intp(i int) *int       { return &i }

func optLists() [][]string {
	atoms := []string{"U1", "U0", "C"}
	out := [][]string{{}}
	for _, a := range atoms {
		out = append(out, []string{a})
	}
	for _, a := range atoms {
		for _, b := range atoms {
			out = append(out, []string{a, b})
		}
	}
	return out
}

// limitsFor returns the limit domain for an inbound value (nil = option absent).
func limitsFor(v *string, thorough bool) []*int {
	out := []*int{nil}
	seen := map[int]bool{}
	add := func(n int) {
		if n >= 0 && !seen[n] {
			seen[n] = true
			out = append(out, intp(n))
		}
	}
	if thorough {
		for n := 0; n <= 10; n++ {
			add(n)
		}
		return out
	}
	add(0)
	add(1)
	if v != nil {
		l, r := len(*v), utf8.RuneCountInString(*v)
		for _, n := range []int{l - 1, l, l + 1, r - 1, r, r + 1} {
			add(n)
		}
	} else {
		add(2)
	}
	return out
}

// reqidNames is the menu of configured custom header names: every spelling of the two bases.
func reqidNames() []string {
	var out []string
	for _, base := range []string{"Custom-Id", defaultReqIDHeader} {
		for _, k := range spellingKinds {
			out = append(out, spell(base, k))
		}
	}
	return out
}

func hasAtom(list []string, a string) bool {
	for _, x := range list {
		if x == a {
			return true
		}
	}
	return false
}

func runReqID(c *core.Ctx) {
	defer closeReqidServer()
	var values []*string
	names := reqidNames()
	if c.Thorough() {
		// every inbound length 0..10 against every limit 0..10 (covers limits 0..n, lengths 0..n+2 for n <= 8)
		values = append(values, nil)
		base := "ab.defghij"
		for n := 0; n <= len(base); n++ {
			values = append(values, strp(base[:n]))
		}
		multi := []string{"é", "é.", "a€", "€.b", "😀", "x😀.", "é€😀", "日本語.テキスト"}
		for _, m := range multi {
			values = append(values, strp(m))
		}
	} else {
		values = []*string{nil, strp(""), strp("r."), strp("req.7f3"), strp("request.id-0123456789abcdef"), strp("é€.x😀")}
	}
	decoys := []*string{nil, strp("decoy.value")}
	lists := optLists()
	transports := []string{"http", "grpc-unary", "grpc-stream"}
	c.Note("reqid_alphabet", map[string]any{"transports": len(transports), "option_lists": len(lists), "inbound_values": len(values),
		"configured_names": names, "name_spellings": spellingKinds,
		"sent_spellings": "the header carrying the value is sent under each of the 5 spellings of its name (the other header canonically)",
		"limits":         "option absent, 0, 1, len-1, len, len+1 of the inbound value in bytes and in runes (thorough: 0..10); limit option first or last",
		"trust":          "every option list of length 0..2 over {UseRequestID(true), UseRequestID(false), RequestIDHeader(name)}: trust on/off for the default and for each custom name"})
	var cases, serverCases int64
	one := func(cs reqidCase) {
		key, _ := json.Marshal(cs)
		c.State("reqid:"+string(key), (cs.X != nil && *cs.X != "") || (cs.C != nil && *cs.C != ""))
		fails, outcome := checkReqID(cs)
		if outcome == "error" {
			c.HarnessError("reqid case %s: %s", key, fails[0].What)
			return
		}
		c.Exec(2)
		noteOutcome(c, outcome)
		cases++
		if cs.Via == "server" {
			serverCases++
		}
		if cases%997 == 0 {
			c.Sample(replayCase{Part: "reqid", ReqID: &cs})
		}
		if len(fails) > 0 {
			cc := cs
			report(c, fails, replayCase{Part: "reqid", ReqID: &cc}, func() []failure { f, _ := checkReqID(cc); return f })
		}
	}
	for _, tr := range transports {
		for _, ol := range lists {
			// the custom name matters to the configuration only when the list has the option;
			// otherwise it only names the second (never trusted) header
			cns := names
			if !hasAtom(ol, "C") {
				cns = names[:1]
			}
			for _, cn := range cns {
				if c.Expired() {
					c.Incomplete(fmt.Sprintf("reqid: stopped at transport=%s opts=%v name=%s", tr, ol, cn))
					return
				}
				alias := strings.EqualFold(cn, defaultReqIDHeader)
				for vi, v := range values {
					for _, lim := range limitsFor(v, c.Thorough()) {
						for _, lf := range []bool{false, true} {
							if lim == nil && lf {
								continue
							}
							for _, d := range decoys {
								for _, primaryX := range []bool{true, false} {
									if alias && (d != nil || !primaryX) {
										continue // one header only: it is carried in slot X
									}
									base := cn
									if primaryX {
										base = defaultReqIDHeader
									}
									for _, sk := range spellingKinds {
										if v == nil && sk != "canonical" {
											continue // nothing is sent under that name
										}
										cs := reqidCase{Transport: tr, Opts: ol, CustomName: cn, Limit: lim, LimitFirst: lf}
										if primaryX {
											cs.X, cs.C, cs.SentX = v, d, spell(base, sk)
										} else {
											cs.X, cs.C, cs.SentC = d, v, spell(base, sk)
										}
										one(cs)
										// the same through a real server and client: one representative of
										// the value / decoy / option-order dimensions, everything else complete
										if tr == "http" && !lf && d == nil && v != nil && vi == len(values)/2 {
											cs.Via = "server"
											one(cs)
										}
									}
								}
							}
						}
					}
				}
			}
		}
	}
	c.Note("reqid_cases", cases)
	c.Note("reqid_cases_over_real_server", serverCases)
}

package main

// Part A — request-ID middleware.
//
// Alphabet: option atoms U1=UseRequestID(true), U0=UseRequestID(false), C=RequestIDHeader(custom);
// option lists = every sequence of length 0..2 over the atoms (13), the limit option absent or
// present (first or last in the list) with limit from {0,1,len-1,len,len+1} (bytes and runes) of
// the inbound value; inbound: one header carries a value from {absent,"",short,longer,multi-byte},
// the other header is absent or carries a decoy; both placements; HTTP, gRPC unary, gRPC stream.
// Header-name dimension: the configured custom name is one of the spellings {canonical,
// upper-case last word ("...-ID"), all lower-case, all upper-case, mixed (case-swapped)} of two
// base names — "Custom-Id" and "X-Request-Id" itself (a custom name that only differs from the
// default by its spelling) — and the client sends the header that carries the value under each
// of the same five spellings of that header's name. HTTP requests are built as raw request
// text and read by net/http's own request parser (http.ReadRequest), so what the middleware
// sees is what a net/http server hands to a handler; a sub-product is also sent through a real
// net/http server by a real client (via=server). gRPC metadata is built with metadata.Pairs,
// the API through which grpc lower-cases keys.
// Every case is sent twice through the same middleware instance.
// Oracle: the handler's context carries a non-empty string request ID; it is the trusted
// inbound value truncated to the limit — its first min(len, limit) BYTES, byte for byte — when
// the configuration trusts a header and that header carries a non-empty value, a fresh
// identifier (never seen, not derived from any inbound value) otherwise. On gRPC the ID the
// middleware writes back into the incoming metadata of the handler's context must be that
// same ID. Inbound values include multi-byte UTF-8 (limits falling inside a character) and
// bytes >= 0x80 that are not UTF-8 (see inboundValues).

import (
	"bufio"
	"context"
	"encoding/hex"
	"encoding/json"
	"fmt"
	"io"
	"net/http"
	"net/http/httptest"
	"strings"
	"sync"
	"unicode"
	"unicode/utf8"

	grpcm "goa.design/goa/v3/grpc/middleware"
	httpm "goa.design/goa/v3/http/middleware"
	"goa.design/goa/v3/middleware"
	"google.golang.org/grpc"
	"google.golang.org/grpc/metadata"

	"verif/core"
)

type reqidCase struct {
	Transport  string   `json:"transport"` // http | grpc-unary | grpc-stream
	Opts       []string `json:"opts"`      // U1 | U0 | C, applied in order
	CustomName string   `json:"custom_name"`
	Limit      *int     `json:"limit"` // nil: no limit option
	LimitFirst bool     `json:"limit_first"`
	X          *string  `json:"x_request_id"` // value under X-Request-Id / x-request-id, nil = absent
	C          *string  `json:"custom"`       // value under the custom name, nil = absent
	// spelling of the header / metadata key names as the client sends them ("" = canonical
	// MIME form of X-Request-Id / of the custom name)
	SentX string `json:"sent_x,omitempty"`
	SentC string `json:"sent_c,omitempty"`
	Via   string `json:"via,omitempty"` // http only: "" = net/http request parser in process, "server" = real server and client
}

// Header / metadata values are byte strings; JSON strings are not (encoding/json replaces bytes
// that are not UTF-8). A value that is not valid UTF-8 is written as {"hex": "..."} so that state
// keys stay injective and replay files re-execute the very bytes.
type reqidCaseJSON struct {
	Transport  string          `json:"transport"`
	Opts       []string        `json:"opts"`
	CustomName string          `json:"custom_name"`
	Limit      *int            `json:"limit"`
	LimitFirst bool            `json:"limit_first"`
	X          json.RawMessage `json:"x_request_id"`
	C          json.RawMessage `json:"custom"`
	SentX      string          `json:"sent_x,omitempty"`
	SentC      string          `json:"sent_c,omitempty"`
	Via        string          `json:"via,omitempty"`
}

func encodeValue(v *string) json.RawMessage {
	switch {
	case v == nil:
		return json.RawMessage("null")
	case utf8.ValidString(*v):
		b, _ := json.Marshal(*v)
		return b
	}
	b, _ := json.Marshal(map[string]string{"hex": hex.EncodeToString([]byte(*v))})
	return b
}

func decodeValue(raw json.RawMessage) (*string, error) {
	if len(raw) == 0 || string(raw) == "null" {
		return nil, nil
	}
	var s string
	if err := json.Unmarshal(raw, &s); err == nil {
		return &s, nil
	}
	var h struct {
		Hex string `json:"hex"`
	}
	if err := json.Unmarshal(raw, &h); err != nil {
		return nil, err
	}
	b, err := hex.DecodeString(h.Hex)
	if err != nil {
		return nil, err
	}
	s = string(b)
	return &s, nil
}

func (cs reqidCase) MarshalJSON() ([]byte, error) {
	return json.Marshal(reqidCaseJSON{cs.Transport, cs.Opts, cs.CustomName, cs.Limit, cs.LimitFirst,
		encodeValue(cs.X), encodeValue(cs.C), cs.SentX, cs.SentC, cs.Via})
}

func (cs *reqidCase) UnmarshalJSON(b []byte) error {
	var j reqidCaseJSON
	if err := json.Unmarshal(b, &j); err != nil {
		return err
	}
	x, err := decodeValue(j.X)
	if err != nil {
		return err
	}
	c, err := decodeValue(j.C)
	if err != nil {
		return err
	}
	*cs = reqidCase{j.Transport, j.Opts, j.CustomName, j.Limit, j.LimitFirst, x, c, j.SentX, j.SentC, j.Via}
	return nil
}

const defaultReqIDHeader = "X-Request-Id"

// spellingKinds is the menu of spellings of a header name (configured and sent).
var spellingKinds = []string{"canonical", "upper-suffix", "lower", "upper", "mixed"}

// spell returns the given spelling of a header name.
func spell(base, kind string) string {
	canon := http.CanonicalHeaderKey(base)
	switch kind {
	case "upper-suffix": // X-Request-ID
		i := strings.LastIndexByte(canon, '-')
		return canon[:i+1] + strings.ToUpper(canon[i+1:])
	case "lower":
		return strings.ToLower(canon)
	case "upper":
		return strings.ToUpper(canon)
	case "mixed": // x-rEQUEST-iD
		return strings.Map(func(r rune) rune {
			if unicode.IsUpper(r) {
				return unicode.ToLower(r)
			}
			return unicode.ToUpper(r)
		}, canon)
	}
	return canon
}

// spellingClass names the spelling of a header name for signatures and outcome classes.
func spellingClass(name string) string {
	if name == "" {
		return "unset"
	}
	for _, k := range spellingKinds {
		if spell(name, k) == name {
			return k
		}
	}
	return "other"
}

// aliasOfDefault: the custom name designates the default header (differs at most in spelling;
// header names are case-insensitive), so there is one inbound header, carried in slot X.
func (cs reqidCase) aliasOfDefault() bool {
	return strings.EqualFold(cs.CustomName, defaultReqIDHeader)
}

func (cs reqidCase) sentX() string {
	if cs.SentX != "" {
		return cs.SentX
	}
	return defaultReqIDHeader
}

func (cs reqidCase) sentC() string {
	if cs.SentC != "" {
		return cs.SentC
	}
	return http.CanonicalHeaderKey(cs.CustomName)
}

// rawRequest is the request as the client puts it on the wire.
func (cs reqidCase) rawRequest() string {
	var sb strings.Builder
	sb.WriteString("GET /x HTTP/1.1\r\nHost: verif.test\r\n")
	if cs.X != nil {
		sb.WriteString(cs.sentX() + ": " + *cs.X + "\r\n")
	}
	if cs.C != nil {
		sb.WriteString(cs.sentC() + ": " + *cs.C + "\r\n")
	}
	sb.WriteString("\r\n")
	return sb.String()
}

type reqidObs struct {
	Calls    int
	Present  bool
	IsString bool
	ID       string
	// gRPC: the x-request-id values of the incoming metadata the handler's context carries
	// (the middleware writes the request ID back there)
	MD []string
}

type fakeStream struct {
	grpc.ServerStream
	ctx context.Context
}

func (f *fakeStream) Context() context.Context { return f.ctx }

func (cs reqidCase) options() []middleware.RequestIDOption {
	var out []middleware.RequestIDOption
	limit := func() {
		if cs.Limit == nil {
			return
		}
		if cs.Transport == "http" {
			out = append(out, httpm.XRequestHeaderLimitOption(*cs.Limit))
		} else {
			out = append(out, grpcm.XRequestMetadataLimitOption(*cs.Limit))
		}
	}
	if cs.LimitFirst {
		limit()
	}
	for _, a := range cs.Opts {
		switch a {
		case "U1", "U0":
			if cs.Transport == "http" {
				out = append(out, httpm.UseXRequestIDHeaderOption(a == "U1"))
			} else {
				out = append(out, grpcm.UseXRequestIDMetadataOption(a == "U1"))
			}
		case "C":
			if cs.Transport == "http" {
				out = append(out, httpm.RequestIDHeaderOption(cs.CustomName))
			} else {
				out = append(out, middleware.RequestIDHeaderOption(cs.CustomName))
			}
		}
	}
	if !cs.LimitFirst {
		limit()
	}
	return out
}

func observeReqID(ctx context.Context, o *reqidObs) {
	o.Calls++
	v := ctx.Value(middleware.RequestIDKey)
	if v == nil {
		return
	}
	o.Present = true
	o.ID, o.IsString = v.(string)
}

func observeReqIDMetadata(ctx context.Context, o *reqidObs) {
	if md, ok := metadata.FromIncomingContext(ctx); ok {
		o.MD = append([]string{}, md.Get(grpcm.RequestIDMetadataKey)...)
	}
}

// execReqID sends the case's request n times through one middleware instance (real goa code).
func execReqID(cs reqidCase, n int) ([]reqidObs, error) {
	obs := make([]reqidObs, n)
	opts := cs.options()
	switch cs.Transport {
	case "http":
		mw := httpm.RequestID(opts...)
		for i := range obs {
			o := &obs[i]
			h := mw(http.HandlerFunc(func(w http.ResponseWriter, r *http.Request) { observeReqID(r.Context(), o) }))
			if cs.Via == "server" {
				if err := reqidOverServer(cs, h); err != nil {
					return nil, err
				}
				continue
			}
			// net/http's own request parser turns the wire text into the *http.Request a server
			// hands to its handler (header names in canonical form, whatever the client sent)
			req, err := http.ReadRequest(bufio.NewReader(strings.NewReader(cs.rawRequest())))
			if err != nil {
				return nil, fmt.Errorf("net/http does not parse the request: %v", err)
			}
			h.ServeHTTP(httptest.NewRecorder(), req)
		}
	case "grpc-unary", "grpc-stream":
		mkctx := func() context.Context {
			ctx := context.Background()
			if cs.X == nil && cs.C == nil {
				return ctx // no incoming metadata at all
			}
			// metadata.Pairs is how an application hands keys to grpc: it lower-cases them, which
			// is also the only form HTTP/2 carries
			var kv []string
			if cs.X != nil {
				kv = append(kv, cs.sentX(), *cs.X)
			}
			if cs.C != nil {
				kv = append(kv, cs.sentC(), *cs.C)
			}
			return metadata.NewIncomingContext(ctx, metadata.Pairs(kv...))
		}
		if cs.Transport == "grpc-unary" {
			ic := grpcm.UnaryRequestID(opts...)
			for i := range obs {
				o := &obs[i]
				_, _ = ic(mkctx(), "req", &grpc.UnaryServerInfo{FullMethod: "/svc.S/M"}, func(ctx context.Context, req any) (any, error) {
					observeReqID(ctx, o)
					observeReqIDMetadata(ctx, o)
					return "resp", nil
				})
			}
		} else {
			ic := grpcm.StreamRequestID(opts...)
			for i := range obs {
				o := &obs[i]
				_ = ic(nil, &fakeStream{ctx: mkctx()}, &grpc.StreamServerInfo{FullMethod: "/svc.S/M"}, func(srv any, ss grpc.ServerStream) error {
					observeReqID(ss.Context(), o)
					observeReqIDMetadata(ss.Context(), o)
					return nil
				})
			}
		}
	}
	return obs, nil
}

// ---- the same request through a real net/http server and client ---------------------------

var reqidSrv struct {
	mu  sync.Mutex
	srv *httptest.Server
	cur http.Handler // handler of the case in flight (cases are sent one at a time)
}

func reqidServer() *httptest.Server {
	if reqidSrv.srv == nil {
		reqidSrv.srv = httptest.NewServer(http.HandlerFunc(func(w http.ResponseWriter, r *http.Request) {
			reqidSrv.mu.Lock()
			h := reqidSrv.cur
			reqidSrv.mu.Unlock()
			h.ServeHTTP(w, r)
		}))
	}
	return reqidSrv.srv
}

func closeReqidServer() {
	if reqidSrv.srv != nil {
		reqidSrv.srv.Close()
		reqidSrv.srv = nil
	}
}

func reqidOverServer(cs reqidCase, h http.Handler) error {
	srv := reqidServer()
	reqidSrv.mu.Lock()
	reqidSrv.cur = h
	reqidSrv.mu.Unlock()
	req, err := http.NewRequest("GET", srv.URL+"/x", nil)
	if err != nil {
		return err
	}
	// assigning the map entry keeps the spelling: net/http's client writes keys as they are
	if cs.X != nil {
		req.Header[cs.sentX()] = []string{*cs.X}
	}
	if cs.C != nil {
		req.Header[cs.sentC()] = []string{*cs.C}
	}
	resp, err := srv.Client().Do(req)
	if err != nil {
		return err
	}
	_, _ = io.Copy(io.Discard, resp.Body)
	return resp.Body.Close()
}

// truncate is the reference for "v truncated to the limit": the limit is a length, and the
// length of a header / metadata value is its number of bytes (goa documents the option as
// "truncating the request ID ... at the specified length" / "limiting x-request-id metadata
// length"): the first min(len(v), limit) bytes of v, byte for byte, whatever the bytes are —
// a cut may fall inside a multi-byte character, and bytes that are not UTF-8 stay as they are.
// how: "whole" (nothing cut), "bytes" (cut at a character boundary or in ASCII),
// "bytes-inside-char" (cut inside a multi-byte UTF-8 sequence).
func truncate(v string, limit int) (s, how string) {
	if limit <= 0 || len(v) <= limit {
		return v, "whole"
	}
	if utf8.ValidString(v) && !utf8.RuneStart(v[limit]) {
		return v[:limit], "bytes-inside-char"
	}
	return v[:limit], "bytes"
}

func valueClass(v *string) string {
	switch {
	case v == nil:
		return "absent"
	case *v == "":
		return "empty"
	case !utf8.ValidString(*v):
		return "non-utf8-bytes"
	case len(*v) != utf8.RuneCountInString(*v):
		return "multibyte"
	}
	return "ascii"
}

// looksGenerated: the identifier has the shape of goa's generated IDs (8 characters of the URL
// base64 alphabet). Used only to name a deviation (inbound value altered vs. ignored), never
// to decide whether there is one.
func looksGenerated(id string) bool {
	if len(id) != 8 {
		return false
	}
	for i := 0; i < len(id); i++ {
		c := id[i]
		if !(c >= 'a' && c <= 'z' || c >= 'A' && c <= 'Z' || c >= '0' && c <= '9' || c == '-' || c == '_') {
			return false
		}
	}
	return true
}

func limitClass(limit *int, v string) string {
	switch {
	case limit == nil:
		return "unset"
	case *limit == 0:
		return "zero"
	case *limit < len(v):
		return "below-len"
	case *limit == len(v):
		return "equal-len"
	}
	return "above-len"
}

// refConfig is the reference fold of the option list (documented option semantics).
func (cs reqidCase) refConfig() (trust bool, header string, limit int) {
	for _, a := range cs.Opts {
		switch a {
		case "U1":
			trust, header = true, "X-Request-Id"
		case "U0":
			trust, header = false, "X-Request-Id"
		case "C":
			trust, header = true, cs.CustomName
		}
	}
	if cs.Limit != nil && *cs.Limit > 0 {
		limit = *cs.Limit
	}
	return
}

func nonEmptyPrefixOf(id string, v *string) bool {
	return v != nil && id != "" && strings.HasPrefix(*v, id)
}

// checkReqID executes one case and applies the oracle.
func checkReqID(cs reqidCase) (fails []failure, outcome string) {
	obs, err := execReqID(cs, 2)
	if err != nil {
		return []failure{{"reqid transport=" + cs.Transport + " observed=harness-error", err.Error()}}, "error"
	}
	trust, header, limit := cs.refConfig()
	custom := trust && !strings.EqualFold(header, defaultReqIDHeader)
	var trusted *string
	if trust {
		if custom {
			trusted = cs.C
		} else {
			trusted = cs.X
		}
	}
	ambiguous := custom && cs.Transport != "http"
	hdrClass := "none"
	if trust {
		hdrClass = "default"
		if custom {
			hdrClass = "custom"
		}
	}
	tv := ""
	if trusted != nil {
		tv = *trusted
	}
	// the limit class is part of the signature only for truncation deviations
	nameClass := "default" // spelling class of the configured name of the trusted header
	if trust && header != defaultReqIDHeader {
		nameClass = spellingClass(header)
	}
	sigBase := fmt.Sprintf("reqid transport=%s trust=%v header=%s name=%s inbound=%s", cs.Transport, trust, hdrClass, nameClass, valueClass(trusted))
	desc, _ := json.Marshal(cs)
	add := func(observed, what string) {
		fails = append(fails, failure{sigBase + " observed=" + observed, what + " [case " + string(desc) + "]"})
	}
	// truncation deviations: the class is the kind of value that was cut (the inbound value the
	// ID is a prefix of, else the one with bytes >= 0x80, else the trusted one) and where the
	// limit lies; the spelling of the configured name plays no part
	addTrunc := func(observed, what, id string) {
		src := trusted
		found := false
		for _, v := range []*string{trusted, cs.X, cs.C} {
			if nonEmptyPrefixOf(id, v) {
				src, found = v, true
				break
			}
		}
		if !found {
			for _, v := range []*string{trusted, cs.X, cs.C} {
				if v != nil && !isASCII(*v) {
					src = v
					break
				}
			}
		}
		sv := ""
		if src != nil {
			sv = *src
		}
		sig := fmt.Sprintf("reqid transport=%s trust=%v header=%s inbound=%s observed=%s limit=%s", cs.Transport, trust, hdrClass, valueClass(src), observed, limitClass(cs.Limit, sv))
		fails = append(fails, failure{sig, what + " [case " + string(desc) + "]"})
	}
	expect := "fresh"
	switch {
	case ambiguous:
		expect = "inbound-or-fresh(grpc-custom-name)"
	case trust && tv != "":
		expect = "inbound"
	}
	seen := idSet{}
	got := ""
	for i, o := range obs {
		switch {
		case o.Calls != 1:
			add(fmt.Sprintf("handler-calls-%d", o.Calls), fmt.Sprintf("request %d: wrapped handler called %d times", i, o.Calls))
			continue
		case !o.Present:
			add("id-missing", fmt.Sprintf("request %d: no request ID in the handler's context", i))
			continue
		case !o.IsString:
			add("id-not-string", fmt.Sprintf("request %d: request ID is not a string", i))
			continue
		case o.ID == "":
			add("id-empty", fmt.Sprintf("request %d: request ID is empty", i))
			continue
		}
		id := o.ID
		// the context carries the request ID a second time on gRPC, in the incoming metadata the
		// middleware rewrites: what is there must be the same (correct) ID, never another one
		// (e.g. the untruncated inbound value). Absence is an outcome, not a verdict.
		for _, m := range o.MD {
			if m != id {
				addTrunc("metadata-id-differs-from-context-id", fmt.Sprintf("request %d: incoming metadata x-request-id is %q (% x), the context's request ID is %q (% x)", i, m, m, id, id), id)
				break
			}
		}
		isTrunc := func(v *string) (bool, string) {
			if v == nil || *v == "" {
				return false, ""
			}
			if t, how := truncate(*v, limit); t == id {
				return true, how
			}
			return false, ""
		}
		derived := nonEmptyPrefixOf(id, cs.X) || nonEmptyPrefixOf(id, cs.C)
		var g string
		switch expect {
		case "inbound":
			ok, how := isTrunc(trusted)
			switch {
			case ok:
				g = "inbound-" + how
			case nonEmptyPrefixOf(id, trusted) && limit > 0 && len(id) > limit:
				g = "longer-than-limit"
				addTrunc(g, fmt.Sprintf("request %d: ID %q is %d bytes long, the limit is %d (inbound %q)", i, id, len(id), limit, tv), id)
			case nonEmptyPrefixOf(id, trusted):
				g = "truncated-too-short"
				addTrunc(g, fmt.Sprintf("request %d: ID %q is a shorter prefix than the limit %d allows (inbound %q)", i, id, limit, tv), id)
			case derived:
				g = "other-header-used"
				add(g, fmt.Sprintf("request %d: ID %q comes from the header that is not the trusted one", i, id))
			case !looksGenerated(id):
				g = "inbound-altered"
				addTrunc(g, fmt.Sprintf("request %d: ID %q (% x) is not a prefix of the trusted inbound value %q (% x), limit %d", i, id, id, tv, tv, limit), id)
			default:
				g = "trusted-inbound-ignored"
				add(g, fmt.Sprintf("request %d: ID %q is not the trusted inbound value %q (limit %d)", i, id, tv, limit))
			}
		case "fresh":
			switch {
			case derived:
				g = "untrusted-inbound-used"
				add(g, fmt.Sprintf("request %d: ID %q is derived from an inbound value although no non-empty trusted value exists", i, id))
			case !seen.fresh(id):
				g = "not-fresh"
				add(g, fmt.Sprintf("request %d: ID %q was already issued to the previous request", i, id))
			default:
				g = "fresh"
			}
		default: // ambiguous: only the weak oracle
			okx, _ := isTrunc(cs.X)
			okc, _ := isTrunc(cs.C)
			switch {
			case okc:
				g = "custom-key-honoured"
			case okx:
				g = "x-request-id-honoured"
			case derived:
				g = "bad-truncation"
				addTrunc(g, fmt.Sprintf("request %d: ID %q is neither fresh nor an inbound value truncated to %d bytes", i, id, limit), id)
			case !looksGenerated(id):
				g = "inbound-altered"
				addTrunc(g, fmt.Sprintf("request %d: ID %q (% x) is neither fresh nor a prefix of an inbound value", i, id, id), id)
			case !seen.fresh(id):
				g = "not-fresh"
				add(g, fmt.Sprintf("request %d: ID %q was already issued", i, id))
			default:
				g = "fresh"
			}
		}
		if i == 0 {
			got = g
		}
	}
	sent := "-" // spelling the client used for the header that carries the trusted value
	if trusted != nil {
		if custom {
			sent = spellingClass(cs.sentC())
		} else {
			sent = spellingClass(cs.sentX())
		}
	}
	via := ""
	if cs.Via != "" {
		via = " via=" + cs.Via
	}
	md := ""
	if cs.Transport != "http" && len(obs) > 0 {
		md = " metadata-id=absent"
		if len(obs[0].MD) > 0 {
			md = " metadata-id=same-as-context"
			for _, m := range obs[0].MD {
				if m != obs[0].ID {
					md = " metadata-id=differs"
				}
			}
		}
	}
	return fails, fmt.Sprintf("reqid %s%s expect=%s got=%s inbound=%s name=%s sent=%s%s", cs.Transport, via, expect, got, valueClass(trusted), nameClass, sent, md)
}

func strp(s string) *string { return &s }
func intp(i int) *int       { return &i }

func optLists() [][]string {
	atoms := []string{"U1", "U0", "C"}
	out := [][]string{{}}
	for _, a := range atoms {
		out = append(out, []string{a})
	}
	for _, a := range atoms {
		for _, b := range atoms {
			out = append(out, []string{a, b})
		}
	}
	return out
}

func isASCII(v string) bool {
	for i := 0; i < len(v); i++ {
		if v[i] >= 0x80 {
			return false
		}
	}
	return true
}

// limitsFor returns the limit domain for an inbound value (nil = option absent): 0, 1 and the
// byte length of the value -1, +0, +1 (and the same around its rune count); for a value with
// bytes >= 0x80 every limit 0..len+1, so that a cut falls before, inside (at every offset),
// between and after every multi-byte character / non-UTF-8 byte. Thorough: also 0..10.
func limitsFor(v *string, thorough bool) []*int {
	out := []*int{nil}
	seen := map[int]bool{}
	add := func(n int) {
		if n >= 0 && !seen[n] {
			seen[n] = true
			out = append(out, intp(n))
		}
	}
	if thorough {
		for n := 0; n <= 10; n++ {
			add(n)
		}
	}
	add(0)
	add(1)
	if v == nil {
		add(2)
		return out
	}
	l, r := len(*v), utf8.RuneCountInString(*v)
	if !isASCII(*v) {
		for n := 0; n <= l+1; n++ {
			add(n)
		}
		return out
	}
	for _, n := range []int{l - 1, l, l + 1, r - 1, r, r + 1} {
		add(n)
	}
	return out
}

// inboundValues is the menu of inbound header / metadata values. Header and metadata values
// are byte strings: besides ASCII, well-formed multi-byte UTF-8 (2-, 3- and 4-byte
// characters, at the start, in the middle and at the end) and bytes >= 0x80 that are not
// UTF-8 (Latin-1 text, opaque bytes, a cut-off or overlong sequence) — all legal in an HTTP
// field value (obs-text) and accepted by net/http's parser, server and client.
func inboundValues(thorough bool) (values []*string, nonASCII []string) {
	values = []*string{nil}
	if thorough {
		// every inbound length 0..10 against every limit 0..10 (covers limits 0..n, lengths 0..n+2 for n <= 8)
		base := "ab.defghij"
		for n := 0; n <= len(base); n++ {
			values = append(values, strp(base[:n]))
		}
	} else {
		values = append(values, strp(""), strp("r."), strp("req.7f3"), strp("request.id-0123456789abcdef"))
	}
	nonASCII = []string{
		"é€.x😀",           // 2-, 3- and 4-byte characters
		"café-42",         // one 2-byte character inside ASCII
		"日本",              // 3-byte characters only
		"caf\xe9-42",      // Latin-1: a lone byte >= 0x80
		"\xff\xfe\xfdabc", // opaque bytes that are never UTF-8
		"id\xe2\x82",      // a multi-byte sequence cut off by the sender
	}
	if thorough {
		nonASCII = append(nonASCII, "é", "é.", "a€", "€.b", "😀", "x😀.", "é€😀", "日本語.テキスト",
			"\x80", "a\xc3", "\xf0\x9f\x98", "x\xc0\xafy", "\xe9\xe8\xe0", "ab\x80cd\xbfef", "\xed\xa0\x80.s")
	}
	for _, m := range nonASCII {
		values = append(values, strp(m))
	}
	return values, nonASCII
}

// reqidNames is the menu of configured custom header names: every spelling of the two bases.
func reqidNames() []string {
	var out []string
	for _, base := range []string{"Custom-Id", defaultReqIDHeader} {
		for _, k := range spellingKinds {
			out = append(out, spell(base, k))
		}
	}
	return out
}

func hasAtom(list []string, a string) bool {
	for _, x := range list {
		if x == a {
			return true
		}
	}
	return false
}

func runReqID(c *core.Ctx) {
	defer closeReqidServer()
	names := reqidNames()
	values, nonASCII := inboundValues(c.Thorough())
	var shown []string
	for _, m := range nonASCII {
		shown = append(shown, fmt.Sprintf("%+q", m))
	}
	decoys := []*string{nil, strp("decoy.value")}
	lists := optLists()
	transports := []string{"http", "grpc-unary", "grpc-stream"}
	c.Note("reqid_alphabet", map[string]any{"transports": len(transports), "option_lists": len(lists), "inbound_values": len(values),
		"configured_names": names, "name_spellings": spellingKinds,
		"sent_spellings":                       "the header carrying the value is sent under each of the 5 spellings of its name (the other header canonically)",
		"inbound_values_with_bytes_above_0x7f": shown,
		"limits":                               "option absent, 0, 1, len-1, len, len+1 of the inbound value in bytes and in runes; for values with bytes >= 0x80 every limit 0..len+1 (cuts inside every multi-byte character); thorough: also 0..10; limit option first or last",
		"trust":                                "every option list of length 0..2 over {UseRequestID(true), UseRequestID(false), RequestIDHeader(name)}: trust on/off for the default and for each custom name"})
	var cases, serverCases int64
	one := func(cs reqidCase) {
		key, _ := json.Marshal(cs)
		c.State("reqid:"+string(key), (cs.X != nil && *cs.X != "") || (cs.C != nil && *cs.C != ""))
		fails, outcome := checkReqID(cs)
		if outcome == "error" {
			c.HarnessError("reqid case %s: %s", key, fails[0].What)
			return
		}
		c.Exec(2)
		noteOutcome(c, outcome)
		cases++
		if cs.Via == "server" {
			serverCases++
		}
		if cases%997 == 0 {
			c.Sample(replayCase{Part: "reqid", ReqID: &cs})
		}
		if len(fails) > 0 {
			cc := cs
			report(c, fails, replayCase{Part: "reqid", ReqID: &cc}, func() []failure { f, _ := checkReqID(cc); return f })
		}
	}
	for _, tr := range transports {
		for _, ol := range lists {
			// the custom name matters to the configuration only when the list has the option;
			// otherwise it only names the second (never trusted) header
			cns := names
			if !hasAtom(ol, "C") {
				cns = names[:1]
			}
			for _, cn := range cns {
				if c.Expired() {
					c.Incomplete(fmt.Sprintf("reqid: stopped at transport=%s opts=%v name=%s", tr, ol, cn))
					return
				}
				alias := strings.EqualFold(cn, defaultReqIDHeader)
				for _, v := range values {
					for _, lim := range limitsFor(v, c.Thorough()) {
						for _, lf := range []bool{false, true} {
							if lim == nil && lf {
								continue
							}
							for _, d := range decoys {
								for _, primaryX := range []bool{true, false} {
									if alias && (d != nil || !primaryX) {
										continue // one header only: it is carried in slot X
									}
									base := cn
									if primaryX {
										base = defaultReqIDHeader
									}
									for _, sk := range spellingKinds {
										if v == nil && sk != "canonical" {
											continue // nothing is sent under that name
										}
										cs := reqidCase{Transport: tr, Opts: ol, CustomName: cn, Limit: lim, LimitFirst: lf}
										if primaryX {
											cs.X, cs.C, cs.SentX = v, d, spell(base, sk)
										} else {
											cs.X, cs.C, cs.SentC = d, v, spell(base, sk)
										}
										one(cs)
										// the same through a real server and client: one representative of
										// the value / decoy / option-order dimensions, everything else complete
										if tr == "http" && !lf && d == nil && v != nil && (*v == "req.7f3" || *v == "ab.defg" || (!isASCII(*v) && sk == "canonical")) {
											cs.Via = "server"
											one(cs)
										}
									}
								}
							}
						}
					}
				}
			}
		}
	}
	c.Note("reqid_cases", cases)
	c.Note("reqid_cases_over_real_server", serverCases)
}

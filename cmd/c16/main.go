// C16 — the router dispatches by pattern and returns the original path values.
//
// Alphabet: routing patterns of 1-3 segments over {literal a, literal b, {x}, {y}} with a
// final segment that may also be a catch-all {*w} / {*v}; registrations = pattern x method
// {GET, POST}; wildcard values from a menu of strings chosen for what percent-encoding does to
// them (plain, space, bare %, %41, %2F, %zz, 100%, a/b, +, non-ASCII, empty and multi-segment
// for catch-alls); observers: the handler, and a middleware registered through Use {none, asking
// ResolvePattern and Vars BEFORE next = before the request is routed, asking them after next},
// and Use called after Handle.
//
// Second universe (litUniverse) for what the first keeps trivial: literal segments a URL
// carries escaped {a, é, "a b"}, patterns of 1-2 segments over them + {x}/{y}/{*w}, every pair
// of patterns (so every pair where one is more general), and the client's spelling of each
// value {min = url.PathEscape: RawPath stays empty unless there is a slash; all = every byte
// as %XX: RawPath set}, chosen per wildcard; value menu + the look-alike %C3%A9 of a literal
// + values that are not canonical paths {., .., a//b, /a, a/../b, a/./b, https://x/y}.
//
// Environment dimension of both universes: the goa runtime middleware mounted with Use in front
// of the router {none, middleware.SmartRedirectSlashes, middleware.Debug(mux, w)} - the two
// middlewares of goa's http/middleware package that consult the router themselves. A request
// that matches a registered pattern under the reference matcher must reach that handler with
// the original values whatever is mounted in front; a 3xx for it is a violation. What a
// request receives that matches only with a trailing slash added/removed is not asserted.
//
// Third part (ctor.go): the path constructors goa GENERATES for services with 1-2 base paths
// x 1-2 routes with the wildcards in every relative order, compiled and called with every
// assignment of menu values, the built URL routed through a Muxer holding the method's patterns.
//
// Bound: all legal pattern sets of size 1 and 2 over the full alphabet, size 3 over a reduced
// alphabet (quick) / the middle alphabet (thorough), sizes 4-6 over the reduced alphabet
// (thorough); for every set both methods x every request path of the set's URL universe. A
// request path is a pattern with url.PathEscape(value) substituted for every wildcard (complete
// product of the menus); it is parsed by the real net/http request parser so URL.Path and
// URL.RawPath are what a server sees. One pass goes over a real httptest.Server + http.Client.
//
// A set is legal when no two registrations for the same method are identical after erasing
// wildcard names (/{x} and /{y}, or /a/{*w} and /a/{*v}, for one method are two registrations
// of one route; the second replaces the first, which the property does not talk about).
//
// Oracle (statement only): the handler invoked is registered for the request method and for a
// pattern that matches the path as sent under the reference segment-wise matcher (ref.go); it
// is invoked once; Muxer.Vars holds exactly the declared names with the text the client placed
// there, percent-decoded once; ResolvePattern, asked in a middleware or in the handler, is the
// registered pattern string; an observer placed before routing is told the same pattern and the
// same values as the handler the request is then dispatched to (= the registered pattern and
// the original values); a literal segment matches the spelling a URL carries it in
// (url.PathEscape of the literal); when no registration of any method matches under any reading the
// answer is 404 with a body that decodes, per its Content-Type, into an ErrorResponse with a
// non-empty name (requests answered 404 are repeated with Accept json/xml/gob/text/plain/
// text/html; for the text types only "body not empty" is required). Which of several matching
// patterns wins, the status of a method mismatch, trailing-slash and decoded-slash readings,
// and whether Use may be called after Handle (it panics inside chi) are not asserted.
package main

import (
	"context"
	"encoding/base64"
	"encoding/json"
	"fmt"
	"io"
	"net/http"
	"net/http/httptest"
	"os"
	"runtime/pprof"
	"sort"
	"strings"
	"sync"
	"time"

	"verif/core"
)

// ---------------------------------------------------------------- collecting results

type agg struct {
	count int64
	order int64
	first caseDesc
	what  string
}

type collector struct {
	mu       sync.Mutex
	sigs     map[string]*agg
	outcomes map[string]int64
	// requests dispatched to a strictly matching handler for which the answers given to an
	// observer placed before routing (mode pre) were compared with the handler's and the
	// reference, split by whether the parsed URL had a RawPath
	preCompared [2]int64
}

func newCollector() *collector {
	return &collector{sigs: map[string]*agg{}, outcomes: map[string]int64{}}
}

func (k *collector) fail(order int64, f failure, cd func() caseDesc) {
	a := k.sigs[f.sig]
	if a == nil {
		k.sigs[f.sig] = &agg{count: 1, order: order, first: cd(), what: f.what()}
		return
	}
	a.count++
	if order < a.order {
		a.order, a.first, a.what = order, cd(), f.what()
	}
}

func (k *collector) merge(l *collector) {
	k.mu.Lock()
	defer k.mu.Unlock()
	for s, a := range l.sigs {
		g := k.sigs[s]
		if g == nil {
			k.sigs[s] = a
			continue
		}
		g.count += a.count
		if a.order < g.order {
			g.order, g.first, g.what = a.order, a.first, a.what
		}
	}
	for o, n := range l.outcomes {
		k.outcomes[o] += n
	}
	k.preCompared[0] += l.preCompared[0]
	k.preCompared[1] += l.preCompared[1]
}

// timing prints phase wall times to stderr when C16_TIMING is set (diagnostics only, never
// part of the evidence or of any verdict).
func timing(name string) func() {
	if os.Getenv("C16_TIMING") == "" {
		return func() {}
	}
	t := time.Now()
	return func() { fmt.Fprintf(os.Stderr, "timing %-60s %6.1fs\n", name, time.Since(t).Seconds()) }
}

// ---------------------------------------------------------------- enumeration of sets

type alphabet struct {
	name  string
	pats  []int     // indices into universe.pats, simplest first
	elems []element // pats x methods
}

func (u *universe) alphabet(name string, nonFinal, final []seg, maxLen int) alphabet {
	a := alphabet{name: name}
	for _, p := range genPatterns(nonFinal, final, maxLen) {
		pi, ok := u.patIdx[p.Str]
		if !ok {
			panic("alphabet " + name + ": pattern " + p.Str + " is not part of the full alphabet")
		}
		a.pats = append(a.pats, pi)
		for mi := range methods {
			a.elems = append(a.elems, element{Method: mi, Pat: pi})
		}
	}
	return a
}

// legalSets lists every k-subset of the alphabet's registrations that is legal by the stated
// rule: no two registrations for one method identical after wildcard-name erasure.
func (u *universe) legalSets(a alphabet, k int) (sets [][]element, illegal int) {
	combos(len(a.elems), k, func(c []int) {
		for i := 0; i < k; i++ {
			for j := i + 1; j < k; j++ {
				ei, ej := a.elems[c[i]], a.elems[c[j]]
				if ei.Method == ej.Method && u.pats[ei.Pat].Erased == u.pats[ej.Pat].Erased {
					illegal++
					return
				}
			}
		}
		E := make([]element, k)
		for i, x := range c {
			E[i] = a.elems[x]
		}
		sets = append(sets, E)
	})
	return sets, illegal
}

type phase struct {
	name     string
	idx      int
	sets     [][]element
	urls     func(E []element) []int
	modes    []mwMode
	front    frontKind // goa runtime middleware mounted in front of the router for this phase
	accept   bool      // repeat requests answered 404 with every Accept type
	useAfter bool      // also register the middleware after the handlers
}

var phaseSeq int

func (u *universe) runPhase(c *core.Ctx, coll *collector, ph phase) {
	phaseSeq++
	ph.idx = phaseSeq
	defer timing(ph.name)()
	if c.Expired() {
		c.Incomplete(fmt.Sprintf("phase %s not started (0 of %d sets)", ph.name, len(ph.sets)))
		return
	}
	chunk := len(ph.sets)/(16*16) + 1
	if chunk > 128 {
		chunk = 128
	}
	nchunks := (len(ph.sets) + chunk - 1) / chunk
	var skipped int64
	var smu sync.Mutex
	var totalExec, totalUse int64
	core.Parallel(nchunks, func(ci int) {
		if c.Expired() {
			smu.Lock()
			skipped++
			smu.Unlock()
			return
		}
		local := newCollector()
		scr := newScratch()
		var execs int64
		label := map[string]string{} // outcome classes of a named universe carry its name
		for si := ci * chunk; si < len(ph.sets) && si < (ci+1)*chunk; si++ {
			E := ph.sets[si]
			nontrivial := false
			for _, e := range E {
				if u.pats[e.Pat].Wild > 0 {
					nontrivial = true
				}
			}
			c.State(setKey(u, E), nontrivial)
			urls := ph.urls(E)
			var pos int64
			runWith := func(m http.Handler, mode mwMode, useAfter bool) {
				for _, ui := range urls {
					uc := u.urls[ui]
					for mi := range methods {
						nacc := 1
						for ai := 0; ai < nacc; ai++ {
							res := serveDirect(m, uc.tmpl[mi][ai], scr)
							execs++
							pos++
							fails, outcome := u.judge(E, mode, ph.front, mi, ui, res)
							notFound := strings.HasPrefix(outcome, "notfound")
							if mode == mwPre && strings.HasPrefix(outcome, "dispatched") {
								if uc.RawPathSet {
									local.preCompared[1]++
								} else {
									local.preCompared[0]++
								}
							}
							if useAfter {
								outcome = "use-after-handle: " + outcome
							}
							if u.name != "" || ph.front != frontNone {
								l, ok := label[outcome]
								if !ok {
									l = outcome
									if ph.front != frontNone {
										l = "front=" + frontNames[ph.front] + ": " + l
									}
									if u.name != "" {
										l = u.name + ": " + l
									}
									label[outcome] = l
								}
								outcome = l
							}
							local.outcomes[outcome]++
							if ai == 0 && ph.accept && uc.Probe && notFound {
								nacc = len(accepts)
							}
							for _, f := range fails {
								mi, ui, ai := mi, ui, ai
								local.fail(int64(ph.idx)<<56|int64(si)<<28|pos, f, func() caseDesc {
									cd := u.describe(E, mode, ph.front, mi, ui, ai, false)
									cd.UseAfter = useAfter
									return cd
								})
							}
						}
					}
				}
			}
			for _, mode := range ph.modes {
				m, pan := u.buildMux(E, mode, false, ph.front)
				if pan != "" {
					local.fail(int64(ph.idx)<<56|int64(si)<<28, failure{"register panic middleware=" + mwNames[mode], func() string { return "registering a legal pattern set panicked: " + pan + " [" + setKey(u, E) + "]" }},
						func() caseDesc { return u.describe(E, mode, ph.front, 0, urls[0], 0, false) })
					continue
				}
				runWith(m, mode, false)
			}
			if ph.useAfter {
				m, pan := u.buildMux(E, mwPre, true, ph.front)
				if pan != "" {
					// Use after the first Handle: the statement says what middlewares observe,
					// not that Use must be accepted at this point; recorded, not asserted.
					local.outcomes["use-after-handle: Use panics: "+pan]++
					smu.Lock()
					totalUse++
					smu.Unlock()
				} else {
					runWith(m, mwPre, true)
				}
			}
		}
		c.Exec(execs)
		smu.Lock()
		totalExec += execs
		smu.Unlock()
		coll.merge(local)
	})
	c.Note("phase "+ph.name, map[string]any{"sets": len(ph.sets), "requests": totalExec, "use_after_handle_panics": totalUse, "middleware_modes": modeNames(ph.modes), "front": frontNames[ph.front]})
	if skipped > 0 {
		c.Incomplete(fmt.Sprintf("phase %s: deadline reached, %d of %d chunks (of %d sets each) not explored", ph.name, skipped, nchunks, chunk))
	}
}

func modeNames(ms []mwMode) []string {
	var out []string
	for _, m := range ms {
		out = append(out, mwNames[m])
	}
	return out
}

// ownPlusProbe lists the URLs a set is asked with when not all URLs of the universe are used:
// every URL built from one of its own patterns with the full menus, and every probe URL.
func (u *universe) ownPlusProbe(E []element) []int {
	seen := make(map[int]struct{}, 64)
	out := append([]int{}, u.probe...)
	for _, i := range u.probe {
		seen[i] = struct{}{}
	}
	for _, e := range E {
		for _, i := range u.own[e.Pat] {
			if _, ok := seen[i]; !ok {
				seen[i] = struct{}{}
				out = append(out, i)
			}
		}
	}
	return out
}

// ---------------------------------------------------------------- real server pass

func (u *universe) serverPhase(c *core.Ctx, coll *collector, ph phase) {
	phaseSeq++
	ph.idx = phaseSeq
	defer timing(ph.name)()
	if c.Expired() {
		c.Incomplete(fmt.Sprintf("phase %s not started (0 of %d sets)", ph.name, len(ph.sets)))
		return
	}
	var smu sync.Mutex
	var skipped, total int64
	core.Parallel(len(ph.sets), func(si int) {
		if c.Expired() {
			smu.Lock()
			skipped++
			smu.Unlock()
			return
		}
		E := ph.sets[si]
		local := newCollector()
		var execs, pos int64
		tr := &http.Transport{MaxIdleConnsPerHost: 2}
		client := &http.Client{Transport: tr, CheckRedirect: func(*http.Request, []*http.Request) error { return http.ErrUseLastResponse }}
		defer tr.CloseIdleConnections()
		urls := ph.urls(E)
		for _, mode := range ph.modes {
			m, pan := u.buildMux(E, mode, false, ph.front)
			if pan != "" {
				continue // reported by the direct phases
			}
			srv := httptest.NewServer(observe(m))
			for _, ui := range urls {
				uc := u.urls[ui]
				for mi := range methods {
					nacc := 1
					for ai := 0; ai < nacc; ai++ {
						res, err := serveReal(client, srv.URL, methods[mi], uc.Raw, accepts[ai])
						if err != nil {
							c.HarnessError("real server pass: %s %s: %v", methods[mi], uc.Raw, err)
							continue
						}
						if res.o.Path != uc.Path || res.o.RawPath != uc.RawPath {
							c.HarnessError("real server saw Path=%q RawPath=%q for %q, http.ReadRequest gave Path=%q RawPath=%q", res.o.Path, res.o.RawPath, uc.Raw, uc.Path, uc.RawPath)
							continue
						}
						execs++
						pos++
						fails, outcome := u.judge(E, mode, ph.front, mi, ui, res)
						notFound := strings.HasPrefix(outcome, "notfound")
						if ph.front != frontNone {
							outcome = "front=" + frontNames[ph.front] + ": " + outcome
						}
						if u.name != "" {
							outcome = u.name + ": " + outcome
						}
						local.outcomes["real-server: "+outcome]++
						if ai == 0 && ph.accept && uc.Probe && notFound {
							nacc = len(accepts)
						}
						for _, f := range fails {
							mi, ui, ai := mi, ui, ai
							local.fail(int64(ph.idx)<<56|int64(si)<<28|pos, f, func() caseDesc { return u.describe(E, mode, ph.front, mi, ui, ai, true) })
						}
					}
				}
			}
			srv.Close()
		}
		c.Exec(execs)
		smu.Lock()
		total += execs
		smu.Unlock()
		coll.merge(local)
	})
	c.Note("phase "+ph.name, map[string]any{"sets": len(ph.sets), "requests": total, "middleware_modes": modeNames(ph.modes), "front": frontNames[ph.front]})
	if skipped > 0 {
		c.Incomplete(fmt.Sprintf("phase %s: deadline reached, %d of %d sets not explored", ph.name, skipped, len(ph.sets)))
	}
}

// observe wraps the Muxer for the real-server pass: it hands the observation record to the
// handlers through the request context and returns it in a response header. The request itself
// (URL.Path, URL.RawPath) is untouched, it is the one net/http's server parsed off the wire.
func observe(m http.Handler) http.Handler {
	return http.HandlerFunc(func(w http.ResponseWriter, r *http.Request) {
		o := &obs{Path: r.URL.Path, RawPath: r.URL.RawPath}
		rw := &respWriter{}
		m.ServeHTTP(rw, r.WithContext(context.WithValue(r.Context(), obsKey, o)))
		for k, v := range rw.hdr {
			w.Header()[k] = v
		}
		b, _ := json.Marshal(o)
		w.Header().Set("X-C16-Obs", base64.StdEncoding.EncodeToString(b))
		if rw.code == 0 {
			rw.code = 200
		}
		w.WriteHeader(rw.code)
		w.Write(rw.body) // nolint: errcheck
	})
}

func serveReal(client *http.Client, base, method, raw, accept string) (result, error) {
	req, err := http.NewRequest(method, base+raw, nil)
	if err != nil {
		return result{}, err
	}
	if req.URL.EscapedPath() != raw {
		return result{}, fmt.Errorf("http.Client would send %q instead of %q", req.URL.EscapedPath(), raw)
	}
	if accept != "" {
		req.Header.Set("Accept", accept)
	}
	resp, err := client.Do(req)
	if err != nil {
		return result{}, err
	}
	defer resp.Body.Close()
	body, err := io.ReadAll(resp.Body)
	if err != nil {
		return result{}, err
	}
	b, err := base64.StdEncoding.DecodeString(resp.Header.Get("X-C16-Obs"))
	if err != nil {
		return result{}, err
	}
	o := &obs{}
	if err := json.Unmarshal(b, o); err != nil {
		return result{}, fmt.Errorf("observation header: %v", err)
	}
	return result{o: o, status: resp.StatusCode, ct: resp.Header.Get("Content-Type"), body: body}, nil
}

// ---------------------------------------------------------------- single case (recheck, replay)

func parsePattern(s string) (pat, error) {
	var segs []seg
	for _, t := range splitPath(s) {
		switch {
		case strings.HasPrefix(t, "{*") && strings.HasSuffix(t, "}"):
			segs = append(segs, seg{kCatch, t[2 : len(t)-1]})
		case strings.HasPrefix(t, "{") && strings.HasSuffix(t, "}"):
			segs = append(segs, seg{kParam, t[1 : len(t)-1]})
		case t == "":
			return pat{}, fmt.Errorf("empty segment in pattern %q", s)
		default:
			segs = append(segs, seg{kLit, t})
		}
	}
	p := mkPat(segs)
	if p.Str != s {
		return pat{}, fmt.Errorf("pattern %q does not round-trip (%q)", s, p.Str)
	}
	return p, nil
}

// runCase re-executes one described request from scratch: its own tiny universe (the
// registered patterns, the one path), a fresh Muxer, direct or through a real server.
func runCase(cd caseDesc) ([]failure, string, error) {
	u := &universe{patIdx: map[string]int{}, byRaw: map[string]int{}}
	var E []element
	for _, e := range cd.Elements {
		p, err := parsePattern(e.Pattern)
		if err != nil {
			return nil, "", err
		}
		pi, ok := u.patIdx[p.Str]
		if !ok {
			u.pats = append(u.pats, p)
			pi = len(u.pats) - 1
			u.patIdx[p.Str] = pi
		}
		mi := -1
		for i, m := range methods {
			if m == e.Method {
				mi = i
			}
		}
		if mi < 0 {
			return nil, "", fmt.Errorf("unknown method %q", e.Method)
		}
		E = append(E, element{mi, pi})
	}
	mi, mode := -1, mwMode(-1)
	for i, m := range methods {
		if m == cd.Method {
			mi = i
		}
	}
	for i, m := range mwNames {
		if m == cd.Mw {
			mode = mwMode(i)
		}
	}
	if mi < 0 || mode < 0 {
		return nil, "", fmt.Errorf("unknown method %q or middleware mode %q", cd.Method, cd.Mw)
	}
	r, err := parseReq(cd.Method, cd.Path, cd.Accept)
	if err != nil {
		return nil, "", err
	}
	uc := &urlCase{Raw: cd.Path, RawSegs: splitPath(cd.Path), EscSlash: strings.Contains(strings.ToUpper(cd.Path), "%2F"),
		Path: r.URL.Path, RawPath: r.URL.RawPath, RawPathSet: r.URL.RawPath != "", DecSegs: splitPath(r.URL.Path)}
	if err := uc.decode(); err != nil {
		return nil, "", err
	}
	u.urls = []*urlCase{uc}
	u.strict = make([][]bool, len(u.pats))
	u.lenient = make([][]bool, len(u.pats))
	u.empty = make([][]bool, len(u.pats))
	for pi := range u.pats {
		ok, _ := match(&u.pats[pi], uc.RawSegs, false)
		u.strict[pi] = []bool{ok}
		u.empty[pi] = []bool{matchEmptyCapture(&u.pats[pi], uc.RawSegs)}
		u.lenient[pi] = []bool{ok || lenientMatch(&u.pats[pi], uc.RawSegs, uc.DecRaw, uc.DecSegs)}
	}
	front := frontByName(cd.Front)
	if front < 0 {
		return nil, "", fmt.Errorf("unknown front middleware %q", cd.Front)
	}
	m, pan := u.buildMux(E, mode, cd.UseAfter, front)
	if pan != "" {
		return []failure{{"register panic middleware=" + mwNames[mode], func() string { return pan }}}, "panic", nil
	}
	var res result
	if cd.Server {
		srv := httptest.NewServer(observe(m))
		defer srv.Close()
		tr := &http.Transport{}
		defer tr.CloseIdleConnections()
		res, err = serveReal(&http.Client{Transport: tr, CheckRedirect: func(*http.Request, []*http.Request) error { return http.ErrUseLastResponse }}, srv.URL, cd.Method, cd.Path, cd.Accept)
		if err != nil {
			return nil, "", err
		}
	} else {
		res = serveDirect(m, r, newScratch())
	}
	fails, outcome := u.judge(E, mode, front, mi, 0, res)
	obsJSON, _ := json.Marshal(res.o)
	return fails, fmt.Sprintf("%s status=%d content-type=%q Path=%q RawPath=%q observed=%s body=%q", outcome, res.status, res.ct, uc.Path, uc.RawPath, obsJSON, string(res.body)), nil
}

// ---------------------------------------------------------------- literal / encoding universe

// litUniverse builds the second universe. It exists for three dimensions the main universe
// keeps trivial, and every request of it is also asked with an observer BEFORE routing:
//
//   - literal segments that a URL carries escaped: "é" (%C3%A9) and "a b" (a%20b) next to the
//     plain "a". Literals containing "%" are left out: whether a pattern's own text is itself
//     to be read as escaped is not something the statement settles.
//   - the client's spelling of a value: minimal (url.PathEscape; RawPath stays empty unless the
//     value has a slash) or every byte escaped (RawPath always set), chosen per wildcard, so a
//     URL may mix both.
//   - every pair of patterns, which contains every pair where one pattern is more general
//     than the other (/é/{y} and /{x}/{y}, /a b/{*w} and /{*w}, ...).
func litUniverse(c *core.Ctx) (*universe, alphabet) {
	defer timing("literal-encoding universe")()
	nonFinal := []seg{litA, litE, litSp, parX}
	final := []seg{litA, litE, litSp, parY, catchW}
	lu, err := newUniverse(genPatterns(nonFinal, final, 2), menus{name: "literal-encoding", single: singleLit, catch: catchLit,
		singleProb: singleProbLit, catchProb: catchProbLit, encoders: encAll, foreign: []string{"/c", "/a/c", "/%C3%A9/c", "/c/c/c"}})
	if err != nil {
		c.HarnessError("building the literal-encoding URL universe: %v", err)
		return nil, alphabet{}
	}
	a := lu.alphabet("literal-encoding", nonFinal, final, 2)
	var nSet, nEmptyEsc int
	for _, uc := range lu.urls {
		if uc.RawPathSet {
			nSet++
		} else if uc.Raw != uc.Path {
			nEmptyEsc++
		}
	}
	var pats []string
	for _, pi := range a.pats {
		pats = append(pats, lu.pats[pi].Str)
	}
	c.Note("alphabet literal-encoding", map[string]any{
		"literal_segments": []string{"a", "é (sent as %C3%A9)", "a b (sent as a%20b)"}, "patterns": pats, "methods": methods,
		"single_values": singleLit, "catchall_values": catchLit, "value_encoders": map[string]string{
			"min": "url.PathEscape: RawPath empty unless the value contains a slash", "all": "every byte as %XX: RawPath set for every non-empty value"},
		"probe_single_values": singleProbLit, "probe_catchall_values": catchProbLit,
		"observers": []string{"handler", "middleware before next (before routing): ResolvePattern + Vars", "middleware after next: ResolvePattern + Vars"},
		"urls":      len(lu.urls), "urls_probe": len(lu.probe), "urls_with_rawpath_set": nSet, "urls_rawpath_empty_but_escaped": nEmptyEsc,
		"urls_rawpath_empty_plain": len(lu.urls) - nSet - nEmptyEsc,
	})
	return lu, a
}

// ---------------------------------------------------------------- run

func run(c *core.Ctx) {
	if f := os.Getenv("C16_CPUPROFILE"); f != "" { // diagnostics only
		if w, err := os.Create(f); err == nil {
			pprof.StartCPUProfile(w) // nolint: errcheck
			defer pprof.StopCPUProfile()
		}
	}
	c.Rule("a state is one legal set of registrations (method x pattern); a transition is one request (method x path built by substituting " +
		"url.PathEscape'd menu values into a pattern of the universe, parsed by net/http's request parser) served by the real goa Muxer built for that set " +
		"under one middleware mode {none, ResolvePattern+Vars asked before next (= before routing), ResolvePattern+Vars asked after next}; what the middleware is told is compared with " +
		"what the handler is told and with the registered pattern / original values; sets of each size are complete over the stated alphabet " +
		"(legal = no two registrations of one method identical after wildcard-name erasure); non-trivial = the set contains a wildcard pattern")
	c.Assume("net/http's http.ReadRequest / real http.Server and url.PathEscape are trusted: they define what the client placed on the wire and what Path/RawPath a server sees")
	c.Assume("a literal segment is sent the way a URL carries it (url.PathEscape of the literal: a -> a, é -> %C3%A9, 'a b' -> a%20b); a raw segment equal to that spelling matches the literal, " +
		"and matches a {name} wildcard as well (which of several matching patterns wins is not asserted); any other spelling of a literal (raw UTF-8, lower-case hex, over-escaped) is an open reading, not asserted; " +
		"literals containing % are not in the alphabet (whether a pattern's own text is to be read as escaped is not settled by the statement)")
	c.Assume("the client's spelling of a value is one of two encoders per wildcard: url.PathEscape (minimal; the parsed URL has no RawPath unless the value has a slash) or every byte as %XX (RawPath always set); both decode to the same text")
	c.Assume("readings the statement leaves open are not asserted: trailing slash added/removed, an escaped slash read as separator, empty single-segment capture, " +
		"catch-all without its separating slash, status of a request whose path matches only registrations of another method")
	c.Rule("environment: every phase named front=... mounts a goa runtime middleware (SmartRedirectSlashes, Debug) with Use in front of the router and of the observing middleware; " +
		"the oracle is unchanged: a request matching a registered pattern reaches that handler with the original values, a redirect for it is a violation (signature ... front=<name>)")
	c.Rule("generated path constructors: a state is one method (base paths x routes) of the family of ctor.go; a transition is one call of one generated constructor (server and client package) " +
		"with one assignment of menu values to the wildcards of its pattern, bound by parameter name, in one calling style {escaped arguments, as the generated client}, routed through goahttp.NewMuxer()")
	c.Assume("a path that is a pattern with an EMPTY single-segment value substituted (//a = /{x}/a with x empty, as much as /{*w} with w = /a) is an ambiguous request when another pattern matches it strictly: " +
		"which of the two serves it is not asserted (empty single-segment values are not in the single-value menus for that reason)")
	c.Assume("generated path constructors: constructor k of a method belongs to the k-th full path in the order routes outer, base paths inner (expr.RouteExpr.FullPaths); parameter names are read from the generated source; " +
		"in client style a single-segment value containing a slash is executed but not asserted (the generated builder does not escape: recorded C02 finding)")
	c.Assume("Use called after the first Handle panics inside chi (\"all middlewares must be defined before routes\"); the statement does not say Use must be accepted then, so this is recorded as an outcome, not a violation")
	c.Assume("violation 'cases' printed by the core count distinct signatures once; exact per-signature request counts are in coverage.violation_request_counts")

	if os.Getenv("C16_ONLY_CONSTRUCTORS") != "" { // development aid: only the generated path constructors (seconds)
		runConstructors(c)
		c.Incomplete("C16_ONLY_CONSTRUCTORS is set: the router universes were not explored")
		return
	}
	stop := timing("universe")
	full := genPatterns([]seg{litA, litB, parX, parY}, []seg{litA, litB, parX, parY, catchW, catchV}, 3)
	u, err := newUniverse(full, menus{single: singleFull, catch: catchFull, singleProb: singleProb, catchProb: catchProb, encoders: encMin,
		foreign: []string{"/c", "/a/c", "/c/c/c/c", "/a/b/a/b/a/b"}})
	if err != nil {
		c.HarnessError("building the URL universe: %v", err)
		return
	}
	stop()
	aFull := u.alphabet("full", []seg{litA, litB, parX, parY}, []seg{litA, litB, parX, parY, catchW, catchV}, 3)
	aMid := u.alphabet("middle", []seg{litA, parX, parY}, []seg{litA, parX, parY, catchW}, 3)
	aRed := u.alphabet("reduced", []seg{litA, parX}, []seg{litA, parX, catchW}, 3)
	nRawSet := 0
	for _, uc := range u.urls {
		if uc.RawPathSet {
			nRawSet++
		}
	}
	c.Note("alphabet", map[string]any{
		"patterns_full": len(aFull.pats), "patterns_middle": len(aMid.pats), "patterns_reduced": len(aRed.pats),
		"methods": methods, "single_values": singleFull, "catchall_values": catchFull,
		"probe_single_values": singleProb, "probe_catchall_values": catchProb,
		"urls_full_menu": len(u.urls), "urls_probe": len(u.probe), "urls_with_rawpath_set": nRawSet, "accept_types_on_404": accepts,
	})

	allURLs := make([]int, len(u.urls))
	for i := range allURLs {
		allURLs[i] = i
	}
	ownPlusProbe := u.ownPlusProbe
	// probe URLs of a sub-alphabet: built from its patterns with the probe menus, plus paths
	// that only other literals / longer paths produce
	probeOf := func(a alphabet) []int {
		seen := map[int]bool{}
		for _, pi := range a.pats {
			buildPaths(pi, &u.pats[pi], singleProb, catchProb, encMin, func(raw string, _ build) { seen[u.byRaw[raw]] = true })
		}
		for _, raw := range []string{"/b", "/a/b", "/b/a", "/a/a/b", "/c", "/a/c", "/c/c/c/c", "/a/b/a/b/a/b"} {
			seen[u.byRaw[raw]] = true
		}
		var out []int
		for i := range seen {
			out = append(out, i)
		}
		sort.Ints(out)
		return out
	}
	midProbe, redProbe := probeOf(aMid), probeOf(aRed)
	c.Note("urls_probe_middle_alphabet", len(midProbe))
	c.Note("urls_probe_reduced_alphabet", len(redProbe))
	all := func([]element) []int { return allURLs }
	mprobe := func([]element) []int { return midProbe }
	rprobe := func([]element) []int { return redProbe }
	modes := []mwMode{mwNone, mwPre, mwPost}

	coll := newCollector()
	sets := func(a alphabet, k int) [][]element {
		s, illegal := u.legalSets(a, k)
		c.Note(fmt.Sprintf("sets size=%d alphabet=%s", k, a.name), map[string]int{"legal": len(s), "excluded_by_rule": illegal})
		return s
	}
	probe := func([]element) []int { return u.probe }
	f1 := sets(aFull, 1)
	u.runPhase(c, coll, phase{name: "size1 full-alphabet all-urls", sets: f1, urls: all, modes: modes, accept: true, useAfter: true})
	// environment dimension: goa's SmartRedirectSlashes mounted with Use in front of the router
	if c.Thorough() {
		u.runPhase(c, coll, phase{name: "size1 full-alphabet all-urls front=smart-redirect-slashes", sets: f1, urls: all, modes: []mwMode{mwNone, mwPre}, front: frontSRS})
		f2, m3 := sets(aFull, 2), sets(aMid, 3)
		u.runPhase(c, coll, phase{name: "size2 full-alphabet all-urls", sets: f2, urls: all, modes: modes, useAfter: true})
		u.runPhase(c, coll, phase{name: "size2 full-alphabet own+probe-urls front=smart-redirect-slashes", sets: f2, urls: ownPlusProbe, modes: []mwMode{mwNone, mwPre}, front: frontSRS})
		u.runPhase(c, coll, phase{name: "size3 middle-alphabet probe-urls", sets: m3, urls: probe, modes: modes})
		u.runPhase(c, coll, phase{name: "size3 middle-alphabet probe-urls front=smart-redirect-slashes", sets: m3, urls: probe, modes: []mwMode{mwNone}, front: frontSRS})
		for k := 4; k <= 6; k++ {
			u.runPhase(c, coll, phase{name: fmt.Sprintf("size%d reduced-alphabet reduced-probe-urls", k), sets: sets(aRed, k), urls: rprobe, modes: modes})
		}
		u.serverPhase(c, coll, phase{name: "real-server size1 full-alphabet own+probe-urls", sets: sets(aFull, 1), urls: ownPlusProbe, modes: modes, accept: true})
		c.Note("bounds", "sets: sizes 1 and 2 complete over the full alphabet x every URL of the full value menus, all three middleware modes; "+
			"size 3 complete over the middle alphabet x the full alphabet's probe URLs; sizes 4-6 complete over the reduced alphabet x its probe URLs; "+
			"real httptest.Server+http.Client pass over all size-1 sets of the full alphabet (own URLs with full menus + probe URLs)")
	} else {
		f2, r3 := sets(aFull, 2), sets(aRed, 3)
		u.runPhase(c, coll, phase{name: "size1 full-alphabet all-urls front=smart-redirect-slashes", sets: f1, urls: all, modes: []mwMode{mwNone}, front: frontSRS})
		u.runPhase(c, coll, phase{name: "size2 full-alphabet own+probe-urls", sets: f2, urls: ownPlusProbe, modes: []mwMode{mwNone, mwPre}, useAfter: true})
		u.runPhase(c, coll, phase{name: "size2 middle-alphabet probe-urls front=smart-redirect-slashes", sets: sets(aMid, 2), urls: probe, modes: []mwMode{mwNone}, front: frontSRS})
		u.runPhase(c, coll, phase{name: "size3 reduced-alphabet middle-probe-urls", sets: r3, urls: mprobe, modes: modes})
		u.runPhase(c, coll, phase{name: "size3 reduced-alphabet middle-probe-urls front=smart-redirect-slashes", sets: r3, urls: mprobe, modes: []mwMode{mwNone}, front: frontSRS})
		u.serverPhase(c, coll, phase{name: "real-server size1 reduced-alphabet own+probe-urls", sets: sets(aRed, 1), urls: ownPlusProbe, modes: []mwMode{mwNone, mwPre}, accept: true})
		c.Note("bounds", "sets: size 1 complete over the full alphabet x every URL of the full value menus, three middleware modes; size 2 complete over the full alphabet x "+
			"(own URLs with full menus + probe URLs), middleware modes none and ResolvePattern-before-next; size 3 complete over the reduced alphabet x the middle alphabet's probe URLs; "+
			"real httptest.Server+http.Client pass over the size-1 sets of the reduced alphabet")
	}

	// ---- second universe: observers placed before routing x literal segments that a URL
	// carries escaped x how the client spells the values (see litUniverse)
	lu, aLit := litUniverse(c)
	if lu == nil {
		return
	}
	lsets := func(k int) [][]element {
		s, illegal := lu.legalSets(aLit, k)
		c.Note(fmt.Sprintf("sets size=%d alphabet=%s", k, aLit.name), map[string]int{"legal": len(s), "excluded_by_rule": illegal})
		return s
	}
	lall := func([]element) []int {
		out := make([]int, len(lu.urls))
		for i := range out {
			out[i] = i
		}
		return out
	}
	l1, l2 := lsets(1), lsets(2)
	lu.runPhase(c, coll, phase{name: "literal-encoding size1 all-urls", sets: l1, urls: lall, modes: modes, accept: true})
	if !c.Thorough() {
		lu.runPhase(c, coll, phase{name: "literal-encoding size1 all-urls front=smart-redirect-slashes", sets: l1, urls: lall, modes: []mwMode{mwNone, mwPre}, front: frontSRS})
	}
	lu.runPhase(c, coll, phase{name: "literal-encoding size1 all-urls front=debug", sets: l1, urls: lall, modes: []mwMode{mwNone, mwPre}, front: frontDebug})
	if c.Thorough() {
		lu.runPhase(c, coll, phase{name: "literal-encoding size1 all-urls front=smart-redirect-slashes", sets: l1, urls: lall, modes: modes, front: frontSRS, accept: true})
		lu.runPhase(c, coll, phase{name: "literal-encoding size2 all-urls", sets: l2, urls: lall, modes: modes})
		lu.runPhase(c, coll, phase{name: "literal-encoding size2 all-urls front=smart-redirect-slashes", sets: l2, urls: lall, modes: modes, front: frontSRS})
		lu.runPhase(c, coll, phase{name: "literal-encoding size2 own+probe-urls front=debug", sets: l2, urls: lu.ownPlusProbe, modes: []mwMode{mwNone, mwPre}, front: frontDebug})
		lu.serverPhase(c, coll, phase{name: "real-server literal-encoding size1 own+probe-urls", sets: l1, urls: lu.ownPlusProbe, modes: modes, accept: true})
		lu.serverPhase(c, coll, phase{name: "real-server literal-encoding size1 own+probe-urls front=smart-redirect-slashes", sets: l1, urls: lu.ownPlusProbe, modes: []mwMode{mwPre}, front: frontSRS})
		c.Note("bounds literal-encoding", "sets of size 1 and 2 complete over the literal-encoding alphabet x every URL of its universe (complete product pattern x value menu x encoder per wildcard), "+
			"three middleware modes; real httptest.Server+http.Client pass over all size-1 sets (own + probe URLs)")
	} else {
		lu.runPhase(c, coll, phase{name: "literal-encoding size2 own+probe-urls", sets: l2, urls: lu.ownPlusProbe, modes: []mwMode{mwNone, mwPre}})
		lu.runPhase(c, coll, phase{name: "literal-encoding size2 own+probe-urls front=smart-redirect-slashes", sets: l2, urls: lu.ownPlusProbe, modes: []mwMode{mwPre}, front: frontSRS})
		lprobe := func([]element) []int { return lu.probe }
		lu.serverPhase(c, coll, phase{name: "real-server literal-encoding size1 probe-urls", sets: l1, urls: lprobe, modes: []mwMode{mwPre}})
		lu.serverPhase(c, coll, phase{name: "real-server literal-encoding size1 probe-urls front=smart-redirect-slashes", sets: l1, urls: lprobe, modes: []mwMode{mwNone}, front: frontSRS})
		c.Note("bounds literal-encoding", "sets of size 1 complete over the literal-encoding alphabet x every URL of its universe, three middleware modes; size 2 complete (every pair, so every pair "+
			"where one pattern is more general than the other) x (every URL built from the set's own patterns with the complete product value menu x encoder per wildcard + probe URLs), "+
			"middleware modes none and pre (observer before routing); real httptest.Server+http.Client pass over all size-1 sets with the observer before routing")
	}
	// evidence sample: a literal the URL carries escaped next to a more general pattern, asked
	// with the observer before routing, value spelled minimally (RawPath empty)
	if pe, okE := lu.patIdx["/é/{y}"]; okE {
		if pg, okG := lu.patIdx["/{x}/{y}"]; okG {
			if ui, okU := lu.byRaw["/%C3%A9/a%20b"]; okU {
				c.Sample(lu.describe([]element{{0, pe}, {0, pg}}, mwPre, frontNone, 0, ui, 0, false))
			}
		}
	}
	c.Note("pre_routing_observer_comparisons", map[string]int64{
		"requests_compared_rawpath_empty": coll.preCompared[0], "requests_compared_rawpath_set": coll.preCompared[1]})

	// ---- third part: the path constructors goa generates (ctor.go)
	runConstructors(c)

	// outcomes: exact counts as a note; the core's outcome table gets one tick per class
	oc := map[string]int64{}
	var classes []string
	for o, n := range coll.outcomes {
		oc[o] = n
		classes = append(classes, o)
	}
	sort.Strings(classes)
	for _, o := range classes {
		c.Outcome(o)
	}
	c.Note("outcome_request_counts", oc)

	var sigs []string
	vc := map[string]int64{}
	for s, a := range coll.sigs {
		sigs = append(sigs, s)
		vc[s] = a.count
	}
	sort.Strings(sigs)
	if len(vc) > 0 {
		c.Note("violation_request_counts", vc)
	}
	for i, s := range sigs {
		a := coll.sigs[s]
		if i < 3 {
			c.Sample(a.first)
		}
		sig, cd := s, a.first
		c.Violation(sig, fmt.Sprintf("%s (%d requests with this signature in this run)", a.what, a.count), cd, func() bool {
			fails, _, err := runCase(cd)
			if err != nil {
				return false
			}
			for _, f := range fails {
				if f.sig == sig {
					return true
				}
			}
			return false
		})
	}
	// evidence samples: a few ordinary cases
	for _, E := range [][]element{{aFull.elems[0]}, {aFull.elems[5], aFull.elems[40]}, {aRed.elems[4], aRed.elems[11], aRed.elems[20]}} {
		c.Sample(u.describe(E, mwPre, frontNone, 0, u.own[E[len(E)-1].Pat][0], 0, false))
	}
}

func replay(c *core.Ctx, path string) {
	var cd caseDesc
	if err := core.ReplayCase(path, &cd); err != nil {
		c.HarnessError("cannot load %s: %v", path, err)
		return
	}
	if cd.Ctor != nil {
		replayCtor(c, cd.Ctor)
		return
	}
	fails, info, err := runCase(cd)
	if err != nil {
		c.HarnessError("replay: %v", err)
		return
	}
	c.Exec(1)
	c.State(fmt.Sprint(cd.Elements), true)
	fmt.Printf("replay %s %s on %v middleware=%s real_server=%v\n  %s\n  failures=%d\n", cd.Method, cd.Path, cd.Elements, cd.Mw, cd.Server, info, len(fails))
	for _, f := range fails {
		fmt.Printf("  %s: %s\n", f.sig, f.what())
		c.Violation(f.sig, f.what(), cd, nil)
	}
}

func main() { core.Main("C16", run, replay) }

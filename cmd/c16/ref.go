package main

// Reference side of C16: pattern alphabet, value menus, URL construction, an independent
// segment-wise matcher and percent-decoder. Nothing in this file calls goa or chi.

import (
	"net/url"
	"strings"
)

const (
	kLit   = iota // literal segment
	kParam        // {name}: exactly one segment
	kCatch        // {*name}: the rest of the path, last segment of a pattern only
)

type seg struct {
	Kind int
	Text string // the literal, or the wildcard name
}

func (s seg) String() string {
	switch s.Kind {
	case kParam:
		return "{" + s.Text + "}"
	case kCatch:
		return "{*" + s.Text + "}"
	}
	return s.Text
}

// pat is one routing pattern of the alphabet.
type pat struct {
	Str    string // as registered with Muxer.Handle, e.g. /a/{x}/{*w}
	Segs   []seg
	Wire   []string // per segment: the text of a literal as a URL carries it (url.PathEscape); "" for wildcards
	Erased string   // wildcard names erased: /a/{}/{*}
	Wild   int      // number of wildcards
	EscLit bool     // some literal segment is spelled differently in a URL than in the pattern (space, non-ASCII)
}

func mkPat(segs []seg) pat {
	p := pat{Segs: append([]seg{}, segs...), Wire: make([]string, len(segs))}
	var sb, eb strings.Builder
	for i, s := range segs {
		if s.Kind == kLit {
			p.Wire[i] = url.PathEscape(s.Text)
			if p.Wire[i] != s.Text {
				p.EscLit = true
			}
		}
		sb.WriteByte('/')
		eb.WriteByte('/')
		sb.WriteString(s.String())
		switch s.Kind {
		case kParam:
			eb.WriteString("{}")
			p.Wild++
		case kCatch:
			eb.WriteString("{*}")
			p.Wild++
		default:
			eb.WriteString(s.Text)
		}
	}
	p.Str, p.Erased = sb.String(), eb.String()
	return p
}

// genPatterns enumerates every pattern of 1..maxLen segments whose non-final segments come
// from nonFinal and whose final segment comes from final, shortest first, odometer order.
// Patterns that use one wildcard name twice are not patterns (the router refuses them at
// registration) and are skipped.
func genPatterns(nonFinal, final []seg, maxLen int) []pat {
	var out []pat
	for n := 1; n <= maxLen; n++ {
		idx := make([]int, n)
		for {
			segs := make([]seg, n)
			names := map[string]bool{}
			ok := true
			for i := 0; i < n; i++ {
				if i == n-1 {
					segs[i] = final[idx[i]]
				} else {
					segs[i] = nonFinal[idx[i]]
				}
				if segs[i].Kind != kLit {
					if names[segs[i].Text] {
						ok = false
					}
					names[segs[i].Text] = true
				}
			}
			if ok {
				out = append(out, mkPat(segs))
			}
			i := n - 1
			for ; i >= 0; i-- {
				idx[i]++
				lim := len(nonFinal)
				if i == n-1 {
					lim = len(final)
				}
				if idx[i] < lim {
					break
				}
				idx[i] = 0
			}
			if i < 0 {
				break
			}
		}
	}
	return out
}

var (
	litA   = seg{kLit, "a"}
	litB   = seg{kLit, "b"}
	litE   = seg{kLit, "é"}   // non-ASCII literal: a URL carries it as %C3%A9
	litSp  = seg{kLit, "a b"} // literal with a space: a URL carries it as a%20b
	parX   = seg{kParam, "x"}
	parY   = seg{kParam, "y"}
	catchW = seg{kCatch, "w"}
	catchV = seg{kCatch, "v"}
)

// Value menus of the design. A catch-all value containing "/" is placed in the URL in two
// forms: with the slashes literal (each segment escaped on its own; the form of the Muxer
// documentation example /images/public/thumbnail.jpg) and fully escaped (url.PathEscape of the
// whole value, the form of the statement "substituting escaped values into a pattern"). Both
// must give back the original value: the captured text after percent-decoding is the same.
var (
	singleFull = []string{"a", "a b", "%", "%41", "%2F", "%zz", "100%", "a/b", "+", "é", "日本"}
	catchFull  = []string{"a", "a b", "%", "%41", "%2F", "%zz", "100%", "a/b", "+", "é", "日本", "", "a/b/c"}
	singleProb = []string{"a", "%41", "a/b"}
	catchProb  = []string{"a", "%41", "a/b", ""}
	// value menus of the literal/encoding universe: the design menus plus the text that looks
	// like the escaped spelling of the literal "é" (to a literal what %41 is to "A")
	// and values that are not canonical paths: a middleware or router that "cleans" the path
	// (removes empty, "." and ".." segments) before or instead of matching changes them
	nonCanonSingle = []string{".", ".."}
	nonCanonCatch  = []string{"a//b", "/a", ".", "..", "a/../b", "a/./b", "https://x/y"}
	singleLit      = append(append(append([]string{}, singleFull...), "%C3%A9"), nonCanonSingle...)
	catchLit       = append(append(append([]string{}, catchFull...), "%C3%A9"), nonCanonCatch...)
	// probe menus of the literal/encoding universe: one value per class that decides whether
	// the parsed URL has a RawPath and whether the decoded and the escaped spelling differ
	singleProbLit = []string{"a", "a b", "%41", "é", "a/b", ".."}
	catchProbLit  = []string{"a", "a b", "%41", "é", "a/b", "", "a//b", "a/../b"}
)

// An encoder is one way a client spells a value in a URL path.
//
//	min: url.PathEscape, the minimal escaping. For most values (space, %, non-ASCII) the
//	     parsed URL then has an EMPTY RawPath (the escaped spelling is the canonical one) and
//	     the router works on the decoded URL.Path; only an escaped slash forces a RawPath.
//	all: every byte of the value written as %XX. Equally valid, decodes to the same text, but
//	     it is never the canonical spelling, so the parsed URL HAS a RawPath and the router
//	     works on the escaped path - for every non-empty value, not only those with a slash.
var (
	encMin = []string{"min"}
	encAll = []string{"min", "all"}
)

func encode(enc, v string) string {
	if enc == "min" {
		return url.PathEscape(v)
	}
	const hex = "0123456789ABCDEF"
	b := make([]byte, 0, 3*len(v))
	for i := 0; i < len(v); i++ {
		b = append(b, '%', hex[v[i]>>4], hex[v[i]&15])
	}
	return string(b)
}

// valueClass is the abstract class of an original wildcard value used in signatures.
func valueClass(v string) string {
	if v == "" {
		return "empty"
	}
	if i := strings.IndexByte(v, '%'); i >= 0 {
		if i+3 <= len(v) && isHex(v[i+1]) && isHex(v[i+2]) {
			if d, ok := pctDecode(v[i : i+3]); ok && d == "/" {
				return "pct-slash"
			}
			return "pct-hexpair"
		}
		if i+1 < len(v) {
			return "pct-nonhex"
		}
		return "pct-bare"
	}
	for _, sg := range strings.Split(v, "/") {
		if sg == "." || sg == ".." {
			return "dot-segment"
		}
	}
	switch {
	case strings.Contains(v, "//") || strings.HasPrefix(v, "/") || strings.HasSuffix(v, "/"):
		return "empty-segment"
	case strings.Contains(v, "/"):
		return "slash"
	case strings.Contains(v, " "):
		return "space"
	case strings.Contains(v, "+"):
		return "plus"
	}
	for i := 0; i < len(v); i++ {
		if v[i] >= 0x80 {
			return "utf8"
		}
	}
	return "plain"
}

func isHex(c byte) bool {
	return c >= '0' && c <= '9' || c >= 'a' && c <= 'f' || c >= 'A' && c <= 'F'
}

func unhex(c byte) byte {
	switch {
	case c >= '0' && c <= '9':
		return c - '0'
	case c >= 'a' && c <= 'f':
		return c - 'a' + 10
	}
	return c - 'A' + 10
}

// pctDecode percent-decodes s exactly once. It is the reference for "the text the client
// placed there after percent-decoding". ok is false when s is not a valid escaping.
func pctDecode(s string) (string, bool) {
	if strings.IndexByte(s, '%') < 0 {
		return s, true
	}
	b := make([]byte, 0, len(s))
	for i := 0; i < len(s); i++ {
		if s[i] != '%' {
			b = append(b, s[i])
			continue
		}
		if i+2 >= len(s) || !isHex(s[i+1]) || !isHex(s[i+2]) {
			return "", false
		}
		b = append(b, unhex(s[i+1])<<4|unhex(s[i+2]))
		i += 2
	}
	return string(b), true
}

// splitPath splits an absolute path into its segments: "/a/b" -> [a b], "/a/" -> [a ""],
// "/" -> [""].
func splitPath(p string) []string {
	return strings.Split(strings.TrimPrefix(p, "/"), "/")
}

// match is the reference matcher: segment-wise over the path exactly as the client sent it
// (still escaped; an escaped slash %2F is part of a segment, not a separator).
//
// A literal segment of a pattern is compared with the spelling a URL carries it in
// (url.PathEscape of the literal: "a" stays "a", "é" is %C3%A9, "a b" is a%20b); with
// decoded=true the segments given are already percent-decoded and are compared with the
// literal's own text (lenient readings only).
//
// strict (lenient=false): literals equal their segment, {name} takes exactly one non-empty
// segment, {*name} takes everything after the "/" that follows the preceding segments
// (possibly nothing), and a pattern without catch-all matches only paths with exactly as many
// segments. lenient=true additionally lets {name} take an empty segment and lets a catch-all
// match when the path stops right before its "/" ("/a" against /a/{*w}); it is only used to
// recognise requests for which the statement does not say what must happen.
//
// caps are the captured raw texts in pattern order.
func match(p *pat, segs []string, lenient bool) (bool, []string) {
	return matchForm(p, segs, lenient, false)
}

// matchEmptyCapture is the strict matcher except that {name} may take an empty segment. A path
// it accepts IS the pattern with values substituted, one of them the empty text ("//a" is
// /{x}/a with x = "" as much as it is /{*w} with w = "/a"): when such a pattern serves a
// request that another pattern matches strictly, the request was ambiguous, and which of
// several matching patterns wins is not asserted. It never obliges the router to dispatch.
func matchEmptyCapture(p *pat, segs []string) bool {
	ok, _ := matchOpts(p, segs, true, false, false)
	return ok
}

func matchForm(p *pat, segs []string, lenient, decoded bool) (bool, []string) {
	return matchOpts(p, segs, lenient, lenient, decoded)
}

// matchOpts: emptyParam lets {name} take an empty segment, noSlashCatch lets a catch-all match
// a path that stops right before its separating slash.
func matchOpts(p *pat, segs []string, emptyParam, noSlashCatch, decoded bool) (bool, []string) {
	var caps []string
	for i, s := range p.Segs {
		switch s.Kind {
		case kCatch:
			if len(segs) < i {
				return false, nil
			}
			if len(segs) == i {
				if !noSlashCatch {
					return false, nil
				}
				return true, append(caps, "")
			}
			return true, append(caps, strings.Join(segs[i:], "/"))
		case kParam:
			if len(segs) <= i {
				return false, nil
			}
			if segs[i] == "" && !emptyParam {
				return false, nil
			}
			caps = append(caps, segs[i])
		default:
			if len(segs) <= i || !decoded && segs[i] != p.Wire[i] || decoded && segs[i] != s.Text {
				return false, nil
			}
		}
	}
	if len(segs) != len(p.Segs) {
		return false, nil
	}
	return true, caps
}

// lenientMatch reports whether p could be said to match under any reading the statement
// leaves open: the escaped path, the escaped path decoded segment by segment (a literal the
// client escaped more than needed, or with lower-case hex digits) or the decoded path, with a
// trailing slash added or removed, empty single-segment captures, catch-all without its
// separating slash.
func lenientMatch(p *pat, rawSegs, decRaw, decSegs []string) bool {
	for fi, segs := range [][]string{rawSegs, decRaw, decSegs} {
		decoded := fi > 0
		if ok, _ := matchForm(p, segs, true, decoded); ok {
			return true
		}
		if n := len(segs); n > 1 && segs[n-1] == "" {
			if ok, _ := matchForm(p, segs[:n-1], true, decoded); ok {
				return true
			}
		}
		plus := append(append([]string{}, segs...), "")
		if ok, _ := matchForm(p, plus, true, decoded); ok {
			return true
		}
	}
	return false
}

// build is one way a URL was constructed: pattern + the original values of its wildcards.
type build struct {
	Pat    int      // index into the full pattern alphabet
	Values []string // original values in pattern order
	Forms  []string // per wildcard: "esc" (the whole value escaped) or "lit" (slashes kept literal) + "-" + encoder
}

// buildPaths returns every raw request path obtained by substituting escaped values from the
// menus into p (complete product over the wildcards of value x encoder); literal segments are
// written the way a URL carries them (url.PathEscape).
func buildPaths(pi int, p *pat, single, catch, encoders []string, f func(raw string, b build)) {
	type choice struct{ val, enc, form string }
	var opts [][]choice
	for _, s := range p.Segs {
		switch s.Kind {
		case kParam:
			var o []choice
			for _, v := range single {
				for _, e := range encoders {
					o = append(o, choice{v, encode(e, v), "esc-" + e})
				}
			}
			opts = append(opts, o)
		case kCatch:
			var o []choice
			for _, v := range catch {
				for _, e := range encoders {
					o = append(o, choice{v, encode(e, v), "esc-" + e})
					if strings.Contains(v, "/") {
						parts := strings.Split(v, "/")
						for i := range parts {
							parts[i] = encode(e, parts[i])
						}
						o = append(o, choice{v, strings.Join(parts, "/"), "lit-" + e})
					}
				}
			}
			opts = append(opts, o)
		}
	}
	idx := make([]int, len(opts))
	for {
		var sb strings.Builder
		b := build{Pat: pi}
		w := 0
		for si, s := range p.Segs {
			sb.WriteByte('/')
			if s.Kind == kLit {
				sb.WriteString(p.Wire[si])
				continue
			}
			c := opts[w][idx[w]]
			sb.WriteString(c.enc)
			b.Values = append(b.Values, c.val)
			b.Forms = append(b.Forms, c.form)
			w++
		}
		f(sb.String(), b)
		i := len(idx) - 1
		for ; i >= 0; i-- {
			idx[i]++
			if idx[i] < len(opts[i]) {
				break
			}
			idx[i] = 0
		}
		if i < 0 {
			return
		}
	}
}

// combos enumerates all k-subsets of 0..n-1 in lexicographic order.
func combos(n, k int, f func(c []int)) {
	c := make([]int, k)
	for i := range c {
		c[i] = i
	}
	if k > n {
		return
	}
	for {
		f(c)
		i := k - 1
		for ; i >= 0; i-- {
			if c[i] < n-k+i {
				break
			}
		}
		if i < 0 {
			return
		}
		c[i]++
		for j := i + 1; j < k; j++ {
			c[j] = c[j-1] + 1
		}
	}
}

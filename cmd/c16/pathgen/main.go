// pathgen evaluates ONE service design with the real goa DSL engine and renders, with the real
// HTTP code generator, the files that hold the generated request path constructors
// (gen/http/<service>/{server,client}/paths.go). One fresh process per service: goa's DSL
// engine, generator caches and name scopes are process-wide state.
//
//	pathgen -spec service.json -out dir [-client]
//
// It prints one JSON line {"ok":..,"stage":..,"error":..,"files":[..]}. It is part of check C16
// (see ../gen.go); it holds no oracle.
package main

import (
	"encoding/json"
	"flag"
	"fmt"
	"os"
	"runtime/debug"

	. "goa.design/goa/v3/dsl"
	"goa.design/goa/v3/eval"
	"goa.design/goa/v3/expr"
	httpcodegen "goa.design/goa/v3/http/codegen"
)

// Spec mirrors svcSpec of the check.
type Spec struct {
	Name    string   `json:"name"`
	Bases   []string `json:"bases"`
	Methods []struct {
		Name   string   `json:"name"`
		Params []string `json:"params"`
		Routes []struct {
			Verb string `json:"verb"`
			Path string `json:"path"`
		} `json:"routes"`
	} `json:"methods"`
}

type result struct {
	OK    bool     `json:"ok"`
	Stage string   `json:"stage"`
	Error string   `json:"error,omitempty"`
	Panic string   `json:"panic,omitempty"`
	Files []string `json:"files,omitempty"`
}

func main() {
	specPath := flag.String("spec", "", "service spec (json)")
	out := flag.String("out", "", "output directory")
	client := flag.Bool("client", false, "also render the generated client (client.go, encode_decode.go, types.go)")
	flag.Parse()
	res := &result{Stage: "read"}
	defer func() {
		if r := recover(); r != nil {
			res.OK = false
			res.Panic = fmt.Sprint(r) + "\n" + string(debug.Stack())
		}
		b, _ := json.Marshal(res)
		fmt.Println(string(b))
	}()
	b, err := os.ReadFile(*specPath)
	if err != nil {
		res.Error = err.Error()
		return
	}
	var s Spec
	if err := json.Unmarshal(b, &s); err != nil {
		res.Error = err.Error()
		return
	}
	res.Stage = "dsl"
	API("c16", func() {})
	Service(s.Name, func() {
		HTTP(func() {
			for _, p := range s.Bases {
				Path(p)
			}
		})
		for _, m := range s.Methods {
			m := m
			Method(m.Name, func() {
				Payload(func() {
					for _, p := range m.Params {
						Attribute(p, String)
					}
					Required(m.Params...)
				})
				HTTP(func() {
					for _, r := range m.Routes {
						switch r.Verb {
						case "POST":
							POST(r.Path)
						default:
							GET(r.Path)
						}
					}
				})
			})
		}
	})
	if eval.Context.Errors != nil {
		res.Error = eval.Context.Errors.Error()
		return
	}
	res.Stage = "eval"
	if err := eval.RunDSL(); err != nil {
		res.Error = err.Error()
		return
	}
	res.Stage = "generate"
	files := httpcodegen.PathFiles(expr.Root)
	if *client {
		files = append(files, httpcodegen.ClientFiles("c16gen/gen", expr.Root)...)
	}
	for _, f := range files {
		p, err := f.Render(*out)
		if err != nil {
			res.Error = err.Error()
			return
		}
		res.Files = append(res.Files, p)
	}
	res.OK, res.Stage = true, "done"
}

package main

// Implementation side of C16: the URL universe parsed by the real net/http request parser,
// construction of the real goa Muxer for a pattern set, observation of what the router did,
// and the oracle that compares the observation with the reference matcher of ref.go.

import (
	"bufio"
	"bytes"
	"context"
	"encoding/gob"
	"encoding/json"
	"encoding/xml"
	"fmt"
	"io"
	"mime"
	"net/http"
	"sort"
	"strconv"
	"strings"

	goahttp "goa.design/goa/v3/http"
	goamw "goa.design/goa/v3/http/middleware"
)

var (
	methods = []string{"GET", "POST"}
	// Accept headers used on requests that must be answered 404: the types the not-found
	// handler negotiates. For JSON (default), XML and gob "well-formed error body" means
	// decodable into an ErrorResponse with a non-empty name; for text/plain and text/html,
	// where no decoding is defined, only the weakest reading is asserted: the body is not empty.
	accepts = []string{"", "application/json", "application/xml", "application/gob", "text/plain", "text/html"}
)

// element is one registration: method + pattern (index into universe.pats).
type element struct {
	Method int
	Pat    int
}

type urlCase struct {
	Raw        string   // request path exactly as put on the request line
	RawSegs    []string // its segments, still escaped
	DecSegs    []string // segments of the decoded URL.Path (lenient reading only)
	DecRaw     []string // RawSegs, each percent-decoded once by the reference decoder
	DecSuffix  []string // DecSuffix[i] = DecRaw[i:] joined by "/" (what a catch-all at position i must yield)
	Path       string   // URL.Path as produced by the real request parser
	RawPath    string   // URL.RawPath as produced by the real request parser
	RawPathSet bool
	EscSlash   bool // contains an escaped slash
	Builds     []build
	Probe      bool
	tmpl       [2][6]*http.Request
}

// decode fills DecRaw and DecSuffix with the reference decoder.
func (uc *urlCase) decode() error {
	uc.DecRaw = make([]string, len(uc.RawSegs))
	for i, s := range uc.RawSegs {
		d, ok := pctDecode(s)
		if !ok {
			return fmt.Errorf("segment %q of %q is not a valid escaping", s, uc.Raw)
		}
		uc.DecRaw[i] = d
	}
	uc.DecSuffix = make([]string, len(uc.RawSegs)+1)
	for i := range uc.RawSegs {
		uc.DecSuffix[i] = strings.Join(uc.DecRaw[i:], "/")
	}
	return nil
}

// menus is what a URL universe is built from besides its patterns.
type menus struct {
	name                  string   // "" for the main universe; prefixes state keys and notes otherwise
	single, catch         []string // full value menus
	singleProb, catchProb []string // reduced menus of the probe URLs
	encoders              []string // how the client spells a value (ref.go)
	foreign               []string // request paths no pattern of the alphabet produces
}

type universe struct {
	menus
	pats    []pat
	patIdx  map[string]int
	urls    []*urlCase
	byRaw   map[string]int
	own     [][]int // per pattern: URLs built from it with the full value menus
	probe   []int   // URLs built from every pattern with the reduced menus + a few foreign paths
	strict  [][]bool
	lenient [][]bool
	empty   [][]bool // matchEmptyCapture (ref.go)
}

// parseReq runs the real net/http server-side request parser over a raw request.
func parseReq(method, raw, accept string) (*http.Request, error) {
	var sb strings.Builder
	sb.WriteString(method + " " + raw + " HTTP/1.1\r\nHost: c16.test\r\n")
	if accept != "" {
		sb.WriteString("Accept: " + accept + "\r\n")
	}
	sb.WriteString("\r\n")
	return http.ReadRequest(bufio.NewReader(strings.NewReader(sb.String())))
}

func newUniverse(pats []pat, mn menus) (*universe, error) {
	u := &universe{menus: mn, pats: pats, patIdx: map[string]int{}, byRaw: map[string]int{}, own: make([][]int, len(pats))}
	for i, p := range pats {
		u.patIdx[p.Str] = i
	}
	add := func(raw string) (int, error) {
		if i, ok := u.byRaw[raw]; ok {
			return i, nil
		}
		uc := &urlCase{Raw: raw, RawSegs: splitPath(raw), EscSlash: strings.Contains(strings.ToUpper(raw), "%2F")}
		for mi, m := range methods {
			r, err := parseReq(m, raw, "")
			if err != nil {
				return 0, fmt.Errorf("net/http refuses %q: %v", raw, err)
			}
			uc.tmpl[mi][0] = r
			uc.Path, uc.RawPath = r.URL.Path, r.URL.RawPath
		}
		uc.RawPathSet = uc.RawPath != ""
		uc.DecSegs = splitPath(uc.Path)
		if err := uc.decode(); err != nil {
			return 0, err
		}
		u.urls = append(u.urls, uc)
		u.byRaw[raw] = len(u.urls) - 1
		return len(u.urls) - 1, nil
	}
	var firstErr error
	for pi := range pats {
		seen := map[int]bool{}
		buildPaths(pi, &pats[pi], mn.single, mn.catch, mn.encoders, func(raw string, b build) {
			i, err := add(raw)
			if err != nil {
				if firstErr == nil {
					firstErr = err
				}
				return
			}
			u.urls[i].Builds = append(u.urls[i].Builds, b)
			if !seen[i] {
				seen[i] = true
				u.own[pi] = append(u.own[pi], i)
			}
		})
	}
	if firstErr != nil {
		return nil, firstErr
	}
	markProbe := func(i int) error {
		uc := u.urls[i]
		if uc.Probe {
			return nil
		}
		uc.Probe = true
		u.probe = append(u.probe, i)
		for mi, m := range methods {
			for ai := 1; ai < len(accepts); ai++ {
				r, err := parseReq(m, uc.Raw, accepts[ai])
				if err != nil {
					return err
				}
				uc.tmpl[mi][ai] = r
			}
		}
		return nil
	}
	for pi := range pats {
		buildPaths(pi, &pats[pi], mn.singleProb, mn.catchProb, mn.encoders, func(raw string, b build) {
			if i, ok := u.byRaw[raw]; ok {
				if err := markProbe(i); err != nil && firstErr == nil {
					firstErr = err
				}
			} else if firstErr == nil {
				firstErr = fmt.Errorf("probe path %q is not in the full universe", raw)
			}
		})
	}
	// foreign paths that no pattern of the alphabet produces
	for _, raw := range mn.foreign {
		i, err := add(raw)
		if err == nil {
			err = markProbe(i)
		}
		if err != nil && firstErr == nil {
			firstErr = err
		}
	}
	if firstErr != nil {
		return nil, firstErr
	}
	sort.Ints(u.probe)
	// reference tables + self check of the reference: every URL is matched by each pattern
	// it was built from, and the captures decode to the values that were substituted.
	u.strict = make([][]bool, len(pats))
	u.lenient = make([][]bool, len(pats))
	u.empty = make([][]bool, len(pats))
	for pi := range pats {
		u.strict[pi] = make([]bool, len(u.urls))
		u.lenient[pi] = make([]bool, len(u.urls))
		u.empty[pi] = make([]bool, len(u.urls))
		for ui, uc := range u.urls {
			ok, _ := match(&pats[pi], uc.RawSegs, false)
			u.strict[pi][ui] = ok
			u.empty[pi][ui] = matchEmptyCapture(&pats[pi], uc.RawSegs)
			u.lenient[pi][ui] = ok || lenientMatch(&pats[pi], uc.RawSegs, uc.DecRaw, uc.DecSegs)
		}
	}
	for _, uc := range u.urls {
		for _, b := range uc.Builds {
			ok, caps := match(&pats[b.Pat], uc.RawSegs, false)
			if !ok || len(caps) != len(b.Values) {
				return nil, fmt.Errorf("reference matcher does not match %q against its own pattern %s", uc.Raw, pats[b.Pat].Str)
			}
			for i, cp := range caps {
				if d, ok := pctDecode(cp); !ok || d != b.Values[i] {
					return nil, fmt.Errorf("reference decoder: %q captured %q decodes to %q, substituted value was %q", uc.Raw, cp, d, b.Values[i])
				}
			}
		}
	}
	return u, nil
}

type mwMode int

const (
	mwNone mwMode = iota // no middleware
	mwPre                // middleware (Use before Handle) asks ResolvePattern and Vars BEFORE calling next: the request is not routed yet
	mwPost               // middleware (Use before Handle) asks ResolvePattern and Vars after next returned
)

var mwNames = []string{"none", "pre", "post"}

// frontKind is the goa runtime middleware mounted with Use in front of the router (before the
// observing middleware): the environment dimension "what sits between the client and the
// pattern matching". Both are the middlewares of goa's http/middleware package that consult
// the router themselves.
type frontKind int

const (
	frontNone  frontKind = iota
	frontSRS             // middleware.SmartRedirectSlashes: redirects a request that matches no pattern to the same path with a trailing slash added/removed when that matches
	frontDebug           // middleware.Debug(mux, w): asks Muxer.Vars before routing and wraps the ResponseWriter
)

var frontNames = []string{"none", "smart-redirect-slashes", "debug"}

func frontByName(n string) frontKind {
	for i, f := range frontNames {
		if f == n {
			return frontKind(i)
		}
	}
	if n == "" {
		return frontNone
	}
	return -1
}

// obs is what one request made observable.
type obs struct {
	Handlers []int             `json:"handlers"`
	Vars     map[string]string `json:"vars"`
	HPat     string            `json:"hpat"`
	MwPre    string            `json:"mwpre"`
	MwPost   string            `json:"mwpost"`
	MwPreN   int               `json:"mwpren"`
	MwPostN  int               `json:"mwpostn"`
	MwVars   map[string]string `json:"mwvars"` // Vars as told to the middleware (before next in mode pre, after next in mode post)
	Path     string            `json:"path,omitempty"`
	RawPath  string            `json:"rawpath,omitempty"`
}

type obsKeyT struct{}

var obsKey = obsKeyT{}

// buildMux registers the elements on a fresh goa Muxer. useAfter registers the middleware
// after the handlers instead of before. A panic of Use/Handle is returned as text.
func (u *universe) buildMux(E []element, mode mwMode, useAfter bool, front frontKind) (m goahttp.ResolverMuxer, panicked string) {
	defer func() {
		if r := recover(); r != nil {
			panicked = fmt.Sprint(r)
		}
	}()
	m = goahttp.NewMuxer()
	mw := func(next http.Handler) http.Handler {
		return http.HandlerFunc(func(w http.ResponseWriter, r *http.Request) {
			o, _ := r.Context().Value(obsKey).(*obs)
			if o != nil && mode == mwPre {
				o.MwPre = m.ResolvePattern(r)
				o.MwVars = m.Vars(r)
				o.MwPreN++
			}
			next.ServeHTTP(w, r)
			if o != nil && mode == mwPost {
				o.MwPost = m.ResolvePattern(r)
				o.MwVars = m.Vars(r)
				o.MwPostN++
			}
		})
	}
	switch front {
	case frontSRS:
		m.Use(goamw.SmartRedirectSlashes)
	case frontDebug:
		m.Use(goamw.Debug(m, io.Discard))
	}
	if mode != mwNone && !useAfter {
		m.Use(mw)
	}
	for i, e := range E {
		i := i
		m.Handle(methods[e.Method], u.pats[e.Pat].Str, func(w http.ResponseWriter, r *http.Request) {
			o, _ := r.Context().Value(obsKey).(*obs)
			if o == nil {
				return
			}
			o.Handlers = append(o.Handlers, i)
			o.Vars = m.Vars(r)
			o.HPat = m.ResolvePattern(r)
		})
	}
	if mode != mwNone && useAfter {
		m.Use(mw)
	}
	return m, ""
}

// respWriter is a minimal in-memory http.ResponseWriter.
type respWriter struct {
	hdr  http.Header
	code int
	body []byte
}

func (w *respWriter) Header() http.Header {
	if w.hdr == nil {
		w.hdr = http.Header{}
	}
	return w.hdr
}
func (w *respWriter) WriteHeader(code int) {
	if w.code == 0 {
		w.code = code
	}
}
func (w *respWriter) Write(b []byte) (int, error) {
	if w.code == 0 {
		w.code = 200
	}
	w.body = append(w.body, b...)
	return len(b), nil
}

type result struct {
	o      *obs
	status int
	ct     string
	body   []byte
}

// scratch is the per-worker reusable observation record, response writer and context.
type scratch struct {
	o   obs
	w   respWriter
	ctx context.Context
}

func newScratch() *scratch {
	s := &scratch{}
	s.ctx = context.WithValue(context.Background(), obsKey, &s.o)
	return s
}

// serveDirect passes a copy of the parsed request to the Muxer. The result is valid until the
// next call with the same scratch.
func serveDirect(m http.Handler, tmpl *http.Request, s *scratch) result {
	s.o = obs{Handlers: s.o.Handlers[:0]}
	for k := range s.w.hdr {
		delete(s.w.hdr, k)
	}
	s.w.code, s.w.body = 0, s.w.body[:0]
	m.ServeHTTP(&s.w, tmpl.WithContext(s.ctx))
	st := s.w.code
	if st == 0 {
		st = 200
	}
	ct := ""
	if s.w.hdr != nil {
		ct = s.w.hdr.Get("Content-Type")
	}
	return result{o: &s.o, status: st, ct: ct, body: s.w.body}
}

// failure is one oracle failure; what is rendered only when the text is needed.
type failure struct {
	sig  string
	what func() string
}

func yn(b bool) string {
	if b {
		return "yes"
	}
	return "no"
}

func rawpathClass(uc *urlCase) string {
	if uc.RawPathSet {
		return "set"
	}
	return "empty"
}

func patKind(p *pat) string {
	k := "literal"
	for _, s := range p.Segs {
		if s.Kind == kCatch {
			return "catchall"
		}
		if s.Kind == kParam {
			k = "param"
		}
	}
	return k
}

var dispatchedOutcome [8][3]string

func init() {
	for n := 0; n < 8; n++ {
		for k, ks := range []string{"literal", "param", "catchall"} {
			dispatchedOutcome[n][k] = "dispatched strict-matches=" + strconv.Itoa(n) + " reached=" + ks
		}
	}
}

func kindIdx(p *pat) int {
	switch patKind(p) {
	case "param":
		return 1
	case "catchall":
		return 2
	}
	return 0
}

// checkNotFoundBody decides whether a 404 body is a well-formed error body: decodable, per the
// Content-Type the response announces, into an ErrorResponse with a non-empty name.
func checkNotFoundBody(ct string, body []byte) (problem string) {
	mt, _, err := mime.ParseMediaType(ct)
	if err != nil {
		return "content-type-unparsable"
	}
	var er goahttp.ErrorResponse
	switch {
	case mt == "application/json" || strings.HasSuffix(mt, "+json"):
		if err := json.Unmarshal(body, &er); err != nil {
			return "json-undecodable"
		}
	case mt == "application/xml" || strings.HasSuffix(mt, "+xml"):
		if err := xml.Unmarshal(body, &er); err != nil {
			return "xml-undecodable"
		}
	case mt == "application/gob" || strings.HasSuffix(mt, "+gob"):
		if err := gob.NewDecoder(bytes.NewReader(body)).Decode(&er); err != nil {
			return "gob-undecodable"
		}
	case mt == "text/plain" || mt == "text/html":
		if len(bytes.TrimSpace(body)) == 0 {
			return "empty"
		}
		return ""
	default:
		return "content-type-unknown"
	}
	if er.Name == "" {
		return "empty-name"
	}
	return ""
}

// judge applies the oracle to one served request.
//
// Signatures are built from: the oracle clause (dispatch / vars / resolve / notfound), where
// the value was observed (handler, middleware before next = before routing, middleware after
// next), the class of the original value, whether the parsed URL carried a RawPath (the router
// then works on the escaped path), whether a middleware had already asked before routing, and
// whether a literal segment of the pattern concerned is spelled differently in a URL than in
// the pattern. Patterns, paths and values themselves are not part of a signature.
func (u *universe) judge(E []element, mode mwMode, front frontKind, mi, ui int, res result) (fails []failure, outcome string) {
	uc := u.urls[ui]
	o := res.o
	var nStrict, nLenient, nAny int
	escLit := false // a registered pattern that matches the path as sent has a literal the URL carries escaped
	for _, e := range E {
		if u.lenient[e.Pat][ui] {
			nAny++
			if e.Method == mi {
				nLenient++
				if u.strict[e.Pat][ui] {
					nStrict++
					if u.pats[e.Pat].EscLit {
						escLit = true
					}
				}
			}
		}
	}
	add := func(sig string, format string, a ...any) {
		if front != frontNone && res.status >= 300 && res.status < 400 {
			// a redirect: the runtime middleware mounted in front of the router answered
			sig += " front=" + frontNames[front]
		}
		fails = append(fails, failure{sig, func() string {
			return fmt.Sprintf(format, a...) + " [" + methods[mi] + " " + uc.Raw + " middleware=" + mwNames[mode] + " front=" + frontNames[front] + " Path=" + uc.Path + " RawPath=" + uc.RawPath + "]"
		}})
	}
	rp := " rawpath=" + rawpathClass(uc)
	pre := " resolved-before-routing=" + yn(mode == mwPre)
	lit := ""
	if escLit {
		lit = " literal=escaped-in-url"
	}
	redirected := res.status >= 300 && res.status < 400

	if len(o.Handlers) > 1 {
		add("dispatch multiple-handlers"+rp+pre, "%d handlers were invoked for one request", len(o.Handlers))
		return fails, "multiple-handlers"
	}
	if front != frontNone && redirected && len(o.Handlers) == 0 && o.MwPreN == 0 && o.MwPostN == 0 {
		// answered by the middleware in front: the observing middleware behind it did not run;
		// whether the redirect itself is allowed is decided below
	} else if mode == mwPre && o.MwPreN != 1 || mode == mwPost && o.MwPostN != 1 {
		add("middleware-not-run-once middleware="+mwNames[mode], "the middleware registered through Use ran before-next=%d after-next=%d times", o.MwPreN, o.MwPostN)
	}

	if len(o.Handlers) == 0 {
		switch {
		case nStrict > 0:
			add("dispatch not-dispatched status="+strconv.Itoa(res.status)+lit+rp+pre,
				"no handler was invoked (status %d) although %d registered %s pattern(s) match the path", res.status, nStrict, methods[mi])
			return fails, "not-dispatched"
		case nLenient > 0:
			// includes what SmartRedirectSlashes is for: the path with a trailing slash added or
			// removed matches; the statement does not say what such a request receives
			return fails, "unspecified(match only under a lenient reading) not dispatched status=" + strconv.Itoa(res.status)
		case nAny > 0:
			// only patterns registered for another method match: the statement does not say
			// which status is returned, only that their handlers must not run (they did not)
			return fails, "method-mismatch not dispatched status=" + strconv.Itoa(res.status)
		}
		if res.status != 404 {
			add("notfound status="+strconv.Itoa(res.status), "no registered pattern matches under any reading, status is %d, not 404", res.status)
			return fails, "notfound-wrong-status"
		}
		if pr := checkNotFoundBody(res.ct, res.body); pr != "" {
			mt, _, _ := mime.ParseMediaType(res.ct)
			add("notfound body="+pr+" content-type="+mt, "404 body is not a well-formed error body (%s): Content-Type %q body %q", pr, res.ct, string(res.body))
			return fails, "notfound-bad-body"
		}
		return fails, "notfound 404 content-type=" + res.ct
	}

	h := o.Handlers[0]
	e := E[h]
	p := &u.pats[e.Pat]

	// pattern reported to the handler and to middlewares: the one the handler that served the
	// request was registered with
	report := func(at, got string) {
		if got == p.Str {
			return
		}
		cls := "not-a-registered-pattern"
		if got == "" {
			cls = "empty"
		} else {
			for _, e2 := range E {
				if u.pats[e2.Pat].Str == got {
					cls = "other-registered-pattern"
				}
			}
		}
		// in the handler what matters is whether a middleware had asked before routing; in
		// a middleware, whether the router works on the escaped path
		feat := pre
		if at != "handler" {
			feat = rp
		}
		add("resolve at="+at+" got="+cls+feat, "ResolvePattern (%s) = %q, the request was dispatched to the handler registered as %q", at, got, p.Str)
	}
	reportAll := func() {
		report("handler", o.HPat)
		if mode == mwPre && o.MwPreN > 0 {
			report("middleware-before-next", o.MwPre)
		}
		if mode == mwPost && o.MwPostN > 0 {
			report("middleware-after-next", o.MwPost)
		}
	}

	switch {
	case e.Method != mi:
		add("dispatch wrong-method", "handler registered for %s %s was invoked for a %s request", methods[e.Method], p.Str, methods[mi])
		return fails, "wrong-method"
	case nStrict > 0 && !u.strict[e.Pat][ui] && u.empty[e.Pat][ui]:
		// the path is also the reached pattern with an empty value substituted (//a = /{x}/a
		// with x = ""): an ambiguous request; the reported pattern is still the handler's
		reportAll()
		return fails, "unspecified(reached pattern matches with an empty single-segment value, another matches strictly) dispatched"
	case nStrict > 0 && !u.strict[e.Pat][ui]:
		add("dispatch wrong-handler reached-matches-leniently="+yn(u.lenient[e.Pat][ui])+" reached="+patKind(p)+lit+rp+pre,
			"handler of %s was invoked, which does not match the path as sent; %d registered pattern(s) do", p.Str, nStrict)
		return fails, "wrong-handler"
	case nStrict == 0 && !u.lenient[e.Pat][ui]:
		add("dispatch unmatched-handler reached="+patKind(p)+rp+pre, "handler of %s was invoked, which does not match the path under any reading", p.Str)
		return fails, "unmatched-handler"
	case nStrict == 0:
		// reached under a reading the statement leaves open (trailing slash, decoded slash):
		// which values are captured is not defined, but the pattern reported for the request
		// is still the one its handler was registered with
		reportAll()
		return fails, "unspecified(match only under a lenient reading) dispatched"
	}
	outcome = dispatchedOutcome[nStrict][kindIdx(p)]
	inMw := mode == mwPre || mode == mwPost

	// fast path: everything as required (no allocation); the code below re-derives the
	// details only when something is off
	if o.HPat == p.Str && (mode != mwPre || o.MwPre == p.Str) && (mode != mwPost || o.MwPost == p.Str) && len(o.Vars) == p.Wild && (!inMw || len(o.MwVars) == p.Wild) {
		good := true
		for i, sg := range p.Segs {
			want := ""
			switch sg.Kind {
			case kParam:
				want = uc.DecRaw[i]
			case kCatch:
				want = uc.DecSuffix[i]
			default:
				continue
			}
			if v, ok := o.Vars[sg.Text]; !ok || v != want {
				good = false
			}
			if inMw {
				if v, ok := o.MwVars[sg.Text]; !ok || v != want {
					good = false
				}
			}
		}
		if good {
			return nil, outcome
		}
	}

	reportAll()

	// captured values, as told to the handler and as told to the middleware
	_, caps := match(p, uc.RawSegs, false)
	var names, wants, kinds []string
	for _, s := range p.Segs {
		if s.Kind == kLit {
			continue
		}
		d, _ := pctDecode(caps[len(names)])
		names = append(names, s.Text)
		wants = append(wants, d)
		if s.Kind == kCatch {
			kinds = append(kinds, "catchall")
		} else {
			kinds = append(kinds, "param")
		}
	}
	declared := func(k string) bool {
		for _, n := range names {
			if n == k {
				return true
			}
		}
		return false
	}
	// at = "" for the handler (signatures as they always were), else the observer's position;
	// feat = the feature that matters there (see report)
	checkVars := func(at string, vars map[string]string) {
		where, feat := "", pre
		if at != "" {
			where, feat = " at="+at, ""
		}
		var gotKeys []string
		for k := range vars {
			gotKeys = append(gotKeys, k)
		}
		sort.Strings(gotKeys)
		misnamed := "" // the undeclared key under which the catch-all value was found
		hasMisnamed := false
		for i, name := range names {
			want := wants[i]
			got, ok := vars[name]
			if !ok {
				if kinds[i] == "catchall" {
					// the catch-all capture is there, but under a name the pattern does not declare
					for _, k := range gotKeys {
						if !declared(k) && (k == "" || !hasMisnamed) {
							misnamed, hasMisnamed = k, true
							if k == "" {
								break
							}
						}
					}
				}
				if hasMisnamed && kinds[i] == "catchall" {
					cls := "name-of-another-registration"
					if misnamed == "" {
						cls = "empty-name"
					}
					add("vars"+where+" catchall-name got="+cls+feat, "Vars%s = %q: the catch-all of pattern %s is not under its name %q (expected value %q)", where, vars, p.Str, name, want)
				} else {
					add("vars"+where+" missing-key route="+kinds[i]+rp+feat, "Vars%s = %q has no key %q (pattern %s, expected %q)", where, vars, name, p.Str, want)
				}
				continue
			}
			if got != want {
				cls := "other"
				if d, ok := pctDecode(want); ok && d == got {
					cls = "decoded-twice"
				} else if d, ok := pctDecode(got); ok && d == want {
					cls = "still-escaped"
				}
				add("vars"+where+" value-class="+valueClass(want)+" route="+kinds[i]+rp+" got="+cls,
					"Vars%s[%q] = %q, the client placed %q there (pattern %s)", where, name, got, want, p.Str)
			}
		}
		for _, k := range gotKeys {
			if declared(k) || hasMisnamed && k == misnamed {
				continue
			}
			cls := "unknown-name"
			if k == "" {
				cls = "empty-name"
			} else {
				for _, e2 := range E {
					for _, s := range u.pats[e2.Pat].Segs {
						if s.Kind != kLit && s.Text == k {
							cls = "name-of-another-registration"
						}
					}
				}
			}
			add("vars"+where+" extra-key key="+cls+rp+feat, "Vars%s = %q has key %q which pattern %s does not declare", where, vars, k, p.Str)
		}
	}
	checkVars("", o.Vars)
	if mode == mwPre && o.MwPreN > 0 {
		checkVars("middleware-before-next", o.MwVars)
	}
	if mode == mwPost && o.MwPostN > 0 {
		checkVars("middleware-after-next", o.MwVars)
	}
	return fails, outcome
}

// caseDesc is the replayable description of one request against one configuration.
type caseDesc struct {
	Elements []elemDesc `json:"elements"`
	Mw       string     `json:"middleware"`
	Method   string     `json:"method"`
	Path     string     `json:"raw_path"`
	Accept   string     `json:"accept,omitempty"`
	Front    string     `json:"front,omitempty"`
	Server   bool       `json:"real_server,omitempty"`
	UseAfter bool       `json:"use_after_handle,omitempty"`
	Ctor     *ctorCase  `json:"path_constructor,omitempty"` // a generated path constructor call (ctor.go) instead of a request
}

type elemDesc struct {
	Method  string `json:"method"`
	Pattern string `json:"pattern"`
}

func (u *universe) describe(E []element, mode mwMode, front frontKind, mi, ui, ai int, server bool) caseDesc {
	cd := caseDesc{Mw: mwNames[mode], Method: methods[mi], Path: u.urls[ui].Raw, Accept: accepts[ai], Server: server}
	if front != frontNone {
		cd.Front = frontNames[front]
	}
	for _, e := range E {
		cd.Elements = append(cd.Elements, elemDesc{methods[e.Method], u.pats[e.Pat].Str})
	}
	return cd
}

func setKey(u *universe, E []element) string {
	var sb strings.Builder
	if u.name != "" {
		sb.WriteString(u.name)
		sb.WriteByte(':')
	}
	for _, e := range E {
		sb.WriteString(methods[e.Method])
		sb.WriteByte(' ')
		sb.WriteString(u.pats[e.Pat].Str)
		sb.WriteByte('|')
	}
	return sb.String()
}

package main

// Generated path constructors (third part of C16).
//
// The statement: "a URL built by substituting escaped values into a pattern is routed to that
// pattern and yields the original values". goa generates exactly such builders: for every full
// path of every route, gen/http/<service>/{server,client}/paths.go holds a function
// <Method><Service>Path[N](wildcard values...) string. This family GENERATES them with the real
// generator (cmd/c16/pathgen, one fresh process per service), compiles the two paths.go files
// of every service together with a tiny generated driver (a module of its own: the files
// depend on fmt only), calls EVERY constructor with every assignment of menu values to its
// pattern's wildcards, and routes the result through goahttp.NewMuxer() on which all full paths
// of the method are registered.
//
// Alphabet: wildcards p, q (single segment) and w (catch-all). A service has 1-2 base paths
// (/b..., /d...) each carrying a sequence over {p,q} without repetition (none, p, q, pq, qp):
// 5 + 25 = 30 services - every relative order of the wildcards between two base paths and
// every pair of base paths whose wildcard SETS differ. A method has 1-2 routes (/r..., /t...)
// over the wildcards its bases do not use, all routes of a method with the same set (goa
// refuses anything else: "Param does not appear in all routes"), each optionally ending in
// {*w}: every order again. A constructor belongs to the k-th full path in the order routes
// outer, base paths inner (expr.RouteExpr.FullPaths).
//
// Values are bound to a constructor's parameters BY NAME (the parameter names are read from the
// generated source with go/parser), in two calling styles:
//
//	escaped: every argument is url.PathEscape(value); the result is the request target.
//	         This is the statement's "substituting escaped values into a pattern".
//	client:  as the generated client's Build<Method>Request does: the raw values are passed,
//	         the result is stored in url.URL.Path, http.NewRequest(u.String()) sends
//	         URL.RequestURI(). A single-segment value containing "/" cannot be sent this way
//	         (recorded finding of C02: the builder does not escape); such assignments are
//	         executed and counted but not asserted.
//
// Oracle: the handler registered for the constructor's own pattern is invoked, once, and
// Muxer.Vars holds exactly the pattern's wildcards with the original values, by name.

import (
	"bufio"
	"bytes"
	"encoding/json"
	"fmt"
	"go/ast"
	"go/parser"
	"go/token"
	"net/http"
	"net/url"
	"os"
	"os/exec"
	"path/filepath"
	"sort"
	"strconv"
	"strings"
	"sync"

	goahttp "goa.design/goa/v3/http"

	"verif/core"
)

type routeSpec struct {
	Verb string `json:"verb"`
	Path string `json:"path"`
}

type methSpec struct {
	Name   string      `json:"name"`
	Params []string    `json:"params"`
	Routes []routeSpec `json:"routes"`
}

type svcSpec struct {
	Name    string     `json:"name"`
	Bases   []string   `json:"bases"`
	Methods []methSpec `json:"methods"`
}

// fullPaths is the reference order of a method's full paths: routes outer, base paths inner.
func (s *svcSpec) fullPaths(m *methSpec) []string {
	var out []string
	for _, r := range m.Routes {
		for _, b := range s.Bases {
			out = append(out, b+r.Path)
		}
	}
	return out
}

// ctorCase is the replayable description of one constructor call.
type ctorCase struct {
	Service svcSpec           `json:"service"` // reduced to the one method
	Pkg     string            `json:"package"`
	Index   int               `json:"constructor_index"` // k-th full path of the method
	Style   string            `json:"style"`
	Values  map[string]string `json:"values"`
}

var wildSeqs = [][]string{{}, {"p"}, {"q"}, {"p", "q"}, {"q", "p"}}

func pathOf(lit string, seq []string, catch bool) string {
	var sb strings.Builder
	sb.WriteString("/" + lit)
	for _, w := range seq {
		sb.WriteString("/{" + w + "}")
	}
	if catch {
		sb.WriteString("/{*w}")
	}
	return sb.String()
}

func setOf(seqs ...[]string) map[string]bool {
	m := map[string]bool{}
	for _, s := range seqs {
		for _, w := range s {
			m[w] = true
		}
	}
	return m
}

func sameSet(a, b []string) bool {
	if len(a) != len(b) {
		return false
	}
	sa := setOf(a)
	for _, w := range b {
		if !sa[w] {
			return false
		}
	}
	return true
}

// ctorFamily enumerates the services of the stated alphabet.
func ctorFamily() []svcSpec {
	var out []svcSpec
	addSvc := func(baseSeqs [][]string) {
		s := svcSpec{Name: "s" + strconv.Itoa(len(out))}
		for i, seq := range baseSeqs {
			s.Bases = append(s.Bases, pathOf([]string{"b", "d"}[i], seq, false))
		}
		used := setOf(baseSeqs...)
		addMeth := func(routeSeqs [][]string, catch bool) {
			m := methSpec{Name: "m" + strconv.Itoa(len(s.Methods))}
			for i, seq := range routeSeqs {
				m.Routes = append(m.Routes, routeSpec{"GET", pathOf([]string{"r", "t"}[i], seq, catch)})
			}
			names := setOf(append(append([][]string{}, baseSeqs...), routeSeqs...)...)
			if catch {
				names["w"] = true
			}
			for w := range names {
				m.Params = append(m.Params, w)
			}
			sort.Strings(m.Params)
			s.Methods = append(s.Methods, m)
		}
		free := func(seq []string) bool {
			for _, w := range seq {
				if used[w] {
					return false
				}
			}
			return true
		}
		for _, catch := range []bool{false, true} {
			for _, r1 := range wildSeqs {
				if !free(r1) {
					continue
				}
				addMeth([][]string{r1}, catch)
				for _, r2 := range wildSeqs {
					if free(r2) && sameSet(r1, r2) {
						addMeth([][]string{r1, r2}, catch)
					}
				}
			}
		}
		out = append(out, s)
	}
	for _, b1 := range wildSeqs {
		addSvc([][]string{b1})
	}
	for _, b1 := range wildSeqs {
		for _, b2 := range wildSeqs {
			addSvc([][]string{b1, b2})
		}
	}
	return out
}

// ---------------------------------------------------------------- pipeline

type ctorFn struct {
	svc, meth int
	pkg       string // server | client
	k         int    // index into fullPaths
	name      string
	params    []string
	call      string // Go expression prefix: alias.Name
}

type ctorCorpus struct {
	dir      string
	driver   string
	svcs     []svcSpec
	accepted []bool
	rejected map[string]int
	fns      []ctorFn
}

func goCmd(dir string, args ...string) *exec.Cmd {
	cmd := exec.Command("go", args...)
	cmd.Dir = dir
	cmd.Env = append(os.Environ(), "GOFLAGS=-mod=mod", "GOPROXY=off", "GOSUMDB=off", "GOTOOLCHAIN=local", "GOWORK=off")
	return cmd
}

// buildCtorCorpus generates, parses and compiles. Errors are harness errors (returned as text).
func buildCtorCorpus(svcs []svcSpec) (*ctorCorpus, error) {
	root := core.Root()
	dir := filepath.Join(root, ".work", "c16", fmt.Sprintf("run-%d", os.Getpid()))
	_ = os.RemoveAll(dir)
	if err := os.MkdirAll(filepath.Join(dir, "pc", "driver"), 0o755); err != nil {
		return nil, err
	}
	cc := &ctorCorpus{dir: dir, svcs: svcs, accepted: make([]bool, len(svcs)), rejected: map[string]int{}}
	// 1. the generator worker, built against the goa tree under verification
	gen := filepath.Join(dir, "pathgen")
	args := []string{"build"}
	if mf := os.Getenv("VERIF_MODFILE"); mf != "" {
		args = append(args, "-modfile="+mf)
	}
	args = append(args, "-o", gen, "./cmd/c16/pathgen")
	if out, err := goCmd(root, args...).CombinedOutput(); err != nil {
		return cc, fmt.Errorf("pathgen does not build against %s: %v\n%s", core.RepoDir(), err, out)
	}
	// 2. one fresh generator process per service
	pc := filepath.Join(dir, "pc")
	var mu sync.Mutex
	var firstErr error
	core.Parallel(len(svcs), func(i int) {
		spec := filepath.Join(dir, svcs[i].Name+".json")
		b, _ := json.Marshal(svcs[i])
		if err := os.WriteFile(spec, b, 0o644); err != nil {
			mu.Lock()
			firstErr = err
			mu.Unlock()
			return
		}
		cmd := exec.Command(gen, "-spec", spec, "-out", pc)
		cmd.Dir = dir
		out, err := cmd.Output()
		var res struct {
			OK                  bool
			Stage, Error, Panic string
		}
		if jerr := json.Unmarshal(bytes.TrimSpace(out), &res); jerr != nil {
			mu.Lock()
			if firstErr == nil {
				firstErr = fmt.Errorf("pathgen %s: %v %v: %s", svcs[i].Name, err, jerr, out)
			}
			mu.Unlock()
			return
		}
		mu.Lock()
		defer mu.Unlock()
		switch {
		case res.OK:
			cc.accepted[i] = true
		case res.Panic != "" || res.Stage == "generate":
			if firstErr == nil {
				firstErr = fmt.Errorf("generator failed on accepted design %s (stage %s): %s %s", svcs[i].Name, res.Stage, res.Error, res.Panic)
			}
		default:
			cc.rejected[res.Stage+": "+abstractErr(res.Error)]++
		}
	})
	if firstErr != nil {
		return cc, firstErr
	}
	// 3. read the constructors off the generated source
	fset := token.NewFileSet()
	var imports, table strings.Builder
	for si := range svcs {
		if !cc.accepted[si] {
			continue
		}
		s := &svcs[si]
		for _, pkg := range []string{"server", "client"} {
			file := filepath.Join(pc, "gen", "http", s.Name, pkg, "paths.go")
			f, err := parser.ParseFile(fset, file, nil, 0)
			if err != nil {
				return cc, fmt.Errorf("generated %s does not parse: %v", file, err)
			}
			alias := s.Name + pkg
			fmt.Fprintf(&imports, "\t%s \"c16gen/gen/http/%s/%s\"\n", alias, s.Name, pkg)
			var fns []*ast.FuncDecl
			for _, d := range f.Decls {
				if fd, ok := d.(*ast.FuncDecl); ok && fd.Recv == nil && fd.Name.IsExported() {
					fns = append(fns, fd)
				}
			}
			want := 0
			for mi := range s.Methods {
				want += len(s.fullPaths(&s.Methods[mi]))
			}
			if len(fns) != want {
				return cc, fmt.Errorf("%s declares %d constructors, the design has %d full paths", file, len(fns), want)
			}
			n := 0
			for mi := range s.Methods {
				for k := range s.fullPaths(&s.Methods[mi]) {
					fd := fns[n]
					n++
					fn := ctorFn{svc: si, meth: mi, pkg: pkg, k: k, name: fd.Name.Name, call: alias + "." + fd.Name.Name}
					for _, fl := range fd.Type.Params.List {
						if id, ok := fl.Type.(*ast.Ident); !ok || id.Name != "string" {
							return cc, fmt.Errorf("%s: %s has a parameter that is not a string", file, fd.Name.Name)
						}
						for _, nm := range fl.Names {
							fn.params = append(fn.params, nm.Name)
						}
					}
					if r := fd.Type.Results; r == nil || len(r.List) != 1 {
						return cc, fmt.Errorf("%s: %s does not return one value", file, fd.Name.Name)
					}
					var as []string
					for i := range fn.params {
						as = append(as, "a["+strconv.Itoa(i)+"]")
					}
					fmt.Fprintf(&table, "\tfunc(a []string) string { return %s(%s) },\n", fn.call, strings.Join(as, ", "))
					cc.fns = append(cc.fns, fn)
				}
			}
		}
	}
	if len(cc.fns) == 0 {
		return cc, fmt.Errorf("goa accepted none of the %d services of the family (%v)", len(svcs), cc.rejected)
	}
	// 4. the driver: a module of its own, nothing but the generated paths.go files and this
	src := "// Code generated by check C16. DO NOT EDIT.\n\npackage main\n\nimport (\n\t\"bufio\"\n\t\"encoding/json\"\n\t\"fmt\"\n\t\"os\"\n\n" + imports.String() + ")\n\n" +
		"var ctors = []func(a []string) string{\n" + table.String() + "}\n\n" + driverMain
	if err := os.WriteFile(filepath.Join(pc, "driver", "main.go"), []byte(src), 0o644); err != nil {
		return cc, err
	}
	if err := os.WriteFile(filepath.Join(pc, "go.mod"), []byte("module c16gen\n\ngo 1.22\n"), 0o644); err != nil {
		return cc, err
	}
	cc.driver = filepath.Join(dir, "driver")
	if out, err := goCmd(pc, "build", "-o", cc.driver, "./driver").CombinedOutput(); err != nil {
		return cc, fmt.Errorf("generated path constructors do not compile: %v\n%s", err, out)
	}
	return cc, nil
}

const driverMain = `type call struct {
	C int      ` + "`json:\"c\"`" + `
	A []string ` + "`json:\"a\"`" + `
}

func one(c call) (out string, pan string) {
	defer func() {
		if r := recover(); r != nil {
			pan = fmt.Sprint(r)
		}
	}()
	return ctors[c.C](c.A), ""
}

func main() {
	dec := json.NewDecoder(bufio.NewReaderSize(os.Stdin, 1<<20))
	w := bufio.NewWriterSize(os.Stdout, 1<<20)
	defer w.Flush()
	enc := json.NewEncoder(w)
	for {
		var c call
		if err := dec.Decode(&c); err != nil {
			return
		}
		out, pan := one(c)
		enc.Encode([2]string{out, pan}) // nolint: errcheck
	}
}
`

func (cc *ctorCorpus) cleanup() {
	if cc != nil && cc.dir != "" && os.Getenv("C16_KEEP_WORK") == "" {
		_ = os.RemoveAll(cc.dir)
	}
}

// abstractErr keeps the class of a goa evaluation error: quoted names are dropped.
func abstractErr(e string) string {
	var sb strings.Builder
	in := false
	for _, r := range e {
		if r == '"' {
			in = !in
			if !in {
				sb.WriteString("\"_\"")
			}
			continue
		}
		if !in {
			sb.WriteRune(r)
		}
	}
	s := sb.String()
	if len(s) > 160 {
		s = s[:160]
	}
	return s
}

type ctorCall struct {
	fn     int
	style  string
	values map[string]string
	args   []string
}

// invoke runs the driver over the calls (one process) and returns the built strings.
func (cc *ctorCorpus) invoke(calls []ctorCall) ([][2]string, error) {
	var in bytes.Buffer
	enc := json.NewEncoder(&in)
	for _, cl := range calls {
		enc.Encode(map[string]any{"c": cl.fn, "a": cl.args}) // nolint: errcheck
	}
	cmd := exec.Command(cc.driver)
	cmd.Stdin = &in
	out, err := cmd.Output()
	if err != nil {
		return nil, fmt.Errorf("driver: %v", err)
	}
	res := make([][2]string, 0, len(calls))
	sc := bufio.NewScanner(bytes.NewReader(out))
	sc.Buffer(make([]byte, 1<<20), 1<<26)
	for sc.Scan() {
		var r [2]string
		if err := json.Unmarshal(sc.Bytes(), &r); err != nil {
			return nil, fmt.Errorf("driver output: %v", err)
		}
		res = append(res, r)
	}
	if len(res) != len(calls) {
		return nil, fmt.Errorf("driver answered %d of %d calls", len(res), len(calls))
	}
	return res, nil
}

// ---------------------------------------------------------------- oracle

// clientTarget does what the generated client does with a constructor's result.
func clientTarget(built string) (string, error) {
	u := &url.URL{Scheme: "http", Host: "c16.test", Path: built}
	req, err := http.NewRequest("GET", u.String(), nil)
	if err != nil {
		return "", err
	}
	return req.URL.RequestURI(), nil
}

type ctorVerdict struct {
	sig, what, outcome string
}

// judgeCtor routes one built URL and compares. asserted=false: executed and counted only.
func judgeCtor(s *svcSpec, m *methSpec, fn *ctorFn, cl *ctorCall, built [2]string) ctorVerdict {
	paths := s.fullPaths(m)
	pattern := paths[fn.k]
	p, err := parsePattern(pattern)
	if err != nil {
		return ctorVerdict{sig: "harness", what: err.Error()}
	}
	// features of the signature
	first, _ := parsePattern(paths[0])
	order := "single-path"
	if len(paths) > 1 {
		var a, b []string
		for _, sg := range first.Segs {
			if sg.Kind != kLit {
				a = append(a, sg.Text)
			}
		}
		for _, sg := range p.Segs {
			if sg.Kind != kLit {
				b = append(b, sg.Text)
			}
		}
		switch {
		case strings.Join(a, ",") == strings.Join(b, ","):
			order = "as-first-path"
		case sameSet(a, b):
			order = "differs-from-first-path"
		default:
			order = "set-differs-from-first-path"
		}
	}
	pos := "first"
	if fn.k > 0 {
		pos = "later"
	}
	feat := " constructor=" + pos + " wildcards=" + order + " style=" + cl.style // server and client paths.go come from the same data: the package is not part of the class
	ctx := func() string {
		return fmt.Sprintf(" [%s.%s(%s) for pattern %s, values %q, arguments %q, built %q; service bases %v routes %v]", fn.pkg, fn.name, strings.Join(fn.params, ", "), pattern, cl.values, cl.args, built[0], s.Bases, m.Routes)
	}
	asserted := true
	if cl.style == "client" {
		for _, sg := range p.Segs {
			if sg.Kind == kParam && strings.Contains(cl.values[sg.Text], "/") {
				asserted = false
			}
		}
	}
	fail := func(clause, format string, a ...any) ctorVerdict {
		if !asserted {
			return ctorVerdict{outcome: "path-constructor style=client single-segment value with a slash: not asserted (the builder does not escape, C02 finding)"}
		}
		return ctorVerdict{sig: "path-constructor " + clause + feat, what: fmt.Sprintf(format, a...) + ctx()}
	}
	if built[1] != "" {
		return fail("panics", "the constructor panicked: %s", built[1])
	}
	target := built[0]
	if cl.style == "client" {
		t, err := clientTarget(built[0])
		if err != nil {
			return fail("unusable-url", "http.NewRequest refuses the URL built the way the generated client builds it: %v", err)
		}
		target = t
	}
	r, err := parseReq("GET", target, "")
	if err != nil {
		return fail("unusable-url", "the built URL is not a request target net/http accepts: %v", err)
	}
	// is the target the pattern with the values substituted (reference)?
	okURL := "no"
	if ok, caps := match(&p, splitPath(target), false); ok {
		okURL = "yes"
		i := 0
		for _, sg := range p.Segs {
			if sg.Kind == kLit {
				continue
			}
			if d, dok := pctDecode(caps[i]); !dok || d != cl.values[sg.Text] {
				okURL = "no"
			}
			i++
		}
	}
	mux := goahttp.NewMuxer()
	var reached []int
	var vars map[string]string
	for i, fp := range paths {
		i := i
		mux.Handle("GET", fp, func(w http.ResponseWriter, rq *http.Request) {
			reached = append(reached, i)
			vars = mux.Vars(rq)
		})
	}
	w := &respWriter{}
	mux.ServeHTTP(w, r)
	status := w.code
	if status == 0 {
		status = 200
	}
	feat = " url-is-pattern-with-values=" + okURL + feat
	switch {
	case len(reached) == 0:
		return fail("not-routed status="+strconv.Itoa(status), "the URL %q reaches no handler (status %d)", target, status)
	case len(reached) > 1:
		return fail("multiple-handlers", "the URL %q reaches %d handlers", target, len(reached))
	case reached[0] != fn.k:
		return fail("routed-to-another-pattern", "the URL %q is routed to %s", target, paths[reached[0]])
	}
	want := map[string]string{}
	for _, sg := range p.Segs {
		if sg.Kind != kLit {
			want[sg.Text] = cl.values[sg.Text]
		}
	}
	if len(vars) != len(want) {
		return fail("vars wrong-names", "routed to its pattern, Vars = %q, original values %q", vars, want)
	}
	for k, v := range want {
		got, ok := vars[k]
		if !ok {
			return fail("vars wrong-names", "routed to its pattern, Vars = %q, original values %q", vars, want)
		}
		if got != v {
			cls := "other"
			for k2, v2 := range want {
				if k2 != k && v2 == got {
					cls = "value-of-another-wildcard"
				}
			}
			return fail("vars got="+cls, "routed to its pattern, Vars[%q] = %q, the original value is %q (Vars = %q)", k, got, v, vars)
		}
	}
	if !asserted {
		return ctorVerdict{outcome: "path-constructor style=client single-segment value with a slash: not asserted (the builder does not escape, C02 finding)"}
	}
	return ctorVerdict{outcome: "path-constructor routed to its pattern, original values style=" + cl.style + " wildcards=" + order + " constructor=" + pos}
}

// callsFor enumerates every assignment of menu values to the wildcards of the constructor's
// pattern x both styles; values are bound to the constructor's parameters by name.
func callsFor(fi int, fn *ctorFn, pattern string, single, catch []string) []ctorCall {
	p, _ := parsePattern(pattern)
	var names []string
	var menus [][]string
	for _, sg := range p.Segs {
		switch sg.Kind {
		case kParam:
			names, menus = append(names, sg.Text), append(menus, single)
		case kCatch:
			names, menus = append(names, sg.Text), append(menus, catch)
		}
	}
	var out []ctorCall
	idx := make([]int, len(names))
	for {
		vals := map[string]string{}
		for i, n := range names {
			vals[n] = menus[i][idx[i]]
		}
		for _, style := range []string{"escaped", "client"} {
			cl := ctorCall{fn: fi, style: style, values: vals}
			for _, pn := range fn.params {
				v, ok := vals[pn]
				if !ok {
					v = "not-a-wildcard-of-the-pattern" // the constructor asks for a value its pattern has no place for
				}
				if style == "escaped" {
					v = url.PathEscape(v)
				}
				cl.args = append(cl.args, v)
			}
			out = append(out, cl)
		}
		i := len(idx) - 1
		for ; i >= 0; i-- {
			idx[i]++
			if idx[i] < len(menus[i]) {
				break
			}
			idx[i] = 0
		}
		if i < 0 {
			return out
		}
	}
}

func ctorMenus(thorough bool) (single, catch []string) {
	if thorough {
		return append(append([]string{}, singleFull...), nonCanonSingle...), append(append([]string{}, catchFull...), nonCanonCatch...)
	}
	return []string{"a", "a b", "%41", "a/b", "+", "é", ".."}, []string{"a", "a b", "%41", "a/b", "é", "", "a//b"}
}

func runConstructors(c *core.Ctx) {
	defer timing("generated path constructors")()
	if c.Expired() {
		c.Incomplete("generated path constructors not started")
		return
	}
	svcs := ctorFamily()
	cc, err := buildCtorCorpus(svcs)
	defer cc.cleanup()
	if err != nil {
		c.HarnessError("generated path constructors: %v", err)
		return
	}
	single, catch := ctorMenus(c.Thorough())
	var calls []ctorCall
	for fi := range cc.fns {
		fn := &cc.fns[fi]
		s := &svcs[fn.svc]
		calls = append(calls, callsFor(fi, fn, s.fullPaths(&s.Methods[fn.meth])[fn.k], single, catch)...)
	}
	built, err := cc.invoke(calls)
	if err != nil {
		c.HarnessError("generated path constructors: %v", err)
		return
	}
	nAcc, nMeth := 0, 0
	for si := range svcs {
		if cc.accepted[si] {
			nAcc++
			for mi := range svcs[si].Methods {
				nMeth++
				m := &svcs[si].Methods[mi]
				c.State("path-constructors:"+strings.Join(svcs[si].Bases, ",")+"|"+fmt.Sprint(m.Routes), len(m.Params) > 0)
			}
		}
	}
	type agg struct {
		count int
		first int
		what  string
	}
	var mu sync.Mutex
	sigs := map[string]*agg{}
	outcomes := map[string]int64{}
	nchunk := 64
	core.Parallel(nchunk, func(ci int) {
		lo, lout := map[string]*agg{}, map[string]int64{}
		for i := ci; i < len(calls); i += nchunk {
			fn := &cc.fns[calls[i].fn]
			s := &svcs[fn.svc]
			v := judgeCtor(s, &s.Methods[fn.meth], fn, &calls[i], built[i])
			if v.sig == "" {
				lout[v.outcome]++
				continue
			}
			lout["path-constructor VIOLATION"]++
			if a := lo[v.sig]; a == nil {
				lo[v.sig] = &agg{1, i, v.what}
			} else {
				a.count++
			}
		}
		mu.Lock()
		defer mu.Unlock()
		for k, n := range lout {
			outcomes[k] += n
		}
		for k, a := range lo {
			if g := sigs[k]; g == nil {
				sigs[k] = a
			} else {
				g.count += a.count
				if a.first < g.first {
					g.first, g.what = a.first, a.what
				}
			}
		}
	})
	c.Exec(int64(len(calls)))
	var oks []string
	for o := range outcomes {
		oks = append(oks, o)
	}
	sort.Strings(oks)
	for _, o := range oks {
		c.Outcome(o)
	}
	for k, n := range cc.rejected {
		c.Outcome("path-constructor service refused by goa: " + k)
		outcomes["path-constructor service refused by goa: "+k] = int64(n)
	}
	c.Note("generated path constructors", map[string]any{
		"services": len(svcs), "services_accepted_by_goa": nAcc, "methods": nMeth, "constructors": len(cc.fns),
		"calls": len(calls), "single_values": single, "catchall_values": catch, "styles": []string{"escaped", "client"},
		"packages": []string{"server", "client"}, "base_path_wildcard_sequences": wildSeqs, "outcome_counts": outcomes,
	})
	var keys []string
	for k := range sigs {
		keys = append(keys, k)
	}
	sort.Strings(keys)
	for _, k := range keys {
		a := sigs[k]
		if k == "harness" {
			c.HarnessError("generated path constructors: %s", a.what)
			continue
		}
		cd := caseDesc{Ctor: cc.caseOf(&calls[a.first])}
		sig := k
		c.Violation(sig, fmt.Sprintf("%s (%d calls with this signature in this run)", a.what, a.count), cd, func() bool {
			v, err := cc.recheck(&calls[a.first])
			return err == nil && v.sig == sig
		})
	}
}

func (cc *ctorCorpus) caseOf(cl *ctorCall) *ctorCase {
	fn := &cc.fns[cl.fn]
	s := cc.svcs[fn.svc]
	s.Methods = []methSpec{s.Methods[fn.meth]}
	return &ctorCase{Service: s, Pkg: fn.pkg, Index: fn.k, Style: cl.style, Values: cl.values}
}

// recheck re-executes one call through the compiled driver (fresh process) and the oracle.
func (cc *ctorCorpus) recheck(cl *ctorCall) (ctorVerdict, error) {
	built, err := cc.invoke([]ctorCall{*cl})
	if err != nil {
		return ctorVerdict{}, err
	}
	fn := &cc.fns[cl.fn]
	s := &cc.svcs[fn.svc]
	return judgeCtor(s, &s.Methods[fn.meth], fn, cl, built[0]), nil
}

// replayCtor regenerates the one service of a replay file and re-executes the call.
func replayCtor(c *core.Ctx, k *ctorCase) {
	cc, err := buildCtorCorpus([]svcSpec{k.Service})
	defer cc.cleanup()
	if err != nil {
		c.HarnessError("replay: %v", err)
		return
	}
	for fi := range cc.fns {
		fn := &cc.fns[fi]
		if fn.pkg != k.Pkg || fn.k != k.Index {
			continue
		}
		cl := ctorCall{fn: fi, style: k.Style, values: k.Values}
		for _, pn := range fn.params {
			v, ok := k.Values[pn]
			if !ok {
				v = "not-a-wildcard-of-the-pattern"
			}
			if k.Style == "escaped" {
				v = url.PathEscape(v)
			}
			cl.args = append(cl.args, v)
		}
		v, err := cc.recheck(&cl)
		if err != nil {
			c.HarnessError("replay: %v", err)
			return
		}
		c.Exec(1)
		c.State(fmt.Sprint(k.Service.Bases, k.Service.Methods[0].Routes), true)
		fmt.Printf("replay %s.%s(%s) style=%s values=%q\n  %s%s\n", fn.pkg, fn.name, strings.Join(fn.params, ", "), k.Style, k.Values, v.outcome, v.sig)
		if v.sig != "" {
			fmt.Printf("  %s\n", v.what)
			c.Violation(v.sig, v.what, caseDesc{Ctor: k}, nil)
		}
		return
	}
	c.HarnessError("replay: the generated code has no constructor %d in package %s", k.Index, k.Pkg)
}

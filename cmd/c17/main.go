// C17 — format and pattern validators accept exactly the named formats.
//
// The check has three parts:
//
//	INPUTS    (checks/c17.RunInputs)    constructive valid/invalid strings per format, the
//	                                    ip = ipv4 or ipv6 relation, pattern x value agreement
//	HISTORIES (checks/c17.RunHistories) every short call sequence against the pattern cache
//	SCHEDULES                           concurrent use under the controlled scheduler (E3):
//	                                    added separately, see the marked place below
//
// Alphabet, bound and oracle of the first two parts are documented in checks/c17/*.go.
// Neither part needs an overlay or access to goa internals, so this program is a plain
// check binary (no driver).
package main

import (
	"strings"

	"verif/checks/c17"
	"verif/checks/c17sched"
	"verif/core"
)

func run(c *core.Ctx) {
	c17.RunInputs(c)
	c17.RunHistories(c)

	// ---- SCHEDULES PART GOES HERE -------------------------------------------------------
	// The controlled-scheduler part of C17 (2-3 threads x 1-2 ValidatePattern calls, all
	// interleavings, happens-before race oracle on knownPatterns) is owned by the scheduler
	// package. Add its call here, after the two sequential parts, e.g.:
	//
	//	c17sched.RunSchedules(c)
	//
	// If that part needs an -overlay build it has to run as an inner worker started from
	// here; the two calls above do not depend on it.
	// --------------------------------------------------------------------------------------
	c17sched.RunSchedules(c)
}

func replay(c *core.Ctx, path string) {
	if c17.Replay(c, path) {
		return
	}
	// ---- SCHEDULES PART: hand replay files of kind "schedule" to the scheduler part here ----
	if strings.Contains(path, "sched") || strings.Contains(path, "race") {
		c17sched.Replay(c, path)
		return
	}
	c.HarnessError("replay file %s is not a C17 inputs/histories case", path)
}

func main() { core.Main("C17", run, replay) }

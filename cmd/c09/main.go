// C09 — code generation is deterministic, repeatable and never clobbers examples.
//
// This binary is a driver: it instruments goa's generator packages from the CURRENT tree of the
// repository under verification (map-order seam, `go build -overlay`, nothing in /repo is
// touched), builds the generator workers and the real goa CLI under /verif/.work/c09/ and runs
// the three explorations of package verif/checks/c09 (alphabet, bound and oracle are stated
// there and recorded through Rule / Note("bounds") / Assume).
package main

import (
	"verif/checks/c09"
	"verif/core"
)

func main() { core.Main("C09", c09.Run, c09.Replay) }

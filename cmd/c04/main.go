// C04 — user code runs only on requests that satisfy the design's validations.
package main

import (
	"verif/core"
	"verif/e2/check"
	"verif/e2/families"
	"verif/e2/spec"
)

func run(c *core.Ctx) {
	c.Rule("designs: every validation keyword (enum, min, max, exclusive min/max, min/max length, pattern, 14 formats, required) x nesting position " +
		"(attribute, array element, map key, map element, nested user-type field, alias, alias+attribute) x location x requiredness, one validated attribute per method; " +
		"values: both sides of every boundary (b-1,b,b+1; exclusive bounds at the bound; rune vs byte lengths; enum member/non-member; pattern and format positives/negatives; unset) " +
		"plus two-attribute designs (ordered pairs over a reduced keyword menu; attributes sharing one alias or user type where only one adds attribute-level rules) to expose cross-talk between attributes; " +
		"classified by the reference validator, plus hand-built malformed wire encodings (non-numeric text, 64/32-bit overflow, negative for unsigned, wrong JSON type, invalid JSON, wrong top-level type, empty body, null for required); " +
		"response side: every constraint-violating result returned by the stub must be refused by the generated client; " +
		"one case = (method, value or malformed variant); non-trivial = the value violates a constraint or is malformed")
	c.Assume("valid values whose delivery itself is the subject of C02 findings (empty string outside the body, '/', '%' or space in path values, bytes in paths) are left to C02")
	c.Assume("format validity comes from constructive tables (each string is valid or invalid by construction); strings outside the tables are never sent for format-validated attributes")
	c.Assume("the wire is in-memory (see C02)")
	c.Rule("deep positions (JSON bodies): " + spec.DeepValidationDoc + "; the unvalidated deep-shape families (required attributes and defaults at inner levels) are run as well: " + spec.DeepShapesDoc)
	c.Rule("validations on the HTTP mapping: " + spec.HTTPValidationDoc)
	c.Rule("validated streamed messages (driver mode C04S): " + spec.StreamValidationDoc)
	c.Assume("streaming: generated client stream <-> loopback TCP (httptest.Server, gorilla/websocket) <-> generated server stream; both ends follow scripts fixed before the exchange, the receiving side stops at the first error of Recv; what the sending side observes afterwards is not asserted; a side still blocked after 20 s is a harness error")
	for _, f := range []check.Family{families.PayloadValidation(c.Thorough()), families.ResultValidation(c.Thorough()), families.PayloadValidationPairs(), families.ResultValidationPairs(), families.CrossService(),
		families.DeepPayloadValidation(c.Thorough()), families.DeepResultValidation(c.Thorough()), families.DeepPayloadShapes(c.Thorough()), families.DeepResultShapes(c.Thorough()),
		families.HTTPValidation(c.Thorough())} {
		corpus, err := check.BuildFamily(c, f)
		if err != nil {
			c.HarnessError("%s: %v", f.Name, err)
			return
		}
		if err := check.RunMode(c, corpus, "C04"); err != nil {
			c.HarnessError("%s: %v", f.Name, err)
		}
	}
	// streamed messages: both tiers (an exchange over the loopback takes about a millisecond)
	f := families.StreamValidation(c.Thorough())
	corpus, err := check.BuildFamily(c, f)
	if err != nil {
		c.HarnessError("%s: %v", f.Name, err)
		return
	}
	if err := check.RunMode(c, corpus, "C04S"); err != nil {
		c.HarnessError("%s: %v", f.Name, err)
	}
}

func main() { core.Main("C04", run, nil) }

// C01 — every accepted design generates code that compiles.
//
// Every design of every E2 family (the corpora executed by C02..C08/C14 plus the
// identifier-stress family) is one program: goa's DSL evaluation accepts it, then the real
// gen and example generators run in a fresh process and `go build` type-checks every package
// they wrote against /repo's runtime packages.
package main

import (
	"fmt"
	"os"
	"regexp"
	"sort"
	"strings"

	"verif/core"
	"verif/e2/check"
	"verif/e2/families"
	"verif/e2/pipe"
	"verif/e2/spec"
)

var numRe = regexp.MustCompile(`[Mm]\d+`)

func report(c *core.Ctx, fam string, corpus *pipe.Corpus) {
	for _, d := range corpus.Designs {
		key := fmt.Sprintf("%s/%s", fam, d.Name)
		c.State(key, true)
		c.Exec(1)
		if d.Spec != nil && len(d.Spec.Services) > 0 && len(d.Spec.Services[0].Methods) > 0 {
			c.Sample(map[string]any{"design": key, "services": len(d.Spec.Services), "first_method_feat": d.Spec.Services[0].Methods[0].Feat, "generated_ok": d.Gen.OK, "excluded_methods": len(d.Excluded)})
		} else {
			c.Sample(map[string]any{"design": key, "generated_ok": d.Gen.OK})
		}
		cs := map[string]any{"family": fam, "design": d.Name, "dir": d.Dir}
		switch {
		case !d.Gen.OK:
			stage := d.Gen.Stage
			kind := "error"
			msg := d.Gen.Error
			if d.Gen.Panic != "" {
				kind, msg = "panic", d.Gen.Panic
			}
			if d.Gen.Timeout {
				kind = "timeout"
			}
			if d.Gen.Stage == "crash" {
				kind, msg = "crash", d.Gen.Raw
			}
			c.Outcome("generator-" + kind)
			cs["gen"] = d.Gen
			c.Violation(fmt.Sprintf("C01 generator stage=%s kind=%s msg=%s", stage, kind, abstract(msg)),
				fmt.Sprintf("accepted design %s: generator stage %s failed: %s", key, stage, core1(msg)), cs, nil)
		case d.GlueError != "":
			c.HarnessError("%s: stub glue: %s", key, d.GlueError)
		default:
			if len(d.Excluded) == 0 && len(d.BuildDiags) == 0 {
				c.Outcome("compiles")
			}
			var names []string
			for n := range d.Excluded {
				names = append(names, n)
			}
			sort.Strings(names)
			for _, n := range names {
				diags := d.Excluded[n]
				c.Outcome("method-uncompilable")
				cs2 := map[string]any{"family": fam, "design": d.Name, "method": n, "diags": diags}
				feat := n
				if i := strings.Index(n, " "); i >= 0 {
					feat = n[i+1:]
				}
				c.Violation(fmt.Sprintf("C01 uncompilable class=%s feat=[%s]", diagClasses(diags), feat),
					fmt.Sprintf("goa accepted the design but the code generated for method %s does not compile: %s", n, strings.Join(diags, " | ")), cs2, nil)
			}
			if len(d.BuildDiags) > 0 {
				c.Outcome("design-uncompilable")
				cs["diags"] = d.BuildDiags
				feat := "family=" + fam
				if d.Spec != nil {
					nm := 0
					for _, svc := range d.Spec.Services {
						nm += len(svc.Methods)
					}
					if nm == 1 {
						for _, svc := range d.Spec.Services {
							for _, m := range svc.Methods {
								feat = "feat=[" + featString(m.Feat) + "]"
							}
						}
					}
				}
				var ds []string
				for _, l := range d.BuildDiags {
					ds = append(ds, stripPos(strings.TrimSpace(l)))
				}
				c.Violation(fmt.Sprintf("C01 uncompilable-design class=%s %s", diagClasses(ds), feat),
					fmt.Sprintf("generated code of design %s does not compile: %s", key, strings.Join(d.BuildDiags, " | ")), cs, nil)
			}
		}
	}
	for _, u := range corpus.Unattributed {
		c.HarnessError("%s: unattributed build output: %s", fam, u)
	}
}

func featString(f map[string]string) string {
	keys := make([]string, 0, len(f))
	for k := range f {
		keys = append(keys, k)
	}
	sort.Strings(keys)
	var parts []string
	for _, k := range keys {
		parts = append(parts, k+"="+f[k])
	}
	return strings.Join(parts, " ")
}

// diagClasses abstracts a set of compiler diagnostics into the sorted set of their classes; the
// set does not depend on the order in which the compiler reports them.
func diagClasses(diags []string) string {
	set := map[string]bool{}
	for _, d := range diags {
		switch {
		case strings.Contains(d, "redeclared") || strings.Contains(d, "other declaration") || strings.Contains(d, "duplicate") || strings.Contains(d, "field and method with the same name"):
			set["redeclared"] = true
		case strings.Contains(d, "declared and not used") || strings.Contains(d, "no new variables"):
			set["unused-or-shadowed"] = true
		case strings.Contains(d, "undefined") || strings.Contains(d, "has no field or method"):
			set["undefined"] = true
		case strings.Contains(d, "cannot use") || strings.Contains(d, "mismatched types") || strings.Contains(d, "invalid operation") || strings.Contains(d, "cannot convert") || strings.Contains(d, "not enough arguments") || strings.Contains(d, "too many arguments") || strings.Contains(d, "assignment mismatch"):
			set["type-mismatch"] = true
		case strings.Contains(d, "too many errors"):
		default:
			set["other"] = true
		}
	}
	var l []string
	for k := range set {
		l = append(l, k)
	}
	sort.Strings(l)
	return strings.Join(l, "+")
}

func first(d []string) string {
	if len(d) == 0 {
		return ""
	}
	return d[0]
}

func core1(s string) string {
	if len(s) > 300 {
		return s[:300]
	}
	return s
}

var posRe = regexp.MustCompile(`^\S+:\d+:\d+: `)

func stripPos(s string) string { return posRe.ReplaceAllString(s, "") }

func abstract(s string) string {
	s = core1(s)
	s = numRe.ReplaceAllString(s, "mN")
	s = regexp.MustCompile(`d\d{4}`).ReplaceAllString(s, "dN")
	// file positions: drop the work directory (its name carries a source digest) and line:column
	s = regexp.MustCompile(`\S*/dN/`).ReplaceAllString(s, "dN/")
	s = regexp.MustCompile(`\.go:\d+:\d+`).ReplaceAllString(s, ".go:L:C")
	if i := strings.IndexByte(s, '\n'); i >= 0 {
		s = s[:i]
	}
	if len(s) > 120 {
		s = s[:120]
	}
	return s
}

func run(c *core.Ctx) {
	c.Rule("one state = one design accepted by goa's DSL evaluation (families: see notes); one transition = real gen+example generation in a fresh process followed by go build of every generated package; " +
		"non-trivial = every design (each has at least one method with payload or result)")
	c.Assume("example code imports goa.design/clue which is not available offline: a signature-compatible stub module stands in (environment, not goa code)")
	c.Assume("gRPC designs need protoc: a stand-in protoc is used when present (see C10)")
	c.Note("deep_families", spec.DeepShapesDoc+" | "+spec.DeepValidationDoc)
	c.Note("http_level_families", spec.HTTPValidationDoc+" | "+spec.StreamValidationDoc)
	c.Note("operation_sequence_family", families.OpSequencesDoc)
	for _, f := range append(append(append(families.All(c.Thorough()), families.Deep(c.Thorough())...), families.HTTPLevel(c.Thorough())...), families.OpSequences()) {
		if only := os.Getenv("VERIF_FAMILY"); only != "" && !strings.HasPrefix(f.Name, only) {
			c.Incomplete("restricted to family " + only + " by VERIF_FAMILY (development aid)")
			continue
		}
		corpus, err := check.BuildFamily(c, f)
		if err != nil {
			c.HarnessError("%s: %v", f.Name, err)
			continue
		}
		report(c, f.Name, corpus)
	}
}

func main() { core.Main("C01", run, nil) }

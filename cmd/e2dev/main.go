// e2dev builds one family and prints where it is (development aid, not a check).
package main

import (
	"fmt"
	"os"

	"verif/core"
	"verif/e2/check"
	"verif/e2/families"
)

func main() {
	core.Main("DEV", func(c *core.Ctx) {
		th := c.Thorough() || len(os.Args) > 3 && os.Args[1] != "--tier"
		for _, f := range append(append(append(families.All(th), families.Deep(th)...), families.HTTPLevel(th)...), families.OpSequences()) {
			if f.Name != os.Args[len(os.Args)-1] {
				continue
			}
			corpus, err := check.BuildFamily(c, f)
			fmt.Println(corpus, err)
			if corpus != nil {
				fmt.Println("DIR", corpus.Dir)
				for _, d := range corpus.Designs {
					fmt.Println(d.Name, d.Linked, d.Gen.OK, d.Gen.Error, d.BuildDiags, d.Excluded)
				}
			}
		}
	}, nil)
}

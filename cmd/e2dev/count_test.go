package main

import (
	"fmt"
	"testing"

	"verif/e2/families"
)

func TestCount(t *testing.T) {
	for _, th := range []bool{false, true} {
		total := 0
		for _, f := range append(append(families.All(th), families.Deep(th)...), families.HTTPLevel(th)...) {
			fmt.Printf("thorough=%v %-28s cases=%d\n", th, f.Name, len(f.Cases))
			total += len(f.Cases)
		}
		fmt.Println("total", total)
	}
}

// C13 — type copies are independent and structural hashes match equality.
//
// This file is the DRIVER. The check itself (enumeration, reference model, oracles) is the
// inner harness in ./worker (build tag c13worker). The driver exists because one part of the
// oracle ("hashing the same type repeatedly always gives the same answer") cannot be decided
// by repeating the call: expr/hasher.go iterates over Go maps, whose order is chosen by the
// runtime. The driver therefore
//
//  1. reads expr/hasher.go from the tree under test (through a caller-supplied -overlay in
//     GOFLAGS, if any, so that mutants of hasher.go are honoured),
//  2. rewrites every `for k, v := range <map>` of that file (found with go/types, not by
//     pattern) into an iteration over keys supplied by a controller hook (rewrite.go),
//  3. writes the rewritten file plus the hook file under /verif/.work/c13/ together with an
//     overlay JSON (merged with the caller's overlay), builds ./worker with it and
//  4. runs the worker with the original arguments, passing its exit status through.
//
// Nothing in /repo is touched. If the rewrite cannot be produced (hasher.go no longer parses,
// a map range has a shape the rewriter does not understand, the worker does not build) the
// run ends with a HARNESS-ERROR and exit status 2, never 0.
//
// Alphabet, bound and oracle are documented in worker/main.go.
package main

import (
	"encoding/json"
	"errors"
	"fmt"
	"os"
	"os/exec"
	"path/filepath"
	"strings"

	"verif/core"
)

// overlayJSON is the format of `go build -overlay`.
type overlayJSON struct {
	Replace map[string]string `json:"Replace"`
}

// userOverlay extracts -overlay=<file> from GOFLAGS (the documented way to run a check against
// a mutant) and returns the remaining flags and the parsed overlay.
func userOverlay() (rest []string, ov overlayJSON, err error) {
	ov.Replace = map[string]string{}
	for _, f := range strings.Fields(os.Getenv("GOFLAGS")) {
		if strings.HasPrefix(f, "-overlay=") || strings.HasPrefix(f, "--overlay=") {
			p := f[strings.Index(f, "=")+1:]
			b, rerr := os.ReadFile(p)
			if rerr != nil {
				return nil, ov, fmt.Errorf("GOFLAGS names overlay %s: %v", p, rerr)
			}
			var u overlayJSON
			if jerr := json.Unmarshal(b, &u); jerr != nil {
				return nil, ov, fmt.Errorf("overlay %s: %v", p, jerr)
			}
			for k, v := range u.Replace {
				ov.Replace[k] = v
			}
			continue
		}
		rest = append(rest, f)
	}
	return rest, ov, nil
}

// prepare builds the instrumented worker and returns its path.
func prepare() (string, error) {
	root := core.Root()
	repo, err := filepath.Abs(core.RepoDir())
	if err != nil {
		return "", err
	}
	work := filepath.Join(root, ".work", "c13")
	if w := os.Getenv("C13_WORKDIR"); w != "" {
		work = w // lets several runs (e.g. against different mutants) coexist
	}
	if err := os.MkdirAll(filepath.Join(work, "overlay", "expr"), 0o755); err != nil {
		return "", err
	}
	rest, ov, err := userOverlay()
	if err != nil {
		return "", err
	}
	// Source of every non-test file of package expr, as the build will see it.
	exprDir := filepath.Join(repo, "expr")
	entries, err := os.ReadDir(exprDir)
	if err != nil {
		return "", err
	}
	files := map[string]string{} // logical path -> path to read
	for _, e := range entries {
		n := e.Name()
		if e.IsDir() || !strings.HasSuffix(n, ".go") || strings.HasSuffix(n, "_test.go") {
			continue
		}
		files[filepath.Join(exprDir, n)] = filepath.Join(exprDir, n)
	}
	for logical, actual := range ov.Replace {
		if filepath.Dir(logical) != exprDir || !strings.HasSuffix(logical, ".go") || strings.HasSuffix(logical, "_test.go") {
			continue
		}
		if actual == "" {
			delete(files, logical)
			continue
		}
		files[logical] = actual
	}
	hasher := filepath.Join(exprDir, "hasher.go")
	if _, ok := files[hasher]; !ok {
		return "", errors.New("expr/hasher.go is not part of the tree under test any more")
	}
	rewritten, sites, err := rewriteMapRanges(files, hasher)
	if err != nil {
		return "", fmt.Errorf("map-order seam for expr/hasher.go cannot be produced: %v", err)
	}
	outHasher := filepath.Join(work, "overlay", "expr", "hasher.go")
	outHook := filepath.Join(work, "overlay", "expr", "zz_verif_c13.go")
	if err := os.WriteFile(outHasher, rewritten, 0o644); err != nil {
		return "", err
	}
	if err := os.WriteFile(outHook, []byte(hookSource), 0o644); err != nil {
		return "", err
	}
	ov.Replace[hasher] = outHasher
	ov.Replace[filepath.Join(exprDir, "zz_verif_c13.go")] = outHook
	ob, _ := json.MarshalIndent(ov, "", " ")
	ovPath := filepath.Join(work, "overlay.json")
	if err := os.WriteFile(ovPath, ob, 0o644); err != nil {
		return "", err
	}
	sb, _ := json.Marshal(sites)
	if err := os.WriteFile(filepath.Join(work, "sites.json"), sb, 0o644); err != nil {
		return "", err
	}
	bin := filepath.Join(work, "c13-inner")
	_ = os.Remove(bin)
	bargs := []string{"build"}
	if mf := os.Getenv("VERIF_MODFILE"); mf != "" {
		bargs = append(bargs, "-modfile="+mf) // VERIF_REPO: build against the alternate copy of goa (see run.sh)
	}
	cmd := exec.Command("go", append(bargs, "-tags", "verif c13worker", "-overlay", ovPath, "-o", bin, "./cmd/c13/worker")...)
	cmd.Dir = root
	env := os.Environ()
	flags := strings.Join(rest, " ")
	if !strings.Contains(flags, "-mod=") {
		flags = strings.TrimSpace("-mod=mod " + flags)
	}
	env = append(env, "GOFLAGS="+flags)
	for _, kv := range []string{"GOPROXY=off", "GOSUMDB=off", "GOTOOLCHAIN=local"} {
		if os.Getenv(kv[:strings.Index(kv, "=")]) == "" {
			env = append(env, kv)
		}
	}
	cmd.Env = env
	out, err := cmd.CombinedOutput()
	if err != nil {
		return "", fmt.Errorf("worker does not build against the tree under test with the map-order seam: %v\n%s", err, out)
	}
	return bin, nil
}

func main() {
	bin, err := prepare()
	if err != nil {
		msg := err.Error()
		fail := func(c *core.Ctx) { c.HarnessError("%s", msg) }
		core.Main("C13", fail, func(c *core.Ctx, _ string) { fail(c) })
		return
	}
	cmd := exec.Command(bin, os.Args[1:]...)
	cmd.Stdin, cmd.Stdout, cmd.Stderr = os.Stdin, os.Stdout, os.Stderr
	cmd.Env = append(os.Environ(), "C13_SITES="+filepath.Join(filepath.Dir(bin), "sites.json"))
	if err := cmd.Run(); err != nil {
		var ee *exec.ExitError
		if errors.As(err, &ee) && ee.ExitCode() >= 0 {
			os.Exit(ee.ExitCode())
		}
		fmt.Fprintf(os.Stderr, "HARNESS-ERROR C13: worker: %v\n", err)
		os.Exit(2)
	}
}

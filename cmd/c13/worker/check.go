//go:build c13worker

package main

import (
	"fmt"
	"regexp"
	"sort"
	"strings"
	"sync"

	"goa.design/goa/v3/expr"
)

// replayCase is what a replay file holds: always full graph descriptions, never indices.
type replayCase struct {
	Kind   string `json:"kind"` // pair | copy | mutation | stability | native | termination
	G1     *Graph `json:"g1"`
	G2     *Graph `json:"g2,omitempty"`
	Entry  string `json:"entry,omitempty"` // Dup(root) | DupAtt(root) | Dup(def:K) | DupAtt(def:K)
	MutIdx int    `json:"mutation_index,omitempty"`
	MutDoc string `json:"mutation,omitempty"`
}

type finding struct {
	Sig  string
	What string
	Case replayCase
}

func goaHash(t expr.DataType, f flags) string {
	return expr.Hash(t, f.IgnoreFields, f.IgnoreNames, f.IgnoreTags)
}

func hashes(g *Graph) (h [8]string) {
	bt := build(g)
	for i := 0; i < 8; i++ {
		h[i] = goaHash(bt.root.Type, flagsOf(i))
	}
	return
}

// flatCanon is the strict form with every closing bracket (and the opening one of objects)
// removed: two types with the same flat form consist of the same sequence of members, tags
// and types and differ only in where a nested object / union / user type ENDS.
func flatCanon(g *Graph, fl flags) string {
	s := canon(g, g.Root.T, canonOpts{fl: fl, sortObj: true, sortUni: true}, nil)
	s = strings.ReplaceAll(s, "o{", "")
	s = strings.ReplaceAll(s, "}", "")
	s = strings.ReplaceAll(s, ";", "")
	s = strings.ReplaceAll(s, ")", "")
	s = strings.ReplaceAll(s, "tR", "tU")
	return s
}

var memberToken = regexp.MustCompile(`"(?:[^"\\]|\\.)*":[a-zA-Z^0-9:]+(?:\("[^"]*"\))?|\+"[^"]*"=\[[^\]]*\]`)

// tokenBag is the multiset of "member name : head of its type" and tag tokens of the strict
// form: two types with the same bag consist of the same members and differ only in how these
// are grouped (and ordered) - the same class as flatCanon when an ordering defect moved the
// nested composite to the end of its parent.
func tokenBag(g *Graph, fl flags) string {
	s := canon(g, g.Root.T, canonOpts{fl: fl, sortObj: true, sortUni: true}, nil)
	s = strings.ReplaceAll(s, "tR", "tU")
	toks := memberToken.FindAllString(s, -1)
	sort.Strings(toks)
	head := s
	if i := strings.IndexAny(s, "{("); i >= 0 {
		head = s[:i]
	}
	return head + "|" + strings.Join(toks, "|")
}

// ---------------------------------------------------------------------------------------------
// HASH oracle on a pair of types.
//
//	split      strict forms equal, hashes differ   (equal under every reading, yet different hash)
//	collision  hashes equal, not even loosely equal (different under every reading, yet same hash)
// ---------------------------------------------------------------------------------------------

func checkPair(g1, g2 *Graph) []finding {
	h1, h2 := hashes(g1), hashes(g2)
	var split, coll []int
	reason := ""
	for i := 0; i < 8; i++ {
		fl := flagsOf(i)
		se := strictCanon(g1, g1.Root.T, fl) == strictCanon(g2, g2.Root.T, fl)
		switch {
		case se && h1[i] != h2[i]:
			split = append(split, i)
		case !se && h1[i] == h2[i]:
			if ok, why := looseEqual(g1, g1.Root.T, g2, g2.Root.T, fl); !ok {
				if len(coll) == 0 {
					reason = why
					if flatCanon(g1, fl) == flatCanon(g2, fl) ||
						(g1.features() == "acyclic" && g2.features() == "acyclic" && tokenBag(g1, fl) == tokenBag(g2, fl)) {
						reason = "nesting-only"
					}
				}
				coll = append(coll, i)
			}
		}
	}
	var out []finding
	feat := func() string {
		a, b := g1.features(), g2.features()
		if a == b {
			return a
		}
		if a > b {
			a, b = b, a
		}
		return a + "/" + b
	}
	rc := replayCase{Kind: "pair", G1: g1, G2: g2}
	// Signatures name the respect in which the two types differ and whether cycles are
	// involved; the flag combinations (a consequence of the names/tags of the particular
	// pair, not of the defect) are reported in the text only.
	if len(split) > 0 {
		fl := flagsOf(split[0])
		out = append(out, finding{
			Sig: fmt.Sprintf("hash-split differ=%s graph=%s", differClass(g1, g2, fl), feat()),
			What: fmt.Sprintf("two types that are structurally equal under every reading of the documented rules get different hashes (flags ignoreFields/Names/Tags=%s): %s  VERSUS  %s ; e.g. Hash=%q vs %q",
				fmtFlagSet(split), g1.pretty(), g2.pretty(), h1[split[0]], h2[split[0]]),
			Case: rc})
	}
	if len(coll) > 0 {
		cls := reason
		if strings.HasPrefix(cls, "kind ") {
			cls = "kind"
		}
		out = append(out, finding{
			Sig: fmt.Sprintf("hash-collision differ=%s graph=%s", cls, feat()),
			What: fmt.Sprintf("two types that differ under every reading of the documented rules (%s) get the same hash (flags=%s): %s  VERSUS  %s ; Hash=%q",
				reason, fmtFlagSet(coll), g1.pretty(), g2.pretty(), h1[coll[0]]),
			Case: rc})
	}
	return out
}

// ---------------------------------------------------------------------------------------------
// COPY oracle, equality part.
// ---------------------------------------------------------------------------------------------

// entryParts resolves an entry name to the original attribute/type of a built graph and the
// spec sub-graph describing it.
func entryParts(bt *built, entry string) (via string, att *expr.AttributeExpr, typ expr.DataType, sub *Graph, class string) {
	g := bt.g
	via = entry[:strings.Index(entry, "(")]
	arg := entry[strings.Index(entry, "(")+1 : len(entry)-1]
	switch {
	case arg == "root":
		att, typ = bt.root, bt.root.Type
		sub = &Graph{Defs: g.Defs, Root: Attr{T: g.Root.T}}
		class = "root"
	case strings.HasPrefix(arg, "def:"):
		k := arg[4:]
		ut := bt.defs[k]
		if via == "Dup" {
			typ = ut
			sub = &Graph{Defs: g.Defs, Root: Attr{T: ref(k)}}
			class = "user-type"
		} else {
			att, typ = ut.Attribute(), ut.Attribute().Type
			sub = &Graph{Defs: g.Defs, Root: Attr{T: g.def(k).A.T}}
			class = "attribute-of-user-type"
		}
	default:
		panic("bad entry " + entry)
	}
	return
}

// doCopy performs the copy named by entry and returns the copy's type and the value to mutate.
func doCopy(via string, att *expr.AttributeExpr, typ expr.DataType) (expr.DataType, any) {
	if via == "Dup" {
		d := expr.Dup(typ)
		return d, d
	}
	da := expr.DupAtt(att)
	return da.Type, da
}

type copyResult struct {
	findings     []finding
	execs        int64
	snapIdentity bool // snapshot of the copy identical to the snapshot of the original
	snapChecked  bool
}

func checkCopy(g *Graph, entry string, repeat bool) copyResult {
	var res copyResult
	bt := build(g)
	via, att, ot, sub, class := entryParts(bt, entry)
	ct, cv := doCopy(via, att, ot)
	res.execs++
	rc := replayCase{Kind: "copy", G1: g, Entry: entry}
	feat := sub.features()
	// The reference model's own judgement of the copy comes first: the copy is read back
	// through public fields (this walk always ends) and compared in the strict form. A copy
	// that is not even shaped like the original (e.g. one that refers to itself where the
	// original does not) is reported here and not handed to Hash, which might not return.
	cg, err := reifyType(ct)
	wellFormed := err == nil
	if err != nil {
		res.findings = append(res.findings, finding{Sig: fmt.Sprintf("copy-malformed via=%s entry=%s", via, class), What: entry + ": " + err.Error() + " for " + g.pretty(), Case: rc})
	} else {
		fl := flags{}
		_, subUng := sub.cyclic()
		_, cgUng := cg.cyclic()
		if cgUng && !subUng {
			wellFormed = false
			res.findings = append(res.findings, finding{
				Sig:  fmt.Sprintf("copy-not-structurally-equal via=%s entry=%s graph=%s", via, class, feat),
				What: fmt.Sprintf("%s: the copy read back refers to itself without passing through an object: %s, the original is %s", entry, cg.pretty(), sub.pretty()),
				Case: rc})
		} else if strictCanon(cg, cg.Root.T, fl) != strictCanon(sub, sub.Root.T, fl) {
			res.findings = append(res.findings, finding{
				Sig:  fmt.Sprintf("copy-not-structurally-equal via=%s entry=%s graph=%s", via, class, feat),
				What: fmt.Sprintf("%s: the copy read back is %s, the original is %s", entry, cg.pretty(), sub.pretty()),
				Case: rc})
		}
	}
	if wellFormed {
		var diff []int
		for i := 0; i < 8; i++ {
			if goaHash(ct, flagsOf(i)) != goaHash(ot, flagsOf(i)) {
				diff = append(diff, i)
			}
		}
		eq := expr.Equal(ct, ot)
		res.execs += 18
		if len(diff) > 0 || !eq {
			res.findings = append(res.findings, finding{
				Sig: fmt.Sprintf("copy-hash-differs via=%s entry=%s graph=%s equal=%v", via, class, feat, eq),
				What: fmt.Sprintf("%s: expr.Equal(copy, original)=%v and Hash(copy)!=Hash(original) under flags %s for %s ; e.g. %q vs %q",
					entry, eq, fmtFlagSet(diff), g.pretty(), goaHash(ct, flagsOf(first(diff))), goaHash(ot, flagsOf(first(diff)))),
				Case: rc})
		}
	}
	// copying again gives the same answer
	if repeat {
		var orig any = ot
		if via != "Dup" {
			orig = att
		}
		s1 := snapshot(cv)
		_, cv2 := doCopy(via, att, ot)
		res.execs++
		if s2 := snapshot(cv2); s1 != s2 {
			res.findings = append(res.findings, finding{Sig: fmt.Sprintf("copy-not-repeatable via=%s entry=%s", via, class),
				What: fmt.Sprintf("%s twice on the same value gives different copies for %s: %s", entry, g.pretty(), firstDiff(s1, s2)), Case: rc})
		}
		res.snapIdentity = s1 == snapshot(orig)
		res.snapChecked = true
	}
	return res
}

func first(s []int) int {
	if len(s) == 0 {
		return 3 // the flags of Equal
	}
	return s[0]
}

// ---------------------------------------------------------------------------------------------
// COPY oracle, independence part: one mutation of the copy, original must be unchanged.
// ---------------------------------------------------------------------------------------------

type mutResult struct {
	total    int // number of mutation sites of the copy
	applied  bool
	desc     string
	finding  *finding
	panicked string
}

// mutPlan is what is computed once per (graph, entry point): the snapshot of the untouched
// original, and for every mutation site of the copy its description and - only used to name
// a violation - the first memory cell on the way to it that also belongs to the original.
// Graph construction, copying and both walks are deterministic, so site i of one fresh copy
// is site i of the next (verified on every run through the site count and description).
type mutPlan struct {
	before string
	descs  []string
	chains []string
	where  []string
}

func origRootsOf(bt *built) []any {
	roots := []any{bt.root}
	for _, d := range bt.order {
		roots = append(roots, d)
	}
	return append(roots, bt.base, bt.refT)
}

func planMutations(g *Graph, entry string) *mutPlan {
	bt := build(g)
	via, att, ot, _, _ := entryParts(bt, entry)
	roots := origRootsOf(bt)
	p := &mutPlan{before: snapshot(roots...)}
	oc := cells(roots...)
	_, cv := doCopy(via, att, ot)
	for _, s := range mutationSites(cv, -1) {
		p.descs = append(p.descs, s.desc)
		var chain []string
		for _, st := range s.path {
			chain = append(chain, st.label)
		}
		p.chains = append(p.chains, strings.Join(chain, " > "))
		w := sharingSite(s.path, oc)
		if w == "unlocated" {
			// if this mutation reaches the original it does so inside a goa method
			w = "inside-method:" + s.desc
		}
		p.where = append(p.where, w)
	}
	return p
}

// runMutation applies mutation idx to a fresh copy of a fresh original and re-reads the original.
func runMutation(g *Graph, entry string, idx int, p *mutPlan) mutResult {
	res := mutResult{total: len(p.descs)}
	if idx >= len(p.descs) {
		return res
	}
	bt := build(g)
	via, att, ot, _, _ := entryParts(bt, entry)
	roots := origRootsOf(bt)
	_, cv := doCopy(via, att, ot)
	sites := mutationSites(cv, idx)
	if len(sites) <= idx || sites[idx].desc != p.descs[idx] {
		res.panicked = "harness: mutation sites are not reproducible"
		res.total = -1
		return res
	}
	s := sites[idx]
	res.desc = s.desc
	func() {
		defer func() {
			if r := recover(); r != nil {
				res.panicked = fmt.Sprint(r)
			}
		}()
		s.apply()
	}()
	res.applied = true
	after := snapshot(roots...)
	if p.before != after {
		res.finding = &finding{
			Sig: fmt.Sprintf("copy-shares via=%s site=%s", via, p.where[idx]),
			What: fmt.Sprintf("%s of %s: after the mutation %q on the COPY (reached through %s) the ORIGINAL changed: %s",
				entry, g.pretty(), s.desc, p.chains[idx], firstDiff(p.before, after)),
			Case: replayCase{Kind: "mutation", G1: g, Entry: entry, MutIdx: idx, MutDoc: s.desc}}
	}
	return res
}

func checkMutation(g *Graph, entry string, idx int) mutResult {
	return runMutation(g, entry, idx, planMutations(g, entry))
}

// ---------------------------------------------------------------------------------------------
// Stability: every iteration order of every map range of hasher.go gives the same hash.
// The seam is process-global, so these checks run under one lock.
// ---------------------------------------------------------------------------------------------

var seamMu sync.Mutex

type visit struct {
	site string
	keys []string
}

func siteFunc(site string) string {
	if i := strings.LastIndex(site, " "); i >= 0 {
		return site[i+1:]
	}
	return site
}

func orders(n int) [][]int {
	var out [][]int
	if n <= 4 {
		for k := 1; k < factorial(n); k++ {
			out = append(out, nthPerm(n, k))
		}
		return out
	}
	rev, rot, swp := make([]int, n), make([]int, n), make([]int, n)
	for i := 0; i < n; i++ {
		rev[i], rot[i], swp[i] = n-1-i, (i+1)%n, i
	}
	swp[0], swp[1] = 1, 0
	return [][]int{rev, rot, swp}
}

type stabResult struct {
	findings []finding
	execs    int64
	visits   int
	orders   int
}

func checkStability(g *Graph) stabResult {
	seamMu.Lock()
	defer seamMu.Unlock()
	defer func() { expr.VerifC13KeyOrder = nil }()
	var res stabResult
	bt := build(g)
	t := bt.root.Type
	type key struct {
		fn   string
		tags int
	}
	bad := map[key][]int{}
	example := map[key]string{}
	for fi := 0; fi < 8; fi++ {
		fl := flagsOf(fi)
		var visits []visit
		expr.VerifC13KeyOrder = func(site string, keys []string) []string {
			visits = append(visits, visit{site, append([]string(nil), keys...)})
			return keys
		}
		h0 := goaHash(t, fl)
		res.execs++
		for vi, v := range visits {
			if len(v.keys) < 2 {
				continue
			}
			res.visits++
			ntags := 0
			for _, k := range v.keys {
				if strings.HasPrefix(k, tagPrefix) {
					ntags++
				}
			}
			for _, p := range orders(len(v.keys)) {
				n := 0
				expr.VerifC13KeyOrder = func(site string, keys []string) []string {
					defer func() { n++ }()
					if n != vi || len(keys) != len(p) {
						return keys
					}
					out := make([]string, len(keys))
					for i, j := range p {
						out[i] = keys[j]
					}
					return out
				}
				h := goaHash(t, fl)
				res.execs++
				res.orders++
				if h != h0 {
					k := key{siteFunc(v.site), ntags}
					if len(bad[k]) == 0 || bad[k][len(bad[k])-1] != fi {
						bad[k] = append(bad[k], fi)
					}
					if example[k] == "" {
						example[k] = fmt.Sprintf("%q (keys ascending) vs %q (order %v of %v)", h0, h, p, v.keys)
					}
				}
			}
		}
	}
	var ks []key
	for k := range bad {
		ks = append(ks, k)
	}
	sort.Slice(ks, func(i, j int) bool { return ks[i].fn+fmt.Sprint(ks[i].tags) < ks[j].fn+fmt.Sprint(ks[j].tags) })
	for _, k := range ks {
		res.findings = append(res.findings, finding{
			Sig: fmt.Sprintf("hash-unstable site=%s tagkeys>=2", k.fn),
			What: fmt.Sprintf("the hash of one and the same type depends on the iteration order of a Go map in %s (%d struct:field keys, flags %s): %s ; type %s",
				k.fn, k.tags, fmtFlagSet(bad[k]), example[k], g.pretty()),
			Case: replayCase{Kind: "stability", G1: g}})
	}
	return res
}

// checkNative is the sampling companion of checkStability: the runtime's own map order, the
// same value hashed 50 times in a row. It can only ever confirm what checkStability decides.
func checkNative(g *Graph) (f []finding, execs int64) {
	seamMu.Lock()
	defer seamMu.Unlock()
	expr.VerifC13Native = true
	defer func() { expr.VerifC13Native = false }()
	bt := build(g)
	var bad []int
	ex := ""
	for fi := 0; fi < 8; fi++ {
		seen := map[string]bool{}
		for r := 0; r < 50; r++ {
			seen[goaHash(bt.root.Type, flagsOf(fi))] = true
			execs++
		}
		if len(seen) > 1 {
			bad = append(bad, fi)
			if ex == "" {
				var l []string
				for h := range seen {
					l = append(l, fmt.Sprintf("%q", h))
				}
				sort.Strings(l)
				ex = strings.Join(l, " / ")
			}
		}
	}
	if len(bad) > 0 {
		where := map[string]bool{}
		g.attrs(func(a *Attr, w string) {
			n := 0
			for k := range a.Meta {
				if strings.HasPrefix(k, tagPrefix) {
					n++
				}
			}
			if n >= 2 {
				where[w] = true
			}
		})
		var ws []string
		for w := range where {
			ws = append(ws, w)
		}
		sort.Strings(ws)
		f = append(f, finding{
			Sig:  "hash-unstable-native",
			What: fmt.Sprintf("hashing the same value 50 times in one process (runtime map order) gave several answers under flags %s, e.g. %s ; >=2 struct:field keys on %s ; type %s", fmtFlagSet(bad), ex, strings.Join(ws, "+"), g.pretty()),
			Case: replayCase{Kind: "native", G1: g}})
	}
	return
}

// execCase re-executes a replay case and returns what fails now.
func execCase(rc replayCase) []finding {
	switch rc.Kind {
	case "pair":
		return checkPair(rc.G1, rc.G2)
	case "copy":
		return checkCopy(rc.G1, rc.Entry, true).findings
	case "mutation":
		r := checkMutation(rc.G1, rc.Entry, rc.MutIdx)
		if r.finding != nil {
			return []finding{*r.finding}
		}
		return nil
	case "stability":
		return checkStability(rc.G1).findings
	case "native":
		f, _ := checkNative(rc.G1)
		return f
	case "termination":
		return checkTermination([]*Graph{rc.G1}, nil)
	}
	return nil
}
